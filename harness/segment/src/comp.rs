//! Component level: spec/Segment.tla cases on real MMRs.
use croaring::Bitmap;
use grin_core::core::hash::Hash;
use grin_core::core::pmmr::segment::{Segment, SegmentError, SegmentIdentifier};
use grin_core::core::pmmr::{self, Backend, ReadablePMMR, ReadonlyPMMR, VecBackend, PMMR};
use grin_core::ser::{
	self, DeserializationMode, PMMRIndexHashable, PMMRable, ProtocolVersion, Readable, Writeable,
};
use grin_store::pmmr::PMMRBackend;
use rand::rngs::StdRng;
use rand::{Rng, SeedableRng};
use serde_json::{json, Value};
use std::fmt::Debug;
use std::panic::{catch_unwind, AssertUnwindSafe};
use vcommon::*;

pub trait Mk:
	PMMRable<E = Self> + PartialEq + Clone + Debug + Readable + Writeable + PMMRIndexHashable + 'static
{
	fn mk(d: u64) -> Self;
}
impl Mk for Elem {
	fn mk(d: u64) -> Elem {
		Elem::of(d)
	}
}
impl Mk for VarElem {
	fn mk(d: u64) -> VarElem {
		let mut v = d.to_be_bytes().to_vec();
		for j in 0..((d % 5) * 3) {
			v.push((d as u8).wrapping_mul(31).wrapping_add(j as u8));
		}
		VarElem(v)
	}
}

/// Wire protocol version used for segments (3 = current p2p version: commit-only inputs, variable kernels).
pub const WIRE: ProtocolVersion = ProtocolVersion(3);

/// A segment as plain data (the wire layout of Segment<T>), so that single elements can be corrupted.
#[derive(Clone)]
pub struct PlainSeg<T> {
	pub h: u8,
	pub idx: u64,
	pub hash_pos: Vec<u64>,
	pub hashes: Vec<Hash>,
	pub leaf_pos: Vec<u64>,
	pub leaf_data: Vec<T>,
	pub proof: Vec<Hash>,
}

pub fn proof_hashes<W: Writeable>(proof: &W) -> Vec<Hash> {
	let b = ser::ser_vec(proof, WIRE).expect("ser proof");
	let n = u64::from_be_bytes(b[0..8].try_into().unwrap()) as usize;
	(0..n)
		.map(|i| Hash::from_vec(&b[8 + 32 * i..8 + 32 * (i + 1)]))
		.collect()
}

impl<T: Clone + Writeable + Readable> PlainSeg<T> {
	pub fn of(seg: &Segment<T>) -> PlainSeg<T> {
		let (id, hash_pos, hashes, leaf_pos, leaf_data, proof) = seg.clone().parts();
		PlainSeg {
			h: id.height,
			idx: id.idx,
			hash_pos,
			hashes,
			leaf_pos,
			leaf_data,
			proof: proof_hashes(&proof),
		}
	}
	/// Everything but the leaf data (identifier, positions, hashes, proof): to compare two segments.
	pub fn bytes_no_leaves(&self) -> Vec<u8> {
		let mut b = vec![self.h];
		b.extend_from_slice(&self.idx.to_be_bytes());
		for p in self.hash_pos.iter().chain(self.leaf_pos.iter()) {
			b.extend_from_slice(&p.to_be_bytes());
		}
		b.extend_from_slice(&(self.hash_pos.len() as u64).to_be_bytes());
		for h in self.hashes.iter().chain(self.proof.iter()) {
			b.extend_from_slice(h.as_bytes());
		}
		b.extend_from_slice(&(self.proof.len() as u64).to_be_bytes());
		b
	}
	pub fn bytes(&self) -> Vec<u8> {
		let mut b = vec![self.h];
		b.extend_from_slice(&self.idx.to_be_bytes());
		b.extend_from_slice(&(self.hashes.len() as u64).to_be_bytes());
		for p in &self.hash_pos {
			b.extend_from_slice(&(p + 1).to_be_bytes());
		}
		for h in &self.hashes {
			b.extend_from_slice(h.as_bytes());
		}
		b.extend_from_slice(&(self.leaf_data.len() as u64).to_be_bytes());
		for p in &self.leaf_pos {
			b.extend_from_slice(&(p + 1).to_be_bytes());
		}
		for d in &self.leaf_data {
			b.extend_from_slice(&ser::ser_vec(d, WIRE).expect("ser leaf"));
		}
		b.extend_from_slice(&(self.proof.len() as u64).to_be_bytes());
		for h in &self.proof {
			b.extend_from_slice(h.as_bytes());
		}
		b
	}
	/// Without the wire format of the leaves (BitmapChunk is not Readable; it travels as BitmapSegment).
	pub fn to_segment_direct(&self) -> Result<Segment<T>, ser::Error> {
		let mut pb = (self.proof.len() as u64).to_be_bytes().to_vec();
		for h in &self.proof {
			pb.extend_from_slice(h.as_bytes());
		}
		let proof = ser::deserialize(&mut &pb[..], WIRE, DeserializationMode::default())?;
		let me = self.clone();
		std::panic::catch_unwind(std::panic::AssertUnwindSafe(move || {
			Segment::from_parts(
				SegmentIdentifier { height: me.h, idx: me.idx },
				me.hash_pos,
				me.hashes,
				me.leaf_pos,
				me.leaf_data,
				proof,
			)
		}))
		.map_err(|_| ser::Error::SortError)
	}
	/// Through the wire format, as a peer's segment arrives.
	pub fn to_segment(&self) -> Result<Segment<T>, ser::Error> {
		let b = self.bytes();
		ser::deserialize(&mut &b[..], WIRE, DeserializationMode::default())
	}
}

fn bitmap_of(idx: &[u64]) -> Bitmap {
	idx.iter().map(|x| *x as u32).collect()
}

fn u64s(v: &Value) -> Vec<u64> {
	v.as_array()
		.map(|a| a.iter().map(|x| x.as_u64().unwrap()).collect())
		.unwrap_or_default()
}

fn err_class(e: &SegmentError) -> &'static str {
	match e {
		SegmentError::MissingLeaf(_) => "MissingLeaf",
		SegmentError::MissingHash(_) => "MissingHash",
		SegmentError::NonExistent => "NonExistent",
		SegmentError::Mismatch => "Mismatch",
	}
}

/// Realise the source state on a PMMRBackend through the store's usage protocol.
fn build_store<T: Mk>(
	dir: &std::path::Path,
	prunable: bool,
	nl: u64,
	extra: u64,
	rm: &[u64],
	comp: &[u64],
	late: &[u64],
	rng: &mut StdRng,
	plan_out: &mut Vec<Value>,
) -> PMMRBackend<T> {
	let _ = std::fs::remove_dir_all(dir);
	std::fs::create_dir_all(dir).expect("mkdir");
	let mut be: PMMRBackend<T> =
		PMMRBackend::new(dir, prunable, ProtocolVersion(1), None).expect("open backend");
	let total = nl + extra;
	let mut size = 0u64;
	let mut pushed = 0u64;
	let mut push_to = |be: &mut PMMRBackend<T>, size: &mut u64, pushed: &mut u64, n: u64| {
		let mut p = PMMR::at(be, *size);
		while *pushed < n {
			p.push(&T::mk(*pushed)).expect("push");
			*pushed += 1;
		}
		*size = p.size;
	};
	if !prunable {
		push_to(&mut be, &mut size, &mut pushed, total);
		be.sync().expect("sync");
		return be;
	}
	// stages of compaction
	let k = if comp.is_empty() { 0 } else { rng.gen_range(1, 4) };
	let mut stages: Vec<Vec<u64>> = vec![vec![]; k];
	for l in comp {
		let j = rng.gen_range(0, k);
		stages[j].push(*l);
	}
	stages.retain(|s| !s.is_empty());
	let others: Vec<u64> = rm
		.iter()
		.filter(|l| !comp.contains(l))
		.chain(late.iter())
		.cloned()
		.collect();
	let variant_b = rng.gen_range(0, 2) == 1;
	let ns = stages.len();
	let mut others_done = false;
	for (j, st) in stages.iter().enumerate() {
		let need = st.iter().max().unwrap() + 1;
		let lastst = j + 1 == ns;
		let upto = if lastst && variant_b {
			total
		} else {
			std::cmp::min(total, need + rng.gen_range(0, 4))
		};
		let upto = std::cmp::max(upto, pushed);
		push_to(&mut be, &mut size, &mut pushed, upto);
		{
			let mut p = PMMR::at(&mut be, size);
			for l in st {
				assert!(p.prune(pmmr::insertion_to_pmmr_index(*l)).expect("prune"));
			}
		}
		be.sync().expect("sync");
		if lastst && variant_b {
			// boundary here; further spends happen after the boundary and are handed to check_compact
			{
				let mut p = PMMR::at(&mut be, size);
				for l in &others {
					assert!(p.prune(pmmr::insertion_to_pmmr_index(*l)).expect("prune"));
				}
			}
			be.sync().expect("sync");
			others_done = true;
			let since: Bitmap = others
				.iter()
				.map(|l| (pmmr::insertion_to_pmmr_index(*l) + 1) as u32)
				.collect();
			be.check_compact(size, &since).expect("compact");
			plan_out.push(json!({"stage": st, "pushed": pushed, "since": others}));
		} else {
			be.check_compact(size, &Bitmap::new()).expect("compact");
			plan_out.push(json!({"stage": st, "pushed": pushed}));
		}
	}
	push_to(&mut be, &mut size, &mut pushed, total);
	if !others_done {
		let mut p = PMMR::at(&mut be, size);
		for l in &others {
			assert!(p.prune(pmmr::insertion_to_pmmr_index(*l)).expect("prune"));
		}
	}
	be.sync().expect("sync");
	be
}

struct Ctx<'a> {
	size: u64,
	root: Hash,
	refh: &'a [Hash],
	mm: Vec<Value>,
	checks: u64,
	panics: u64,
}

fn eval_ref(r: &Value, c: &Ctx) -> Hash {
	let a = r.as_array().unwrap();
	match a[0].as_str().unwrap() {
		"P" => c.refh[a[1].as_u64().unwrap() as usize],
		"B" => {
			// bag of the peaks from position a[1] on, right to left, with the MMR size
			let from = a[1].as_u64().unwrap();
			let mut res: Option<Hash> = None;
			for p in pmmr::peaks(c.size).into_iter().filter(|p| *p >= from).rev() {
				let h = c.refh[p as usize];
				res = Some(match res {
					None => h,
					Some(r) => (h, r).hash_with_index(c.size),
				});
			}
			res.unwrap()
		}
		x => panic!("bad ref {}", x),
	}
}

#[derive(PartialEq, Debug, Clone, Copy)]
enum Verdict {
	Accept,
	Reject,
	Panic,
	ReadRefused,
}

fn validate_plain<T: Mk>(
	ps: &PlainSeg<T>,
	size: u64,
	bm: Option<&Bitmap>,
	root: Hash,
	with: Option<(u64, Hash, bool)>,
) -> Verdict {
	let seg = match ps.to_segment() {
		Ok(s) => s,
		Err(_) => return Verdict::ReadRefused,
	};
	let r = catch_unwind(AssertUnwindSafe(|| match with {
		None => seg.validate(size, bm, root),
		Some((p, o, l)) => seg.validate_with(size, bm, root, p, o, l),
	}));
	match r {
		Ok(Ok(())) => Verdict::Accept,
		Ok(Err(_)) => Verdict::Reject,
		Err(_) => Verdict::Panic,
	}
}

/// None when the operation does not fit the real segment (its content already differs from the specification's,
/// which has been recorded as a mismatch of its own).
fn apply_op<T: Mk>(ps: &PlainSeg<T>, op: &Value, leaf_d: &dyn Fn(u64) -> u64) -> Option<PlainSeg<T>> {
	let mut s = ps.clone();
	let k = op["k"].as_u64().unwrap() as usize;
	let q = op["q"].as_u64().unwrap();
	let need = match op["kind"].as_str().unwrap() {
		"leaf_data" | "leaf_pos" | "omit_leaf" => (k, 0, 0),
		"omit_pair" => (k + 1, 0, 0),
		"hash" | "drop_hash" => (0, k, 0),
		"proof" | "drop_proof" => (0, 0, k),
		_ => (0, 0, 0),
	};
	if s.leaf_pos.len() < need.0 || s.hash_pos.len() < need.1 || s.proof.len() < need.2 {
		return None;
	}
	match op["kind"].as_str().unwrap() {
		"leaf_data" => s.leaf_data[k - 1] = T::mk(leaf_d(s.leaf_pos[k - 1]) + 1000),
		"leaf_pos" => s.leaf_pos[k - 1] = q,
		"omit_leaf" => {
			s.leaf_pos.remove(k - 1);
			s.leaf_data.remove(k - 1);
		}
		"omit_pair" => {
			s.leaf_pos.drain(k - 1..k + 1);
			s.leaf_data.drain(k - 1..k + 1);
		}
		"hash" => s.hashes[k - 1] = junk_hash(),
		"drop_hash" => {
			s.hash_pos.remove(k - 1);
			s.hashes.remove(k - 1);
		}
		"proof" => s.proof[k - 1] = junk_hash(),
		"drop_proof" => {
			s.proof.remove(k - 1);
		}
		"id_idx" => s.idx = q,
		"id_h" => s.h = q as u8,
		x => panic!("op {}", x),
	}
	Some(s)
}

fn check_seg<T: Mk, B: Backend<T>>(
	c: &mut Ctx,
	sg: &Value,
	pm: &ReadonlyPMMR<'_, T, B>,
	backend_name: &str,
	unspent: &Bitmap,
) {
	let h = sg["h"].as_u64().unwrap() as u8;
	let idx = sg["idx"].as_u64().unwrap();
	let prunable = sg["prunable"].as_bool().unwrap();
	let id = SegmentIdentifier { height: h, idx };
	let tag = json!({"h": h, "idx": idx, "prunable": prunable, "backend": backend_name});
	let mut bad = |c: &mut Ctx, what: &str, spec: Value, real: Value| {
		c.mm.push(json!({"seg": tag, "what": what, "spec": spec, "real": real}));
	};
	c.checks += 1;
	let real = catch_unwind(AssertUnwindSafe(|| Segment::from_pmmr(id, pm, prunable)));
	let real = match real {
		Ok(r) => r,
		Err(_) => {
			c.panics += 1;
			bad(c, "from_pmmr_panic", sg["ok"].clone(), json!("panic"));
			return;
		}
	};
	let seg = match (&real, sg["ok"].as_bool().unwrap()) {
		(Ok(s), true) => s.clone(),
		(Err(e), false) => {
			if err_class(e) != sg["err"].as_str().unwrap() {
				bad(c, "from_pmmr_err", sg["err"].clone(), json!(err_class(e)));
			}
			return;
		}
		(Ok(_), false) => {
			bad(c, "from_pmmr_class", sg["err"].clone(), json!("ok"));
			return;
		}
		(Err(e), true) => {
			bad(c, "from_pmmr_class", json!("ok"), json!(err_class(e)));
			return;
		}
	};
	let ps = PlainSeg::of(&seg);
	// content: positions, data, hashes, proof
	if ps.leaf_pos != u64s(&sg["leaf_pos"]) {
		bad(c, "leaf_pos", sg["leaf_pos"].clone(), json!(ps.leaf_pos));
		return;
	}
	for (p, d) in ps.leaf_pos.iter().zip(&ps.leaf_data) {
		if *d != T::mk(pmmr::n_leaves(p + 1) - 1) {
			bad(c, "leaf_data", json!(p), json!(format!("{:?}", d)));
		}
	}
	if ps.hash_pos != u64s(&sg["hash_pos"]) {
		bad(c, "hash_pos", sg["hash_pos"].clone(), json!(ps.hash_pos));
		return;
	}
	for (p, hh) in ps.hash_pos.iter().zip(&ps.hashes) {
		if *hh != c.refh[*p as usize] {
			bad(c, "hash_value", json!(p), json!(format!("{}", hh)));
		}
	}
	let exp_proof: Vec<Hash> = sg["proof_ref"]
		.as_array()
		.unwrap()
		.iter()
		.map(|r| eval_ref(r, c))
		.collect();
	if ps.proof != exp_proof {
		bad(
			c,
			"proof",
			sg["proof_ref"].clone(),
			json!(ps.proof.iter().map(|h| format!("{}", h)).collect::<Vec<_>>()),
		);
	}
	let bm = if prunable { Some(unspent) } else { None };
	// honest verdict, directly and through the wire format
	let mut honest_err = String::new();
	let direct = match catch_unwind(AssertUnwindSafe(|| seg.validate(c.size, bm, c.root))) {
		Ok(Ok(())) => Verdict::Accept,
		Ok(Err(e)) => {
			honest_err = err_class(&e).to_string();
			Verdict::Reject
		}
		Err(_) => {
			honest_err = "panic".into();
			Verdict::Panic
		}
	};
	let wire = validate_plain(&ps, c.size, bm, c.root, None);
	let exp = if sg["honest"].as_bool().unwrap() {
		Verdict::Accept
	} else {
		Verdict::Reject
	};
	c.checks += 2;
	if direct != exp || wire != exp {
		bad(
			c,
			"honest",
			json!(format!("{:?}", exp)),
			json!(format!("{:?}/{:?}", direct, wire)),
		);
		if let Some(m) = c.mm.last_mut() {
			m["err"] = json!(honest_err);
		}
	}
	// validate_with: two accepting and four refusing arrangements (spec: with_ok)
	if sg["with_ok"].as_bool().unwrap() {
		let other = Hash::from_vec(&[0x3c; 32]);
		let p = c.size;
		let right = (c.root, other).hash_with_index(p);
		let left = (other, c.root).hash_with_index(p);
		let arr: Vec<(&str, Hash, (u64, Hash, bool), Verdict)> = vec![
			("with_right", right, (p, other, false), Verdict::Accept),
			("with_left", left, (p, other, true), Verdict::Accept),
			("with_wrong_side", left, (p, other, false), Verdict::Reject),
			("with_wrong_other", (c.root, junk_hash()).hash_with_index(p), (p, other, false), Verdict::Reject),
			("with_wrong_index", (c.root, other).hash_with_index(p + 1), (p, other, false), Verdict::Reject),
			("with_missing_step", c.root, (p, other, false), Verdict::Reject),
		];
		for (name, root, w, exp) in arr {
			c.checks += 1;
			let v = validate_plain(&ps, c.size, bm, root, Some(w));
			if v != exp {
				bad(c, name, json!(format!("{:?}", exp)), json!(format!("{:?}", v)));
			}
		}
	}
	// every single corruption
	let leaf_d = |p: u64| pmmr::n_leaves(p + 1) - 1;
	for op in sg["ops"].as_array().unwrap() {
		c.checks += 1;
		let cs = match apply_op(&ps, op, &leaf_d) {
			Some(x) => x,
			None => continue,
		};
		let v = validate_plain(&cs, c.size, bm, c.root, None);
		let exp = if op["v"].as_bool().unwrap() {
			Verdict::Accept
		} else {
			Verdict::Reject
		};
		if v == Verdict::Panic {
			c.panics += 1;
		}
		// a refusal at read time is a refusal
		let v_class = if v == Verdict::ReadRefused { Verdict::Reject } else { v };
		if v_class != exp {
			c.mm.push(json!({"seg": tag, "what": "op", "op": op, "spec": format!("{:?}", exp), "real": format!("{:?}", v)}));
		}
	}
}

fn run_case<T: Mk>(case: &Value, dir: &std::path::Path, rng: &mut StdRng) -> Value {
	let nl = case["nl"].as_u64().unwrap();
	let rm = u64s(&case["rm"]);
	let comp = u64s(&case["comp"]);
	let late = u64s(&case["late"]);
	let size = pmmr::insertion_to_pmmr_index(nl);
	assert_eq!(size, case["size"].as_u64().unwrap());
	let extra = rng.gen_range(0, 6) as u64;
	// unpruned reference (hash of every position, root at `size`)
	let mut vb: VecBackend<T> = VecBackend::new();
	{
		let mut p = PMMR::new(&mut vb);
		for i in 0..(nl + extra) {
			p.push(&T::mk(i)).unwrap();
		}
	}
	let refh: Vec<Hash> = vb.hashes.clone();
	let root = ReadonlyPMMR::at(&vb, size).root().expect("root");
	let unspent: Vec<u64> = (0..nl).filter(|l| !rm.contains(l)).collect();
	let unspent_bm = bitmap_of(&unspent);
	let mut plan = vec![];
	// the store is code under test too: a failing push / prune / sync / check_compact is a recorded mismatch
	let built = catch_unwind(AssertUnwindSafe(|| {
		let be: PMMRBackend<T> = build_store(&dir.join("p"), true, nl, extra, &rm, &comp, &late, rng, &mut plan);
		let be_np: Option<PMMRBackend<T>> = if rm.is_empty() && late.is_empty() {
			Some(build_store(&dir.join("np"), false, nl, extra, &[], &[], &[], rng, &mut vec![]))
		} else {
			None
		};
		(be, be_np)
	}));
	let (be, be_np) = match built {
		Ok(x) => x,
		Err(p) => {
			let msg = panic_msg(&p);
			return json!({"nl": nl, "checks": 0, "panics": 1, "plan": plan, "extra": extra,
				"mismatches": [{"seg": {"h": 0, "idx": 0, "prunable": true}, "what": "store", "step": msg.split(':').next().unwrap_or("?").trim(), "real": msg}]});
		}
	};
	let mut c = Ctx {
		size,
		root,
		refh: &refh,
		mm: vec![],
		checks: 0,
		panics: 0,
	};
	for sg in case["segs"].as_array().unwrap() {
		if sg["prunable"].as_bool().unwrap() {
			let pm = ReadonlyPMMR::at(&be, size);
			check_seg(&mut c, sg, &pm, "pmmr_prunable", &unspent_bm);
		} else {
			let pm = ReadonlyPMMR::at(&vb, size);
			check_seg(&mut c, sg, &pm, "vec", &unspent_bm);
			if let Some(b) = &be_np {
				let pm = ReadonlyPMMR::at(b, size);
				check_seg(&mut c, sg, &pm, "pmmr_nonprunable", &unspent_bm);
			}
		}
	}
	json!({"nl": nl, "checks": c.checks, "panics": c.panics, "mismatches": c.mm, "plan": plan, "extra": extra})
}

pub fn panic_msg(p: &Box<dyn std::any::Any + Send>) -> String {
	if let Some(s) = p.downcast_ref::<String>() {
		s.clone()
	} else if let Some(s) = p.downcast_ref::<&str>() {
		s.to_string()
	} else {
		"panic".to_string()
	}
}

pub fn run(args: &Args) -> i32 {
	let cases = read_ndjson(args.req("cases"));
	let mut out = NdWriter::create(args.req("out"));
	let dir = std::path::PathBuf::from(args.req("dir"));
	let seed = args.u64("seed", 1);
	for (i, case) in cases.iter().enumerate() {
		let mut rng = StdRng::seed_from_u64(seed.wrapping_mul(1_000_003).wrapping_add(i as u64));
		let var = rng.gen_range(0, 2) == 1;
		// last resort: whatever escapes the per-call guards is still data about the code under test
		let guarded = catch_unwind(AssertUnwindSafe(|| {
			if var {
				run_case::<VarElem>(case, &dir, &mut rng)
			} else {
				run_case::<Elem>(case, &dir, &mut rng)
			}
		}));
		let mut r = match guarded {
			Ok(r) => r,
			Err(p) => json!({"nl": case["nl"], "checks": 0, "panics": 1, "plan": [], "extra": 0,
				"mismatches": [{"seg": {"h": 0, "idx": 0, "prunable": true}, "what": "case_panic", "real": panic_msg(&p)}]}),
		};
		r["elem"] = json!(if var { "var" } else { "fixed" });
		out.put(&r);
	}
	out.finish();
	0
}
