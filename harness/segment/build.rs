// Detect the optional cfg(grin_verif) hook `Desegmenter::verif_set_segment_heights` in the grin tree this
// harness is built against (the path of the grin_chain dependency in our own Cargo.toml).
use std::fs;
fn main() {
	println!("cargo:rustc-check-cfg=cfg(seg_hook)");
	let dir = std::env::var("CARGO_MANIFEST_DIR").unwrap();
	let toml = fs::read_to_string(format!("{}/Cargo.toml", dir)).unwrap_or_default();
	let mut chain_path = String::new();
	for l in toml.lines() {
		if l.starts_with("grin_chain") {
			if let Some(i) = l.find("path = \"") {
				let rest = &l[i + 8..];
				if let Some(j) = rest.find('"') {
					chain_path = rest[..j].to_string();
				}
			}
		}
	}
	let f = format!("{}/src/txhashset/desegmenter.rs", chain_path);
	println!("cargo:rerun-if-changed={}", f);
	println!("cargo:rerun-if-changed=Cargo.toml");
	if fs::read_to_string(&f).map(|s| s.contains("fn verif_set_segment_heights")).unwrap_or(false) {
		println!("cargo:rustc-cfg=seg_hook");
	}
}
