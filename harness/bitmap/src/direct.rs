//! `direct`  direction B at the txhashset level: the block-processing unit of work of `pipe::process_block`
//!           (`txhashset::extending` { `Extension::rewind` to the fork point, `Extension::apply_block` for the
//!           fork blocks and the new block, `force_rollback` when the block does not win }) is driven on a
//!           real `TxHashSet` + `ChainStore` + header PMMR handle with blocks whose outputs carry a dummy
//!           range proof. `Block::validate` (range proofs, kernel sums) is not part of that level, so an
//!           output costs microseconds instead of a bulletproof and a history over several 1024-bit chunks
//!           fits in the quick tier. Everything the bitmap commitment depends on is the real code:
//!           apply_block, rewind, rewind_single_block, apply_to_bitmap_accumulator, the commit / rollback
//!           logic of `extending`, `extending_readonly`, `TxHashSet::open`, the accumulator itself.
//!           The events are those of `record` (spec/trace/BitmapTrace.tla): Apply / Rewind / Probe / Stay /
//!           Reopen, with the node's committed root (`TxHashSet::roots`), the accumulator seen by a fresh
//!           extension and the real leaf set next to the from-scratch commitment of the model set.
//!           Production (Mainnet) block weight, so that one block may create hundreds of outputs.
use crate::{demanded_output_root, from_scratch_chunks, hx, load_roots, obs_value, root_of_chunks, NBITS};
use chrono::Duration;
use grin_chain::txhashset::{self, BitmapAccumulator, PMMRHandle, TxHashSet};
use grin_chain::{ChainStore, Error as ChainError, Tip};
use grin_core::consensus;
use grin_core::core::hash::{Hash, Hashed};
use grin_core::core::pmmr;
use grin_core::core::{Block, BlockHeader, HeaderVersion, Input, Inputs, Output, OutputFeatures, TransactionBody, TxKernel};
use grin_core::ser::PMMRIndexHashable;
use grin_core::libtx::{reward, ProofBuilder};
use grin_core::pow::{Difficulty, Proof};
use grin_core::ser::ProtocolVersion;
use grin_core::global;
use grin_keychain::{ExtKeychain, ExtKeychainPath, Keychain};
use grin_util::secp::constants::MAX_PROOF_SIZE;
use grin_util::secp::pedersen::{Commitment, RangeProof};
use rand::rngs::StdRng;
use rand::{Rng, SeedableRng};
use serde_json::{json, Value};
use std::collections::{BTreeSet, HashMap};
use std::panic::{catch_unwind, AssertUnwindSafe};
use std::path::Path;
use std::sync::Arc;
use vcommon::*;

const BASE_DIFF: u64 = 10;

/// Size of an MMR with n leaves, computed without the repository's pmmr functions.
fn mmr_size(n: u64) -> u64 {
	2 * n - n.count_ones() as u64
}

#[derive(Clone)]
struct DState {
	size: u64,
	uns: BTreeSet<u64>,
}

struct DBlk {
	block: Block,
	parent: usize,
	height: u64,
	spent: Vec<u64>,
	total_diff: u64,
	state: DState, // model state after this block
	/// root of the output PMMR after this block (None when the block cannot be applied at all)
	pmmr_root: Option<Hash>,
}

struct DWorld {
	dir: String,
	store: Arc<ChainStore>,
	hp: PMMRHandle<BlockHeader>,
	ts: Option<TxHashSet>,
	blocks: Vec<DBlk>,
	head: usize,
	kernel: TxKernel,
	leaf_of: HashMap<Commitment, u64>,
	commit_of: HashMap<(usize, u64), (OutputFeatures, Commitment)>, // (creating block, leaf) -> output identifier
	next_commit: u64,
	roots: Vec<Value>,
	out: NdWriter,
	rng: StdRng,
	failed: bool,
	stats: HashMap<String, u64>,
	max_chunks: u64,
	spend_chunks: BTreeSet<u64>,
	/// oldest chunk in which the last rolled-back fork state differed from the committed state
	stale_chunk: Option<u64>,
	/// the next delivery is an invalid block: the extension must fail and leave nothing behind
	expect_reject: bool,
	/// the block being delivered is a wrong-bitmap twin: (class, variant, what its header commits to, what it should)
	twin: Option<(String, String, String, String)>,
	twin_no: u64,
}

fn dummy_proof(n: u64) -> RangeProof {
	let mut p = [0u8; MAX_PROOF_SIZE];
	for (i, b) in n.to_le_bytes().iter().enumerate() {
		p[i] = *b;
	}
	RangeProof { proof: p, plen: MAX_PROOF_SIZE }
}

fn chunk_of(i: u64) -> u64 {
	i / NBITS
}

impl DWorld {
	fn bump(&mut self, k: &str) {
		*self.stats.entry(k.to_string()).or_insert(0) += 1;
	}

	fn put(&mut self, mut ev: Value, obs: Option<Value>) {
		match obs {
			Some(o) => {
				for (k, v) in o.as_object().unwrap() {
					ev[k] = v.clone();
				}
			}
			None => ev["obs"] = json!(false),
		}
		let k = ev["k"].as_str().unwrap().to_string();
		self.bump(&format!("ev_{}", k));
		self.out.put(&ev);
	}

	fn fail(&mut self, what: &str, res: String, exp: &str) {
		self.failed = true;
		self.put(json!({"k":"Result","what":what,"res":res,"exp":exp}), None);
	}

	fn obs_of(&mut self, st: &DState, root: Hash, acc: &BitmapAccumulator, leaf: Option<(u64, BTreeSet<u64>)>) -> Value {
		let (o, n) = obs_value(&self.roots, &st.uns, st.size, root, acc, leaf);
		self.max_chunks = self.max_chunks.max(n);
		o
	}

	/// The committed state of the node: `TxHashSet::roots()`, the leaf set read through the output PMMR and
	/// the accumulator a fresh extension starts from.
	fn observe(&mut self, st: &DState) -> Value {
		let r = {
			let ts = self.ts.as_mut().unwrap();
			let hp = &mut self.hp;
			let leaf_of = &self.leaf_of;
			catch_unwind(AssertUnwindSafe(|| {
				let roots = ts.roots().expect("roots");
				let nl = pmmr::n_leaves(ts.output_mmr_size());
				let (_, ids) = ts.outputs_by_pmmr_index(1, 100_000_000, None);
				let leaf: BTreeSet<u64> = ids.iter().map(|o| leaf_of.get(&o.commitment()).cloned().unwrap_or(999_999_999)).collect();
				let acc = txhashset::extending_readonly(hp, ts, |ext, _batch| Ok(ext.extension.bitmap_accumulator())).expect("readonly extension");
				(roots.output_roots.bitmap_root, nl, leaf, acc)
			}))
		};
		match r {
			Ok((root, nl, leaf, acc)) => self.obs_of(st, root, &acc, Some((nl, leaf))),
			Err(_) => {
				self.failed = true;
				json!({"obs": true, "observe_panic": true, "root_real": "panic", "root_acc": "panic", "root_fs": "", "fs": [], "fs_nchunks": 0,
					"accbits": [], "nchunks": 0, "nleaves": 0, "leaf": []})
			}
		}
	}

	fn path_to_root(&self, mut b: usize) -> Vec<usize> {
		let mut p = vec![b];
		while b != 0 {
			b = self.blocks[b].parent;
			p.push(b);
		}
		p
	}

	/// Up to k distinct unspent leaves of `st` in [lo, hi).
	fn pick(&mut self, st: &DState, lo: u64, hi: u64, k: usize) -> Vec<u64> {
		let pool: Vec<u64> = st.uns.range(lo..hi).cloned().collect();
		let mut s: BTreeSet<u64> = BTreeSet::new();
		if pool.is_empty() {
			return vec![];
		}
		for _ in 0..k {
			s.insert(pool[self.rng.gen_range(0, pool.len())]);
		}
		s.into_iter().collect()
	}

	fn random_spends(&mut self, parent: usize, max: usize) -> Vec<u64> {
		let st = self.blocks[parent].state.clone();
		let n = self.rng.gen_range(0, max + 1);
		let lc = chunk_of(st.size - 1);
		let mut s: BTreeSet<u64> = BTreeSet::new();
		for _ in 0..n {
			let r = self.rng.gen_range(0, 100);
			let v = if r < 30 && lc >= 1 {
				self.pick(&st, 0, NBITS, 1) // the oldest chunk
			} else if r < 45 && lc >= 1 {
				let c = self.rng.gen_range(0, lc);
				self.pick(&st, c * NBITS, (c + 1) * NBITS, 1) // some old chunk
			} else if r < 65 {
				self.pick(&st, lc * NBITS, st.size, 1) // the last, partial chunk
			} else if r < 80 && lc >= 1 {
				// either side of a chunk boundary
				let b = self.rng.gen_range(1, lc + 1) * NBITS;
				self.pick(&st, b - 3, (b + 3).min(st.size), 1)
			} else {
				self.pick(&st, 0, st.size, 1)
			};
			for i in v {
				s.insert(i);
			}
		}
		s.into_iter().collect()
	}

	/// A block on `parent` spending the leaves `spends` (unspent in the parent's state) and creating
	/// `n_outs` >= 1 outputs (dummy range proofs), one kernel.
	fn build_block(&mut self, parent: usize, spends: &[u64], n_outs: usize, diff: u64) -> usize {
		let pst = self.blocks[parent].state.clone();
		let prev = self.blocks[parent].block.header.clone();
		let id = self.blocks.len();
		let mut outs = vec![];
		for _ in 0..n_outs.max(1) {
			let n = self.next_commit;
			self.next_commit += 1;
			let mut c = vec![0u8; 33];
			c[0] = 0x08 | (self.rng.gen_range(0, 2) as u8);
			for b in c.iter_mut().skip(1) {
				*b = self.rng.gen();
			}
			c[25..33].copy_from_slice(&n.to_be_bytes());
			outs.push(Output::new(OutputFeatures::Plain, Commitment::from_vec(c), dummy_proof(n)));
		}
		// where the spent leaves were created: walk the path
		let path = self.path_to_root(parent);
		let mut ins = vec![];
		for i in spends {
			let creator = *path.iter().find(|x| {
				let b = &self.blocks[**x];
				let lo = if **x == 0 { 0 } else { self.blocks[b.parent].state.size };
				lo <= *i && *i < b.state.size
			}).expect("creator of a spent leaf");
			let (f, c) = self.commit_of[&(creator, *i)];
			ins.push(Input::new(f, c));
		}
		let body = TransactionBody::init(Inputs::from(ins.as_slice()), &outs, &[self.kernel.clone()], false).expect("body");
		let new_size = pst.size + body.outputs.len() as u64;
		let mut header = BlockHeader::default();
		header.height = prev.height + 1;
		// nothing at this level compares the version with the height: version 3 is the first whose output_root
		// folds the bitmap root (OutputRoots::root)
		// nothing at this level compares the header version with the height: all five versions are used, 1 and 2
		// demand the bare output PMMR root, 3 (the first folded one), 4 and 5 the fold with the bitmap root
		let _ = consensus::header_version(header.height);
		header.version = HeaderVersion(match self.rng.gen_range(0, 100) {
			0..=9 => 1,
			10..=19 => 2,
			20..=59 => 3,
			60..=79 => 4,
			_ => 5,
		});
		header.prev_hash = prev.hash();
		header.timestamp = prev.timestamp + Duration::seconds(60);
		header.output_mmr_size = mmr_size(new_size);
		header.kernel_mmr_size = mmr_size(header.height + 1);
		header.pow.total_difficulty = Difficulty::from_num(self.blocks[parent].total_diff + diff);
		// the header hash covers the proof only: give every block its own nonces
		let ps = global::proofsize() as u64;
		header.pow.proof = Proof::new((0..ps).map(|j| (id as u64) * 64 + j + 1).collect());
		let block = Block { header, body };
		let mut st = pst.clone();
		for i in spends {
			st.uns.remove(i);
			self.spend_chunks.insert(chunk_of(*i));
		}
		for (j, o) in block.outputs().iter().enumerate() {
			let idx = pst.size + j as u64;
			self.leaf_of.insert(o.commitment(), idx);
			self.commit_of.insert((id, idx), (OutputFeatures::Plain, o.commitment()));
			st.uns.insert(idx);
		}
		st.size = new_size;
		self.blocks.push(DBlk {
			block,
			parent,
			height: prev.height + 1,
			spent: spends.to_vec(),
			total_diff: self.blocks[parent].total_diff + diff,
			state: st,
			pmmr_root: None,
		});
		// the header commits to: the node's output / range proof / kernel MMR roots after the block (read-only
		// extension, as Chain::set_txhashset_roots) and the FROM-SCRATCH bitmap root of the model state
		if let Ok((pmmr_root, rproof_root, kernel_root)) = self.roots_after(id) {
			let fs = {
				let st = &self.blocks[id].state;
				root_of_chunks(&self.roots, &from_scratch_chunks(&st.uns, st.size))
			};
			let h = &mut self.blocks[id].block.header;
			h.output_root = demanded_output_root(h.version.0, pmmr_root, fs, h.output_mmr_size);
			h.range_proof_root = rproof_root;
			h.kernel_root = kernel_root;
			self.blocks[id].pmmr_root = Some(pmmr_root);
		}
		id
	}

	/// Fork point of block `id` against the current head, the rewind depth, the blocks to apply (id last).
	fn route(&self, id: usize) -> (usize, usize, Vec<usize>) {
		let old = self.path_to_root(self.head);
		let new = self.path_to_root(id);
		let anc = *new.iter().find(|x| old.contains(x)).unwrap();
		let depth = old.iter().position(|x| *x == anc).unwrap();
		let mut fwd: Vec<usize> = new.iter().cloned().take_while(|x| *x != anc).collect();
		fwd.reverse();
		(anc, depth, fwd)
	}

	/// Output, range proof and kernel MMR roots of the state after block `id` (read-only extension).
	fn roots_after(&mut self, id: usize) -> Result<(Hash, Hash, Hash), String> {
		let (anc, _, fwd) = self.route(id);
		let anc_header = self.blocks[anc].block.header.clone();
		let fork_hashes: Vec<Hash> = fwd.iter().take(fwd.len() - 1).map(|x| self.blocks[*x].block.hash()).collect();
		let b = self.blocks[id].block.clone();
		let hp = &mut self.hp;
		let ts = self.ts.as_mut().unwrap();
		let r = catch_unwind(AssertUnwindSafe(|| {
			txhashset::extending_readonly(hp, ts, |ext, batch| {
				ext.extension.rewind(&anc_header, batch)?;
				for h in &fork_hashes {
					let fb = batch.get_block(h)?;
					ext.extension.apply_block(&fb, ext.header_extension, batch)?;
				}
				ext.extension.apply_block(&b, ext.header_extension, batch)?;
				let r = ext.extension.roots()?;
				Ok((r.output_roots.pmmr_root, r.rproof_root, r.kernel_root))
			})
		}));
		match r {
			Ok(Ok(x)) => Ok(x),
			Ok(Err(e)) => Err(format!("{:?}", e)),
			Err(_) => Err("panic".to_string()),
		}
	}

	/// Twins of the honest block `id` (same parent, body, work, own nonces) whose output_root folds the right
	/// output PMMR root with another bitmap root: refused as next block, as winner of a reorganisation and as
	/// block on a losing fork alike (validate_roots inside the unit of work, before the work comparison).
	fn wrong_twins(&mut self, id: usize, n: usize) -> bool {
		let pmmr_root = match self.blocks[id].pmmr_root {
			Some(r) => r,
			None => return true,
		};
		let parent = self.blocks[id].parent;
		let st = self.blocks[id].state.clone();
		let pst = self.blocks[parent].state.clone();
		let wins = self.blocks[id].total_diff > self.blocks[self.head].total_diff;
		let class = if !wins {
			"losing_fork"
		} else if parent == self.head {
			"next_block"
		} else {
			"reorg_winning"
		};
		let spent = self.blocks[id].spent.clone();
		let mut variants: Vec<(&str, DState)> = vec![];
		if let Some(i) = spent.first() {
			let mut s = st.clone();
			s.uns.insert(*i);
			variants.push(("spent_still_set", s));
		}
		{
			let v: Vec<u64> = st.uns.iter().cloned().collect();
			let mut s = st.clone();
			s.uns.remove(&v[self.rng.gen_range(0, v.len())]);
			variants.push(("unspent_cleared", s));
		}
		variants.push(("stale_parent", pst.clone()));
		if !spent.is_empty() {
			let mut s = st.clone();
			for i in &spent {
				s.uns.insert(*i);
			}
			variants.push(("sibling_state", s));
		}
		{
			let mut s = st.clone();
			s.uns.remove(&(st.size - 1));
			variants.push(("last_leaf_cleared", s));
		}
		let first = self.rng.gen_range(0, variants.len());
		for k in 0..n.min(variants.len()) {
			let (name, ws) = variants[(first + k * (1 + variants.len() / 2)) % variants.len()].clone();
			let mut chunks = from_scratch_chunks(&ws.uns, ws.size);
			if self.rng.gen_range(0, 100) < 15 {
				chunks.push(BTreeSet::new()); // ... and one more all-zero chunk
			}
			let wrong = root_of_chunks(&self.roots, &chunks);
			let version = self.blocks[id].block.header.version.0;
			// from version 3 on: another bitmap folded in, or (first twin, one time in three) no fold at all;
			// versions 1, 2 (bare root demanded): any fold
			let (name, wrong_root) = if version >= 3 && k == 0 && self.rng.gen_range(0, 3) == 0 {
				("bare_pmmr_root", pmmr_root)
			} else if version >= 3 {
				(name, (pmmr_root, wrong).hash_with_index(self.blocks[id].block.header.output_mmr_size))
			} else if self.rng.gen_range(0, 2) == 0 {
				let fs = root_of_chunks(&self.roots, &from_scratch_chunks(&st.uns, st.size));
				("folded_before_v3", (pmmr_root, fs).hash_with_index(self.blocks[id].block.header.output_mmr_size))
			} else {
				("folded_before_v3_other_bitmap", (pmmr_root, wrong).hash_with_index(self.blocks[id].block.header.output_mmr_size))
			};
			self.bump(&format!("wrong_root_v{}", version));
			let mut blk = self.blocks[id].block.clone();
			self.twin_no += 1;
			let ps = global::proofsize() as u64;
			blk.header.pow.proof = Proof::new((0..ps).map(|j| (1 << 24) + self.twin_no * 64 + j).collect());
			let honest = blk.header.output_root;
			blk.header.output_root = wrong_root;
			if blk.header.output_root == honest {
				continue;
			}
			let tid = self.blocks.len();
			self.twin = Some((class.to_string(), name.to_string(), hx(&blk.header.output_root), hx(&honest)));
			self.blocks.push(DBlk {
				block: blk,
				parent,
				height: self.blocks[id].height,
				spent: spent.clone(),
				total_diff: self.blocks[id].total_diff,
				state: st.clone(),
				pmmr_root: Some(pmmr_root),
			});
			self.expect_reject = true;
			self.deliver_inner(tid, "wrong_bitmap_root");
			self.expect_reject = false;
			self.twin = None;
			if self.failed {
				return false;
			}
			self.bump(&format!("wrong_root_{}", class));
		}
		true
	}

	fn deliver(&mut self, id: usize, what: &str) {
		if !self.expect_reject {
			let always = what.starts_with("shape_reorg") || what.starts_with("losing_v") || what == "after_losing_fork";
			if (always || self.rng.gen_range(0, 100) < 15) && !self.wrong_twins(id, 1) {
				return;
			}
		}
		self.deliver_inner(id, what)
	}

	/// Leaves below `asize` spent by the blocks path[0..depth] (head first), and whether the rewind has the
	/// shape "a block other than the earliest rewound one spent in a chunk older than anything the earliest
	/// rewound block declares".
	fn rewound(&self, path: &[usize], depth: usize, asize: u64) -> (BTreeSet<u64>, bool) {
		let mut respent: BTreeSet<u64> = BTreeSet::new();
		for x in path.iter().take(depth) {
			for i in &self.blocks[*x].spent {
				if *i < asize {
					respent.insert(*i);
				}
			}
		}
		let mut shape = false;
		if depth >= 2 {
			let earliest = path[depth - 1];
			let mut emin = chunk_of(asize.saturating_sub(1));
			for i in &self.blocks[earliest].spent {
				emin = emin.min(chunk_of(*i));
			}
			for x in path.iter().take(depth - 1) {
				for i in &self.blocks[*x].spent {
					if *i < asize && chunk_of(*i) < emin {
						shape = true;
					}
				}
			}
		}
		(respent, shape)
	}

	/// The unit of work of pipe::process_block for block `id` (already built), without Block::validate:
	/// header saved, extension { rewind to the fork point, apply the fork blocks from the store, apply the
	/// block, sizes validated, rollback when it has no more work than the head }, block saved, head moved.
	fn deliver_inner(&mut self, id: usize, what: &str) {
		let b = self.blocks[id].block.clone();
		let wins = self.blocks[id].total_diff > self.blocks[self.head].total_diff;
		let old = self.path_to_root(self.head);
		let new = self.path_to_root(id);
		let anc = *new.iter().find(|x| old.contains(x)).unwrap();
		let depth = old.iter().position(|x| *x == anc).unwrap();
		let anc_header = self.blocks[anc].block.header.clone();
		let asize = self.blocks[anc].state.size;
		let mut fwd: Vec<usize> = new.iter().cloned().take_while(|x| *x != anc).collect();
		fwd.reverse();
		let fork_hashes: Vec<Hash> = fwd.iter().take(fwd.len() - 1).map(|x| self.blocks[*x].block.hash()).collect();
		let mut inner: Vec<(Hash, BitmapAccumulator)> = vec![];
		let r = {
			let store = self.store.clone();
			let hp = &mut self.hp;
			let ts = self.ts.as_mut().unwrap();
			let inner = &mut inner;
			catch_unwind(AssertUnwindSafe(|| -> Result<bool, ChainError> {
				let mut batch = store.batch()?;
				let head = batch.head()?;
				batch.save_block_header(&b.header)?;
				let more_work = b.header.total_difficulty() > head.total_difficulty;
				txhashset::extending(hp, ts, &mut batch, |ext, batch| {
					ext.extension.rewind(&anc_header, batch)?;
					inner.push((ext.extension.roots()?.output_roots.bitmap_root, ext.extension.bitmap_accumulator()));
					for h in &fork_hashes {
						let fb = batch.get_block(h)?;
						ext.extension.apply_block(&fb, ext.header_extension, batch)?;
						ext.extension.validate_roots(&fb.header)?;
						ext.extension.validate_sizes(&fb.header)?;
						inner.push((ext.extension.roots()?.output_roots.bitmap_root, ext.extension.bitmap_accumulator()));
					}
					ext.extension.apply_block(&b, ext.header_extension, batch)?;
					ext.extension.validate_roots(&b.header)?;
					ext.extension.validate_sizes(&b.header)?;
					inner.push((ext.extension.roots()?.output_roots.bitmap_root, ext.extension.bitmap_accumulator()));
					if !more_work {
						ext.extension.force_rollback();
					}
					Ok(())
				})?;
				batch.save_block(&b)?;
				if more_work {
					let tip = Tip::from_header(&b.header);
					batch.save_body_head(&tip)?;
					batch.save_header_head(&tip)?;
				}
				batch.commit()?;
				Ok(more_work)
			}))
		};
		let (res, detail) = match &r {
			Ok(Ok(true)) => ("ok_head".to_string(), String::new()),
			Ok(Ok(false)) => ("ok_fork".to_string(), String::new()),
			Ok(Err(e)) => ("reject".to_string(), format!("{:?}", e)),
			Err(_) => ("panic".to_string(), String::new()),
		};
		let exp = if self.expect_reject {
			"reject"
		} else if wins {
			"ok_head"
		} else {
			"ok_fork"
		};
		if exp == "reject" && (res == "reject" || self.twin.is_some()) {
			let mut ev = json!({"k":"Stay","what":what,"res":res,"exp":exp,"depth":depth,"detail":detail.chars().take(60).collect::<String>()});
			if let Some((class, variant, hdr, hdr_fs)) = self.twin.clone() {
				ev["what"] = json!(format!("wrong_bitmap_root:{}", variant));
				ev["class"] = json!(class);
				ev["hdr_root"] = json!(hdr);
				ev["hdr_root_fs"] = json!(hdr_fs);
			}
			if res != "reject" {
				// a header committing to another bitmap was not refused: the recording ends with this event
				self.failed = true;
				self.put(ev, None);
				return;
			}
			self.bump("refused_blocks");
			let hst = self.blocks[self.head].state.clone();
			let o = self.observe(&hst);
			self.put(ev, Some(o));
			return;
		}
		if res != exp {
			self.failed = true;
			self.put(
				json!({"k":"Result","what":what,"height":self.blocks[id].height,"res":res,"exp":exp,"detail":detail,
					"parent_is_head": self.blocks[id].parent == self.head, "depth": depth}),
				None,
			);
			return;
		}
		let crosses = chunk_of(self.blocks[self.head].state.size - 1) != chunk_of(asize - 1);
		let (respent, shape) = self.rewound(&old, depth, asize);
		if !wins {
			// the rewind inside the rolled-back extension is a read-only rewind
			if depth >= 1 {
				let st = self.blocks[anc].state.clone();
				let (root, acc) = inner[0].clone();
				let o = self.obs_of(&st, root, &acc, None);
				if shape {
					self.bump("multi_rewind_nonearliest_old_chunk");
				}
				self.put(json!({"k":"Probe","what":format!("{}:fork_rewind", what),"newsize":asize,"respent":respent,"depth":depth,"crosses":crosses}), Some(o));
			}
			// ... and the rolled-back application must leave the committed state alone
			let hst = self.blocks[self.head].state.clone();
			let fst = self.blocks[id].state.clone();
			let hl = chunk_of(hst.size - 1);
			let dmin = hst.uns.symmetric_difference(&fst.uns).map(|i| chunk_of(*i)).min();
			if let Some(d) = dmin {
				if d < hl {
					self.bump("losing_fork_differs_in_old_chunk");
					self.stale_chunk = Some(d);
				}
			}
			let o = self.observe(&hst);
			self.put(json!({"k":"Stay","what":what,"res":res,"exp":exp,"depth":depth}), Some(o));
			return;
		}
		if self.blocks[id].parent == self.head {
			let st = self.blocks[id].state.clone();
			let pst_size = self.blocks[self.head].state.size;
			let mut amin = chunk_of(pst_size);
			for i in &self.blocks[id].spent.clone() {
				amin = amin.min(chunk_of(*i));
				if chunk_of(*i) == 0 && chunk_of(pst_size - 1) >= 1 {
					self.bump("late_spend_in_chunk0");
				}
			}
			if let Some(d) = self.stale_chunk.take() {
				if amin > d {
					self.bump("apply_after_losing_fork_skips_its_chunk");
				}
			}
			self.head = id;
			let o = self.observe(&st);
			let ev = json!({"k":"Apply","what":what,"res":res,"exp":exp,"height":self.blocks[id].height,
				"spent": self.blocks[id].spent, "newsize": st.size});
			self.put(ev, Some(o));
			return;
		}
		// reorganisation
		self.stale_chunk = None;
		if crosses {
			self.bump("reorg_rewind_crosses_chunk_boundary");
		}
		if shape {
			self.bump("multi_rewind_nonearliest_old_chunk");
			self.bump("reorg_multi_rewind_nonearliest_old_chunk");
		}
		self.bump("reorgs");
		{
			let st = self.blocks[anc].state.clone();
			let (root, acc) = inner[0].clone();
			let o = self.obs_of(&st, root, &acc, None);
			self.put(json!({"k":"Rewind","what":what,"newsize":asize,"respent":respent,"depth":depth,"crosses":crosses}), Some(o));
		}
		self.head = id;
		for (n, x) in fwd.iter().enumerate() {
			let st = self.blocks[*x].state.clone();
			let ev = json!({"k":"Apply","what":what,"res":res,"exp":exp,"height":self.blocks[*x].height,
				"spent": self.blocks[*x].spent, "newsize": st.size, "reorg": true});
			let o = if n + 1 == fwd.len() {
				self.observe(&st)
			} else {
				let (root, acc) = inner[n + 1].clone();
				self.obs_of(&st, root, &acc, None)
			};
			self.put(ev, Some(o));
		}
	}

	fn extend_with(&mut self, spends: &[u64], n_outs: usize, what: &str) -> bool {
		let id = self.build_block(self.head, spends, n_outs, BASE_DIFF);
		self.deliver(id, what);
		!self.failed
	}

	fn extend_random(&mut self, n_outs: usize, max_spends: usize, what: &str) -> bool {
		let spends = self.random_spends(self.head, max_spends);
		self.extend_with(&spends, n_outs, what)
	}

	/// A competing branch of n blocks from the ancestor `depth` below the head.
	fn fork(&mut self, depth: usize, n: usize, wins: bool, what: &str) -> bool {
		let path = self.path_to_root(self.head);
		if depth >= path.len() || depth == 0 {
			return true;
		}
		let anc = path[depth];
		let gap = self.blocks[self.head].total_diff - self.blocks[anc].total_diff;
		if gap < 2 && !wins {
			return true; // no room to stay behind
		}
		let n = if gap < 2 { 1 } else { n.max(1).min((gap - 1) as usize) };
		let per = (gap.saturating_sub(1) / n as u64).max(1);
		let mut parent = anc;
		let mut acc = 0u64;
		for j in 0..n {
			let last = j + 1 == n;
			let diff = if !last {
				per
			} else if wins {
				gap + 1 - acc
			} else if gap - acc >= 2 {
				gap - acc - 1
			} else {
				return true;
			};
			if !last && acc + diff >= gap {
				return true;
			}
			acc += diff;
			let n_outs = if self.rng.gen_range(0, 100) < 15 { self.rng.gen_range(20, 200) } else { self.rng.gen_range(1, 12) };
			let spends = self.random_spends(parent, 6);
			let id = self.build_block(parent, &spends, n_outs, diff);
			self.deliver(id, what);
			if self.failed {
				return false;
			}
			parent = id;
		}
		true
	}

	/// Read-only `Extension::rewind` to the ancestor `depth` below the head.
	fn probe(&mut self, depth: usize) {
		let path = self.path_to_root(self.head);
		if depth >= path.len() || self.failed {
			return;
		}
		let anc = path[depth];
		let header = self.blocks[anc].block.header.clone();
		let asize = self.blocks[anc].state.size;
		let (respent, shape) = self.rewound(&path, depth, asize);
		let r = {
			let hp = &mut self.hp;
			let ts = self.ts.as_mut().unwrap();
			catch_unwind(AssertUnwindSafe(|| {
				txhashset::extending_readonly(hp, ts, |ext, batch| {
					ext.extension.rewind(&header, batch)?;
					let roots = ext.extension.roots()?;
					Ok((roots.output_roots.bitmap_root, ext.extension.bitmap_accumulator()))
				})
			}))
		};
		let crosses = chunk_of(self.blocks[self.head].state.size - 1) != chunk_of(asize - 1);
		match r {
			Ok(Ok((root, acc))) => {
				let st = self.blocks[anc].state.clone();
				let o = self.obs_of(&st, root, &acc, None);
				if crosses {
					self.bump("probe_crosses_chunk_boundary");
				}
				if respent.is_empty() {
					self.bump("probe_without_respent");
				}
				if shape {
					self.bump("multi_rewind_nonearliest_old_chunk");
				}
				self.put(json!({"k":"Probe","what":"probe","newsize":asize,"respent":respent,"depth":depth,"crosses":crosses}), Some(o));
				// a read-only extension leaves nothing behind
				if self.rng.gen_range(0, 100) < 25 {
					let hst = self.blocks[self.head].state.clone();
					let o = self.observe(&hst);
					self.put(json!({"k":"Stay","what":"after_probe","res":"ok","exp":"ok"}), Some(o));
				}
			}
			Ok(Err(e)) => self.fail("probe", format!("{:?}", e), "ok"),
			Err(_) => self.fail("probe", "panic".to_string(), "ok"),
		}
	}

	/// Restart: the txhashset is re-opened from its files (the accumulator is rebuilt from the leaf set);
	/// then, as Chain::init's setup_head does, a committed extension rewinds to the head itself.
	fn reopen(&mut self) {
		if self.failed {
			return;
		}
		self.ts = None;
		self.stale_chunk = None;
		let r = {
			let dir = self.dir.clone();
			let store = self.store.clone();
			catch_unwind(AssertUnwindSafe(|| TxHashSet::open(dir, store, None)))
		};
		match r {
			Ok(Ok(ts)) => self.ts = Some(ts),
			Ok(Err(e)) => return self.fail("reopen", format!("{:?}", e), "ok"),
			Err(_) => return self.fail("reopen", "panic".to_string(), "ok"),
		}
		let st = self.blocks[self.head].state.clone();
		let o = self.observe(&st);
		// a start-up rebuild cut at the number of unspent leaves would lose bits of complete old chunks here
		if chunk_of(st.size - 1) >= 1 && (st.uns.len() as u64) < chunk_of(st.size - 1) * NBITS {
			self.bump("reopen_fewer_unspent_than_bits_in_complete_chunks");
		}
		self.put(json!({"k":"Reopen"}), Some(o));
		if self.rng.gen_range(0, 100) < 60 {
			let header = self.blocks[self.head].block.header.clone();
			let r = {
				let store = self.store.clone();
				let hp = &mut self.hp;
				let ts = self.ts.as_mut().unwrap();
				catch_unwind(AssertUnwindSafe(|| -> Result<(), ChainError> {
					let mut batch = store.batch()?;
					txhashset::extending(hp, ts, &mut batch, |ext, batch| ext.extension.rewind(&header, batch))?;
					batch.commit()?;
					Ok(())
				}))
			};
			match r {
				Ok(Ok(())) => {
					let o = self.observe(&st);
					let none: Vec<u64> = vec![];
					self.put(json!({"k":"Rewind","what":"setup_head","newsize":st.size,"respent":none,"depth":0,"crosses":false}), Some(o));
				}
				Ok(Err(e)) => self.fail("setup_head", format!("{:?}", e), "ok"),
				Err(_) => self.fail("setup_head", "panic".to_string(), "ok"),
			}
		}
	}

	/// Blocks A (spends in the last chunk only), B (spends in an old chunk), optionally C; read-only rewinds
	/// of 2 and 3 blocks; then a heavier competing block from below A that leaves the old chunk alone
	/// (reorganisation over 2-3 blocks); sometimes back to the first branch.
	fn directed_rewinds(&mut self) -> bool {
		let st = self.blocks[self.head].state.clone();
		let lc = chunk_of(st.size - 1);
		if lc == 0 {
			return true;
		}
		let before = self.head;
		let old = if self.rng.gen_range(0, 100) < 60 { 0 } else { self.rng.gen_range(0, lc) };
		let k = self.rng.gen_range(0, 3);
		let sp = self.pick(&st, lc * NBITS, st.size, k);
		let n = self.rng.gen_range(1, 7);
		if !self.extend_with(&sp, n, "shape_a_last_chunk") {
			return false;
		}
		let st = self.blocks[self.head].state.clone();
		let k = self.rng.gen_range(1, 4);
		let mut sp = self.pick(&st, old * NBITS, (old + 1) * NBITS, k);
		if self.rng.gen_range(0, 100) < 40 {
			let lo = chunk_of(st.size - 1) * NBITS;
			sp.extend(self.pick(&st, lo, st.size, 1));
			sp.sort_unstable();
			sp.dedup();
		}
		let n = self.rng.gen_range(1, 7);
		if !self.extend_with(&sp, n, "shape_b_old_chunk") {
			return false;
		}
		self.probe(2);
		if self.rng.gen_range(0, 100) < 60 {
			let st = self.blocks[self.head].state.clone();
			let lo = chunk_of(st.size - 1) * NBITS;
			let sp = self.pick(&st, lo, st.size, 2);
			let n = self.rng.gen_range(1, 7);
			if !self.extend_with(&sp, n, "shape_c_last_chunk") {
				return false;
			}
			self.probe(3);
			self.probe(2);
		}
		if self.failed {
			return false;
		}
		let tip_a = self.head;
		// the competing block: from `before`, more work than the whole first branch, old chunks untouched
		let bst = self.blocks[before].state.clone();
		let k = self.rng.gen_range(0, 3);
		let sp = self.pick(&bst, lc * NBITS, bst.size, k);
		let gap = self.blocks[self.head].total_diff - self.blocks[before].total_diff;
		let n = self.rng.gen_range(1, 7);
		let id = self.build_block(before, &sp, n, gap + 1);
		self.deliver(id, "shape_reorg_multi");
		if self.failed {
			return false;
		}
		self.probe(1);
		if self.rng.gen_range(0, 100) < 50 {
			// back to the first branch with one more block on its tip
			let tst = self.blocks[tip_a].state.clone();
			let lo = chunk_of(tst.size - 1) * NBITS;
			let sp = self.pick(&tst, lo, tst.size, 1);
			let gap = self.blocks[self.head].total_diff - self.blocks[tip_a].total_diff;
			let id = self.build_block(tip_a, &sp, 3, gap + 1);
			self.deliver(id, "shape_reorg_back");
		}
		!self.failed
	}

	/// Blocks the extension must refuse after having worked on the accumulator: one spending an output that
	/// is already spent (next to genuine spends in an old chunk), one whose header declares a wrong output
	/// MMR size (refused after apply_block completed). The committed state must stay as it was.
	fn directed_invalid(&mut self) -> bool {
		let st = self.blocks[self.head].state.clone();
		let lc = chunk_of(st.size - 1);
		let gone: Vec<u64> = (0..st.size).filter(|i| !st.uns.contains(i)).collect();
		let old = if lc == 0 { 0 } else { self.rng.gen_range(0, lc) };
		if !gone.is_empty() {
			let mut sp = self.pick(&st, old * NBITS, (old + 1) * NBITS, 2);
			sp.push(gone[self.rng.gen_range(0, gone.len())]);
			sp.sort_unstable();
			let n = self.rng.gen_range(1, 7);
			let id = self.build_block(self.head, &sp, n, BASE_DIFF);
			self.expect_reject = true;
			self.deliver(id, "refused_double_spend");
			self.expect_reject = false;
			if self.failed {
				return false;
			}
		}
		let sp = self.pick(&st, old * NBITS, (old + 1) * NBITS, 2);
		let n = self.rng.gen_range(1, 7);
		let id = self.build_block(self.head, &sp, n, BASE_DIFF);
		self.blocks[id].block.header.output_mmr_size += 1;
		self.expect_reject = true;
		self.deliver(id, "refused_wrong_size");
		self.expect_reject = false;
		if self.failed {
			return false;
		}
		// the next block leaves that chunk alone
		let lo = lc * NBITS;
		let k = self.rng.gen_range(0, 3);
		let sp = self.pick(&st, lo, st.size, k);
		let n = self.rng.gen_range(1, 7);
		self.extend_with(&sp, n, "after_refused")
	}

	/// A valid block on a losing fork whose state differs from the committed one in an old chunk (it spends
	/// there, or its rewind un-spends there), rolled back; then a main-chain block that leaves that chunk alone.
	fn directed_losing_fork(&mut self, variant: u32) -> bool {
		let st = self.blocks[self.head].state.clone();
		let lc = chunk_of(st.size - 1);
		if lc == 0 {
			return true;
		}
		let old = if self.rng.gen_range(0, 100) < 60 { 0 } else { self.rng.gen_range(0, lc) };
		if variant == 1 {
			// the head block spends in the old chunk, the fork block does not
			let k = self.rng.gen_range(1, 3);
			let sp = self.pick(&st, old * NBITS, (old + 1) * NBITS, k);
			let n = self.rng.gen_range(1, 7);
			if !self.extend_with(&sp, n, "losing_v1_head_spends_old_chunk") {
				return false;
			}
		}
		let path = self.path_to_root(self.head);
		let depth = if variant == 2 { 2 } else { 1 };
		if depth >= path.len() {
			return true;
		}
		let anc = path[depth];
		let ast = self.blocks[anc].state.clone();
		if chunk_of(ast.size - 1) == 0 {
			return true;
		}
		let gap = self.blocks[self.head].total_diff - self.blocks[anc].total_diff;
		if gap < 2 {
			return true; // no room to stay behind
		}
		let sp = if variant == 1 {
			let lo = chunk_of(ast.size - 1) * NBITS;
			self.pick(&ast, lo, ast.size, 1)
		} else {
			let k = self.rng.gen_range(1, 4);
			self.pick(&ast, old * NBITS, (old + 1) * NBITS, k)
		};
		let n = self.rng.gen_range(1, 7);
		let id = self.build_block(anc, &sp, n, gap - 1);
		self.deliver(id, &format!("losing_v{}", variant));
		if self.failed {
			return false;
		}
		// the next main-chain block leaves the old chunk alone
		let st = self.blocks[self.head].state.clone();
		let lo = chunk_of(st.size - 1) * NBITS;
		let k = self.rng.gen_range(0, 3);
		let sp = self.pick(&st, lo, st.size, k);
		let n = self.rng.gen_range(1, 7);
		if !self.extend_with(&sp, n, "after_losing_fork") {
			return false;
		}
		self.probe(1);
		!self.failed
	}
}

pub fn direct(args: &Args) -> i32 {
	global::set_local_chain_type(global::ChainTypes::Mainnet);
	let target = args.u64("outputs", 2300);
	let seed = args.u64("seed", 1);
	let dir = args.req("work").to_string();
	let _ = std::fs::remove_dir_all(&dir);
	std::fs::create_dir_all(&dir).unwrap();
	let kc = ExtKeychain::from_seed(&[7u8; 32], false).unwrap();
	// a genuine kernel (TxHashSet::open verifies the first kernel of the kernel MMR to pick its version)
	let (g_out, g_kern) = {
		let pb = ProofBuilder::new(&kc);
		reward::output(&kc, &pb, &ExtKeychainPath::new(3, 1, 0, 0, 0).to_identifier(), 0, false).unwrap()
	};
	let genesis = {
		let mut header = BlockHeader::default();
		header.output_mmr_size = 1;
		header.kernel_mmr_size = 1;
		header.pow.proof = Proof::new((0..global::proofsize() as u64).map(|j| j + 1).collect());
		let body = TransactionBody::init(Inputs::default(), &[g_out.clone()], &[g_kern.clone()], false).unwrap();
		Block { header, body }
	};
	let mut s = [0u8; 32];
	for (i, b) in seed.to_le_bytes().iter().enumerate() {
		s[i] = *b;
		s[31 - i] = b.wrapping_mul(29).wrapping_add(11);
	}
	s[16] = 0xd1;
	let node_dir = format!("{}/node", dir);
	let store = Arc::new(ChainStore::new(&node_dir, None).expect("chain store"));
	let ts = TxHashSet::open(node_dir.clone(), store.clone(), None).expect("txhashset");
	let hp: PMMRHandle<BlockHeader> =
		PMMRHandle::new(Path::new(&node_dir).join("header").join("header_head"), false, ProtocolVersion(1), None).expect("header pmmr");
	let mut st0 = DState { size: 1, uns: BTreeSet::new() };
	st0.uns.insert(0);
	let mut w = DWorld {
		dir: node_dir,
		store,
		hp,
		ts: Some(ts),
		blocks: vec![DBlk { block: genesis.clone(), parent: 0, height: 0, spent: vec![], total_diff: 0, state: st0.clone(), pmmr_root: None }],
		head: 0,
		kernel: g_kern,
		leaf_of: HashMap::new(),
		commit_of: HashMap::new(),
		next_commit: 1,
		roots: load_roots(args.req("roots")),
		out: NdWriter::create(args.req("out")),
		rng: SeedableRng::from_seed(s),
		failed: false,
		stats: HashMap::new(),
		max_chunks: 0,
		spend_chunks: BTreeSet::new(),
		stale_chunk: None,
		expect_reject: false,
		twin: None,
		twin_no: 0,
	};
	w.leaf_of.insert(g_out.commitment(), 0);
	w.commit_of.insert((0, 0), (OutputFeatures::Coinbase, g_out.commitment()));
	// what setup_head does for a new node
	{
		let store = w.store.clone();
		let hp = &mut w.hp;
		let ts = w.ts.as_mut().unwrap();
		let r = catch_unwind(AssertUnwindSafe(|| -> Result<(), ChainError> {
			let mut batch = store.batch()?;
			batch.save_block_header(&genesis.header)?;
			batch.save_block(&genesis)?;
			let tip = Tip::from_header(&genesis.header);
			batch.save_body_head(&tip)?;
			batch.save_header_head(&tip)?;
			batch.save_body_tail(&tip)?;
			txhashset::extending(hp, ts, &mut batch, |ext, batch| ext.extension.apply_block(&genesis, ext.header_extension, batch))?;
			batch.commit()?;
			Ok(())
		}));
		match r {
			Ok(Ok(())) => {}
			other => {
				eprintln!("direct: genesis set-up failed: {:?}", other.map_err(|_| "panic"));
				return 2;
			}
		}
	}
	let o = w.observe(&st0);
	w.put(json!({"k":"Init","size":1,"uns":[[0,0]]}), Some(o));

	let mut directed_done: BTreeSet<u64> = BTreeSet::new();
	let mut boundary_done: BTreeSet<u64> = BTreeSet::new();
	while !w.failed {
		let size = w.blocks[w.head].state.size;
		if size >= target {
			break;
		}
		let lc = chunk_of(size - 1);
		// the first time the last leaf sits well inside a new chunk: the directed shapes
		if lc >= 1 && size % NBITS >= 40 && !directed_done.contains(&lc) {
			directed_done.insert(lc);
			if !(w.directed_rewinds() && w.directed_losing_fork(0) && w.directed_losing_fork(1) && w.directed_losing_fork(2) && w.directed_invalid()) {
				break;
			}
			w.reopen();
			if !w.directed_rewinds() {
				break;
			}
			continue;
		}
		// approaching a chunk boundary: cross it with small blocks, reorganise back below it, cross it again
		let next_b = (lc + 1) * NBITS;
		if next_b - size <= 30 && !boundary_done.contains(&next_b) && next_b + 40 < target {
			boundary_done.insert(next_b);
			let before = w.head;
			let mut ok = true;
			while ok && w.blocks[w.head].state.size <= next_b + 3 {
				let n = w.rng.gen_range(1, 12);
				ok = w.extend_random(n, 6, "cross");
				w.probe(1);
			}
			// blocks whose only spend sits right at the boundary
			for t in [next_b - 1, next_b, next_b + 1] {
				if ok && w.blocks[w.head].state.uns.contains(&t) {
					ok = w.extend_with(&[t], 2, "single_spend_at_boundary");
					w.probe(1);
					w.probe(2);
				}
			}
			if !ok || w.failed {
				break;
			}
			let tip_a = w.head;
			let depth = w.path_to_root(w.head).iter().position(|x| *x == before).unwrap();
			// a short heavy branch that stays below the boundary
			let sp = w.random_spends(before, 4);
			let gap = w.blocks[w.head].total_diff - w.blocks[before].total_diff;
			let id = w.build_block(before, &sp, 2, gap + 1);
			w.deliver(id, "reorg_below_boundary");
			w.probe(1);
			w.reopen();
			while !w.failed && w.blocks[w.head].state.size <= next_b + 1 {
				let n = w.rng.gen_range(1, 9);
				w.extend_random(n, 6, "cross_again");
			}
			if w.failed {
				break;
			}
			// back to the first branch
			let gap = w.blocks[w.head].total_diff - w.blocks[tip_a].total_diff;
			let sp = w.random_spends(tip_a, 6);
			let id = w.build_block(tip_a, &sp, 5, gap + 1);
			w.deliver(id, "reorg_back");
			for dd in 1..=depth.min(6) {
				w.probe(dd);
			}
			continue;
		}
		let r = w.rng.gen_range(0, 100);
		if r < 58 {
			// growth: mostly small blocks, now and then a big one (never jumping over the boundary scenario)
			let room = (next_b - size).saturating_sub(20) as usize;
			let n_outs = if w.rng.gen_range(0, 100) < 25 && room > 60 {
				w.rng.gen_range(40, 320).min(room)
			} else {
				w.rng.gen_range(1, 12)
			};
			if !w.extend_random(n_outs, 9, "extend") {
				break;
			}
		} else if r < 64 {
			if !w.extend_with(&[], 1, "one_output") {
				break;
			}
		} else if r < 80 {
			let depth = w.rng.gen_range(1, 5);
			let n = w.rng.gen_range(1, depth + 2);
			let wins = w.rng.gen_range(0, 100) < 60;
			if !w.fork(depth, n, wins, if wins { "fork_wins" } else { "fork_loses" }) {
				break;
			}
		} else if r < 86 {
			w.reopen();
		} else if r < 93 && lc >= 1 {
			let v = w.rng.gen_range(0, 4);
			if !(if v == 3 { w.directed_invalid() } else { w.directed_losing_fork(v) }) {
				break;
			}
		} else if lc >= 1 {
			if !w.directed_rewinds() {
				break;
			}
		}
		if w.failed {
			break;
		}
		if w.rng.gen_range(0, 100) < 50 {
			w.probe(1);
		}
		if w.rng.gen_range(0, 100) < 35 {
			let maxd = w.path_to_root(w.head).len() - 1;
			if maxd >= 2 {
				let d = w.rng.gen_range(2, maxd.min(12) + 1);
				w.probe(d);
			}
		}
	}
	if !w.failed {
		let _ = w.directed_rewinds() && w.directed_losing_fork(0) && w.directed_losing_fork(1) && w.directed_losing_fork(2);
		w.reopen();
		// deep rewinds from the final head, down to every earlier chunk boundary
		if !w.failed {
			let path = w.path_to_root(w.head);
			let mut depths: BTreeSet<usize> = BTreeSet::new();
			let mut seen_chunks: BTreeSet<u64> = BTreeSet::new();
			for (d, x) in path.iter().enumerate() {
				let s = w.blocks[*x].state.size;
				if d > 0 && (s % NBITS < 12 || NBITS - (s % NBITS) <= 12) && seen_chunks.insert(s / NBITS * 2 + (s % NBITS < 12) as u64) {
					depths.insert(d);
				}
			}
			for _ in 0..5 {
				depths.insert(w.rng.gen_range(1, path.len()));
			}
			for d in depths {
				w.probe(d);
			}
		}
	}
	let st = w.blocks[w.head].state.clone();
	let n = w.out.n;
	let failed = w.failed;
	let nchunks_real = w.ts.as_ref().map(|_| w.max_chunks).unwrap_or(0);
	w.ts = None;
	let stats = json!({"mode": "direct", "events": n, "blocks": w.blocks.len() - 1, "outputs": st.size, "unspent": st.uns.len(),
		"height": w.blocks[w.head].height, "max_chunks": nchunks_real, "failed": failed,
		"chunks_with_spends": w.spend_chunks, "stats": w.stats});
	w.out.finish();
	drop(w.hp);
	drop(w.store);
	let _ = std::fs::remove_dir_all(&dir);
	println!("{}", stats);
	0
}
