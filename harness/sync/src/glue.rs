// Included twice by main.rs: once in `mod real` (p2p = the constants of grin_p2p) and once in `mod small`
// (MAX_LOCATORS = 4, MAX_BLOCK_HEADERS = 3, the constants of the exhaustive model configurations).
// It supplies what the extracted function texts (OUT_DIR/extracted.rs, see build.rs) refer to:
//   `self.chain()`, `self.chain`, `self.sync_state`, the module aliases `chain`, `core`, `p2p`, `Error`,
//   `Hash`, `BlockHeader`, `PeerInfo`, `SyncStatus`, and the log macros.
// HARNESS GLUE (not grin code): this file, and nothing else, stands in for NetToChainAdapter / HeaderSync.

#[allow(unused_imports)]
use grin_core::core;
#[allow(unused_imports)]
use grin_core::core::hash::{Hash, Hashed};
#[allow(unused_imports)]
use grin_core::core::BlockHeader;
#[allow(unused_imports)]
use grin_p2p::types::PeerInfo;
use std::sync::Arc;

#[allow(dead_code)]
mod chain {
	pub use grin_chain::*;
	/// `headers_received` passes `chain::Options::SYNC`. The headers of the harness carry no proof of work
	/// (as in grin's own fork tests), so the option set handed to `Chain::sync_block_headers` is
	/// SYNC | SKIP_POW. This is the only substitution made in the extracted text.
	pub struct Options;
	impl Options {
		pub const SYNC: grin_chain::Options = grin_chain::Options::from_bits_truncate(
			grin_chain::Options::SYNC.bits() | grin_chain::Options::SKIP_POW.bits(),
		);
	}
}
#[allow(unused_imports)]
use self::chain::{SyncState, SyncStatus};
#[allow(dead_code)]
type Error = grin_chain::Error;

/// Stand-in for the `self` of NetToChainAdapter (chain(), sync_state) and of HeaderSync (chain).
pub struct Node {
	pub chain: Arc<grin_chain::Chain>,
	pub sync_state: Arc<SyncState>,
}

impl Node {
	fn chain(&self) -> Arc<grin_chain::Chain> {
		self.chain.clone()
	}
}

impl crate::Proto for Node {
	fn make(chain: Arc<grin_chain::Chain>) -> Node {
		Node {
			chain,
			sync_state: Arc::new(SyncState::new()),
		}
	}
	fn consts() -> (u64, u64) {
		(p2p::MAX_LOCATORS as u64, p2p::MAX_BLOCK_HEADERS as u64)
	}
	fn chain_ref(&self) -> &Arc<grin_chain::Chain> {
		&self.chain
	}
	fn state_ref(&self) -> &Arc<SyncState> {
		&self.sync_state
	}
	fn heights(h: u64) -> Vec<u64> {
		get_locator_heights(h)
	}
	fn locator(&self, sync_head: grin_chain::Tip) -> Result<Vec<Hash>, grin_chain::Error> {
		self.get_locator(sync_head)
	}
	fn serve(&self, locator: &[Hash]) -> Result<Vec<BlockHeader>, grin_chain::Error> {
		self.locate_headers(locator)
	}
	fn receive(&self, bhs: &[BlockHeader], peer: &PeerInfo) -> Result<bool, grin_chain::Error> {
		self.headers_received(bhs, peer)
	}
}
