//! C10 engine `wire`: binds spec/Wire.tla (a format grammar) to the real encoders / decoders / hashes.
//!
//! Direction A only (pure functions): every TLC-emitted case (type, version, shape, layout, hash
//! layout, perturbed layouts) is instantiated several times with seeded leaf values;
//!  (a) the REAL value of that shape is constructed from the same leaf values,
//!  (b) the spec's layout is rendered to bytes by the small interpreter below,
//!  (c) ser_vec(x, v) must equal the rendering byte for byte, deserialize must give back an equal value
//!      and consume everything, re-serialisation must be identical, the identity hash must equal
//!      blake2b(render(hash layout)) and survive a round trip at every version,
//!  (d) every perturbed encoding must be refused (Err); a panic is a mismatch as well.
//! The harness never decides validity: expectations come from the specification.
use chrono::{DateTime, NaiveDate, Utc};
use grin_chain::txhashset::{BitmapChunk, BitmapSegment};
use grin_chain::types::{CommitPos, Tip};
use grin_core::core::hash::{Hash, Hashed};
use grin_core::core::pmmr::segment::{Segment, SegmentIdentifier, SegmentProof};
use grin_core::core::transaction::{
	CommitWrapper, FeeFields, Input, Inputs, KernelFeatures, NRDRelativeHeight, Output, OutputFeatures,
	OutputIdentifier, Transaction, TransactionBody, TxKernel,
};
use grin_core::core::{Block, BlockHeader, CompactBlock, HeaderVersion};
use grin_core::global::{self, ChainTypes};
use grin_core::pow::{Difficulty, Proof, ProofOfWork};
use grin_core::ser::{self, DeserializationMode, ProtocolVersion, Readable, Writeable};
use grin_keychain::BlindingFactor;
use grin_p2p::msg::{
	GetPeerAddrs, Hand, Headers, Locator, PeerAddrs, Ping, Pong, SegmentRequest, Shake, TxHashSetArchive,
	TxHashSetRequest,
};
use grin_p2p::types::{Capabilities, PeerAddr};
use grin_util::secp::pedersen::{Commitment, RangeProof};
use grin_util::secp::Signature;
use rand::rngs::StdRng;
use rand::seq::SliceRandom;
use rand::{Rng, SeedableRng};
use serde_json::{json, Value};
use std::collections::HashMap;
use std::convert::TryFrom;
use std::net::{Ipv4Addr, Ipv6Addr, SocketAddr, SocketAddrV4, SocketAddrV6};
use std::panic::{catch_unwind, AssertUnwindSafe};
use vcommon::*;

const VERSIONS: [u32; 4] = [1, 2, 3, 1000];
const V4MAPPED: &str = "V4MAPPED:";

fn main() {
	quiet_panics();
	let a: Vec<String> = std::env::args().skip(1).collect();
	let args = Args::parse(&a);
	let rc = match args.pos.get(0).map(|s| s.as_str()) {
		Some("replay") => replay(&args),
		Some("packcheck") => packcheck(&args),
		Some("probe") => probe(&args),
		_ => {
			eprintln!("wire replay|packcheck|probe");
			2
		}
	};
	std::process::exit(rc);
}

// ------------------------------------------------------------------------------------------
// leaf environment: symbolic leaves -> seeded concrete values (shared by the layout interpreter
// and the builders of the real values)

fn fnv(s: &str, seed: u64) -> u64 {
	let mut h: u64 = 0xcbf29ce484222325 ^ seed.wrapping_mul(0x9E3779B97F4A7C15);
	for b in s.bytes() {
		h ^= b as u64;
		h = h.wrapping_mul(0x100000001b3);
	}
	h
}

struct Env {
	seed: u64,
	nums: HashMap<String, u64>,
	bytes: HashMap<String, Vec<u8>>,
}

fn ts_max() -> i64 {
	NaiveDate::MAX.and_hms_opt(0, 0, 0).unwrap().and_utc().timestamp()
}
fn ts_min() -> i64 {
	NaiveDate::MIN.and_hms_opt(0, 0, 0).unwrap().and_utc().timestamp()
}

fn width(k: &str) -> u32 {
	match k {
		"u8" => 8,
		"u16" => 16,
		"u32" => 32,
		"u64" | "i64" => 64,
		_ => panic!("harness: bad numeric kind {}", k),
	}
}

impl Env {
	fn new(seed: u64) -> Env {
		Env {
			seed,
			nums: HashMap::new(),
			bytes: HashMap::new(),
		}
	}
	fn rng(&self, key: &str) -> StdRng {
		StdRng::seed_from_u64(fnv(key, self.seed))
	}
	fn num(&mut self, sym: &str, k: &str, cls: &str) -> u64 {
		let key = format!("{}|{}|{}", sym, k, cls);
		if let Some(v) = self.nums.get(&key) {
			return *v;
		}
		let mut r = self.rng(&key);
		let w = width(k);
		let mask = if w == 64 { u64::MAX } else { (1u64 << w) - 1 };
		let v = match cls {
			"any" => r.gen::<u64>() & mask,
			"zero" => 0,
			"max" => mask,
			"fee_min" => 1,
			"fee_any" => ((r.gen::<u64>() & 15) << 40) | (1 + r.gen::<u64>() % ((1u64 << 40) - 1)),
			"fee_max" => u64::MAX,
			"rel_one" => 1,
			"rel_any" => 2 + r.gen::<u64>() % 10078,
			"rel_week" => 10080,
			"rel_zero" => 0,
			"rel_over" => 10081 + r.gen::<u64>() % 1000,
			"caps" => r.gen::<u64>() & 0x7f,
			"h7" => 7,
			"ts_any" => r.gen::<u64>() % 4_000_000_000,
			"ts_zero" => 0,
			"ts_max" => ts_max() as u64,
			"ts_min" => ts_min() as u64,
			_ => panic!("harness: unknown number class {}", cls),
		};
		self.nums.insert(key, v);
		v
	}
	fn set_num(&mut self, sym: &str, k: &str, cls: &str, v: u64) {
		self.nums.insert(format!("{}|{}|{}", sym, k, cls), v);
	}
	fn bytes(&mut self, sym: &str, n: usize, cls: &str) -> Vec<u8> {
		let key = format!("{}|{}", sym, n);
		if let Some(v) = self.bytes.get(&key) {
			return v.clone();
		}
		let mut r = self.rng(&key);
		let mut v: Vec<u8> = (0..n).map(|_| r.gen::<u8>()).collect();
		match cls {
			"ascii" => {
				for b in v.iter_mut() {
					*b = 0x20 + (*b % 0x5f);
				}
			}
			"ip6_native" => {
				v[0] = 0x20;
				v[1] = 0x01;
			}
			"ip6_mapped" => {
				for b in v.iter_mut().take(10) {
					*b = 0;
				}
				v[10] = 0xff;
				v[11] = 0xff;
				v[12] |= 1;
			}
			_ => {}
		}
		self.bytes.insert(key, v.clone());
		v
	}
	fn set_bytes(&mut self, sym: &str, v: Vec<u8>) {
		self.bytes.insert(format!("{}|{}", sym, v.len()), v);
	}
	fn nonces(&mut self, sym: &str, w: u32, cnt: usize, cls: &str) -> Vec<u64> {
		let mut r = self.rng(&format!("{}|nonces|{}|{}", sym, w, cnt));
		let mask = if w == 64 { u64::MAX } else { (1u64 << w) - 1 };
		(0..cnt)
			.map(|_| match cls {
				"zero" => 0,
				"ones" => mask,
				_ => r.gen::<u64>() & mask,
			})
			.collect()
	}
	/// npos distinct positions below nbits, ascending
	fn bitset(&mut self, sym: &str, nbits: usize, npos: usize) -> Vec<u32> {
		let mut r = self.rng(&format!("{}|bits|{}|{}", sym, nbits, npos));
		let mut all: Vec<u32> = (0..nbits as u32).collect();
		all.shuffle(&mut r);
		all.truncate(npos);
		all.sort_unstable();
		all
	}
}

// ------------------------------------------------------------------------------------------
// the layout interpreter (semantics of the leaves of Wire.tla)

fn b2b(data: &[u8]) -> Vec<u8> {
	blake2::blake2b::blake2b(32, &[], data).as_bytes().to_vec()
}

fn st<'a>(v: &'a Value, f: &str) -> &'a str {
	v[f].as_str().unwrap_or_else(|| panic!("harness: field {} missing in {}", f, v))
}
fn un(v: &Value, f: &str) -> u64 {
	v[f].as_u64().unwrap_or_else(|| panic!("harness: int field {} missing in {}", f, v))
}

fn be(k: &str, v: u64, out: &mut Vec<u8>) {
	match k {
		"u8" => out.push(v as u8),
		"u16" => out.extend_from_slice(&(v as u16).to_be_bytes()),
		"u32" => out.extend_from_slice(&(v as u32).to_be_bytes()),
		"u64" | "i64" => out.extend_from_slice(&v.to_be_bytes()),
		_ => panic!("harness: bad kind {}", k),
	}
}

/// cnt numbers of w bits, LSB first, concatenated into one bit string; bit i of the string is bit (i%8) of byte i/8
fn pack_bits(w: u32, vals: &[u64], pad_one_at: Option<usize>) -> Vec<u8> {
	let nbits = w as usize * vals.len();
	let mut out = vec![0u8; (nbits + 7) / 8];
	for (i, v) in vals.iter().enumerate() {
		for j in 0..w as usize {
			if (v >> j) & 1 == 1 {
				let p = i * w as usize + j;
				out[p / 8] |= 1 << (p % 8);
			}
		}
	}
	if let Some(q) = pad_one_at {
		let p = nbits + q;
		out[p / 8] |= 1 << (p % 8);
	}
	out
}

fn render(lay: &Value, env: &mut Env, out: &mut Vec<u8>) {
	for l in lay.as_array().expect("layout array") {
		render_leaf(l, env, out);
	}
}

fn render_leaf(l: &Value, env: &mut Env, out: &mut Vec<u8>) {
	let k = st(l, "k");
	match k {
		"u8" | "u16" | "u32" | "u64" | "i64" => {
			let v = if let Some(v) = l.get("v") {
				v.as_u64().expect("literal")
			} else {
				env.num(st(l, "sym"), k, st(l, "cls"))
			};
			be(k, v, out);
		}
		"bytes" => {
			let cls = l.get("cls").and_then(|c| c.as_str()).unwrap_or("");
			let b = env.bytes(st(l, "sym"), un(l, "n") as usize, cls);
			out.extend_from_slice(&b);
		}
		"zeros" => out.extend(std::iter::repeat(0u8).take(un(l, "n") as usize)),
		"nonzero" => {
			let n = un(l, "n") as usize;
			let mut r = env.rng(&format!("nonzero|{}|{}", n, out.len()));
			let mut z = vec![0u8; n];
			let i = r.gen::<usize>() % n;
			z[i] = 1 + r.gen::<u8>() % 255;
			out.extend_from_slice(&z);
		}
		"bitpack" => {
			let w = un(l, "w") as u32;
			let cnt = un(l, "cnt") as usize;
			let vals = env.nonces(st(l, "sym"), w, cnt, st(l, "cls"));
			let pad = if st(l, "pad") == "nonzero" {
				let pb = un(l, "padbits") as usize;
				let mut r = env.rng(&format!("pad|{}|{}", w, cnt));
				Some(r.gen::<usize>() % pb)
			} else {
				None
			};
			out.extend_from_slice(&pack_bits(w, &vals, pad));
		}
		"sorted" => {
			let items = l["items"].as_array().expect("items");
			let mut keyed: Vec<(Vec<u8>, Vec<u8>)> = items
				.iter()
				.map(|it| {
					let mut kb = vec![];
					render(&it["key"], env, &mut kb);
					let mut bb = vec![];
					render(&it["body"], env, &mut bb);
					(b2b(&kb), bb)
				})
				.collect();
			keyed.sort_by(|a, b| a.0.cmp(&b.0));
			let op = l["op"][0].as_str().unwrap();
			let i = l["op"][1].as_u64().unwrap() as usize;
			match op {
				"swap" => keyed.swap(i - 1, i),
				"dup" => keyed[i] = keyed[i - 1].clone(),
				_ => {}
			}
			for (_, b) in keyed {
				out.extend_from_slice(&b);
			}
		}
		"bitidx" => {
			let nbits = un(l, "nbits") as usize;
			let set = env.bitset(st(l, "sym"), nbits, un(l, "npos") as usize);
			let list: Vec<u32> = if l["neg"].as_bool().unwrap() {
				let mut inset = vec![false; nbits];
				for p in &set {
					inset[*p as usize] = true;
				}
				(0..nbits as u32).filter(|p| !inset[*p as usize]).collect()
			} else {
				set
			};
			for (j, p) in list.iter().enumerate() {
				let v = if j == 0 && l["oob"].as_bool().unwrap() { nbits as u32 } else { *p };
				out.extend_from_slice(&(v as u16).to_be_bytes());
			}
		}
		"bitraw" => {
			let nbits = un(l, "nbits") as usize;
			let set = env.bitset(st(l, "sym"), nbits, un(l, "npos") as usize);
			let mut b = vec![0u8; nbits / 8];
			for p in set {
				b[p as usize / 8] |= 0x80 >> (p % 8); // bit 0 is the most significant bit of byte 0
			}
			out.extend_from_slice(&b);
		}
		_ => panic!("harness: unknown leaf kind {}", k),
	}
}

fn rendered(lay: &Value, env: &mut Env) -> Vec<u8> {
	let mut out = vec![];
	render(lay, env, &mut out);
	out
}

// ------------------------------------------------------------------------------------------
// builders of the real values from the abstract values of the specification

fn nv(env: &mut Env, v: &Value, k: &str) -> u64 {
	env.num(st(v, "sym"), k, st(v, "cls"))
}
fn commit(env: &mut Env, sym: &str) -> Commitment {
	Commitment::from_vec(env.bytes(sym, 33, ""))
}
fn hash32(env: &mut Env, sym: &str) -> Hash {
	Hash::from_vec(&env.bytes(sym, 32, ""))
}
fn fee_of(raw: u64) -> FeeFields {
	// FeeFields has no raw constructor; its serde visitor accepts any u64 (that is what the reader accepts too)
	serde_json::from_str::<FeeFields>(&format!("\"{}\"", raw)).expect("fee fields")
}
fn diff(raw: u64) -> Difficulty {
	// Difficulty::from_num clamps 0 to 1; the reader accepts any u64, so does the serde visitor used here
	serde_json::from_str::<Difficulty>(&format!("{}", raw)).expect("difficulty")
}
fn features(f: u64) -> OutputFeatures {
	if f == 1 {
		OutputFeatures::Coinbase
	} else {
		OutputFeatures::Plain
	}
}

fn b_kf(env: &mut Env, v: &Value) -> KernelFeatures {
	match st(v, "t") {
		"Plain" => KernelFeatures::Plain {
			fee: fee_of(nv(env, &v["fee"], "u64")),
		},
		"Coinbase" => KernelFeatures::Coinbase,
		"HeightLocked" => KernelFeatures::HeightLocked {
			fee: fee_of(nv(env, &v["fee"], "u64")),
			lock_height: nv(env, &v["lock"], "u64"),
		},
		"NRD" => KernelFeatures::NoRecentDuplicate {
			fee: fee_of(nv(env, &v["fee"], "u64")),
			relative_height: NRDRelativeHeight::try_from(nv(env, &v["rel"], "u16")).expect("relative height"),
		},
		t => panic!("harness: kernel variant {}", t),
	}
}
fn b_kern(env: &mut Env, v: &Value) -> TxKernel {
	let sig = env.bytes(st(v, "sig"), 64, "");
	let mut s = [0u8; 64];
	s.copy_from_slice(&sig);
	TxKernel {
		features: b_kf(env, &v["feat"]),
		excess: commit(env, st(v, "excess")),
		excess_sig: Signature::from_raw_data(&s).expect("sig"),
	}
}
fn b_outid(env: &mut Env, v: &Value) -> OutputIdentifier {
	OutputIdentifier {
		features: features(un(v, "f")),
		commit: commit(env, st(v, "c")),
	}
}
fn b_output(env: &mut Env, v: &Value) -> Output {
	let p = env.bytes(st(v, "proof"), 675, "");
	let mut proof = [0u8; 675];
	proof.copy_from_slice(&p);
	Output {
		identifier: b_outid(env, v),
		proof: RangeProof { proof, plen: 675 },
	}
}

/// indices of `keys` in ascending order of blake2b(render(key)): the spec's order, computed without the code's Ord
fn key_order(env: &mut Env, keys: &Value) -> Vec<usize> {
	let ks: Vec<Vec<u8>> = keys
		.as_array()
		.expect("keys")
		.iter()
		.map(|k| b2b(&rendered(k, env)))
		.collect();
	let mut idx: Vec<usize> = (0..ks.len()).collect();
	idx.sort_by(|a, b| ks[*a].cmp(&ks[*b]));
	idx
}

fn b_body(env: &mut Env, v: &Value, keys: &Value) -> TransactionBody {
	let items = v["inputs"]["items"].as_array().unwrap();
	let ord = key_order(env, &keys["inputs"]);
	let inputs = if st(&v["inputs"], "var") == "FC" {
		let xs: Vec<Input> = ord
			.iter()
			.map(|i| Input::new(features(un(&items[*i], "f")), commit(env, st(&items[*i], "c"))))
			.collect();
		Inputs::FeaturesAndCommit(xs)
	} else {
		let xs: Vec<CommitWrapper> = ord.iter().map(|i| commit(env, st(&items[*i], "c")).into()).collect();
		Inputs::CommitOnly(xs)
	};
	let outs = v["outputs"].as_array().unwrap();
	let outputs: Vec<Output> = key_order(env, &keys["outputs"]).iter().map(|i| b_output(env, &outs[*i])).collect();
	let ks = v["kernels"].as_array().unwrap();
	let kernels: Vec<TxKernel> = key_order(env, &keys["kernels"]).iter().map(|i| b_kern(env, &ks[*i])).collect();
	TransactionBody {
		inputs,
		outputs,
		kernels,
	}
}

fn b_proof(env: &mut Env, v: &Value) -> Proof {
	let eb = un(v, "eb") as u32;
	Proof {
		edge_bits: eb as u8,
		nonces: env.nonces(st(&v["nonces"], "sym"), eb, un(v, "ps") as usize, st(&v["nonces"], "cls")),
	}
}
fn b_pow(env: &mut Env, v: &Value) -> ProofOfWork {
	ProofOfWork {
		total_difficulty: diff(nv(env, &v["td"], "u64")),
		secondary_scaling: nv(env, &v["ss"], "u32") as u32,
		nonce: nv(env, &v["nonce"], "u64"),
		proof: b_proof(env, &v["proof"]),
	}
}
fn b_header(env: &mut Env, v: &Value) -> BlockHeader {
	let ts = nv(env, &v["ts"], "i64") as i64;
	let dt: DateTime<Utc> = DateTime::<Utc>::from_timestamp(ts, 0).expect("timestamp in chrono range");
	BlockHeader {
		version: HeaderVersion(nv(env, &v["version"], "u16") as u16),
		height: nv(env, &v["height"], "u64"),
		prev_hash: hash32(env, st(v, "prev_hash")),
		prev_root: hash32(env, st(v, "prev_root")),
		timestamp: dt,
		output_root: hash32(env, st(v, "output_root")),
		range_proof_root: hash32(env, st(v, "range_proof_root")),
		kernel_root: hash32(env, st(v, "kernel_root")),
		total_kernel_offset: BlindingFactor::from_slice(&env.bytes(st(v, "total_kernel_offset"), 32, "")),
		output_mmr_size: nv(env, &v["oms"], "u64"),
		kernel_mmr_size: nv(env, &v["kms"], "u64"),
		pow: b_pow(env, &v["pow"]),
	}
}
fn b_addr(env: &mut Env, v: &Value) -> PeerAddr {
	let port = nv(env, &v["port"], "u16") as u16;
	if un(v, "fam") == 4 {
		let ip = env.bytes(st(v, "ip"), 4, "");
		PeerAddr(SocketAddr::V4(SocketAddrV4::new(Ipv4Addr::new(ip[0], ip[1], ip[2], ip[3]), port)))
	} else {
		let ip = env.bytes(st(v, "ip"), 16, st(v, "ipcls"));
		let mut a = [0u8; 16];
		a.copy_from_slice(&ip);
		PeerAddr(SocketAddr::V6(SocketAddrV6::new(Ipv6Addr::from(a), port, 0, 0)))
	}
}
fn b_segproof(env: &mut Env, syms: &Value) -> SegmentProof {
	// SegmentProof has no public constructor: obtained through its reader from count + hashes
	let hs = syms.as_array().unwrap();
	let mut bytes = (hs.len() as u64).to_be_bytes().to_vec();
	for h in hs {
		bytes.extend_from_slice(&env.bytes(h.as_str().unwrap(), 32, ""));
	}
	ser::deserialize::<SegmentProof, _>(&mut &bytes[..], ProtocolVersion(1), DeserializationMode::default()).expect("segment proof")
}
fn b_segid(env: &mut Env, v: &Value) -> SegmentIdentifier {
	SegmentIdentifier {
		height: nv(env, &v["height"], "u8") as u8,
		idx: nv(env, &v["idx"], "u64"),
	}
}
fn b_segment<T, F: Fn(&mut Env, &Value) -> T>(env: &mut Env, v: &Value, leaf: F) -> Segment<T> {
	let hashes: Vec<Hash> = v["hashes"].as_array().unwrap().iter().map(|h| hash32(env, h.as_str().unwrap())).collect();
	let leaves: Vec<T> = v["leaves"].as_array().unwrap().iter().map(|x| leaf(env, x)).collect();
	let u = |a: &Value| -> Vec<u64> { a.as_array().unwrap().iter().map(|x| x.as_u64().unwrap()).collect() };
	Segment::from_parts(
		b_segid(env, &v["id"]),
		u(&v["hpos"]),
		hashes,
		u(&v["lpos"]),
		leaves,
		b_segproof(env, &v["proof"]),
	)
}
fn b_bitmap_segment(env: &mut Env, v: &Value) -> BitmapSegment {
	let mut chunks: Vec<BitmapChunk> = vec![];
	let mut pos = vec![];
	for b in v["blocks"].as_array().unwrap() {
		let nch = un(b, "nch") as usize;
		let set = env.bitset(st(b, "sym"), nch * 1024, un(b, "npos") as usize);
		let base = chunks.len();
		for _ in 0..nch {
			pos.push(grin_core::core::pmmr::insertion_to_pmmr_index(chunks.len() as u64));
			chunks.push(BitmapChunk::new());
		}
		for p in set {
			chunks[base + p as usize / 1024].set((p % 1024) as u64, true);
		}
	}
	let seg = Segment::from_parts(b_segid(env, &v["id"]), vec![], vec![], pos, chunks, b_segproof(env, &v["proof"]));
	BitmapSegment::from(seg)
}

// ------------------------------------------------------------------------------------------
// the checks

struct Ctx<'a> {
	case: &'a Value,
	ver: u32,
	inst: u64,
	checks: u64,
	mism: Vec<Value>,
}

impl<'a> Ctx<'a> {
	fn bad(&mut self, what: &str, cls: &str, detail: String) {
		if self.mism.len() < 12 {
			self.mism.push(json!({"what": what, "cls": cls, "inst": self.inst, "detail": detail}));
		}
	}
}

fn hex(b: &[u8]) -> String {
	let n = b.len().min(96);
	let mut s: String = b[..n].iter().map(|x| format!("{:02x}", x)).collect();
	if b.len() > n {
		s.push_str("..");
	}
	s
}
fn first_diff(a: &[u8], b: &[u8]) -> String {
	let n = a.len().min(b.len());
	let i = (0..n).find(|i| a[*i] != b[*i]).unwrap_or(n);
	let lo = i.saturating_sub(4);
	format!(
		"len real={} spec={} first difference at byte {}: real ..{} spec ..{}",
		a.len(),
		b.len(),
		i,
		hex(&a[lo..a.len().min(i + 24)]),
		hex(&b[lo..b.len().min(i + 24)])
	)
}

fn de<T: Readable>(bytes: &[u8], ver: u32) -> Result<Result<(T, usize), ser::Error>, ()> {
	catch_unwind(AssertUnwindSafe(|| {
		let mut rd = bytes;
		let r = ser::deserialize::<T, _>(&mut rd, ProtocolVersion(ver), DeserializationMode::default());
		r.map(|y| (y, rd.len()))
	}))
	.map_err(|_| ())
}
fn enc<T: Writeable>(x: &T, ver: u32) -> Result<Result<Vec<u8>, ser::Error>, ()> {
	catch_unwind(AssertUnwindSafe(|| ser::ser_vec(x, ProtocolVersion(ver)))).map_err(|_| ())
}

/// eq(x, y, ver): None when y is the value a round trip of x at `ver` must give
fn check<T, E, H>(ctx: &mut Ctx, env: &mut Env, x: &T, eq: E, hashf: Option<H>)
where
	T: Writeable + Readable,
	E: Fn(&T, &T, u32, &mut Env) -> Option<String>,
	H: Fn(&T) -> Hash,
{
	let case = ctx.case;
	let ver = ctx.ver;
	let writable = case["writable"].as_bool().unwrap();
	ctx.checks += 1;
	let real = match enc(x, ver) {
		Err(()) => {
			ctx.bad("write_panic", "", "serialisation panicked".into());
			return;
		}
		Ok(Err(e)) => {
			if writable {
				ctx.bad("write_error", "", format!("{:?}", e));
			}
			return;
		}
		Ok(Ok(b)) => b,
	};
	if !writable {
		ctx.bad("write_unsupported_accepted", "", "value is not writable at this version per the spec".into());
		return;
	}
	// (b)/(c) layout, byte for byte
	let spec = rendered(&case["lay"], env);
	ctx.checks += 1;
	if real != spec {
		ctx.bad("layout", "", first_diff(&real, &spec));
	}
	// identity hash = blake2b of the hashing-form layout
	let hx = hashf.as_ref().map(|h| h(x));
	if let Some(hx) = &hx {
		let want = b2b(&rendered(&case["hlay"], env));
		ctx.checks += 1;
		if hx.as_bytes()[..] != want[..] {
			ctx.bad("hash_layout", "", format!("hash() {} but blake2b(hash layout) {}", hex(hx.as_bytes()), hex(&want)));
		}
	}
	if !case["decodable"].as_bool().unwrap() {
		return;
	}
	let readable = case["readable"].as_bool().unwrap();
	ctx.checks += 1;
	match de::<T>(&real, ver) {
		Err(()) => {
			ctx.bad("read_panic", "", "deserialisation of own encoding panicked".into());
			return;
		}
		Ok(Err(e)) => {
			if readable {
				ctx.bad("read_error", "", format!("own encoding refused: {:?}", e));
			}
			return;
		}
		Ok(Ok((y, left))) => {
			if !readable {
				ctx.bad("read_accepted_unreadable", "", "spec says this encoding is refused".into());
				return;
			}
			if left != 0 {
				ctx.bad("trailing", "", format!("{} bytes not consumed", left));
			}
			ctx.checks += 1;
			if let Some(d) = eq(x, &y, ver, env) {
				if d.starts_with(V4MAPPED) {
					// the differing re-encodings are consequences of this one normalisation: reported once
					ctx.bad("value", "v4_mapped_to_v4", d[V4MAPPED.len()..].to_string());
					return;
				}
				ctx.bad("value", "", d);
			}
			ctx.checks += 1;
			match enc(&y, ver) {
				Ok(Ok(b2)) => {
					if b2 != real {
						ctx.bad("reencode", "", first_diff(&b2, &real));
					}
				}
				_ => ctx.bad("reencode", "", "re-serialisation failed".into()),
			}
			if let (Some(h), Some(hx)) = (hashf.as_ref(), hx.as_ref()) {
				ctx.checks += 1;
				if h(&y) != *hx {
					ctx.bad("hash_roundtrip", "", format!("hash changed by a round trip at v{}", ver));
				}
			}
			// the decoded value re-encodes like the original at every other version that can carry both
			for v2 in VERSIONS.iter() {
				if let (Ok(Ok(a)), Ok(Ok(b))) = (enc(x, *v2), enc(&y, *v2)) {
					ctx.checks += 1;
					if a != b {
						ctx.bad("cross_version", "", format!("decoded at v{} then written at v{}: {}", ver, v2, first_diff(&b, &a)));
					}
				}
			}
		}
	}
	// stored / transmitted at every version: same identity hash
	if let (Some(h), Some(hx)) = (hashf.as_ref(), hx.as_ref()) {
		for v2 in VERSIONS.iter() {
			if *v2 == ver {
				continue;
			}
			if let Ok(Ok(e2)) = enc(x, *v2) {
				if let Ok(Ok((y2, _))) = de::<T>(&e2, *v2) {
					ctx.checks += 1;
					if h(&y2) != *hx {
						ctx.bad("hash_version", "", format!("hash after storing at v{} differs", v2));
					}
				}
			}
		}
	}
	// (d) canonical-form perturbations are refused
	for p in case["perts"].as_array().unwrap() {
		let cls = st(p, "cls");
		let pb = rendered(&p["lay"], env);
		if pb == spec {
			ctx.bad("harness_perturbation_noop", cls, "perturbed rendering equals the original".into());
			continue;
		}
		ctx.checks += 1;
		match de::<T>(&pb, ver) {
			Err(()) => ctx.bad("panic", cls, format!("decoder panicked on {}", hex(&pb))),
			Ok(Ok((y, left))) => {
				let again = enc(&y, ver).ok().and_then(|r| r.ok()).map(|b| hex(&b)).unwrap_or_default();
				ctx.bad(
					"accepted",
					cls,
					format!("non-canonical encoding accepted ({} bytes left); bytes {} re-encode as {}", left, hex(&pb), again),
				)
			}
			Ok(Err(_)) => {}
		}
	}
	if case["nrdoff"].as_bool().unwrap() {
		global::set_local_nrd_enabled(false);
		let r = de::<T>(&real, ver);
		global::set_local_nrd_enabled(true);
		ctx.checks += 1;
		match r {
			Err(()) => ctx.bad("panic", "nrd_disabled", "decoder panicked".into()),
			Ok(Ok(_)) => ctx.bad("accepted", "nrd_disabled", "NRD kernel accepted with the feature flag off".into()),
			Ok(Err(_)) => {}
		}
	}
}

fn no_hash<T>() -> Option<fn(&T) -> Hash> {
	None
}
fn peq<T: PartialEq + std::fmt::Debug>(x: &T, y: &T) -> Option<String> {
	if x == y {
		None
	} else {
		Some(format!("decoded {:?} expected {:?}", y, x).chars().take(600).collect())
	}
}

/// what a round trip at `ver` preserves of the inputs: compared by commitment where the version omits features
fn norm_body(b: &TransactionBody, ver: u32) -> TransactionBody {
	let mut n = b.clone();
	if ver <= 2 {
		if let Inputs::CommitOnly(c) = &b.inputs {
			assert!(c.is_empty());
			n.inputs = Inputs::FeaturesAndCommit(vec![]);
		}
	} else {
		let mut cs: Vec<Commitment> = match &b.inputs {
			Inputs::CommitOnly(c) => c.iter().map(|w| w.commitment()).collect(),
			Inputs::FeaturesAndCommit(i) => i.iter().map(|w| w.commitment()).collect(),
		};
		cs.sort_by_key(|c| b2b(&c.0)); // CommitWrapper order = order of blake2b(commitment)
		n.inputs = Inputs::CommitOnly(cs.into_iter().map(|c| c.into()).collect());
	}
	n
}
fn body_eq(x: &TransactionBody, y: &TransactionBody, ver: u32) -> Option<String> {
	let n = norm_body(x, ver);
	if n != *y {
		return Some(format!("body differs: decoded inputs {:?} expected {:?}", y.inputs, n.inputs).chars().take(600).collect());
	}
	for (a, b) in n.outputs.iter().zip(y.outputs.iter()) {
		if a.proof != b.proof {
			return Some("range proof bytes differ".into());
		}
	}
	None
}

fn flat_u64(env: &mut Env, v: &Value, f: &str, k: &str) -> u64 {
	nv(env, &v[f], k)
}

fn run_case(case: &Value, seed: u64, inst: u64) -> (u64, Vec<Value>) {
	let mut env = Env::new(seed.wrapping_mul(1_000_003).wrapping_add(inst));
	let ver = un(case, "ver") as u32;
	let mut ctx = Ctx {
		case,
		ver,
		inst,
		checks: 0,
		mism: vec![],
	};
	let chain = if st(&case["g"], "chain") == "main" { ChainTypes::Mainnet } else { ChainTypes::AutomatedTesting };
	global::set_local_chain_type(chain);
	global::set_local_nrd_enabled(case["g"]["nrd"].as_bool().unwrap());
	let v = &case["val"];
	let keys = &case["keys"];
	let e = &mut env;
	let c = &mut ctx;
	match st(case, "ty") {
		"KernelFeatures" => {
			let x = b_kf(e, v);
			check(c, e, &x, |a, b, _, _| peq(a, b), no_hash());
		}
		"TxKernel" => {
			let x = b_kern(e, v);
			check(
				c,
				e,
				&x,
				|a: &TxKernel, b: &TxKernel, _, _| {
					if a.features == b.features && a.excess == b.excess && a.excess_sig == b.excess_sig && a == b {
						None
					} else {
						Some(format!("decoded {:?} expected {:?}", b, a))
					}
				},
				Some(|k: &TxKernel| k.hash()),
			);
		}
		"Input" => {
			let o = b_outid(e, v);
			let x = Input::new(o.features, o.commit);
			check(
				c,
				e,
				&x,
				|a: &Input, b: &Input, _, _| if a.features == b.features && a.commit == b.commit { None } else { Some(format!("{:?} vs {:?}", b, a)) },
				Some(|k: &Input| k.hash()),
			);
		}
		"OutputIdentifier" => {
			let x = b_outid(e, v);
			check(
				c,
				e,
				&x,
				|a: &OutputIdentifier, b: &OutputIdentifier, _, _| {
					if a.features == b.features && a.commit == b.commit {
						None
					} else {
						Some(format!("{:?} vs {:?}", b, a))
					}
				},
				Some(|k: &OutputIdentifier| k.hash()),
			);
		}
		"Output" => {
			let x = b_output(e, v);
			check(
				c,
				e,
				&x,
				|a: &Output, b: &Output, _, _| {
					if a.identifier.features == b.identifier.features && a.identifier.commit == b.identifier.commit && a.proof == b.proof && a.proof.plen == b.proof.plen {
						None
					} else {
						Some("output differs".into())
					}
				},
				Some(|k: &Output| k.identifier.hash()),
			);
		}
		"TransactionBody" => {
			let x = b_body(e, v, keys);
			check(c, e, &x, |a, b, ver, _| body_eq(a, b, ver), no_hash());
		}
		"Transaction" => {
			let x = Transaction {
				offset: BlindingFactor::from_slice(&e.bytes(st(v, "offset"), 32, "")),
				body: b_body(e, &v["body"], keys),
			};
			check(
				c,
				e,
				&x,
				|a: &Transaction, b: &Transaction, ver, _| if a.offset != b.offset { Some("offset differs".into()) } else { body_eq(&a.body, &b.body, ver) },
				no_hash(),
			);
		}
		"Proof" => {
			let x = b_proof(e, v);
			check(c, e, &x, |a, b, _, _| peq(a, b), Some(|p: &Proof| p.hash()));
		}
		"ProofOfWork" => {
			let x = b_pow(e, v);
			check(c, e, &x, |a, b, _, _| peq(a, b), no_hash());
		}
		"BlockHeader" => {
			let x = b_header(e, v);
			check(c, e, &x, |a, b, _, _| peq(a, b), Some(|h: &BlockHeader| h.hash()));
		}
		"Block" => {
			let x = Block {
				header: b_header(e, &v["header"]),
				body: b_body(e, &v["body"], keys),
			};
			check(
				c,
				e,
				&x,
				|a: &Block, b: &Block, ver, _| if a.header != b.header { Some("header differs".into()) } else { body_eq(&a.body, &b.body, ver) },
				Some(|b: &Block| b.hash()),
			);
		}
		"CompactBlock" => {
			// only constructible from a block: coinbase outputs / kernels stay full, the others become short ids;
			// the random nonce and the derived short ids are bound to the spec's symbols afterwards
			let header = b_header(e, &v["header"]);
			let outs: Vec<Output> = v["out_full"].as_array().unwrap().iter().map(|o| b_output(e, o)).collect();
			let mut kerns: Vec<TxKernel> = v["kern_full"].as_array().unwrap().iter().map(|k| b_kern(e, k)).collect();
			let nid = v["kern_ids"].as_array().unwrap().len();
			for j in 0..nid {
				let kv = json!({"feat": {"t": "Plain", "fee": {"sym": format!("pk{}.fee", j), "cls": "fee_any"}}, "excess": format!("pk{}.ex", j), "sig": format!("pk{}.sig", j)});
				kerns.push(b_kern(e, &kv));
			}
			let body = TransactionBody::init(Inputs::default(), &outs, &kerns, false).expect("body");
			let cb: CompactBlock = Block { header, body }.into();
			e.set_num(st(&v["nonce"], "sym"), "u64", st(&v["nonce"], "cls"), cb.nonce);
			for (j, id) in cb.kern_ids().iter().enumerate() {
				let sym = st(&v["kern_ids"][j], "id").to_string();
				e.set_bytes(&sym, id.as_ref().to_vec());
			}
			check(
				c,
				e,
				&cb,
				|a: &CompactBlock, b: &CompactBlock, _, _| {
					if a.header != b.header {
						return Some("header differs".into());
					}
					if a.nonce != b.nonce {
						return Some("nonce differs".into());
					}
					if a.out_full() != b.out_full() || a.out_full().iter().zip(b.out_full()).any(|(p, q)| p.proof != q.proof) {
						return Some("out_full differs".into());
					}
					if a.kern_full() != b.kern_full() {
						return Some("kern_full differs".into());
					}
					if a.kern_ids().iter().map(|i| i.as_ref().to_vec()).collect::<Vec<_>>() != b.kern_ids().iter().map(|i| i.as_ref().to_vec()).collect::<Vec<_>>() {
						return Some("kern_ids differ".into());
					}
					None
				},
				Some(|b: &CompactBlock| b.hash()),
			);
		}
		"Tip" => {
			let x = Tip {
				height: flat_u64(e, v, "height", "u64"),
				last_block_h: hash32(e, st(v, "last_block_h")),
				prev_block_h: hash32(e, st(v, "prev_block_h")),
				total_difficulty: diff(flat_u64(e, v, "total_difficulty", "u64")),
			};
			check(c, e, &x, |a, b, _, _| peq(a, b), no_hash());
		}
		"CommitPos" => {
			let x = CommitPos {
				pos: flat_u64(e, v, "pos", "u64"),
				height: flat_u64(e, v, "height", "u64"),
			};
			check(c, e, &x, |a: &CommitPos, b: &CommitPos, _, _| if a.pos == b.pos && a.height == b.height { None } else { Some("differs".into()) }, no_hash());
		}
		"Ping" => {
			let x = Ping {
				total_difficulty: diff(flat_u64(e, v, "total_difficulty", "u64")),
				height: flat_u64(e, v, "height", "u64"),
			};
			check(c, e, &x, |a: &Ping, b: &Ping, _, _| if a.total_difficulty == b.total_difficulty && a.height == b.height { None } else { Some("differs".into()) }, no_hash());
		}
		"Pong" => {
			let x = Pong {
				total_difficulty: diff(flat_u64(e, v, "total_difficulty", "u64")),
				height: flat_u64(e, v, "height", "u64"),
			};
			check(c, e, &x, |a: &Pong, b: &Pong, _, _| if a.total_difficulty == b.total_difficulty && a.height == b.height { None } else { Some("differs".into()) }, no_hash());
		}
		"GetPeerAddrs" => {
			let x = GetPeerAddrs {
				capabilities: Capabilities::from_bits_truncate(flat_u64(e, v, "capabilities", "u32") as u32),
			};
			check(c, e, &x, |a: &GetPeerAddrs, b: &GetPeerAddrs, _, _| if a.capabilities == b.capabilities { None } else { Some("differs".into()) }, no_hash());
		}
		"TxHashSetRequest" => {
			let x = TxHashSetRequest {
				hash: hash32(e, st(v, "hash")),
				height: flat_u64(e, v, "height", "u64"),
			};
			check(c, e, &x, |a: &TxHashSetRequest, b: &TxHashSetRequest, _, _| if a.hash == b.hash && a.height == b.height { None } else { Some("differs".into()) }, no_hash());
		}
		"TxHashSetArchive" => {
			let x = TxHashSetArchive {
				hash: hash32(e, st(v, "hash")),
				height: flat_u64(e, v, "height", "u64"),
				bytes: flat_u64(e, v, "bytes", "u64"),
			};
			check(
				c,
				e,
				&x,
				|a: &TxHashSetArchive, b: &TxHashSetArchive, _, _| if a.hash == b.hash && a.height == b.height && a.bytes == b.bytes { None } else { Some("differs".into()) },
				no_hash(),
			);
		}
		"SegmentIdentifier" => {
			let x = b_segid(e, v);
			check(c, e, &x, |a, b, _, _| peq(a, b), no_hash());
		}
		"SegmentRequest" => {
			let x = SegmentRequest {
				block_hash: hash32(e, st(v, "block_hash")),
				identifier: b_segid(e, v),
			};
			check(
				c,
				e,
				&x,
				|a: &SegmentRequest, b: &SegmentRequest, _, _| if a.block_hash == b.block_hash && a.identifier == b.identifier { None } else { Some("differs".into()) },
				no_hash(),
			);
		}
		"PeerAddr" => {
			let x = b_addr(e, v);
			check(
				c,
				e,
				&x,
				|a: &PeerAddr, b: &PeerAddr, _, _| {
					if a.0 == b.0 {
						return None;
					}
					// precisely: V6 [::ffff:a.b.c.d]:p decoded as V4 a.b.c.d:p (reported under its own class)
					if let (SocketAddr::V6(x6), SocketAddr::V4(y4)) = (a.0, b.0) {
						if x6.ip().to_ipv4_mapped() == Some(*y4.ip()) && x6.port() == y4.port() {
							return Some(format!("{}decoded {} expected {}", V4MAPPED, b.0, a.0));
						}
					}
					Some(format!("decoded {} expected {}", b.0, a.0))
				},
				no_hash(),
			);
		}
		"PeerAddrs" => {
			let x = PeerAddrs {
				peers: v["peers"].as_array().unwrap().iter().map(|p| b_addr(e, p)).collect(),
			};
			check(
				c,
				e,
				&x,
				|a: &PeerAddrs, b: &PeerAddrs, _, _| {
					if a.peers.len() == b.peers.len() && a.peers.iter().zip(b.peers.iter()).all(|(p, q)| p.0 == q.0) {
						None
					} else {
						Some("peer list differs".into())
					}
				},
				no_hash(),
			);
		}
		"Locator" => {
			let x = Locator {
				hashes: v["hashes"].as_array().unwrap().iter().map(|h| hash32(e, h.as_str().unwrap())).collect(),
			};
			check(c, e, &x, |a: &Locator, b: &Locator, _, _| if a.hashes == b.hashes { None } else { Some("differs".into()) }, no_hash());
		}
		"Hand" => {
			let ua = String::from_utf8(e.bytes(st(v, "ua"), un(v, "ualen") as usize, "ascii")).unwrap();
			let x = Hand {
				version: ProtocolVersion(nv(e, &v["version"], "u32") as u32),
				capabilities: Capabilities::from_bits_truncate(nv(e, &v["capabilities"], "u32") as u32),
				nonce: nv(e, &v["nonce"], "u64"),
				genesis: hash32(e, st(v, "genesis")),
				total_difficulty: diff(nv(e, &v["total_difficulty"], "u64")),
				sender_addr: b_addr(e, &v["sender_addr"]),
				receiver_addr: b_addr(e, &v["receiver_addr"]),
				user_agent: ua,
			};
			check(
				c,
				e,
				&x,
				|a: &Hand, b: &Hand, _, _| {
					if a.version == b.version
						&& a.capabilities == b.capabilities
						&& a.nonce == b.nonce && a.genesis == b.genesis
						&& a.total_difficulty == b.total_difficulty
						&& a.sender_addr.0 == b.sender_addr.0
						&& a.receiver_addr.0 == b.receiver_addr.0
						&& a.user_agent == b.user_agent
					{
						None
					} else {
						Some("hand differs".into())
					}
				},
				no_hash(),
			);
		}
		"Shake" => {
			let ua = String::from_utf8(e.bytes(st(v, "ua"), un(v, "ualen") as usize, "ascii")).unwrap();
			let x = Shake {
				version: ProtocolVersion(nv(e, &v["version"], "u32") as u32),
				capabilities: Capabilities::from_bits_truncate(nv(e, &v["capabilities"], "u32") as u32),
				genesis: hash32(e, st(v, "genesis")),
				total_difficulty: diff(nv(e, &v["total_difficulty"], "u64")),
				user_agent: ua,
			};
			check(
				c,
				e,
				&x,
				|a: &Shake, b: &Shake, _, _| {
					if a.version == b.version && a.capabilities == b.capabilities && a.genesis == b.genesis && a.total_difficulty == b.total_difficulty && a.user_agent == b.user_agent {
						None
					} else {
						Some("shake differs".into())
					}
				},
				no_hash(),
			);
		}
		"Headers" => {
			let x = HeadersW(Headers {
				headers: v["headers"].as_array().unwrap().iter().map(|h| b_header(e, h)).collect(),
			});
			check(c, e, &x, |_, _, _, _| None, no_hash());
		}
		"SegmentProof" => {
			let x = b_segproof(e, &v["proof"]);
			check(c, e, &x, |a, b, _, _| peq(a, b), no_hash());
		}
		"SegmentOutId" => {
			let x = b_segment(e, v, |e, l| b_outid(e, l));
			check(c, e, &x, |a, b, _, _| peq(a, b), no_hash());
		}
		"SegmentKernel" => {
			let x = b_segment(e, v, |e, l| b_kern(e, l));
			check(c, e, &x, |a, b, _, _| peq(a, b), no_hash());
		}
		"BitmapSegment" => {
			let x = b_bitmap_segment(e, v);
			check(c, e, &x, |a, b, _, _| peq(a, b), no_hash());
		}
		t => panic!("harness: unknown type {}", t),
	}
	(ctx.checks, ctx.mism)
}

/// `Headers` has a writer only; give it a reader that is never called (case.decodable = false)
struct HeadersW(Headers);
impl Writeable for HeadersW {
	fn write<W: ser::Writer>(&self, w: &mut W) -> Result<(), ser::Error> {
		self.0.write(w)
	}
}
impl Readable for HeadersW {
	fn read<R: ser::Reader>(_r: &mut R) -> Result<Self, ser::Error> {
		Err(ser::Error::CorruptedData)
	}
}

fn replay(args: &Args) -> i32 {
	let cases = read_ndjson(args.req("cases"));
	let seed = args.u64("seed", 1);
	let inst = args.u64("inst", 5);
	let nthreads = args.u64("threads", 4) as usize;
	let n = cases.len();
	let cases = std::sync::Arc::new(cases);
	let mut handles = vec![];
	for t in 0..nthreads {
		let cases = cases.clone();
		handles.push(std::thread::spawn(move || {
			let mut res: Vec<(usize, Value)> = vec![];
			let mut i = t;
			while i < n {
				let case = &cases[i];
				let mut checks = 0;
				let mut mism: Vec<Value> = vec![];
				for k in 0..inst {
					// a harness bug (bad case file) must not look like a verdict: it is reported as such
					match catch_unwind(AssertUnwindSafe(|| run_case(case, seed.wrapping_add(i as u64 * 7919), k))) {
						Ok((c, m)) => {
							checks += c;
							mism.extend(m);
						}
						Err(_) => mism.push(json!({"what": "harness_panic", "cls": "", "inst": k, "detail": "panic while building or rendering the case"})),
					}
					if mism.len() >= 12 {
						break;
					}
				}
				res.push((i, json!({"idx": i, "checks": checks, "mismatches": mism})));
				i += nthreads;
			}
			res
		}));
	}
	let mut all: Vec<(usize, Value)> = vec![];
	for h in handles {
		all.extend(h.join().expect("thread"));
	}
	all.sort_by_key(|x| x.0);
	let mut out = NdWriter::create(args.req("out"));
	for (_, v) in all {
		out.put(&v);
	}
	out.finish();
	0
}

/// the interpreter's bit packing against the concrete PackBytes values computed by TLC
fn packcheck(args: &Args) -> i32 {
	let v = read_ndjson(args.req("cases"));
	let mut n = 0;
	for line in v {
		for s in line.as_array().unwrap() {
			let w = s[0].as_u64().unwrap() as u32;
			let vals: Vec<u64> = s[1].as_array().unwrap().iter().map(|x| x.as_u64().unwrap()).collect();
			let want: Vec<u8> = s[2].as_array().unwrap().iter().map(|x| x.as_u64().unwrap() as u8).collect();
			if pack_bits(w, &vals, None) != want {
				println!("{}", json!({"ok": false, "w": w, "vals": vals}));
				return 1;
			}
			n += 1;
		}
	}
	println!("{}", json!({"ok": true, "n": n}));
	0
}

/// scope probes recorded in the evidence (not verdicts): behaviours the property statement does not clearly cover
fn probe(_args: &Args) -> i32 {
	global::set_local_chain_type(ChainTypes::AutomatedTesting);
	let mut env = Env::new(7);
	// a range proof shorter than 675 bytes is padded by RangeProof::read
	let mut o = b_output(&mut env, &json!({"f": 0, "c": "c", "proof": "p"}));
	o.proof.plen = 600;
	let b = ser::ser_vec(&o, ProtocolVersion(1)).unwrap();
	let y: Output = ser::deserialize(&mut &b[..], ProtocolVersion(1), DeserializationMode::default()).unwrap();
	let b2 = ser::ser_vec(&y, ProtocolVersion(1)).unwrap();
	// unknown capability bits are dropped
	let g = ser::deserialize::<GetPeerAddrs, _>(&mut &[0xffu8, 0xff, 0xff, 0xff][..], ProtocolVersion(1), DeserializationMode::default()).unwrap();
	println!(
		"{}",
		json!({"short_proof_len_written": b.len(), "short_proof_len_after_roundtrip": b2.len(), "short_proof_plen_after": y.proof.plen,
			"capabilities_ffffffff_reencoded": hex(&ser::ser_vec(&g, ProtocolVersion(1)).unwrap())})
	);
	0
}
