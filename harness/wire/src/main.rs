//! C10 engine `wire`: binds spec/Wire.tla (a format grammar) to the real encoders / decoders / hashes.
//!
//! Direction A only (pure functions): every TLC-emitted case (type, version, shape, layout, hash
//! layout, perturbed layouts) is instantiated several times with seeded leaf values;
//!  (a) the REAL value of that shape is constructed from the same leaf values,
//!  (b) the spec's layout is rendered to bytes by the small interpreter below,
//!  (c) ser_vec(x, v) must equal the rendering byte for byte, deserialize must give back an equal value
//!      and consume everything, re-serialisation must be identical, the identity hash must equal
//!      blake2b(render(hash layout)) and survive a round trip at every version,
//!  (d) every perturbed encoding must be refused (Err); a panic is a mismatch as well.
//! The harness never decides validity: expectations come from the specification.
use chrono::{DateTime, NaiveDate, Utc};
use grin_chain::txhashset::{BitmapChunk, BitmapSegment};
use grin_chain::types::{CommitPos, Tip};
use grin_core::core::hash::{Hash, Hashed};
use grin_core::core::pmmr::segment::{Segment, SegmentIdentifier, SegmentProof};
use grin_core::core::transaction::{
	CommitWrapper, FeeFields, Input, Inputs, KernelFeatures, NRDRelativeHeight, Output, OutputFeatures,
	OutputIdentifier, Transaction, TransactionBody, TxKernel,
};
use grin_core::core::{Block, BlockHeader, HeaderEntry, CompactBlock, HeaderVersion, UntrustedBlock, UntrustedBlockHeader, UntrustedCompactBlock};
use grin_core::global::{self, ChainTypes};
use grin_core::pow::{self, Difficulty, Proof, ProofOfWork};
use grin_core::ser::{self, DeserializationMode, ProtocolVersion, Readable, Writeable};
use grin_keychain::BlindingFactor;
use grin_core::core::merkle_proof::MerkleProof;
use grin_core::core::BlockSums;
use grin_p2p::msg::{
	GetPeerAddrs, Hand, Headers, Locator, OutputBitmapSegmentResponse, OutputSegmentResponse, PeerAddrs, PeerError, Ping, Pong,
	SegmentRequest, SegmentResponse, Shake, TxHashSetArchive, TxHashSetRequest,
};
use grin_p2p::types::{Capabilities, PeerAddr};
use grin_util::secp::pedersen::{Commitment, RangeProof};
use grin_util::secp::Signature;
use rand::rngs::StdRng;
use rand::seq::SliceRandom;
use rand::{Rng, SeedableRng};
use serde_json::{json, Value};
use std::collections::HashMap;
use std::convert::TryFrom;
use std::net::{Ipv4Addr, Ipv6Addr, SocketAddr, SocketAddrV4, SocketAddrV6};
use std::panic::{catch_unwind, AssertUnwindSafe};
use vcommon::*;

const VERSIONS: [u32; 4] = [1, 2, 3, 1000];
/// a value mismatch of a recognised class is returned by the comparison as "CLS:<class>:<detail>"
const CLSP: &str = "CLS:";
fn split_cls(d: &str) -> (&str, String) {
	if d.starts_with(CLSP) {
		let rest = &d[CLSP.len()..];
		if let Some(i) = rest.find(':') {
			return (&rest[..i], rest[i + 1..].to_string());
		}
	}
	("", d.to_string())
}

fn main() {
	quiet_panics();
	let a: Vec<String> = std::env::args().skip(1).collect();
	let args = Args::parse(&a);
	let rc = match args.pos.get(0).map(|s| s.as_str()) {
		Some("replay") => replay(&args),
		Some("packcheck") => packcheck(&args),
		Some("probe") => probe(&args),
		_ => {
			eprintln!("wire replay|packcheck|probe");
			2
		}
	};
	std::process::exit(rc);
}

// ------------------------------------------------------------------------------------------
// leaf environment: symbolic leaves -> seeded concrete values (shared by the layout interpreter
// and the builders of the real values)

fn fnv(s: &str, seed: u64) -> u64 {
	let mut h: u64 = 0xcbf29ce484222325 ^ seed.wrapping_mul(0x9E3779B97F4A7C15);
	for b in s.bytes() {
		h ^= b as u64;
		h = h.wrapping_mul(0x100000001b3);
	}
	h
}

struct Env {
	seed: u64,
	nums: HashMap<String, u64>,
	bytes: HashMap<String, Vec<u8>>,
	/// proof nonces bound after mining (value class "mined")
	mined: HashMap<String, Vec<u64>>,
	/// drawn bit sets (a layout is rendered once per perturbation: the draw is a function of the key only)
	bitsets: HashMap<String, Vec<u32>>,
}

fn ts_max() -> i64 {
	NaiveDate::MAX.and_hms_opt(0, 0, 0).unwrap().and_utc().timestamp()
}
fn ts_min() -> i64 {
	NaiveDate::MIN.and_hms_opt(0, 0, 0).unwrap().and_utc().timestamp()
}

fn width(k: &str) -> u32 {
	match k {
		"u8" => 8,
		"u16" => 16,
		"u32" => 32,
		"u64" | "i64" => 64,
		_ => panic!("harness: bad numeric kind {}", k),
	}
}

impl Env {
	fn new(seed: u64) -> Env {
		Env {
			seed,
			nums: HashMap::new(),
			bytes: HashMap::new(),
			mined: HashMap::new(),
			bitsets: HashMap::new(),
		}
	}
	fn rng(&self, key: &str) -> StdRng {
		StdRng::seed_from_u64(fnv(key, self.seed))
	}
	fn num(&mut self, sym: &str, k: &str, cls: &str) -> u64 {
		let key = format!("{}|{}|{}", sym, k, cls);
		if let Some(v) = self.nums.get(&key) {
			return *v;
		}
		let mut r = self.rng(&key);
		let w = width(k);
		let mask = if w == 64 { u64::MAX } else { (1u64 << w) - 1 };
		let v = match cls {
			"any" => r.gen::<u64>() & mask,
			"zero" => 0,
			"one" => 1,
			"bool" => r.gen::<u64>() & 1,
			"mined" => panic!("harness: symbol {} of class mined used before the header was mined", sym),
			"max" => mask,
			"fee_min" => 1,
			"fee_any" => ((r.gen::<u64>() & 15) << 40) | (1 + r.gen::<u64>() % ((1u64 << 40) - 1)),
			"fee_max" => u64::MAX,
			"rel_one" => 1,
			"rel_any" => 2 + r.gen::<u64>() % 10078,
			"rel_week" => 10080,
			"rel_zero" => 0,
			"rel_over" => 10081 + r.gen::<u64>() % 1000,
			"caps" => r.gen::<u64>() & 0x7f,
			"h7" => 7,
			"ts_any" => r.gen::<u64>() % 4_000_000_000,
			"ts_zero" => 0,
			"ts_max" => ts_max() as u64,
			"ts_min" => ts_min() as u64,
			_ => panic!("harness: unknown number class {}", cls),
		};
		self.nums.insert(key, v);
		v
	}
	fn set_num(&mut self, sym: &str, k: &str, cls: &str, v: u64) {
		self.nums.insert(format!("{}|{}|{}", sym, k, cls), v);
	}
	fn bytes(&mut self, sym: &str, n: usize, cls: &str) -> Vec<u8> {
		let key = format!("{}|{}", sym, n);
		if let Some(v) = self.bytes.get(&key) {
			return v.clone();
		}
		let mut r = self.rng(&key);
		let mut v: Vec<u8> = (0..n).map(|_| r.gen::<u8>()).collect();
		match cls {
			"ascii" => {
				for b in v.iter_mut() {
					*b = 0x20 + (*b % 0x5f);
				}
			}
			"ip6_native" => {
				v[0] = 0x20;
				v[1] = 0x01;
			}
			"ip6_loopback" => {
				for b in v.iter_mut().take(15) {
					*b = 0;
				}
				v[15] = 1;
			}
			"ip6_unspecified" => {
				for b in v.iter_mut() {
					*b = 0;
				}
			}
			"ip6_compat" => {
				// ::a.b.c.d with a >= 1 (neither :: nor ::1)
				for b in v.iter_mut().take(12) {
					*b = 0;
				}
				v[12] |= 1;
			}
			"ip6_mapped" => {
				for b in v.iter_mut().take(10) {
					*b = 0;
				}
				v[10] = 0xff;
				v[11] = 0xff;
				v[12] |= 1;
			}
			_ => {}
		}
		self.bytes.insert(key, v.clone());
		v
	}
	fn set_bytes(&mut self, sym: &str, v: Vec<u8>) {
		self.bytes.insert(format!("{}|{}", sym, v.len()), v);
	}
	fn nonces(&mut self, sym: &str, w: u32, cnt: usize, cls: &str) -> Vec<u64> {
		if cls == "mined" {
			let v = self.mined.get(sym).unwrap_or_else(|| panic!("harness: nonces {} used before the header was mined", sym)).clone();
			assert_eq!(v.len(), cnt, "harness: mined proof size");
			return v;
		}
		let mut r = self.rng(&format!("{}|nonces|{}|{}", sym, w, cnt));
		let mask = if w == 64 { u64::MAX } else { (1u64 << w) - 1 };
		(0..cnt)
			.map(|_| match cls {
				"zero" => 0,
				"ones" => mask,
				_ => r.gen::<u64>() & mask,
			})
			.collect()
	}
	/// npos distinct positions below nbits, ascending
	fn bitset(&mut self, sym: &str, nbits: usize, npos: usize) -> Vec<u32> {
		let key = format!("{}|bits|{}|{}", sym, nbits, npos);
		if let Some(v) = self.bitsets.get(&key) {
			return v.clone();
		}
		let mut r = self.rng(&key);
		let mut all: Vec<u32> = (0..nbits as u32).collect();
		all.shuffle(&mut r);
		all.truncate(npos);
		all.sort_unstable();
		self.bitsets.insert(key, all.clone());
		all
	}
}

// ------------------------------------------------------------------------------------------
// the layout interpreter (semantics of the leaves of Wire.tla)

fn b2b(data: &[u8]) -> Vec<u8> {
	blake2::blake2b::blake2b(32, &[], data).as_bytes().to_vec()
}

fn st<'a>(v: &'a Value, f: &str) -> &'a str {
	v[f].as_str().unwrap_or_else(|| panic!("harness: field {} missing in {}", f, v))
}
fn un(v: &Value, f: &str) -> u64 {
	v[f].as_u64().unwrap_or_else(|| panic!("harness: int field {} missing in {}", f, v))
}

fn be(k: &str, v: u64, out: &mut Vec<u8>) {
	match k {
		"u8" => out.push(v as u8),
		"u16" => out.extend_from_slice(&(v as u16).to_be_bytes()),
		"u32" => out.extend_from_slice(&(v as u32).to_be_bytes()),
		"u64" | "i64" => out.extend_from_slice(&v.to_be_bytes()),
		_ => panic!("harness: bad kind {}", k),
	}
}

/// cnt numbers of w bits, LSB first, concatenated into one bit string; bit i of the string is bit (i%8) of byte i/8
fn pack_bits(w: u32, vals: &[u64], pad_one_at: Option<usize>) -> Vec<u8> {
	let nbits = w as usize * vals.len();
	let mut out = vec![0u8; (nbits + 7) / 8];
	for (i, v) in vals.iter().enumerate() {
		for j in 0..w as usize {
			if (v >> j) & 1 == 1 {
				let p = i * w as usize + j;
				out[p / 8] |= 1 << (p % 8);
			}
		}
	}
	if let Some(q) = pad_one_at {
		let p = nbits + q;
		out[p / 8] |= 1 << (p % 8);
	}
	out
}

fn render(lay: &Value, env: &mut Env, out: &mut Vec<u8>) {
	for l in lay.as_array().expect("layout array") {
		render_leaf(l, env, out);
	}
}

fn render_leaf(l: &Value, env: &mut Env, out: &mut Vec<u8>) {
	let k = st(l, "k");
	match k {
		"u8" | "u16" | "u32" | "u64" | "i64" => {
			let v = if let Some(v) = l.get("v") {
				v.as_u64().expect("literal")
			} else {
				env.num(st(l, "sym"), k, st(l, "cls"))
			};
			be(k, v, out);
		}
		"bytes" => {
			let cls = l.get("cls").and_then(|c| c.as_str()).unwrap_or("");
			let b = env.bytes(st(l, "sym"), un(l, "n") as usize, cls);
			out.extend_from_slice(&b);
		}
		"zeros" => out.extend(std::iter::repeat(0u8).take(un(l, "n") as usize)),
		"nonzero" => {
			let n = un(l, "n") as usize;
			let mut r = env.rng(&format!("nonzero|{}|{}", n, out.len()));
			let mut z = vec![0u8; n];
			let i = r.gen::<usize>() % n;
			z[i] = 1 + r.gen::<u8>() % 255;
			out.extend_from_slice(&z);
		}
		"bitpack" => {
			let w = un(l, "w") as u32;
			let cnt = un(l, "cnt") as usize;
			let vals = env.nonces(st(l, "sym"), w, cnt, st(l, "cls"));
			let pad = if st(l, "pad") == "nonzero" {
				let pb = un(l, "padbits") as usize;
				let mut r = env.rng(&format!("pad|{}|{}", w, cnt));
				Some(r.gen::<usize>() % pb)
			} else {
				None
			};
			out.extend_from_slice(&pack_bits(w, &vals, pad));
		}
		"sorted" => {
			let items = l["items"].as_array().expect("items");
			let mut keyed: Vec<(Vec<u8>, Vec<u8>)> = items
				.iter()
				.map(|it| {
					let mut kb = vec![];
					render(&it["key"], env, &mut kb);
					let mut bb = vec![];
					render(&it["body"], env, &mut bb);
					(b2b(&kb), bb)
				})
				.collect();
			keyed.sort_by(|a, b| a.0.cmp(&b.0));
			let op = l["op"][0].as_str().unwrap();
			let i = l["op"][1].as_u64().unwrap() as usize;
			match op {
				"swap" => keyed.swap(i - 1, i),
				"dup" => keyed[i] = keyed[i - 1].clone(),
				_ => {}
			}
			for (_, b) in keyed {
				out.extend_from_slice(&b);
			}
		}
		"bitidx" => {
			let nbits = un(l, "nbits") as usize;
			let set = env.bitset(st(l, "sym"), nbits, un(l, "npos") as usize);
			let list: Vec<u32> = if l["neg"].as_bool().unwrap() {
				let mut inset = vec![false; nbits];
				for p in &set {
					inset[*p as usize] = true;
				}
				(0..nbits as u32).filter(|p| !inset[*p as usize]).collect()
			} else {
				set
			};
			for (j, p) in list.iter().enumerate() {
				let v = if j == 0 && l["oob"].as_bool().unwrap() { nbits as u32 } else { *p };
				out.extend_from_slice(&(v as u16).to_be_bytes());
			}
		}
		"bitraw" => {
			let nbits = un(l, "nbits") as usize;
			let set = env.bitset(st(l, "sym"), nbits, un(l, "npos") as usize);
			let mut b = vec![0u8; nbits / 8];
			for p in set {
				b[p as usize / 8] |= 0x80 >> (p % 8); // bit 0 is the most significant bit of byte 0
			}
			out.extend_from_slice(&b);
		}
		_ => panic!("harness: unknown leaf kind {}", k),
	}
}

fn rendered(lay: &Value, env: &mut Env) -> Vec<u8> {
	let mut out = vec![];
	render(lay, env, &mut out);
	out
}

// ------------------------------------------------------------------------------------------
// builders of the real values from the abstract values of the specification

fn nv(env: &mut Env, v: &Value, k: &str) -> u64 {
	env.num(st(v, "sym"), k, st(v, "cls"))
}
fn commit(env: &mut Env, sym: &str) -> Commitment {
	Commitment::from_vec(env.bytes(sym, 33, ""))
}
fn hash32(env: &mut Env, sym: &str) -> Hash {
	Hash::from_vec(&env.bytes(sym, 32, ""))
}
fn fee_of(raw: u64) -> FeeFields {
	// FeeFields has no raw constructor; its serde visitor accepts any u64 (that is what the reader accepts too)
	serde_json::from_str::<FeeFields>(&format!("\"{}\"", raw)).expect("fee fields")
}
fn diff(raw: u64) -> Difficulty {
	// Difficulty::from_num clamps 0 to 1; the reader accepts any u64, so does the serde visitor used here
	serde_json::from_str::<Difficulty>(&format!("{}", raw)).expect("difficulty")
}
fn features(f: u64) -> OutputFeatures {
	if f == 1 {
		OutputFeatures::Coinbase
	} else {
		OutputFeatures::Plain
	}
}

fn b_kf(env: &mut Env, v: &Value) -> KernelFeatures {
	match st(v, "t") {
		"Plain" => KernelFeatures::Plain {
			fee: fee_of(nv(env, &v["fee"], "u64")),
		},
		"Coinbase" => KernelFeatures::Coinbase,
		"HeightLocked" => KernelFeatures::HeightLocked {
			fee: fee_of(nv(env, &v["fee"], "u64")),
			lock_height: nv(env, &v["lock"], "u64"),
		},
		"NRD" => KernelFeatures::NoRecentDuplicate {
			fee: fee_of(nv(env, &v["fee"], "u64")),
			relative_height: NRDRelativeHeight::try_from(nv(env, &v["rel"], "u16")).expect("relative height"),
		},
		t => panic!("harness: kernel variant {}", t),
	}
}
fn b_kern(env: &mut Env, v: &Value) -> TxKernel {
	let sig = env.bytes(st(v, "sig"), 64, "");
	let mut s = [0u8; 64];
	s.copy_from_slice(&sig);
	TxKernel {
		features: b_kf(env, &v["feat"]),
		excess: commit(env, st(v, "excess")),
		excess_sig: Signature::from_raw_data(&s).expect("sig"),
	}
}
fn b_outid(env: &mut Env, v: &Value) -> OutputIdentifier {
	OutputIdentifier {
		features: features(un(v, "f")),
		commit: commit(env, st(v, "c")),
	}
}
fn b_output(env: &mut Env, v: &Value) -> Output {
	let p = env.bytes(st(v, "proof"), 675, "");
	let mut proof = [0u8; 675];
	proof.copy_from_slice(&p);
	Output {
		identifier: b_outid(env, v),
		proof: RangeProof { proof, plen: 675 },
	}
}

/// indices of `keys` in ascending order of blake2b(render(key)): the spec's order, computed without the code's Ord
fn key_order(env: &mut Env, keys: &Value) -> Vec<usize> {
	let ks: Vec<Vec<u8>> = keys
		.as_array()
		.expect("keys")
		.iter()
		.map(|k| b2b(&rendered(k, env)))
		.collect();
	let mut idx: Vec<usize> = (0..ks.len()).collect();
	idx.sort_by(|a, b| ks[*a].cmp(&ks[*b]));
	idx
}

fn b_body(env: &mut Env, v: &Value, keys: &Value) -> TransactionBody {
	let items = v["inputs"]["items"].as_array().unwrap();
	let ord = key_order(env, &keys["inputs"]);
	let inputs = if st(&v["inputs"], "var") == "FC" {
		let xs: Vec<Input> = ord
			.iter()
			.map(|i| Input::new(features(un(&items[*i], "f")), commit(env, st(&items[*i], "c"))))
			.collect();
		Inputs::FeaturesAndCommit(xs)
	} else {
		let xs: Vec<CommitWrapper> = ord.iter().map(|i| commit(env, st(&items[*i], "c")).into()).collect();
		Inputs::CommitOnly(xs)
	};
	let outs = v["outputs"].as_array().unwrap();
	let outputs: Vec<Output> = key_order(env, &keys["outputs"]).iter().map(|i| b_output(env, &outs[*i])).collect();
	let ks = v["kernels"].as_array().unwrap();
	let kernels: Vec<TxKernel> = key_order(env, &keys["kernels"]).iter().map(|i| b_kern(env, &ks[*i])).collect();
	TransactionBody {
		inputs,
		outputs,
		kernels,
	}
}

fn b_proof(env: &mut Env, v: &Value) -> Proof {
	let eb = un(v, "eb") as u32;
	Proof {
		edge_bits: eb as u8,
		nonces: env.nonces(st(&v["nonces"], "sym"), eb, un(v, "ps") as usize, st(&v["nonces"], "cls")),
	}
}
fn b_pow(env: &mut Env, v: &Value) -> ProofOfWork {
	ProofOfWork {
		total_difficulty: diff(nv(env, &v["td"], "u64")),
		secondary_scaling: nv(env, &v["ss"], "u32") as u32,
		nonce: nv(env, &v["nonce"], "u64"),
		proof: b_proof(env, &v["proof"]),
	}
}
fn b_header(env: &mut Env, v: &Value) -> BlockHeader {
	let ts = nv(env, &v["ts"], "i64") as i64;
	let dt: DateTime<Utc> = DateTime::<Utc>::from_timestamp(ts, 0).expect("timestamp in chrono range");
	BlockHeader {
		version: HeaderVersion(nv(env, &v["version"], "u16") as u16),
		height: nv(env, &v["height"], "u64"),
		prev_hash: hash32(env, st(v, "prev_hash")),
		prev_root: hash32(env, st(v, "prev_root")),
		timestamp: dt,
		output_root: hash32(env, st(v, "output_root")),
		range_proof_root: hash32(env, st(v, "range_proof_root")),
		kernel_root: hash32(env, st(v, "kernel_root")),
		total_kernel_offset: BlindingFactor::from_slice(&env.bytes(st(v, "total_kernel_offset"), 32, "")),
		output_mmr_size: nv(env, &v["oms"], "u64"),
		kernel_mmr_size: nv(env, &v["kms"], "u64"),
		pow: b_pow(env, &v["pow"]),
	}
}
/// an admissible header (Wire.tla `Admissible`): built from the spec's value with nonce / proof placeholders, then the proof of
/// work is solved with grin's own miner and the "mined" symbols are bound to the solution
fn b_header_mined(env: &mut Env, v: &Value) -> BlockHeader {
	let nsym = st(&v["pow"]["nonce"], "sym").to_string();
	let psym = st(&v["pow"]["proof"]["nonces"], "sym").to_string();
	let ps = un(&v["pow"]["proof"], "ps") as usize;
	let start: u64 = env.rng(&format!("{}|start", nsym)).gen();
	env.set_num(&nsym, "u64", "mined", start);
	env.mined.insert(psym.clone(), vec![0; ps]);
	let mut h = b_header(env, v);
	pow::pow_size(&mut h, Difficulty::min_dma(), global::proofsize(), global::min_edge_bits()).expect("mine header");
	assert_eq!(h.pow.proof.edge_bits as u64, un(&v["pow"]["proof"], "eb"), "harness: mined edge bits");
	env.set_num(&nsym, "u64", "mined", h.pow.nonce);
	env.mined.insert(psym, h.pow.proof.nonces.clone());
	h
}
fn untrusted(case: &Value) -> bool {
	case.get("via").and_then(|x| x.as_str()) == Some("untrusted")
}

/// the network readers have no Writeable: written through the trusted type, read through Untrusted*::read
struct UH(BlockHeader);
struct UB(Block);
struct UCB(CompactBlock);
impl Writeable for UH {
	fn write<W: ser::Writer>(&self, w: &mut W) -> Result<(), ser::Error> {
		self.0.write(w)
	}
}
impl Readable for UH {
	fn read<R: ser::Reader>(r: &mut R) -> Result<Self, ser::Error> {
		UntrustedBlockHeader::read(r).map(|u| UH(u.into()))
	}
}
impl Writeable for UB {
	fn write<W: ser::Writer>(&self, w: &mut W) -> Result<(), ser::Error> {
		self.0.write(w)
	}
}
impl Readable for UB {
	fn read<R: ser::Reader>(r: &mut R) -> Result<Self, ser::Error> {
		UntrustedBlock::read(r).map(|u| UB(u.into()))
	}
}
impl Writeable for UCB {
	fn write<W: ser::Writer>(&self, w: &mut W) -> Result<(), ser::Error> {
		self.0.write(w)
	}
}
impl Readable for UCB {
	fn read<R: ser::Reader>(r: &mut R) -> Result<Self, ser::Error> {
		UntrustedCompactBlock::read(r).map(|u| UCB(u.into()))
	}
}
fn cb_eq(a: &CompactBlock, b: &CompactBlock) -> Option<String> {
	if a.header != b.header {
		return Some("header differs".into());
	}
	if a.nonce != b.nonce {
		return Some("nonce differs".into());
	}
	if a.out_full() != b.out_full() || a.out_full().iter().zip(b.out_full()).any(|(p, q)| p.proof != q.proof) {
		return Some("out_full differs".into());
	}
	if a.kern_full() != b.kern_full() {
		return Some("kern_full differs".into());
	}
	if a.kern_ids().iter().map(|i| i.as_ref().to_vec()).collect::<Vec<_>>() != b.kern_ids().iter().map(|i| i.as_ref().to_vec()).collect::<Vec<_>>() {
		return Some("kern_ids differ".into());
	}
	None
}

fn b_addr(env: &mut Env, v: &Value) -> PeerAddr {
	let port = nv(env, &v["port"], "u16") as u16;
	if un(v, "fam") == 4 {
		let ip = env.bytes(st(v, "ip"), 4, "");
		PeerAddr(SocketAddr::V4(SocketAddrV4::new(Ipv4Addr::new(ip[0], ip[1], ip[2], ip[3]), port)))
	} else {
		let ip = env.bytes(st(v, "ip"), 16, st(v, "ipcls"));
		let mut a = [0u8; 16];
		a.copy_from_slice(&ip);
		PeerAddr(SocketAddr::V6(SocketAddrV6::new(Ipv6Addr::from(a), port, 0, 0)))
	}
}
fn b_segproof(env: &mut Env, syms: &Value) -> SegmentProof {
	// SegmentProof has no public constructor: obtained through its reader from count + hashes
	let hs = syms.as_array().unwrap();
	let mut bytes = (hs.len() as u64).to_be_bytes().to_vec();
	for h in hs {
		bytes.extend_from_slice(&env.bytes(h.as_str().unwrap(), 32, ""));
	}
	ser::deserialize::<SegmentProof, _>(&mut &bytes[..], ProtocolVersion(1), DeserializationMode::default()).expect("segment proof")
}
fn b_segid(env: &mut Env, v: &Value) -> SegmentIdentifier {
	SegmentIdentifier {
		// BitmapSegment: the height is a literal of the spec (it decides the capacity); elsewhere a symbolic number
		height: if v["height"].is_u64() { un(v, "height") as u8 } else { nv(env, &v["height"], "u8") as u8 },
		idx: nv(env, &v["idx"], "u64"),
	}
}
fn b_segment<T, F: Fn(&mut Env, &Value) -> T>(env: &mut Env, v: &Value, leaf: F) -> Segment<T> {
	let hashes: Vec<Hash> = v["hashes"].as_array().unwrap().iter().map(|h| hash32(env, h.as_str().unwrap())).collect();
	let leaves: Vec<T> = v["leaves"].as_array().unwrap().iter().map(|x| leaf(env, x)).collect();
	let u = |a: &Value| -> Vec<u64> { a.as_array().unwrap().iter().map(|x| x.as_u64().unwrap()).collect() };
	Segment::from_parts(
		b_segid(env, &v["id"]),
		u(&v["hpos"]),
		hashes,
		u(&v["lpos"]),
		leaves,
		b_segproof(env, &v["proof"]),
	)
}
fn b_bitmap_segment(env: &mut Env, v: &Value) -> BitmapSegment {
	let mut chunks: Vec<BitmapChunk> = vec![];
	let mut pos = vec![];
	for b in v["blocks"].as_array().unwrap() {
		let nch = un(b, "nch") as usize;
		let set = env.bitset(st(b, "sym"), nch * 1024, un(b, "npos") as usize);
		let base = chunks.len();
		for _ in 0..nch {
			pos.push(grin_core::core::pmmr::insertion_to_pmmr_index(chunks.len() as u64));
			chunks.push(BitmapChunk::new());
		}
		for p in set {
			chunks[base + p as usize / 1024].set((p % 1024) as u64, true);
		}
	}
	let seg = Segment::from_parts(b_segid(env, &v["id"]), vec![], vec![], pos, chunks, b_segproof(env, &v["proof"]));
	BitmapSegment::from(seg)
}

// ------------------------------------------------------------------------------------------
// the checks

struct Ctx<'a> {
	case: &'a Value,
	ver: u32,
	inst: u64,
	checks: u64,
	mism: Vec<Value>,
}

impl<'a> Ctx<'a> {
	fn bad(&mut self, what: &str, cls: &str, detail: String) {
		if self.mism.len() < 12 {
			self.mism.push(json!({"what": what, "cls": cls, "inst": self.inst, "detail": detail}));
		}
	}
	/// a deviation of one of the other Reader implementations: reported (with the reader's name) unless the BinReader
	/// pass of this instance already reported the same thing (then it is a property of the type's read(), not of the reader)
	fn bad_rd(&mut self, rd: Rd, what: &str, cls: &str, detail: String) {
		if rd == Rd::Bin {
			return self.bad(what, cls, detail);
		}
		let inst = self.inst;
		if self.mism.iter().any(|m| m["what"] == what && m["cls"] == cls && m["inst"] == inst && m.get("rd").is_none()) {
			return;
		}
		if self.mism.len() < 12 {
			self.mism.push(json!({"what": what, "cls": cls, "rd": rd.name(), "inst": self.inst, "detail": detail}));
		}
	}
}

fn hex(b: &[u8]) -> String {
	let n = b.len().min(96);
	let mut s: String = b[..n].iter().map(|x| format!("{:02x}", x)).collect();
	if b.len() > n {
		s.push_str("..");
	}
	s
}
fn first_diff(a: &[u8], b: &[u8]) -> String {
	let n = a.len().min(b.len());
	let i = (0..n).find(|i| a[*i] != b[*i]).unwrap_or(n);
	let lo = i.saturating_sub(4);
	format!(
		"len real={} spec={} first difference at byte {}: real ..{} spec ..{}",
		a.len(),
		b.len(),
		i,
		hex(&a[lo..a.len().min(i + 24)]),
		hex(&b[lo..b.len().min(i + 24)])
	)
}

/// The three implementations of `ser::Reader` (Wire.tla `Readers`): BinReader through ser::deserialize, BufReader on a
/// BytesMut exactly as p2p::codec reads a message body, StreamingReader on a stream as the handshake does.
#[derive(Clone, Copy, PartialEq, Debug)]
enum Rd {
	Bin,
	Buf,
	Stream,
}
impl Rd {
	fn name(self) -> &'static str {
		match self {
			Rd::Bin => "bin",
			Rd::Buf => "buf",
			Rd::Stream => "stream",
		}
	}
}
fn readers_of(case: &Value) -> Vec<Rd> {
	match case.get("readers").and_then(|r| r.as_array()) {
		None => vec![Rd::Bin],
		Some(a) => a
			.iter()
			.map(|x| match x.as_str().unwrap_or("") {
				"bin" => Rd::Bin,
				"buf" => Rd::Buf,
				"stream" => Rd::Stream,
				o => panic!("harness: unknown reader {}", o),
			})
			.collect(),
	}
}

fn de_with<T: Readable>(bytes: &[u8], ver: u32, rd: Rd) -> Result<Result<(T, usize), ser::Error>, ()> {
	catch_unwind(AssertUnwindSafe(|| match rd {
		Rd::Bin => {
			let mut r = bytes;
			let y = ser::deserialize::<T, _>(&mut r, ProtocolVersion(ver), DeserializationMode::default());
			y.map(|y| (y, r.len()))
		}
		Rd::Buf => {
			let mut buf = bytes::BytesMut::from(bytes);
			let (y, used) = {
				let mut r = ser::BufReader::new(&mut buf, ProtocolVersion(ver));
				let y: Result<T, ser::Error> = r.body();
				(y, r.bytes_read() as usize)
			};
			let _ = used; // bytes_read() is the framing layer's business (C19); what counts here is what left the buffer
			y.map(|y| (y, bytes::Buf::remaining(&buf)))
		}
		Rd::Stream => {
			let mut cur = std::io::Cursor::new(bytes);
			let (y, used) = {
				let mut r = ser::StreamingReader::new(&mut cur, ProtocolVersion(ver));
				let y = T::read(&mut r);
				(y, r.total_bytes_read() as usize)
			};
			// total_bytes_read() counts the 8 bytes of a length prefix twice (read_bytes_len_prefix): recorded by `probe`,
			// not a verdict - the bytes really consumed are the stream's position
			let _ = used;
			y.map(|y| (y, bytes.len() - cur.position() as usize))
		}
	}))
	.map_err(|_| ())
}
fn de<T: Readable>(bytes: &[u8], ver: u32) -> Result<Result<(T, usize), ser::Error>, ()> {
	de_with(bytes, ver, Rd::Bin)
}
fn enc<T: Writeable>(x: &T, ver: u32) -> Result<Result<Vec<u8>, ser::Error>, ()> {
	catch_unwind(AssertUnwindSafe(|| ser::ser_vec(x, ProtocolVersion(ver)))).map_err(|_| ())
}

/// eq(x, y, ver): None when y is the value a round trip of x at `ver` must give
fn check<T, E, H>(ctx: &mut Ctx, env: &mut Env, x: &T, eq: E, hashf: Option<H>)
where
	T: Writeable + Readable,
	E: Fn(&T, &T, u32, &mut Env) -> Option<String>,
	H: Fn(&T) -> Hash,
{
	let case = ctx.case;
	let ver = ctx.ver;
	let writable = case["writable"].as_bool().unwrap();
	ctx.checks += 1;
	let real = match enc(x, ver) {
		Err(()) => {
			ctx.bad("write_panic", "", "serialisation panicked".into());
			return;
		}
		Ok(Err(e)) => {
			if writable {
				ctx.bad("write_error", "", format!("{:?}", e));
			}
			return;
		}
		Ok(Ok(b)) => b,
	};
	if !writable {
		ctx.bad("write_unsupported_accepted", "", "value is not writable at this version per the spec".into());
		return;
	}
	// (b)/(c) layout, byte for byte
	let spec = rendered(&case["lay"], env);
	ctx.checks += 1;
	if real != spec {
		ctx.bad("layout", "", first_diff(&real, &spec));
	}
	// identity hash = blake2b of the hashing-form layout
	let hx = hashf.as_ref().map(|h| h(x));
	if let Some(hx) = &hx {
		let want = b2b(&rendered(&case["hlay"], env));
		ctx.checks += 1;
		if hx.as_bytes()[..] != want[..] {
			ctx.bad("hash_layout", "", format!("hash() {} but blake2b(hash layout) {}", hex(hx.as_bytes()), hex(&want)));
		}
	}
	if !case["decodable"].as_bool().unwrap() {
		return;
	}
	let readable = case["readable"].as_bool().unwrap();
	if !readable {
		// the spec says the reader refuses this (writable) value: every Reader implementation must
		for rd in readers_of(case) {
			ctx.checks += 1;
			match de_with::<T>(&real, ver, rd) {
				Err(()) => ctx.bad_rd(rd, "read_panic", "", "deserialisation of own encoding panicked".into()),
				Ok(Ok(_)) => ctx.bad_rd(rd, "read_accepted_unreadable", "", "spec says this encoding is refused".into()),
				Ok(Err(_)) => {}
			}
		}
		return;
	}
	ctx.checks += 1;
	match de::<T>(&real, ver) {
		Err(()) => {
			ctx.bad("read_panic", "", "deserialisation of own encoding panicked".into());
			return;
		}
		Ok(Err(e)) => {
			ctx.bad("read_error", "", format!("own encoding refused: {:?}", e));
			return;
		}
		Ok(Ok((y, left))) => {
			if left != 0 {
				ctx.bad("trailing", "", format!("{} bytes not consumed", left));
			}
			ctx.checks += 1;
			if let Some(d) = eq(x, &y, ver, env) {
				let (cls, d) = split_cls(&d);
				if cls == "v4_mapped_to_v4" || cls == "v4_compatible_to_v4" {
					// the differing re-encodings are consequences of this one normalisation: reported once
					ctx.bad("value", cls, d);
					return;
				}
				ctx.bad("value", cls, d);
			}
			ctx.checks += 1;
			match enc(&y, ver) {
				Ok(Ok(b2)) => {
					if b2 != real {
						ctx.bad("reencode", "", first_diff(&b2, &real));
					}
				}
				_ => ctx.bad("reencode", "", "re-serialisation failed".into()),
			}
			if let (Some(h), Some(hx)) = (hashf.as_ref(), hx.as_ref()) {
				ctx.checks += 1;
				if h(&y) != *hx {
					ctx.bad("hash_roundtrip", "", format!("hash changed by a round trip at v{}", ver));
				}
			}
			// the decoded value re-encodes like the original at every other version that can carry both
			for v2 in VERSIONS.iter() {
				if let (Ok(Ok(a)), Ok(Ok(b))) = (enc(x, *v2), enc(&y, *v2)) {
					ctx.checks += 1;
					if a != b {
						ctx.bad("cross_version", "", format!("decoded at v{} then written at v{}: {}", ver, v2, first_diff(&b, &a)));
					}
				}
			}
		}
	}
	// the same encoding through the other Reader implementations: same outcome as Dec states
	for rd in readers_of(case).into_iter().filter(|r| *r != Rd::Bin) {
		ctx.checks += 1;
		match de_with::<T>(&real, ver, rd) {
			Err(()) => ctx.bad_rd(rd, "read_panic", "", "deserialisation of own encoding panicked".into()),
			Ok(Err(e)) => ctx.bad_rd(rd, "read_error", "", format!("own encoding refused: {:?}", e)),
			Ok(Ok((y, left))) => {
				if left != 0 {
					ctx.bad_rd(rd, "trailing", "", format!("{} bytes not consumed", left));
				}
				if let Some(d) = eq(x, &y, ver, env) {
					let (cls, d) = split_cls(&d);
					ctx.bad_rd(rd, "value", cls, d);
				}
				match enc(&y, ver) {
					Ok(Ok(b2)) => {
						if b2 != real {
							ctx.bad_rd(rd, "reencode", "", first_diff(&b2, &real));
						}
					}
					_ => ctx.bad_rd(rd, "reencode", "", "re-serialisation failed".into()),
				}
			}
		}
	}
	// stored / transmitted at every version: same identity hash
	if let (Some(h), Some(hx)) = (hashf.as_ref(), hx.as_ref()) {
		for v2 in VERSIONS.iter() {
			if *v2 == ver {
				continue;
			}
			if let Ok(Ok(e2)) = enc(x, *v2) {
				if let Ok(Ok((y2, _))) = de::<T>(&e2, *v2) {
					ctx.checks += 1;
					if h(&y2) != *hx {
						ctx.bad("hash_version", "", format!("hash after storing at v{} differs", v2));
					}
				}
			}
		}
	}
	// (d) canonical-form perturbations are refused
	for p in case["perts"].as_array().unwrap() {
		let cls = st(p, "cls");
		let pb = rendered(&p["lay"], env);
		if pb == spec {
			ctx.bad("harness_perturbation_noop", cls, "perturbed rendering equals the original".into());
			continue;
		}
		for rd in readers_of(case) {
			ctx.checks += 1;
			match de_with::<T>(&pb, ver, rd) {
				Err(()) => ctx.bad_rd(rd, "panic", cls, format!("decoder panicked on {}", hex(&pb))),
				Ok(Ok((y, left))) => {
					let again = enc(&y, ver).ok().and_then(|r| r.ok()).map(|b| hex(&b)).unwrap_or_default();
					ctx.bad_rd(
						rd,
						"accepted",
						cls,
						format!("non-canonical encoding accepted ({} bytes left); bytes {} re-encode as {}", left, hex(&pb), again),
					)
				}
				Ok(Err(_)) => {}
			}
		}
	}
	if case["nrdoff"].as_bool().unwrap() {
		for rd in readers_of(case) {
			global::set_local_nrd_enabled(false);
			let r = de_with::<T>(&real, ver, rd);
			global::set_local_nrd_enabled(true);
			ctx.checks += 1;
			match r {
				Err(()) => ctx.bad_rd(rd, "panic", "nrd_disabled", "decoder panicked".into()),
				Ok(Ok(_)) => ctx.bad_rd(rd, "accepted", "nrd_disabled", "NRD kernel accepted with the feature flag off".into()),
				Ok(Err(_)) => {}
			}
		}
	}
}

fn no_hash<T>() -> Option<fn(&T) -> Hash> {
	None
}
fn peq<T: PartialEq + std::fmt::Debug>(x: &T, y: &T) -> Option<String> {
	if x == y {
		None
	} else {
		Some(format!("decoded {:?} expected {:?}", y, x).chars().take(600).collect())
	}
}

fn b_rproof(env: &mut Env, sym: &str) -> RangeProof {
	let p = env.bytes(sym, 675, "");
	let mut proof = [0u8; 675];
	proof.copy_from_slice(&p);
	RangeProof { proof, plen: 675 }
}
/// Segment<RangeProof>: RangeProof's PartialEq looks at the bytes; plen is compared as well
fn seg_rp_eq(a: &Segment<RangeProof>, b: &Segment<RangeProof>) -> Option<String> {
	if a != b {
		return Some(format!("decoded {:?} expected {:?}", b.id(), a.id()) + " (segments differ)");
	}
	if a.leaf_iter().zip(b.leaf_iter()).any(|((_, p), (_, q))| p.plen != q.plen || p.proof[..] != q.proof[..]) {
		return Some("range proof leaves differ".into());
	}
	None
}

/// what a round trip at `ver` preserves of the inputs: compared by commitment where the version omits features
fn norm_body(b: &TransactionBody, ver: u32) -> TransactionBody {
	let mut n = b.clone();
	if ver <= 2 {
		if let Inputs::CommitOnly(c) = &b.inputs {
			assert!(c.is_empty());
			n.inputs = Inputs::FeaturesAndCommit(vec![]);
		}
	} else {
		let mut cs: Vec<Commitment> = match &b.inputs {
			Inputs::CommitOnly(c) => c.iter().map(|w| w.commitment()).collect(),
			Inputs::FeaturesAndCommit(i) => i.iter().map(|w| w.commitment()).collect(),
		};
		cs.sort_by_key(|c| b2b(&c.0)); // CommitWrapper order = order of blake2b(commitment)
		n.inputs = Inputs::CommitOnly(cs.into_iter().map(|c| c.into()).collect());
	}
	n
}
fn body_eq(x: &TransactionBody, y: &TransactionBody, ver: u32) -> Option<String> {
	let n = norm_body(x, ver);
	if n != *y {
		return Some(format!("body differs: decoded inputs {:?} expected {:?}", y.inputs, n.inputs).chars().take(600).collect());
	}
	for (a, b) in n.outputs.iter().zip(y.outputs.iter()) {
		if a.proof != b.proof {
			return Some("range proof bytes differ".into());
		}
	}
	None
}

fn flat_u64(env: &mut Env, v: &Value, f: &str, k: &str) -> u64 {
	nv(env, &v[f], k)
}

fn run_case(case: &Value, seed: u64, inst: u64) -> (u64, Vec<Value>) {
	let mut env = Env::new(seed.wrapping_mul(1_000_003).wrapping_add(inst));
	let ver = un(case, "ver") as u32;
	let mut ctx = Ctx {
		case,
		ver,
		inst,
		checks: 0,
		mism: vec![],
	};
	let chain = if st(&case["g"], "chain") == "main" { ChainTypes::Mainnet } else { ChainTypes::AutomatedTesting };
	global::set_local_chain_type(chain);
	global::set_local_nrd_enabled(case["g"]["nrd"].as_bool().unwrap());
	let v = &case["val"];
	let keys = &case["keys"];
	let e = &mut env;
	let c = &mut ctx;
	match st(case, "ty") {
		"KernelFeatures" => {
			let x = b_kf(e, v);
			check(c, e, &x, |a, b, _, _| peq(a, b), no_hash());
		}
		"TxKernel" => {
			let x = b_kern(e, v);
			check(
				c,
				e,
				&x,
				|a: &TxKernel, b: &TxKernel, _, _| {
					if a.features == b.features && a.excess == b.excess && a.excess_sig == b.excess_sig && a == b {
						None
					} else {
						Some(format!("decoded {:?} expected {:?}", b, a))
					}
				},
				Some(|k: &TxKernel| k.hash()),
			);
		}
		"Input" => {
			let o = b_outid(e, v);
			let x = Input::new(o.features, o.commit);
			check(
				c,
				e,
				&x,
				|a: &Input, b: &Input, _, _| if a.features == b.features && a.commit == b.commit { None } else { Some(format!("{:?} vs {:?}", b, a)) },
				Some(|k: &Input| k.hash()),
			);
		}
		"OutputIdentifier" => {
			let x = b_outid(e, v);
			check(
				c,
				e,
				&x,
				|a: &OutputIdentifier, b: &OutputIdentifier, _, _| {
					if a.features == b.features && a.commit == b.commit {
						None
					} else {
						Some(format!("{:?} vs {:?}", b, a))
					}
				},
				Some(|k: &OutputIdentifier| k.hash()),
			);
		}
		"Output" => {
			let x = b_output(e, v);
			check(
				c,
				e,
				&x,
				|a: &Output, b: &Output, _, _| {
					if a.identifier.features == b.identifier.features && a.identifier.commit == b.identifier.commit && a.proof == b.proof && a.proof.plen == b.proof.plen {
						None
					} else {
						Some("output differs".into())
					}
				},
				Some(|k: &Output| k.identifier.hash()),
			);
		}
		"TransactionBody" => {
			let x = b_body(e, v, keys);
			check(c, e, &x, |a, b, ver, _| body_eq(a, b, ver), no_hash());
		}
		"Transaction" => {
			let x = Transaction {
				offset: BlindingFactor::from_slice(&e.bytes(st(v, "offset"), 32, "")),
				body: b_body(e, &v["body"], keys),
			};
			check(
				c,
				e,
				&x,
				|a: &Transaction, b: &Transaction, ver, _| if a.offset != b.offset { Some("offset differs".into()) } else { body_eq(&a.body, &b.body, ver) },
				no_hash(),
			);
		}
		"Proof" => {
			let x = b_proof(e, v);
			check(c, e, &x, |a, b, _, _| peq(a, b), Some(|p: &Proof| p.hash()));
		}
		"ProofOfWork" => {
			let x = b_pow(e, v);
			check(c, e, &x, |a, b, _, _| peq(a, b), no_hash());
		}
		"BlockHeader" if untrusted(case) => {
			let x = UH(b_header_mined(e, v));
			check(c, e, &x, |a: &UH, b: &UH, _, _| peq(&a.0, &b.0), Some(|h: &UH| h.0.hash()));
		}
		"BlockHeader" => {
			let x = b_header(e, v);
			check(c, e, &x, |a, b, _, _| peq(a, b), Some(|h: &BlockHeader| h.hash()));
		}
		"Block" if untrusted(case) => {
			let x = UB(Block {
				header: b_header_mined(e, &v["header"]),
				body: b_body(e, &v["body"], keys),
			});
			check(
				c,
				e,
				&x,
				|a: &UB, b: &UB, ver, _| if a.0.header != b.0.header { Some("header differs".into()) } else { body_eq(&a.0.body, &b.0.body, ver) },
				Some(|b: &UB| b.0.hash()),
			);
		}
		"Block" => {
			let x = Block {
				header: if st(&v["header"]["pow"]["nonce"], "cls") == "mined" { b_header_mined(e, &v["header"]) } else { b_header(e, &v["header"]) },
				body: b_body(e, &v["body"], keys),
			};
			check(
				c,
				e,
				&x,
				|a: &Block, b: &Block, ver, _| if a.header != b.header { Some("header differs".into()) } else { body_eq(&a.body, &b.body, ver) },
				Some(|b: &Block| b.hash()),
			);
		}
		"CompactBlock" => {
			// only constructible from a block: coinbase outputs / kernels stay full, the others become short ids;
			// the random nonce and the derived short ids are bound to the spec's symbols afterwards
			let header = if untrusted(case) { b_header_mined(e, &v["header"]) } else { b_header(e, &v["header"]) };
			let outs: Vec<Output> = v["out_full"].as_array().unwrap().iter().map(|o| b_output(e, o)).collect();
			let mut kerns: Vec<TxKernel> = v["kern_full"].as_array().unwrap().iter().map(|k| b_kern(e, k)).collect();
			let nid = v["kern_ids"].as_array().unwrap().len();
			for j in 0..nid {
				let kv = json!({"feat": {"t": "Plain", "fee": {"sym": format!("pk{}.fee", j), "cls": "fee_any"}}, "excess": format!("pk{}.ex", j), "sig": format!("pk{}.sig", j)});
				kerns.push(b_kern(e, &kv));
			}
			let body = TransactionBody::init(Inputs::default(), &outs, &kerns, false).expect("body");
			let cb: CompactBlock = Block { header, body }.into();
			e.set_num(st(&v["nonce"], "sym"), "u64", st(&v["nonce"], "cls"), cb.nonce);
			for (j, id) in cb.kern_ids().iter().enumerate() {
				let sym = st(&v["kern_ids"][j], "id").to_string();
				e.set_bytes(&sym, id.as_ref().to_vec());
			}
			if untrusted(case) {
				let x = UCB(cb);
				check(c, e, &x, |a: &UCB, b: &UCB, _, _| cb_eq(&a.0, &b.0), Some(|b: &UCB| b.0.hash()));
			} else {
				check(c, e, &cb, |a: &CompactBlock, b: &CompactBlock, _, _| cb_eq(a, b), Some(|b: &CompactBlock| b.hash()));
			}
		}
		"Tip" => {
			let x = Tip {
				height: flat_u64(e, v, "height", "u64"),
				last_block_h: hash32(e, st(v, "last_block_h")),
				prev_block_h: hash32(e, st(v, "prev_block_h")),
				total_difficulty: diff(flat_u64(e, v, "total_difficulty", "u64")),
			};
			check(c, e, &x, |a, b, _, _| peq(a, b), no_hash());
		}
		"CommitPos" => {
			let x = CommitPos {
				pos: flat_u64(e, v, "pos", "u64"),
				height: flat_u64(e, v, "height", "u64"),
			};
			check(c, e, &x, |a: &CommitPos, b: &CommitPos, _, _| if a.pos == b.pos && a.height == b.height { None } else { Some("differs".into()) }, no_hash());
		}
		"Ping" => {
			let x = Ping {
				total_difficulty: diff(flat_u64(e, v, "total_difficulty", "u64")),
				height: flat_u64(e, v, "height", "u64"),
			};
			check(c, e, &x, |a: &Ping, b: &Ping, _, _| if a.total_difficulty == b.total_difficulty && a.height == b.height { None } else { Some("differs".into()) }, no_hash());
		}
		"Pong" => {
			let x = Pong {
				total_difficulty: diff(flat_u64(e, v, "total_difficulty", "u64")),
				height: flat_u64(e, v, "height", "u64"),
			};
			check(c, e, &x, |a: &Pong, b: &Pong, _, _| if a.total_difficulty == b.total_difficulty && a.height == b.height { None } else { Some("differs".into()) }, no_hash());
		}
		"GetPeerAddrs" => {
			let x = GetPeerAddrs {
				capabilities: Capabilities::from_bits_truncate(flat_u64(e, v, "capabilities", "u32") as u32),
			};
			check(c, e, &x, |a: &GetPeerAddrs, b: &GetPeerAddrs, _, _| if a.capabilities == b.capabilities { None } else { Some("differs".into()) }, no_hash());
		}
		"TxHashSetRequest" => {
			let x = TxHashSetRequest {
				hash: hash32(e, st(v, "hash")),
				height: flat_u64(e, v, "height", "u64"),
			};
			check(c, e, &x, |a: &TxHashSetRequest, b: &TxHashSetRequest, _, _| if a.hash == b.hash && a.height == b.height { None } else { Some("differs".into()) }, no_hash());
		}
		"TxHashSetArchive" => {
			let x = TxHashSetArchive {
				hash: hash32(e, st(v, "hash")),
				height: flat_u64(e, v, "height", "u64"),
				bytes: flat_u64(e, v, "bytes", "u64"),
			};
			check(
				c,
				e,
				&x,
				|a: &TxHashSetArchive, b: &TxHashSetArchive, _, _| if a.hash == b.hash && a.height == b.height && a.bytes == b.bytes { None } else { Some("differs".into()) },
				no_hash(),
			);
		}
		"SegmentIdentifier" => {
			let x = b_segid(e, v);
			check(c, e, &x, |a, b, _, _| peq(a, b), no_hash());
		}
		"SegmentRequest" => {
			let x = SegmentRequest {
				block_hash: hash32(e, st(v, "block_hash")),
				identifier: b_segid(e, v),
			};
			check(
				c,
				e,
				&x,
				|a: &SegmentRequest, b: &SegmentRequest, _, _| if a.block_hash == b.block_hash && a.identifier == b.identifier { None } else { Some("differs".into()) },
				no_hash(),
			);
		}
		"PeerAddr" => {
			let x = b_addr(e, v);
			check(
				c,
				e,
				&x,
				|a: &PeerAddr, b: &PeerAddr, _, _| {
					if a.0 == b.0 {
						return None;
					}
					// precisely: V6 [::ffff:a.b.c.d]:p decoded as V4 a.b.c.d:p (reported under its own class)
					if let (SocketAddr::V6(x6), SocketAddr::V4(y4)) = (a.0, b.0) {
						if x6.ip().to_ipv4_mapped() == Some(*y4.ip()) && x6.port() == y4.port() {
							return Some(format!("{}v4_mapped_to_v4:decoded {} expected {}", CLSP, b.0, a.0));
						}
						if x6.ip().to_ipv4() == Some(*y4.ip()) && x6.port() == y4.port() {
							// ::a.b.c.d (incl. ::1 and ::) folded into IPv4: std's to_ipv4() instead of to_ipv4_mapped()
							return Some(format!("{}v4_compatible_to_v4:decoded {} expected {}", CLSP, b.0, a.0));
						}
					}
					Some(format!("decoded {} expected {}", b.0, a.0))
				},
				no_hash(),
			);
		}
		"PeerAddrs" => {
			let x = PeerAddrs {
				peers: v["peers"].as_array().unwrap().iter().map(|p| b_addr(e, p)).collect(),
			};
			check(
				c,
				e,
				&x,
				|a: &PeerAddrs, b: &PeerAddrs, _, _| {
					if a.peers.len() == b.peers.len() && a.peers.iter().zip(b.peers.iter()).all(|(p, q)| p.0 == q.0) {
						None
					} else {
						Some("peer list differs".into())
					}
				},
				no_hash(),
			);
		}
		"Locator" => {
			let x = Locator {
				hashes: v["hashes"].as_array().unwrap().iter().map(|h| hash32(e, h.as_str().unwrap())).collect(),
			};
			check(c, e, &x, |a: &Locator, b: &Locator, _, _| if a.hashes == b.hashes { None } else { Some("differs".into()) }, no_hash());
		}
		"Hand" => {
			let ua = String::from_utf8(e.bytes(st(v, "ua"), un(v, "ualen") as usize, "ascii")).unwrap();
			let x = Hand {
				version: ProtocolVersion(nv(e, &v["version"], "u32") as u32),
				capabilities: Capabilities::from_bits_truncate(nv(e, &v["capabilities"], "u32") as u32),
				nonce: nv(e, &v["nonce"], "u64"),
				genesis: hash32(e, st(v, "genesis")),
				total_difficulty: diff(nv(e, &v["total_difficulty"], "u64")),
				sender_addr: b_addr(e, &v["sender_addr"]),
				receiver_addr: b_addr(e, &v["receiver_addr"]),
				user_agent: ua,
			};
			check(
				c,
				e,
				&x,
				|a: &Hand, b: &Hand, _, _| {
					if a.version == b.version
						&& a.capabilities == b.capabilities
						&& a.nonce == b.nonce && a.genesis == b.genesis
						&& a.total_difficulty == b.total_difficulty
						&& a.sender_addr.0 == b.sender_addr.0
						&& a.receiver_addr.0 == b.receiver_addr.0
						&& a.user_agent == b.user_agent
					{
						None
					} else {
						Some("hand differs".into())
					}
				},
				no_hash(),
			);
		}
		"Shake" => {
			let ua = String::from_utf8(e.bytes(st(v, "ua"), un(v, "ualen") as usize, "ascii")).unwrap();
			let x = Shake {
				version: ProtocolVersion(nv(e, &v["version"], "u32") as u32),
				capabilities: Capabilities::from_bits_truncate(nv(e, &v["capabilities"], "u32") as u32),
				genesis: hash32(e, st(v, "genesis")),
				total_difficulty: diff(nv(e, &v["total_difficulty"], "u64")),
				user_agent: ua,
			};
			check(
				c,
				e,
				&x,
				|a: &Shake, b: &Shake, _, _| {
					if a.version == b.version && a.capabilities == b.capabilities && a.genesis == b.genesis && a.total_difficulty == b.total_difficulty && a.user_agent == b.user_agent {
						None
					} else {
						Some("shake differs".into())
					}
				},
				no_hash(),
			);
		}
		"Headers" => {
			let x = HeadersW(Headers {
				headers: v["headers"].as_array().unwrap().iter().map(|h| b_header(e, h)).collect(),
			});
			check(c, e, &x, |_, _, _, _| None, no_hash());
		}
		"SegmentProof" => {
			let x = b_segproof(e, &v["proof"]);
			check(c, e, &x, |a, b, _, _| peq(a, b), no_hash());
		}
		"SegmentOutId" => {
			let x = b_segment(e, v, |e, l| b_outid(e, l));
			check(c, e, &x, |a, b, _, _| peq(a, b), no_hash());
		}
		"SegmentKernel" => {
			let x = b_segment(e, v, |e, l| b_kern(e, l));
			check(c, e, &x, |a, b, _, _| peq(a, b), no_hash());
		}
		"BitmapSegment" => {
			let x = b_bitmap_segment(e, v);
			check(c, e, &x, |a, b, _, _| peq(a, b), no_hash());
		}
		"HeaderEntry" => {
			// no constructor and private fields (the only producer is BlockHeader::as_elmt): the value is obtained through the
			// reader from the rendering of the spec's layout; writer output, re-encoding and the other readers are compared with it
			let bytes = rendered(&case["lay"], e);
			let x: HeaderEntry = ser::deserialize(&mut &bytes[..], ProtocolVersion(ver), DeserializationMode::default()).expect("header entry");
			check(
				c,
				e,
				&x,
				|a: &HeaderEntry, b: &HeaderEntry, _, _| if a.hash() == b.hash() { None } else { Some(format!("hash field differs: decoded {:?} expected {:?}", b.hash(), a.hash())) },
				no_hash(),
			);
		}
		"SegmentRangeProof" => {
			let x = b_segment(e, v, |e, l| b_rproof(e, st(l, "proof")));
			check(c, e, &x, |a, b, _, _| seg_rp_eq(a, b), no_hash());
		}
		"SegmentResponseKernel" => {
			let x = SegmentResponse {
				block_hash: hash32(e, st(v, "block_hash")),
				segment: b_segment(e, &v["segment"], |e, l| b_kern(e, l)),
			};
			check(
				c,
				e,
				&x,
				|a: &SegmentResponse<TxKernel>, b: &SegmentResponse<TxKernel>, _, _| {
					if a.block_hash != b.block_hash {
						return Some(format!("block_hash differs: decoded {:?} expected {:?}", b.block_hash, a.block_hash));
					}
					peq(&a.segment, &b.segment)
				},
				no_hash(),
			);
		}
		"SegmentResponseRangeProof" => {
			let x = SegmentResponse {
				block_hash: hash32(e, st(v, "block_hash")),
				segment: b_segment(e, &v["segment"], |e, l| b_rproof(e, st(l, "proof"))),
			};
			check(
				c,
				e,
				&x,
				|a: &SegmentResponse<RangeProof>, b: &SegmentResponse<RangeProof>, _, _| {
					if a.block_hash != b.block_hash {
						return Some(format!("block_hash differs: decoded {:?} expected {:?}", b.block_hash, a.block_hash));
					}
					seg_rp_eq(&a.segment, &b.segment)
				},
				no_hash(),
			);
		}
		"OutputSegmentResponse" => {
			let x = OutputSegmentResponse {
				response: SegmentResponse {
					block_hash: hash32(e, st(&v["response"], "block_hash")),
					segment: b_segment(e, &v["response"]["segment"], |e, l| b_outid(e, l)),
				},
				output_bitmap_root: hash32(e, st(v, "output_bitmap_root")),
			};
			check(
				c,
				e,
				&x,
				|a: &OutputSegmentResponse, b: &OutputSegmentResponse, _, _| {
					if a.response.block_hash != b.response.block_hash {
						return Some(format!("block_hash differs: decoded {:?} expected {:?}", b.response.block_hash, a.response.block_hash));
					}
					if a.output_bitmap_root != b.output_bitmap_root {
						return Some(format!("output_bitmap_root differs: decoded {:?} expected {:?}", b.output_bitmap_root, a.output_bitmap_root));
					}
					peq(&a.response.segment, &b.response.segment)
				},
				no_hash(),
			);
		}
		"OutputBitmapSegmentResponse" => {
			let x = OutputBitmapSegmentResponse {
				block_hash: hash32(e, st(v, "block_hash")),
				segment: b_bitmap_segment(e, &v["segment"]),
				output_root: hash32(e, st(v, "output_root")),
			};
			check(
				c,
				e,
				&x,
				|a: &OutputBitmapSegmentResponse, b: &OutputBitmapSegmentResponse, _, _| {
					if a.block_hash != b.block_hash {
						return Some(format!("block_hash differs: decoded {:?} expected {:?}", b.block_hash, a.block_hash));
					}
					if a.output_root != b.output_root {
						return Some(format!("output_root differs: decoded {:?} expected {:?}", b.output_root, a.output_root));
					}
					peq(&a.segment, &b.segment)
				},
				no_hash(),
			);
		}
		"PeerError" => {
			let x = PeerError {
				code: nv(e, &v["code"], "u32") as u32,
				message: String::from_utf8(e.bytes(st(v, "msg"), un(v, "msglen") as usize, "ascii")).unwrap(),
			};
			check(
				c,
				e,
				&x,
				|a: &PeerError, b: &PeerError, _, _| if a.code == b.code && a.message == b.message { None } else { Some(format!("decoded ({}, {:?}) expected ({}, {:?})", b.code, b.message, a.code, a.message)) },
				no_hash(),
			);
		}
		"BlockSums" => {
			let x = BlockSums {
				utxo_sum: commit(e, st(v, "utxo_sum")),
				kernel_sum: commit(e, st(v, "kernel_sum")),
			};
			check(
				c,
				e,
				&x,
				|a: &BlockSums, b: &BlockSums, _, _| if a.utxo_sum == b.utxo_sum && a.kernel_sum == b.kernel_sum { None } else { Some(format!("decoded {:?} expected {:?}", b, a)) },
				no_hash(),
			);
		}
		"MerkleProof" => {
			let x = MerkleProof {
				mmr_size: nv(e, &v["mmr_size"], "u64"),
				path: v["path"].as_array().unwrap().iter().map(|h| hash32(e, h.as_str().unwrap())).collect(),
			};
			check(c, e, &x, |a, b, _, _| peq(a, b), no_hash());
		}
		t => panic!("harness: unknown type {}", t),
	}
	(ctx.checks, ctx.mism)
}

/// `Headers` has a writer only; give it a reader that is never called (case.decodable = false)
struct HeadersW(Headers);
impl Writeable for HeadersW {
	fn write<W: ser::Writer>(&self, w: &mut W) -> Result<(), ser::Error> {
		self.0.write(w)
	}
}
impl Readable for HeadersW {
	fn read<R: ser::Reader>(_r: &mut R) -> Result<Self, ser::Error> {
		Err(ser::Error::CorruptedData)
	}
}

fn replay(args: &Args) -> i32 {
	let cases = read_ndjson(args.req("cases"));
	let seed = args.u64("seed", 1);
	let inst = args.u64("inst", 5);
	let nthreads = args.u64("threads", 4) as usize;
	let n = cases.len();
	let cases = std::sync::Arc::new(cases);
	let mut handles = vec![];
	let next = std::sync::Arc::new(std::sync::atomic::AtomicUsize::new(0));
	for t in 0..nthreads {
		let cases = cases.clone();
		let next = next.clone();
		handles.push(std::thread::spawn(move || {
			let mut res: Vec<(usize, Value)> = vec![];
			let _ = t;
			loop {
				// shared work queue: case costs differ by orders of magnitude (256-address lists, full bitmap segments)
				let i = next.fetch_add(1, std::sync::atomic::Ordering::SeqCst);
				if i >= n {
					break;
				}
				let case = &cases[i];
				let mut checks = 0;
				let mut mism: Vec<Value> = vec![];
				let ninst = if case.get("big").and_then(|b| b.as_bool()).unwrap_or(false) { inst.min(2) } else { inst };
				for k in 0..ninst {
					// a harness bug (bad case file) must not look like a verdict: it is reported as such
					match catch_unwind(AssertUnwindSafe(|| run_case(case, seed.wrapping_add(i as u64 * 7919), k))) {
						Ok((c, m)) => {
							checks += c;
							mism.extend(m);
						}
						Err(_) => mism.push(json!({"what": "harness_panic", "cls": "", "inst": k, "detail": "panic while building or rendering the case"})),
					}
					if mism.len() >= 12 {
						break;
					}
				}
				res.push((i, json!({"idx": i, "checks": checks, "mismatches": mism})));
			}
			res
		}));
	}
	let mut all: Vec<(usize, Value)> = vec![];
	for h in handles {
		all.extend(h.join().expect("thread"));
	}
	all.sort_by_key(|x| x.0);
	let mut out = NdWriter::create(args.req("out"));
	for (_, v) in all {
		out.put(&v);
	}
	out.finish();
	0
}

/// the interpreter's bit packing against the concrete PackBytes values computed by TLC
fn packcheck(args: &Args) -> i32 {
	let v = read_ndjson(args.req("cases"));
	let mut n = 0;
	for line in v {
		for s in line.as_array().unwrap() {
			let w = s[0].as_u64().unwrap() as u32;
			let vals: Vec<u64> = s[1].as_array().unwrap().iter().map(|x| x.as_u64().unwrap()).collect();
			let want: Vec<u8> = s[2].as_array().unwrap().iter().map(|x| x.as_u64().unwrap() as u8).collect();
			if pack_bits(w, &vals, None) != want {
				println!("{}", json!({"ok": false, "w": w, "vals": vals}));
				return 1;
			}
			n += 1;
		}
	}
	println!("{}", json!({"ok": true, "n": n}));
	0
}

/// scope probes recorded in the evidence (not verdicts): behaviours the property statement does not clearly cover
fn probe(_args: &Args) -> i32 {
	global::set_local_chain_type(ChainTypes::AutomatedTesting);
	let mut env = Env::new(7);
	// a range proof shorter than 675 bytes is padded by RangeProof::read
	let mut o = b_output(&mut env, &json!({"f": 0, "c": "c", "proof": "p"}));
	o.proof.plen = 600;
	let b = ser::ser_vec(&o, ProtocolVersion(1)).unwrap();
	let y: Output = ser::deserialize(&mut &b[..], ProtocolVersion(1), DeserializationMode::default()).unwrap();
	let b2 = ser::ser_vec(&y, ProtocolVersion(1)).unwrap();
	// unknown capability bits are dropped
	let g = ser::deserialize::<GetPeerAddrs, _>(&mut &[0xffu8, 0xff, 0xff, 0xff][..], ProtocolVersion(1), DeserializationMode::default()).unwrap();
	// StreamingReader::total_bytes_read() after a length-prefixed field (Shake user agent): the prefix is counted twice
	let sh = Shake {
		version: ProtocolVersion(1),
		capabilities: Capabilities::from_bits_truncate(1),
		genesis: hash32(&mut env, "g"),
		total_difficulty: diff(1),
		user_agent: "ua".to_string(),
	};
	let sb = ser::ser_vec(&sh, ProtocolVersion(1)).unwrap();
	let mut cur = std::io::Cursor::new(&sb[..]);
	let mut sr = ser::StreamingReader::new(&mut cur, ProtocolVersion(1));
	let _ = Shake::read(&mut sr);
	let counted = sr.total_bytes_read();
	// HeaderEntry (header MMR leaf, local storage): the is_secondary byte is read as `!= 0`, so 2..255 are accepted and rewritten as 1
	let mut he = vec![0u8; 32 + 8 + 8 + 4];
	he.push(2);
	let hy = ser::deserialize::<HeaderEntry, _>(&mut &he[..], ProtocolVersion(1), DeserializationMode::default());
	let he_back = hy.ok().map(|y| *ser::ser_vec(&y, ProtocolVersion(1)).unwrap().last().unwrap() as i64).unwrap_or(-1);
	println!(
		"{}",
		json!({"header_entry_flag_byte_2_reencoded_as": he_back, "streaming_reader_shake_len": sb.len(), "streaming_reader_total_bytes_read": counted,
			"short_proof_len_written": b.len(), "short_proof_len_after_roundtrip": b2.len(), "short_proof_plen_after": y.proof.plen,
			"capabilities_ffffffff_reencoded": hex(&ser::ser_vec(&g, ProtocolVersion(1)).unwrap())})
	);
	0
}
