//! Building real chains for the crash / concurrency engines: fixed keychain, a genesis with
//! MMR sizes consistent with its body, blocks with honest roots computed on a builder chain.
use chrono::Duration;
use grin_chain::types::NoopAdapter;
use grin_chain::{Chain, Options};
use grin_core::core::hash::{Hash, Hashed};
use grin_core::core::{Block, BlockHeader, FeeFields, KernelFeatures, Output, Transaction, TxKernel};
use grin_core::genesis;
use grin_core::libtx::{build, reward, ProofBuilder};
use grin_core::pow::{self, Difficulty};
use grin_core::ser::{self, ProtocolVersion};
use grin_keychain::{ExtKeychain, ExtKeychainPath, Identifier, Keychain};
use grin_util::ToHex;
use std::sync::{Arc, OnceLock};

pub const GRIN: u64 = 1_000_000_000;
pub const REWARD: u64 = 60 * GRIN;
pub const FEE: u64 = 15 * GRIN;

pub fn keychain() -> ExtKeychain {
	ExtKeychain::from_seed(&[11u8; 32], false).unwrap()
}

/// key of the coinbase of block `id`
pub fn kid_cb(id: u64) -> Identifier {
	ExtKeychainPath::new(3, 7, id as u32, 0, 0).to_identifier()
}

/// key of the j-th transaction output created in block `id`
pub fn kid_out(id: u64, j: u64) -> Identifier {
	ExtKeychainPath::new(4, 8, id as u32, j as u32, 0).to_identifier()
}

static GENESIS: OnceLock<Block> = OnceLock::new();

pub fn reward_output(id: u64, fees: u64) -> (Output, TxKernel) {
	let kc = keychain();
	let r = reward::output(&kc, &ProofBuilder::new(&kc), &kid_cb(id), fees, false).unwrap();
	r
}

/// The harness genesis: genesis_dev with a reward and header MMR sizes consistent with its body.
/// Deterministic apart from the kernel signature, so it is built once per process; other
/// processes must load it from the file written by `save_blocks`.
pub fn genesis() -> Block {
	GENESIS
		.get_or_init(|| {
			let r = reward_output(0, 0);
			let mut g = genesis::genesis_dev().with_reward(r.0, r.1);
			g.header.output_mmr_size = 1;
			g.header.kernel_mmr_size = 1;
			g
		})
		.clone()
}

pub fn set_genesis(g: Block) {
	let _ = GENESIS.set(g);
}

pub fn init_chain(dir: &str) -> Result<Chain, grin_chain::Error> {
	Chain::init(
		dir.to_string(),
		Arc::new(NoopAdapter {}),
		genesis(),
		pow::verify_size,
		false,
		None,
	)
}

/// One spend: (value, key, is_coinbase)
pub type In = (u64, Identifier, bool);

pub fn spend_tx(ins: &[In], outs: &[(u64, Identifier)], fee: u64) -> Transaction {
	let kc = keychain();
	let pb = ProofBuilder::new(&kc);
	let mut elems = vec![];
	for (v, k, cb) in ins {
		if *cb {
			elems.push(build::coinbase_input(*v, k.clone()));
		} else {
			elems.push(build::input(*v, k.clone()));
		}
	}
	for (v, k) in outs {
		elems.push(build::output(*v, k.clone()));
	}
	build::transaction(
		KernelFeatures::Plain {
			fee: FeeFields::new(0, fee).unwrap(),
		},
		&elems,
		&kc,
		&pb,
	)
	.expect("build tx")
}

/// Build block `id` on top of `prev` with the given transactions, honest roots from `builder`
/// (which must already hold every ancestor body). Does not process it.
pub fn make_block(builder: &Chain, prev: &BlockHeader, id: u64, diff: u64, txs: &[Transaction]) -> Block {
	let fees: u64 = txs.iter().map(|t| t.fee()).sum();
	let rw = reward_output(id, fees);
	let mut b = Block::new(prev, txs, Difficulty::from_num(diff), rw).expect("block new");
	b.header.timestamp = prev.timestamp + Duration::seconds(60);
	builder.set_txhashset_roots(&mut b).expect("set roots");
	b
}

/// A straight chain of `n` blocks on `chain` (ids 1..=n). From height 4 on, block h spends the
/// coinbase of block h-3 into `fanout` outputs (value split evenly, remainder to the first).
/// Returns the blocks.
pub fn grow_chain(chain: &Chain, from_id: u64, n: u64, fanout: u64) -> Vec<Block> {
	let mut out = vec![];
	for id in from_id..from_id + n {
		let prev = chain.head_header().unwrap();
		let h = prev.height + 1;
		let mut txs = vec![];
		if h >= 4 && fanout > 0 {
			txs.push(coinbase_fanout_tx(h - 3, cb_value_of(chain, h - 3), id, fanout));
		}
		let b = make_block(chain, &prev, id, 1, &txs);
		chain.process_block(b.clone(), Options::SKIP_POW).expect("grow");
		out.push(b);
	}
	out
}

/// value of the coinbase created at height h on the current chain (reward + that block's fees)
pub fn cb_value_of(chain: &Chain, h: u64) -> u64 {
	let hdr = chain.get_header_by_height(h).unwrap();
	let b = chain.get_block(&hdr.hash()).unwrap();
	REWARD + b.total_fees()
}

/// Spend the coinbase of block `cb_id` (value `v`) into `fanout` fresh outputs keyed by (in_block, j)
pub fn coinbase_fanout_tx(cb_id: u64, v: u64, in_block: u64, fanout: u64) -> Transaction {
	let total = v - FEE;
	let each = total / fanout;
	let mut outs = vec![];
	for j in 0..fanout {
		let val = if j == 0 { total - each * (fanout - 1) } else { each };
		outs.push((val, kid_out(in_block, j)));
	}
	spend_tx(&[(v, kid_cb(cb_id), true)], &outs, FEE)
}

pub fn save_blocks(path: &str, blocks: &[Block]) {
	let mut buf = vec![];
	for b in blocks {
		let v = ser::ser_vec(b, ProtocolVersion(1000)).unwrap();
		buf.extend_from_slice(&(v.len() as u32).to_be_bytes());
		buf.extend_from_slice(&v);
	}
	std::fs::write(path, buf).unwrap();
}

pub fn load_blocks(path: &str) -> Vec<Block> {
	let buf = std::fs::read(path).unwrap();
	let mut i = 0;
	let mut out = vec![];
	while i + 4 <= buf.len() {
		let n = u32::from_be_bytes([buf[i], buf[i + 1], buf[i + 2], buf[i + 3]]) as usize;
		i += 4;
		let b: Block = ser::deserialize(
			&mut &buf[i..i + n],
			ProtocolVersion(1000),
			ser::DeserializationMode::default(),
		)
		.expect("block deser");
		i += n;
		out.push(b);
	}
	out
}

pub fn roots_hex(chain: &Chain) -> Vec<String> {
	let r = chain.txhashset().read().roots().unwrap();
	vec![
		r.output_roots.pmmr_root.to_hex(),
		r.output_roots.bitmap_root.to_hex(),
		r.rproof_root.to_hex(),
		r.kernel_root.to_hex(),
	]
}

pub fn hash_hex(h: &Hash) -> String {
	h.to_hex()
}
