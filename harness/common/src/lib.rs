//! Shared helpers: argument parsing, NDJSON I/O, the test element type, symbolic hash-term evaluation.
pub mod chainkit;

use grin_core::core::hash::{DefaultHashable, Hash, ZERO_HASH};
use grin_core::ser::{self, PMMRIndexHashable, PMMRable, Readable, Reader, Writeable, Writer};
use serde_json::Value;
use std::collections::HashMap;
use std::fs::File;
use std::io::{BufRead, BufReader, BufWriter, Write};

pub struct Args {
	pub pos: Vec<String>,
	pub kv: HashMap<String, String>,
}

impl Args {
	pub fn parse(a: &[String]) -> Args {
		let mut pos = vec![];
		let mut kv = HashMap::new();
		let mut i = 0;
		while i < a.len() {
			if a[i].starts_with("--") {
				let k = a[i][2..].to_string();
				if i + 1 < a.len() && !a[i + 1].starts_with("--") {
					kv.insert(k, a[i + 1].clone());
					i += 2;
				} else {
					kv.insert(k, "1".to_string());
					i += 1;
				}
			} else {
				pos.push(a[i].clone());
				i += 1;
			}
		}
		Args { pos, kv }
	}
	pub fn get(&self, k: &str) -> Option<&str> {
		self.kv.get(k).map(|s| s.as_str())
	}
	pub fn req(&self, k: &str) -> &str {
		self.kv.get(k).map(|s| s.as_str()).unwrap_or_else(|| {
			eprintln!("missing --{}", k);
			std::process::exit(2)
		})
	}
	pub fn u64(&self, k: &str, d: u64) -> u64 {
		self.kv.get(k).map(|s| s.parse().expect("int arg")).unwrap_or(d)
	}
}

pub fn read_ndjson(path: &str) -> Vec<Value> {
	let f = File::open(path).unwrap_or_else(|e| {
		eprintln!("cannot open {}: {}", path, e);
		std::process::exit(2)
	});
	BufReader::new(f)
		.lines()
		.map(|l| l.unwrap())
		.filter(|l| !l.trim().is_empty())
		.map(|l| serde_json::from_str(&l).expect("json line"))
		.collect()
}

pub struct NdWriter {
	w: BufWriter<File>,
	pub n: usize,
}

impl NdWriter {
	pub fn create(path: &str) -> NdWriter {
		NdWriter {
			w: BufWriter::new(File::create(path).expect("create out")),
			n: 0,
		}
	}
	pub fn put(&mut self, v: &Value) {
		serde_json::to_writer(&mut self.w, v).unwrap();
		self.w.write_all(b"\n").unwrap();
		self.n += 1;
	}
	pub fn finish(mut self) {
		self.w.flush().unwrap();
	}
}

/// Fixed-size test element for MMRs (16 bytes).
#[derive(Copy, Clone, Debug, PartialEq, Eq)]
pub struct Elem(pub [u32; 4]);

impl Elem {
	pub fn of(d: u64) -> Elem {
		Elem([d as u32, (d >> 32) as u32, 0x5eed, 7])
	}
}

impl DefaultHashable for Elem {}

impl PMMRable for Elem {
	type E = Self;
	fn as_elmt(&self) -> Self::E {
		*self
	}
	fn elmt_size() -> Option<u16> {
		Some(16)
	}
}

impl Writeable for Elem {
	fn write<W: Writer>(&self, writer: &mut W) -> Result<(), ser::Error> {
		for x in &self.0 {
			writer.write_u32(*x)?;
		}
		Ok(())
	}
}

impl Readable for Elem {
	fn read<R: Reader>(reader: &mut R) -> Result<Elem, ser::Error> {
		Ok(Elem([
			reader.read_u32()?,
			reader.read_u32()?,
			reader.read_u32()?,
			reader.read_u32()?,
		]))
	}
}

/// Variable-size test element.
#[derive(Clone, Debug, PartialEq, Eq)]
pub struct VarElem(pub Vec<u8>);

impl VarElem {
	pub fn of(d: u64) -> VarElem {
		let n = 1 + (d % 7) as usize * 3;
		let mut v = vec![(d & 0xff) as u8; n];
		v[0] = (d >> 8) as u8;
		VarElem(v)
	}
}

impl DefaultHashable for VarElem {}

impl PMMRable for VarElem {
	type E = Self;
	fn as_elmt(&self) -> Self::E {
		self.clone()
	}
	fn elmt_size() -> Option<u16> {
		None
	}
}

impl Writeable for VarElem {
	fn write<W: Writer>(&self, writer: &mut W) -> Result<(), ser::Error> {
		writer.write_u16(self.0.len() as u16)?;
		writer.write_fixed_bytes(&self.0)
	}
}

impl Readable for VarElem {
	fn read<R: Reader>(reader: &mut R) -> Result<VarElem, ser::Error> {
		let n = reader.read_u16()?;
		Ok(VarElem(reader.read_fixed_bytes(n as usize)?))
	}
}

pub fn junk_hash() -> Hash {
	Hash::from_vec(&[0xA5u8; 32])
}

/// Evaluate a symbolic hash term from the specification with the repository's hash primitive.
/// ["L", pos, d] | ["N", idx, l, r] | "ZERO" | ["J"]
pub fn eval_term<F: Fn(u64, u64) -> Hash>(t: &Value, leaf: &F) -> Hash {
	match t {
		Value::String(s) if s == "ZERO" => ZERO_HASH,
		Value::Array(a) => match a[0].as_str().unwrap() {
			"L" => leaf(a[1].as_u64().unwrap(), a[2].as_u64().unwrap()),
			"N" => {
				let l = eval_term(&a[2], leaf);
				let r = eval_term(&a[3], leaf);
				(l, r).hash_with_index(a[1].as_u64().unwrap())
			}
			"J" => junk_hash(),
			x => panic!("bad term tag {}", x),
		},
		_ => panic!("bad term {}", t),
	}
}

pub fn elem_leaf(pos: u64, d: u64) -> Hash {
	Elem::of(d).hash_with_index(pos)
}

/// Panics in code under test are data: keep stderr quiet, the caller uses catch_unwind.
pub fn quiet_panics() {
	if std::env::var("VERIF_LOUD_PANICS").is_err() {
		std::panic::set_hook(Box::new(|_| {}));
	}
}
