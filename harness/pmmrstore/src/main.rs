//! C08 engine (store level): a real `PMMRBackend` driven through `PMMR` under the usage protocol of
//! txhashset.rs, bound to spec/PMMRStore.tla.
//!   replay  — direction A: behaviours emitted by TLC (MC_PMMRStoreGen) are executed action by action
//!             and after EVERY action the store is compared with the specification's reference.
//!   record  — direction B: a seeded random driver; every call is logged with its arguments and a cheap
//!             projection of the real store; spec/trace/PMMRStoreTrace.tla validates the log.
use croaring::Bitmap;
use grin_core::core::hash::Hash;
use grin_core::core::pmmr::{self, ReadablePMMR, VecBackend, PMMR};
use grin_core::ser::{PMMRIndexHashable, PMMRable, ProtocolVersion};
use grin_store::pmmr::PMMRBackend;
use rand::rngs::StdRng;
use rand::{Rng, SeedableRng};
use serde_json::{json, Value};
use std::collections::{BTreeSet, HashMap};
use std::panic::{catch_unwind, AssertUnwindSafe};
use std::path::PathBuf;
use std::sync::{Arc, Mutex};
use vcommon::*;

mod layout;

/// Test element constructors: injective in `d`, so stale or shifted data can never look right.
trait Mk: PMMRable<E = Self> + PartialEq + 'static {
	fn mk(d: u64) -> Self;
}
impl Mk for Elem {
	fn mk(d: u64) -> Elem {
		Elem::of(d)
	}
}
impl Mk for VarElem {
	fn mk(d: u64) -> VarElem {
		// 8 bytes of d, then 0..12 filler bytes: sizes vary between neighbours
		let mut v = d.to_be_bytes().to_vec();
		for j in 0..((d % 5) * 3) {
			v.push((d as u8).wrapping_mul(31).wrapping_add(j as u8));
		}
		VarElem(v)
	}
}

fn main() {
	quiet_panics();
	let a: Vec<String> = std::env::args().skip(1).collect();
	let args = Args::parse(&a);
	let var = args.get("elem").unwrap_or("fixed") == "var";
	let rc = match (args.pos.get(0).map(|s| s.as_str()), var) {
		(Some("replay"), false) => replay::<Elem>(&args),
		(Some("replay"), true) => replay::<VarElem>(&args),
		(Some("record"), false) => record::<Elem>(&args),
		(Some("record"), true) => record::<VarElem>(&args),
		(Some("layout"), _) => layout::layout(&args),
		_ => {
			eprintln!("pmmrstore replay|record [--elem fixed|var]");
			2
		}
	};
	std::process::exit(rc);
}

// ---------------------------------------------------------------------------------------------
// the real store, used exactly as txhashset.rs uses it

struct Real<T: Mk> {
	dir: PathBuf,
	be: Option<PMMRBackend<T>>,
	size: u64,  // size of the working PMMR (PMMRHandle.size / extension pmmr.size)
	csize: u64, // size as of the last sync
}

fn bitmap(rm: &[u64]) -> Bitmap {
	rm.iter().map(|x| *x as u32).collect()
}

impl<T: Mk> Real<T> {
	fn open(dir: PathBuf) -> Real<T> {
		let _ = std::fs::remove_dir_all(&dir);
		std::fs::create_dir_all(&dir).expect("mkdir");
		let be = PMMRBackend::new(&dir, true, ProtocolVersion(1), None).expect("open backend");
		Real { dir, be: Some(be), size: 0, csize: 0 }
	}
	fn be(&mut self) -> &mut PMMRBackend<T> {
		self.be.as_mut().unwrap()
	}
	fn rewind(&mut self, size: u64, rm: &[u64]) -> Result<(), String> {
		let sz = self.size;
		let mut p = PMMR::at(self.be(), sz);
		p.rewind(size, &bitmap(rm))?;
		self.size = p.size;
		Ok(())
	}
	fn push(&mut self, d: u64) -> Result<u64, String> {
		let sz = self.size;
		let mut p = PMMR::at(self.be(), sz);
		let pos = p.push(&T::mk(d))?;
		self.size = p.size;
		Ok(pos)
	}
	fn prune(&mut self, pos0: u64) -> Result<bool, String> {
		let sz = self.size;
		PMMR::at(self.be(), sz).prune(pos0)
	}
	fn commit(&mut self) -> Result<(), String> {
		self.be().sync().map_err(|e| format!("{}", e))?;
		self.csize = self.size;
		Ok(())
	}
	fn discard(&mut self) {
		self.be().discard();
		self.size = self.csize;
	}
	fn compact(&mut self, cutoff: u64, rm: &[u64]) -> Result<bool, String> {
		self.be().check_compact(cutoff, &bitmap(rm)).map_err(|e| format!("{}", e))
	}
	fn reopen(&mut self) -> Result<(), String> {
		self.be = None;
		let be = PMMRBackend::new(&self.dir, true, ProtocolVersion(1), None).map_err(|e| format!("{}", e))?;
		// PMMRHandle::new takes the size from the backend
		self.size = be.unpruned_size();
		self.csize = self.size;
		self.be = Some(be);
		Ok(())
	}
}

// ---------------------------------------------------------------------------------------------
// what the store must look like (from the specification in replay, from the unpruned twin in record)

struct LeafV {
	pos: u64,
	d: u64,
	live: bool,
	hash: Hash,
	path: Vec<Hash>,
}
struct View {
	size: u64,
	root: Hash,
	leaves: Vec<LeafV>,
}

fn hx(h: &Hash) -> String {
	format!("{}", h)
}

/// Compare every observable of C08. Returns the list of differences (empty = equal).
fn compare<T: Mk>(r: &mut Real<T>, v: &View, idle: bool, checks: &mut u64) -> Vec<Value> {
	let mut mm: Vec<Value> = vec![];
	let size = r.size;
	if size != v.size {
		mm.push(json!({"what":"size","spec":v.size,"real":size}));
		return mm;
	}
	if idle {
		let bs = r.be().unpruned_size();
		if bs != v.size {
			mm.push(json!({"what":"backend_size","spec":v.size,"real":bs}));
			return mm;
		}
	}
	let p = PMMR::at(r.be.as_mut().unwrap(), size);
	*checks += 1;
	match p.root() {
		Ok(h) if h == v.root => {}
		Ok(h) => mm.push(json!({"what":"root","spec":hx(&v.root),"real":hx(&h)})),
		Err(e) => mm.push(json!({"what":"root","spec":hx(&v.root),"real":format!("err {}", e)})),
	}
	for (i, l) in v.leaves.iter().enumerate() {
		*checks += 1;
		let data = p.get_data(l.pos);
		let hash = p.get_hash(l.pos);
		let proof = p.merkle_proof(l.pos);
		if l.live {
			let el = T::mk(l.d);
			if data.as_ref() != Some(&el) {
				mm.push(json!({"what":"leaf_data","i":i,"pos":l.pos,"spec_d":l.d,"real":format!("{:?}", data)}));
			}
			if hash != Some(l.hash) {
				mm.push(json!({"what":"leaf_hash","i":i,"pos":l.pos,"real":format!("{:?}", hash)}));
			}
			match proof {
				Ok(pr) => {
					if pr.path != l.path {
						mm.push(json!({"what":"proof_path","i":i,"pos":l.pos,"spec_len":l.path.len(),"real_len":pr.path.len()}));
					}
					if pr.mmr_size != size {
						mm.push(json!({"what":"proof_size","i":i,"pos":l.pos}));
					}
					if pr.verify(v.root, &el, l.pos).is_err() {
						mm.push(json!({"what":"proof_verify","i":i,"pos":l.pos}));
					}
				}
				Err(e) => mm.push(json!({"what":"proof_err","i":i,"pos":l.pos,"err":e})),
			}
		} else {
			if data.is_some() {
				mm.push(json!({"what":"removed_data_visible","i":i,"pos":l.pos}));
			}
			if hash.is_some() {
				mm.push(json!({"what":"removed_hash_visible","i":i,"pos":l.pos}));
			}
			if proof.is_ok() {
				mm.push(json!({"what":"removed_proof","i":i,"pos":l.pos}));
			}
		}
	}
	let live_pos: Vec<u64> = v.leaves.iter().filter(|l| l.live).map(|l| l.pos).collect();
	let live_idx: Vec<u64> = v.leaves.iter().enumerate().filter(|(_, l)| l.live).map(|(i, _)| i as u64).collect();
	let it: Vec<u64> = p.leaf_pos_iter().collect();
	if it != live_pos {
		mm.push(json!({"what":"leaf_pos_iter","spec":live_pos,"real":it}));
	}
	let n = p.n_unpruned_leaves();
	if n != live_pos.len() as u64 {
		mm.push(json!({"what":"n_unpruned_leaves","spec":live_pos.len(),"real":n}));
	}
	let ii: Vec<u64> = p.leaf_idx_iter(0).collect();
	if ii != live_idx {
		mm.push(json!({"what":"leaf_idx_iter","spec":live_idx,"real":ii}));
	}
	mm
}

fn u64s(v: &Value) -> Vec<u64> {
	v.as_array().map(|a| a.iter().map(|x| x.as_u64().unwrap()).collect()).unwrap_or_default()
}

/// The reference of the specification -> concrete expectations. The MMR shape (root term, leaf
/// positions, proof-path terms with insertion indices in the leaf terms) comes from MMR.tla's
/// construction; `lv` gives the data of every leaf, `rm` the removed insertion indices.
fn view_from_spec<T: Mk>(shape: &Value, lv: &[u64], rm: &[u64]) -> View {
	let leaf = |pos: u64, idx: u64| T::mk(lv[idx as usize]).hash_with_index(pos);
	let lp = u64s(&shape["lp"]);
	let mut leaves = vec![];
	for (i, pos) in lp.iter().enumerate() {
		let path = shape["proofs"][i].as_array().map(|a| a.iter().map(|t| eval_term(t, &leaf)).collect()).unwrap_or_default();
		leaves.push(LeafV { pos: *pos, d: lv[i], live: !rm.contains(&(i as u64)), hash: leaf(*pos, i as u64), path });
	}
	View { size: shape["size"].as_u64().unwrap(), root: eval_term(&shape["root"], &leaf), leaves }
}

// ---------------------------------------------------------------------------------------------
// direction A

fn apply<T: Mk>(r: &mut Real<T>, k: &str, a: &Value, stepwise: bool, sabotage: &str) -> Result<(), String> {
	match k {
		"Begin" => Ok(()),
		"Rewind" => {
			if stepwise {
				for s in a["steps"].as_array().unwrap() {
					r.rewind(s["size"].as_u64().unwrap(), &u64s(&s["rm"]))?;
				}
				Ok(())
			} else {
				r.rewind(a["size"].as_u64().unwrap(), &u64s(&a["rm"]))
			}
		}
		"Append" => r.push(a["d"].as_u64().unwrap()).map(|_| ()),
		"Remove" => match r.prune(a["pos"].as_u64().unwrap()) {
			Ok(true) => Ok(()),
			Ok(false) => Err("prune of a live leaf returned false".into()),
			Err(e) => Err(e),
		},
		"Commit" => r.commit(),
		"Discard" => {
			if sabotage != "skip_discard" {
				r.discard();
			} else {
				r.size = r.csize;
			}
			Ok(())
		}
		"Compact" => match r.compact(a["size"].as_u64().unwrap(), &u64s(&a["rm"])) {
			Ok(true) => Ok(()),
			Ok(false) => Err("check_compact returned false".into()),
			Err(e) => Err(e),
		},
		"Reopen" => r.reopen(),
		x => panic!("unknown action {}", x),
	}
}

fn replay_one<T: Mk>(dir: PathBuf, steps: &[Value], shapes: &HashMap<u64, Value>, stepwise: bool, sabotage: &str) -> (u64, Vec<Value>) {
	let mut r: Real<T> = Real::open(dir);
	let mut checks = 0u64;
	let mut open = false;
	for (si, st) in steps.iter().enumerate() {
		let k = st["k"].as_str().unwrap();
		let res = catch_unwind(AssertUnwindSafe(|| apply(&mut r, k, &st["a"], stepwise, sabotage)));
		let mut mm = match res {
			Ok(Ok(())) => vec![],
			Ok(Err(e)) => vec![json!({"what":"action_failed","err":e})],
			Err(_) => vec![json!({"what":"action_panic"})],
		};
		match k {
			"Begin" => open = true,
			"Commit" | "Discard" => open = false,
			_ => {}
		}
		if mm.is_empty() {
			let lv = u64s(&st["lv"]);
			let rm = u64s(&st["rm"]);
			let shape = shapes.get(&(lv.len() as u64)).expect("shape");
			let v = view_from_spec::<T>(shape, &lv, &rm);
			mm = match catch_unwind(AssertUnwindSafe(|| compare(&mut r, &v, !open, &mut checks))) {
				Ok(x) => x,
				Err(_) => vec![json!({"what":"observe_panic"})],
			};
		}
		if !mm.is_empty() {
			let out = mm.into_iter().take(6).map(|mut m| {
				m["step"] = json!(si);
				m["after"] = json!(k);
				m
			});
			return (checks, out.collect());
		}
	}
	(checks, vec![])
}

fn replay<T: Mk>(args: &Args) -> i32 {
	let behs = read_ndjson(args.req("behs"));
	let mut shapes = HashMap::new();
	for s in read_ndjson(args.req("shapes")) {
		shapes.insert(s["n"].as_u64().unwrap(), s);
	}
	let stepwise = args.get("rewind").unwrap_or("single") == "steps";
	let sabotage = args.get("sabotage").unwrap_or("").to_string();
	let threads = args.u64("threads", 4) as usize;
	let base = PathBuf::from(args.req("dir"));
	let n = behs.len();
	let behs = Arc::new(behs);
	let shapes = Arc::new(shapes);
	let next = Arc::new(Mutex::new(0usize));
	let results: Arc<Mutex<Vec<Option<Value>>>> = Arc::new(Mutex::new(vec![None; n]));
	let mut hs = vec![];
	for t in 0..threads {
		let (behs, shapes, next, results, base, sabotage) = (behs.clone(), shapes.clone(), next.clone(), results.clone(), base.clone(), sabotage.clone());
		hs.push(std::thread::spawn(move || loop {
			let i = {
				let mut g = next.lock().unwrap();
				let i = *g;
				*g += 1;
				i
			};
			if i >= behs.len() {
				break;
			}
			let steps = behs[i].as_array().expect("behaviour = array of steps");
			let (checks, mm) = replay_one::<T>(base.join(format!("t{}", t)), steps, &shapes, stepwise, &sabotage);
			results.lock().unwrap()[i] = Some(json!({"i":i,"steps":steps.len(),"checks":checks,"mismatches":mm}));
		}));
	}
	for h in hs {
		h.join().expect("worker");
	}
	let mut out = NdWriter::create(args.req("out"));
	for r in results.lock().unwrap().iter() {
		out.put(r.as_ref().unwrap());
	}
	out.finish();
	let _ = std::fs::remove_dir_all(&base);
	0
}

// ---------------------------------------------------------------------------------------------
// direction B

/// Positions are computed by the repository's closed form (C07 shows it equals the construction).
fn pos_of(i: usize) -> u64 {
	pmmr::insertion_to_pmmr_index(i as u64)
}
fn size_of(nl: usize) -> u64 {
	if nl == 0 {
		0
	} else {
		// size of an MMR with nl leaves = position the next leaf would get
		pmmr::insertion_to_pmmr_index(nl as u64)
	}
}

#[derive(Clone)]
struct Ref {
	leaves: Vec<u64>,
	removed: BTreeSet<usize>,
}

fn twin_view<T: Mk>(r: &Ref) -> View {
	let mut ba = VecBackend::<T>::new();
	let mut size = 0;
	for d in &r.leaves {
		let mut p = PMMR::at(&mut ba, size);
		p.push(&T::mk(*d)).expect("twin push");
		size = p.size;
	}
	let p = PMMR::at(&mut ba, size);
	let mut leaves = vec![];
	for (i, d) in r.leaves.iter().enumerate() {
		let pos = pos_of(i);
		let live = !r.removed.contains(&i);
		let path = if live { p.merkle_proof(pos).expect("twin proof").path } else { vec![] };
		leaves.push(LeafV { pos, d: *d, live, hash: p.get_hash(pos).expect("twin hash"), path });
	}
	View { size, root: p.root().expect("twin root"), leaves }
}

fn record<T: Mk>(args: &Args) -> i32 {
	let seed = args.u64("seed", 1);
	let target = args.u64("leaves", 400) as usize;
	let units = args.u64("units", 60);
	let stride = args.u64("stride", 4096);
	let mut s32 = [0u8; 32];
	s32[..8].copy_from_slice(&seed.to_le_bytes());
	s32[8] = 0xC8;
	let mut rng: StdRng = SeedableRng::from_seed(s32);
	let mut out = NdWriter::create(args.req("out"));
	let mut real: Real<T> = Real::open(PathBuf::from(args.req("dir")));

	let mut com = Ref { leaves: vec![], removed: BTreeSet::new() };
	let mut bnd: Vec<(usize, BTreeSet<usize>)> = vec![(0, BTreeSet::new())];
	let mut last_compact = 0usize; // index into bnd
	let mut bad = 0u64;
	let mut stats: HashMap<&'static str, u64> = HashMap::new();
	let per_unit = (2 * target as u64 / units.max(1)).max(2);

	// observed projection of the real store (+ agreement with the unpruned twin)
	let project = |real: &mut Real<T>, r: &Ref, idle: bool, deep: bool, bad: &mut u64| -> Value {
		let size = real.size;
		let bsize = if idle { real.be().unpruned_size() } else { size };
		let sz = real.size;
		let p = PMMR::at(real.be.as_mut().unwrap(), sz);
		let live: Vec<u64> = p.leaf_idx_iter(0).collect();
		let nlive = p.n_unpruned_leaves();
		let mut o = json!({"size": size, "bsize": bsize, "nlive": nlive});
		if deep {
			let v = twin_view::<T>(r);
			let mut checks = 0;
			let mm = match catch_unwind(AssertUnwindSafe(|| compare(real, &v, idle, &mut checks))) {
				Ok(x) => x,
				Err(_) => vec![json!({"what":"observe_panic"})],
			};
			let root_ok = !mm.iter().any(|m| m["what"] == "root" || m["what"] == "observe_panic");
			let leaves_ok = !mm.iter().any(|m| m["what"] != "root");
			if !mm.is_empty() {
				*bad += 1;
				o["diff"] = json!(mm.into_iter().take(4).collect::<Vec<_>>());
			}
			o["live"] = json!(live);
			o["root_ok"] = json!(root_ok);
			o["leaves_ok"] = json!(leaves_ok);
		}
		o
	};
	let mut bump = |k: &'static str| *stats.entry(k).or_insert(0) += 1;

	for unit in 1..=units {
		// ---- one unit of work
		let mut work = com.clone();
		let mut wb = bnd.len() - 1;
		out.put(&json!({"k":"Begin","unit":unit}));
		bump("Begin");
		if bnd.len() > 1 && rng.gen_range(0, 100) < 30 {
			// rewind to a boundary not older than the last compaction (mostly a recent one)
			let lo = last_compact;
			let hi = bnd.len() - 1;
			let b = if rng.gen_range(0, 3) == 0 { rng.gen_range(lo, hi + 1) } else { hi - rng.gen_range(0, (hi - lo).min(3) + 1) };
			let (nl, rmv) = bnd[b].clone();
			let rm: Vec<u64> = com.removed.iter().filter(|i| !rmv.contains(i) && **i < nl).map(|i| pos_of(*i) + 1).collect();
			let sz = size_of(nl);
			let res = catch_unwind(AssertUnwindSafe(|| real.rewind(sz, &rm)));
			work = Ref { leaves: com.leaves[..nl].to_vec(), removed: rmv };
			wb = b;
			let mut e = json!({"k":"Rewind","b":b + 1,"asize":sz,"rm":rm,"ok":matches!(res, Ok(Ok(())))});
			e["p"] = project(&mut real, &work, false, true, &mut bad);
			out.put(&e);
			bump("Rewind");
		}
		let napp = if com.leaves.len() >= target + target / 4 { rng.gen_range(0, 3) } else { rng.gen_range(0, per_unit + 1) };
		for _ in 0..napp {
			let d = unit * stride + work.leaves.len() as u64;
			let res = catch_unwind(AssertUnwindSafe(|| real.push(d)));
			work.leaves.push(d);
			let mut e = json!({"k":"Append","d":d,"ok":matches!(res, Ok(Ok(_)))});
			e["p"] = project(&mut real, &work, false, false, &mut bad);
			out.put(&e);
			bump("Append");
		}
		// removals: several spend patterns
		let live: Vec<usize> = (0..work.leaves.len()).filter(|i| !work.removed.contains(i)).collect();
		let mut victims: Vec<usize> = vec![];
		if !live.is_empty() {
			match rng.gen_range(0, 6) {
				0 => {} // none
				1 => {
					// an aligned subtree of leaves (whole subtree / peak)
					let h = rng.gen_range(1, 5);
					let w = 1usize << h;
					let start = (live[rng.gen_range(0, live.len())] / w) * w;
					victims.extend((start..start + w).filter(|i| live.contains(i)));
				}
				2 => {
					// alternating leaves in a window
					let start = live[rng.gen_range(0, live.len())];
					victims.extend((start..(start + 24).min(work.leaves.len())).step_by(2).filter(|i| live.contains(i)));
				}
				3 => {
					// sibling pairs
					for _ in 0..rng.gen_range(1, 5) {
						let a = live[rng.gen_range(0, live.len())] & !1usize;
						for i in [a, a + 1] {
							if live.contains(&i) && !victims.contains(&i) {
								victims.push(i);
							}
						}
					}
				}
				_ => {
					let n = rng.gen_range(1, (live.len() / 4).max(2) + 1).min(live.len());
					for _ in 0..n {
						let i = live[rng.gen_range(0, live.len())];
						if !victims.contains(&i) {
							victims.push(i);
						}
					}
				}
			}
		}
		for i in victims {
			let pos = pos_of(i);
			let res = catch_unwind(AssertUnwindSafe(|| real.prune(pos)));
			work.removed.insert(i);
			let mut e = json!({"k":"Remove","i":i,"pos":pos,"ok":matches!(res, Ok(Ok(true)))});
			e["p"] = project(&mut real, &work, false, false, &mut bad);
			out.put(&e);
			bump("Remove");
		}
		if rng.gen_range(0, 100) < 82 {
			let res = catch_unwind(AssertUnwindSafe(|| real.commit()));
			let snap = (work.leaves.len(), work.removed.clone());
			bnd.truncate(wb + 1);
			if bnd[wb] != snap {
				bnd.push(snap);
			}
			com = work;
			let mut e = json!({"k":"Commit","nb":bnd.len(),"ok":matches!(res, Ok(Ok(())))});
			e["p"] = project(&mut real, &com, true, true, &mut bad);
			out.put(&e);
			bump("Commit");
		} else {
			let res = catch_unwind(AssertUnwindSafe(|| real.discard()));
			let mut e = json!({"k":"Discard","nb":bnd.len(),"ok":res.is_ok()});
			e["p"] = project(&mut real, &com, true, true, &mut bad);
			out.put(&e);
			bump("Discard");
		}
		// ---- between units: at most one compaction and one reopen, in either order
		let do_compact = rng.gen_range(0, 100) < 22;
		let do_reopen = rng.gen_range(0, 100) < 22;
		let reopen_first = rng.gen_range(0, 2) == 0;
		for phase in 0..2 {
			let is_reopen = (phase == 0) == reopen_first;
			if is_reopen && do_reopen {
				let res = catch_unwind(AssertUnwindSafe(|| real.reopen()));
				let mut e = json!({"k":"Reopen","ok":matches!(res, Ok(Ok(())))});
				e["p"] = project(&mut real, &com, true, true, &mut bad);
				out.put(&e);
				bump("Reopen");
			}
			if !is_reopen && do_compact {
				let hi = bnd.len() - 1;
				// usually keep a few boundaries rewindable (the horizon), sometimes compact right up to the head
				let b = if rng.gen_range(0, 4) == 0 { rng.gen_range(last_compact, hi + 1) } else { hi.saturating_sub(rng.gen_range(1, 6)).max(last_compact) };
				let (nl, rmv) = bnd[b].clone();
				let rm: Vec<u64> = com.removed.iter().filter(|i| !rmv.contains(i)).map(|i| pos_of(*i) + 1).collect();
				let sz = size_of(nl);
				let res = catch_unwind(AssertUnwindSafe(|| real.compact(sz, &rm)));
				last_compact = b;
				let mut e = json!({"k":"Compact","b":b + 1,"asize":sz,"rm":rm,"ok":matches!(res, Ok(Ok(true)))});
				e["p"] = project(&mut real, &com, true, true, &mut bad);
				out.put(&e);
				bump("Compact");
			}
		}
	}
	let n = out.n;
	out.finish();
	drop(real);
	let _ = std::fs::remove_dir_all(args.req("dir"));
	println!("{}", json!({"events": n, "leaves": com.leaves.len(), "removed": com.removed.len(), "boundaries": bnd.len(),
		"twin_diffs": bad, "actions": stats.iter().map(|(k, v)| (k.to_string(), json!(v))).collect::<serde_json::Map<_, _>>()}));
	0
}
