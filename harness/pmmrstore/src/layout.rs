//! C08, physical layer (spec/PruneLayout.tla): behaviours emitted by TLC (MC_PruneLayout) are executed on a
//! real prunable `PMMRBackend` and, next to it, on a stand-alone `PruneList` that receives exactly the calls
//! the backend makes on its own; after EVERY action the files on disk and the in-memory caches must be the
//! ones the specification's code-shaped state holds:
//!   pmmr_hash.bin  = the hash first written for each position of `hf`, in that order
//!   pmmr_data.bin  = the element first written for each leaf position of `df`, in that order
//!   pmmr_prun.bin  = the roots `bm` (and a prune list opened from it has the caches `sc` / `lsc`)
//!   leaf set, unpruned size, file sizes, get_from_file / get_data_from_file of every position.
use croaring::Bitmap;
use grin_core::core::hash::{Hash, Hashed};
use grin_core::core::pmmr::{self, Backend, PMMR};
use grin_core::ser::ProtocolVersion;
use grin_store::pmmr::PMMRBackend;
use grin_store::prune_list::PruneList;
use serde_json::{json, Value};
use std::collections::{BTreeSet, HashMap};
use std::panic::{catch_unwind, AssertUnwindSafe};
use std::path::{Path, PathBuf};
use std::sync::{Arc, Mutex};
use vcommon::*;

fn u64s(v: &Value) -> Vec<u64> {
	v.as_array().map(|a| a.iter().map(|x| x.as_u64().unwrap()).collect()).unwrap_or_default()
}
fn bm1(pos0: &[u64]) -> Bitmap {
	pos0.iter().map(|x| 1 + *x as u32).collect()
}
fn raw(path: &Path, rec: usize) -> Vec<Vec<u8>> {
	let b = std::fs::read(path).unwrap_or_default();
	b.chunks(rec).map(|c| c.to_vec()).collect()
}
fn elem_bytes(d: u64) -> Vec<u8> {
	let e = Elem::of(d);
	let mut v = vec![];
	for x in &e.0 {
		v.extend_from_slice(&x.to_be_bytes());
	}
	v
}

struct L {
	dir: PathBuf,
	be: Option<PMMRBackend<Elem>>,
	mirror: PruneList,
	mirror_path: PathBuf,
	size: u64,
	gen: u64,
	hash_of: HashMap<u64, Vec<u8>>,
	data_of: HashMap<u64, u64>,
}

impl L {
	fn be(&mut self) -> &mut PMMRBackend<Elem> {
		self.be.as_mut().unwrap()
	}
	fn sync(&mut self) -> Result<(), String> {
		self.be().sync().map_err(|e| format!("sync: {}", e))
	}
	/// after an appending step: the records beyond `old_len` belong to the positions the model lists
	fn learn_hashes(&mut self, old_len: usize, model_hf: &[u64]) {
		let recs = raw(&self.dir.join("pmmr_hash.bin"), 32);
		for i in old_len..recs.len().min(model_hf.len()) {
			self.hash_of.insert(model_hf[i], recs[i].clone());
		}
	}
	fn apply(&mut self, k: &str, a: &Value, proj: &Value, sabotage: &str) -> Result<(), String> {
		let model_hf = u64s(&proj["hf"]);
		match k {
			"Append" => {
				let old = raw(&self.dir.join("pmmr_hash.bin"), 32).len();
				let sz = self.size;
				let n0 = pmmr::n_leaves(sz);
				let d = self.gen * 1000 + n0;
				let pos0 = {
					let mut p = PMMR::at(self.be(), sz);
					let pos0 = p.push(&Elem::of(d))?;
					self.size = p.size;
					pos0
				};
				self.data_of.insert(pos0, d);
				self.sync()?;
				self.learn_hashes(old, &model_hf);
			}
			"Remove" => {
				let sz = self.size;
				let l = a[0].as_u64().unwrap();
				if sabotage != "skip_remove" {
					PMMR::at(self.be(), sz).prune(l)?;
				}
				self.sync()?;
			}
			"Compact" => {
				let cutoff = a[0].as_u64().unwrap();
				let rw = u64s(&a[1]);
				let removed1 = u64s(&a[2]); // 1-based, as LeafSet::removed_pre_cutoff returns them
				self.be().check_compact(cutoff, &bm1(&rw)).map_err(|e| format!("check_compact: {}", e))?;
				// what check_compact does with its own prune list
				let mut bitmap = self.mirror.bitmap();
				let lr: Bitmap = removed1.iter().map(|x| *x as u32).collect();
				bitmap.or_inplace(&lr);
				self.mirror = PruneList::new(Some(self.mirror_path.clone()), bitmap);
			}
			"Rewind" => {
				let position = a[0].as_u64().unwrap();
				let rw = u64s(&a[1]);
				let sz = self.size;
				{
					let mut p = PMMR::at(self.be(), sz);
					p.rewind(position, &bm1(&rw))?;
					self.size = p.size;
				}
				self.sync()?;
				self.gen += 1;
				let sz = self.size;
				self.hash_of.retain(|q, _| *q < sz);
				self.data_of.retain(|q, _| *q < sz);
			}
			"Reopen" => {
				self.be = None;
				let be = PMMRBackend::new(&self.dir, true, ProtocolVersion(1), None).map_err(|e| format!("reopen: {}", e))?;
				self.size = be.unpruned_size();
				self.be = Some(be);
				self.mirror.flush().map_err(|e| format!("{}", e))?;
				self.mirror = PruneList::open(&self.mirror_path).map_err(|e| format!("{}", e))?;
			}
			"Subtree" => {
				let old = raw(&self.dir.join("pmmr_hash.bin"), 32).len();
				let p0 = a[0].as_u64().unwrap();
				let h: Hash = (p0, 0xfeedu64).hash();
				let sz = self.size;
				{
					let mut p = PMMR::at(self.be(), sz);
					p.push_pruned_subtree(h, p0)?;
					self.size = p.size;
				}
				self.sync()?;
				self.mirror.append(p0);
				self.learn_hashes(old, &model_hf);
			}
			x => return Err(format!("unknown action {}", x)),
		}
		Ok(())
	}

	fn compare(&mut self, proj: &Value, checks: &mut u64) -> Vec<Value> {
		let mut mm = vec![];
		let mut chk = |what: &str, exp: Value, obs: Value| {
			*checks += 1;
			if exp != obs {
				mm.push(json!({"what": what, "expected": exp, "observed": obs}));
			}
		};
		let hf = u64s(&proj["hf"]);
		let df = u64s(&proj["df"]);
		let bm = u64s(&proj["bm"]);
		let n = proj["n"].as_u64().unwrap();
		let size = if n == 0 { 0 } else { pmmr::insertion_to_pmmr_index(n) };
		// the files
		let hrecs = raw(&self.dir.join("pmmr_hash.bin"), 32);
		let exp_h: Vec<Option<&Vec<u8>>> = hf.iter().map(|q| self.hash_of.get(q)).collect();
		let h_ok = hrecs.len() == hf.len() && hrecs.iter().zip(&exp_h).all(|(r, e)| Some(r) == *e);
		let which: Vec<i64> = hrecs
			.iter()
			.map(|r| self.hash_of.iter().find(|(_, v)| *v == r).map(|(q, _)| *q as i64).unwrap_or(-1))
			.collect();
		chk("hash_file_records", json!(hf), if h_ok { json!(hf) } else { json!(which) });
		let drecs = raw(&self.dir.join("pmmr_data.bin"), 16);
		let exp_d: Vec<Vec<u8>> = df.iter().map(|q| elem_bytes(*self.data_of.get(q).unwrap_or(&u64::MAX))).collect();
		let whichd: Vec<i64> = drecs
			.iter()
			.map(|r| self.data_of.iter().find(|(_, d)| &elem_bytes(**d) == r).map(|(q, _)| *q as i64).unwrap_or(-1))
			.collect();
		chk("data_file_records", json!(df), if drecs == exp_d { json!(df) } else { json!(whichd) });
		// the prune list file and a prune list opened from it
		match PruneList::open(self.dir.join("pmmr_prun.bin")) {
			Ok(p) => {
				chk("prune_file_roots", json!(bm), json!(p.to_vec()));
				chk("opened_shift_cache", proj["sc"].clone(), json!(p.shift_cache()));
				chk("opened_leaf_shift_cache", proj["lsc"].clone(), json!(p.leaf_shift_cache()));
			}
			Err(e) => chk("prune_file_opens", json!("ok"), json!(format!("{}", e))),
		}
		// the in-memory prune list after the same calls the backend made
		chk("mirror_roots", json!(bm), json!(self.mirror.to_vec()));
		chk("mirror_shift_cache", proj["sc"].clone(), json!(self.mirror.shift_cache()));
		chk("mirror_leaf_shift_cache", proj["lsc"].clone(), json!(self.mirror.leaf_shift_cache()));
		chk("total_shift", proj["ts"].clone(), json!(self.mirror.get_total_shift()));
		chk("total_leaf_shift", proj["tls"].clone(), json!(self.mirror.get_total_leaf_shift()));
		// the backend's own view
		let kept: BTreeSet<u64> = hf.iter().cloned().collect();
		let keptl: BTreeSet<u64> = df.iter().cloned().collect();
		let roots: BTreeSet<u64> = bm.iter().map(|x| x - 1).collect();
		let hash_of = self.hash_of.clone();
		let data_of = self.data_of.clone();
		let mirror_pruned: Vec<u64> = (0..size).filter(|q| self.mirror.is_pruned(*q)).collect();
		let unpruned: Vec<u64> = self.mirror.unpruned_iter(size).collect();
		let be = self.be();
		chk("unpruned_size", json!(size), json!(be.unpruned_size()));
		chk("hash_size", json!(hf.len()), json!(be.hash_size()));
		chk("data_size", json!(df.len()), json!(be.data_size()));
		chk("leaf_set", proj["ls"].clone(), json!(be.leaf_pos_iter().collect::<Vec<u64>>()));
		let mut bad_h = vec![];
		let mut bad_d = vec![];
		for q in 0..size {
			let got = be.get_from_file(q).map(|h| h.to_vec());
			let exp = if kept.contains(&q) { hash_of.get(&q).cloned() } else { None };
			if got != exp {
				bad_h.push(q);
			}
			if pmmr::is_leaf(q) {
				let got = be.get_data_from_file(q);
				let exp = if keptl.contains(&q) { data_of.get(&q).map(|d| Elem::of(*d)) } else { None };
				if got != exp {
					bad_d.push(q);
				}
			}
		}
		chk("get_from_file_wrong_at", json!([]), json!(bad_h));
		chk("get_data_from_file_wrong_at", json!([]), json!(bad_d));
		let exp_pruned: Vec<u64> = (0..size).filter(|q| !kept.contains(q) || roots.contains(q)).collect();
		chk("is_pruned", json!(exp_pruned), json!(mirror_pruned));
		let exp_unpruned: Vec<u64> = (0..size).filter(|q| kept.contains(q) && !roots.contains(q)).map(|q| q + 1).collect();
		chk("unpruned_iter", json!(exp_unpruned), json!(unpruned));
		mm
	}
}

fn replay_one(dir: PathBuf, steps: &[Value], sabotage: &str) -> (u64, Vec<Value>) {
	let _ = std::fs::remove_dir_all(&dir);
	std::fs::create_dir_all(&dir).expect("mkdir");
	let mirror_path = dir.join("mirror_prun.bin");
	let be = PMMRBackend::new(&dir, true, ProtocolVersion(1), None).expect("open backend");
	let mut l = L {
		dir: dir.clone(),
		be: Some(be),
		mirror: PruneList::new(Some(mirror_path.clone()), Bitmap::new()),
		mirror_path,
		size: 0,
		gen: 0,
		hash_of: HashMap::new(),
		data_of: HashMap::new(),
	};
	let mut checks = 0u64;
	let mut mm = vec![];
	for (i, st) in steps.iter().enumerate() {
		let k = st["k"].as_str().unwrap().to_string();
		let r = catch_unwind(AssertUnwindSafe(|| {
			let r = l.apply(&k, &st["a"], &st["p"], sabotage);
			match r {
				Ok(()) => l.compare(&st["p"], &mut checks),
				Err(e) => vec![json!({"what": "call_failed", "expected": "ok", "observed": e})],
			}
		}));
		let found = match r {
			Ok(v) => v,
			Err(_) => vec![json!({"what": "panic", "expected": "ok", "observed": "panic"})],
		};
		if !found.is_empty() {
			for mut m in found {
				m["step"] = json!(i);
				m["after"] = json!(k);
				mm.push(m);
			}
			break;
		}
	}
	let _ = std::fs::remove_dir_all(&dir);
	(checks, mm)
}

pub fn layout(args: &Args) -> i32 {
	let behs = read_ndjson(args.req("behs"));
	let sabotage = args.get("sabotage").unwrap_or("").to_string();
	let threads = args.u64("threads", 4) as usize;
	let base = PathBuf::from(args.req("dir"));
	let n = behs.len();
	let behs = Arc::new(behs);
	let next = Arc::new(Mutex::new(0usize));
	let results: Arc<Mutex<Vec<Option<Value>>>> = Arc::new(Mutex::new(vec![None; n]));
	let mut hs = vec![];
	for t in 0..threads {
		let (behs, next, results, base, sabotage) = (behs.clone(), next.clone(), results.clone(), base.clone(), sabotage.clone());
		hs.push(std::thread::spawn(move || loop {
			let i = {
				let mut g = next.lock().unwrap();
				let i = *g;
				*g += 1;
				i
			};
			if i >= behs.len() {
				break;
			}
			let steps = behs[i].as_array().expect("behaviour = array of steps");
			let (checks, mm) = replay_one(base.join(format!("t{}", t)), steps, &sabotage);
			results.lock().unwrap()[i] = Some(json!({"i": i, "steps": steps.len(), "checks": checks, "mismatches": mm}));
		}));
	}
	for h in hs {
		h.join().expect("worker");
	}
	let mut out = NdWriter::create(args.req("out"));
	for r in results.lock().unwrap().iter() {
		out.put(r.as_ref().unwrap());
	}
	out.finish();
	let _ = std::fs::remove_dir_all(&base);
	0
}
