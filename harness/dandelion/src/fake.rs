//! HARNESS GLUE (not grin code): what the extracted texts of DandelionEpoch / PoolToNetAdapter refer to besides
//! grin_pool and grin_util - the wall clock, the random draw and the peer-to-peer layer - scripted by the
//! behaviour being replayed:
//!   `Utc::now().timestamp()`                    the model clock (seconds; one model tick = TICK seconds)
//!   `rand::thread_rng().gen_range(0, 100)`      the stem / fluff draw of next_epoch
//!   `p2p::Peers` / `p2p::Peer`                  connected outbound peers, `choose_random`, and a record of every
//!                                               `broadcast_transaction` / `send_stem_transaction`
use grin_core::core::Transaction;
use grin_util::secp::pedersen::Commitment;
use std::collections::BTreeSet;
use std::sync::{Arc, Mutex, OnceLock};

/// seconds per model tick: longer than twice the random addend (0..30 s) of the embargo, see main.rs real_age()
pub const TICK: i64 = 80;

#[derive(Default)]
pub struct Net {
	/// model clock in seconds
	pub now: i64,
	/// outbound peers connected right now
	pub connected: BTreeSet<u64>,
	/// the peer `choose_random` returns next (0 = none); consumed by the call
	pub choice: Option<u64>,
	/// choose_random calls that found no scripted choice
	pub unscripted_choices: u64,
	pub choose_calls: u64,
	/// does Peer::send_stem_transaction succeed?
	pub send_ok: bool,
	/// what gen_range returns next (the stem / fluff draw)
	pub draw: u8,
	pub draw_calls: u64,
	/// (kind, kernel excesses, peer): "bcast" = Peers::broadcast_transaction, "stem" = Peer::send_stem_transaction,
	/// "stem_failed" = a send_stem_transaction that returned an error
	pub events: Vec<(String, Vec<Commitment>, u64)>,
}

static NET: OnceLock<Mutex<Net>> = OnceLock::new();
pub fn net() -> std::sync::MutexGuard<'static, Net> {
	NET.get_or_init(|| Mutex::new(Net::default())).lock().unwrap()
}

pub struct FakeInstant(i64);
impl FakeInstant {
	pub fn timestamp(&self) -> i64 {
		self.0
	}
}
pub struct Utc;
impl Utc {
	pub fn now() -> FakeInstant {
		FakeInstant(net().now)
	}
}

pub mod rand {
	pub struct FakeRng;
	pub fn thread_rng() -> FakeRng {
		FakeRng
	}
	impl FakeRng {
		pub fn gen_range(&mut self, lo: u8, hi: u8) -> u8 {
			let mut n = super::net();
			n.draw_calls += 1;
			assert!(lo == 0 && hi == 100, "next_epoch draws from 0..100");
			n.draw
		}
	}
}

pub mod p2p {
	use super::*;

	#[derive(Debug)]
	pub struct Error(pub String);
	#[derive(Debug, Clone, Copy)]
	pub struct PeerAddr(pub u64);
	#[derive(Debug)]
	pub struct PeerInfo {
		pub addr: PeerAddr,
	}
	#[derive(Debug)]
	pub struct Peer {
		pub info: PeerInfo,
		pub id: u64,
	}
	impl Peer {
		pub fn new(id: u64) -> Peer {
			Peer {
				info: PeerInfo { addr: PeerAddr(id) },
				id,
			}
		}
		pub fn is_connected(&self) -> bool {
			net().connected.contains(&self.id)
		}
		pub fn send_stem_transaction(&self, tx: &Transaction) -> Result<(), Error> {
			let ks: Vec<Commitment> = tx.kernels().iter().map(|k| k.excess()).collect();
			let mut n = net();
			if n.send_ok && n.connected.contains(&self.id) {
				n.events.push(("stem".into(), ks, self.id));
				Ok(())
			} else {
				n.events.push(("stem_failed".into(), ks, self.id));
				Err(Error("send failed".into()))
			}
		}
	}

	pub struct Peers;
	pub struct PeersIter;
	impl Peers {
		pub fn iter(&self) -> PeersIter {
			PeersIter
		}
		pub fn broadcast_transaction(&self, tx: &Transaction) -> u32 {
			let ks: Vec<Commitment> = tx.kernels().iter().map(|k| k.excess()).collect();
			let mut n = net();
			n.events.push(("bcast".into(), ks, 0));
			n.connected.len() as u32
		}
	}
	impl PeersIter {
		pub fn outbound(self) -> Self {
			self
		}
		pub fn connected(self) -> Self {
			self
		}
		/// The scripted choice if it is one of the connected peers; without a script the lowest connected peer
		/// (counted: the model and the code then disagree about when a relay is chosen).
		pub fn choose_random(self) -> Option<Arc<Peer>> {
			let mut n = net();
			n.choose_calls += 1;
			match n.choice.take() {
				Some(0) => {
					if !n.connected.is_empty() {
						n.unscripted_choices += 1;
					}
					n.connected.iter().next().map(|p| Arc::new(Peer::new(*p)))
				}
				Some(p) if n.connected.contains(&p) => Some(Arc::new(Peer::new(p))),
				_ => {
					n.unscripted_choices += 1;
					n.connected.iter().next().map(|p| Arc::new(Peer::new(*p)))
				}
			}
		}
	}
}
