//! Engine X02 (Dandelion): replays behaviours generated from spec/Dandelion.tla on a real
//! grin_pool::TransactionPool wired to a real grin_chain::Chain (as harness/pool does: real PoolToChainAdapter,
//! real ChainToPoolAndNetAdapter), with
//!   * the Dandelion monitor compiled from the source text of servers/src/grin/dandelion_monitor.rs
//!     (process_fluff_phase, process_expired_entries, select_txs_cutoff and the body of the monitor loop),
//!   * DandelionEpoch and PoolToNetAdapter compiled from the source text of servers/src/common/{types,adapters}.rs
//!     on top of a scripted clock / draw / peer layer (src/fake.rs),
//! see build.rs. After every action the result class of the call, the entries (kernel sets, source, age) of the
//! stempool and the txpool, the epoch, and every notification sent to the network are compared with the model,
//! and joint validity of txpool and txpool + stempool is checked through the real chain (Chain::validate_tx).
//!
//! Time: `tx_at` of the real stempool entries is rewritten to `now - real_age` before each monitor call, where
//! real_age derives from the scripted clock (arrival tick of the entry, kept by the harness) - see real_age().
#[macro_use]
extern crate log;

mod fake;

// the aliases grin_servers' lib.rs provides for its modules, as far as the extracted texts use them
use grin_core as core;
use grin_pool as pool;
use grin_util as util;
mod common {
	pub mod types {
		#![allow(dead_code, unused_imports)]
		use crate::fake::{p2p, rand, Utc};
		use grin_pool::DandelionConfig;
		use std::sync::Arc;
		include!(concat!(env!("OUT_DIR"), "/epoch.rs"));
		// ---- harness accessor (add-only; same module, so the private fields are visible) ----
		impl DandelionEpoch {
			/// (start_time, is_stem, relay peer id)
			pub fn verif_state(&self) -> (Option<i64>, bool, Option<u64>) {
				(self.start_time, self.is_stem, self.relay_peer.as_ref().map(|p| p.id))
			}
		}
	}
	pub mod adapters {
		#![allow(dead_code, unused_imports)]
		use super::types::DandelionEpoch;
		use crate::fake::p2p;
		use grin_pool as pool;
		use grin_util::{OneTime, RwLock};
		use std::sync::{Arc, Weak};
		include!(concat!(env!("OUT_DIR"), "/netadapter.rs"));
		impl PoolToNetAdapter {
			pub fn verif_epoch(&self) -> (Option<i64>, bool, Option<u64>) {
				self.dandelion_epoch.read().verif_state()
			}
		}
	}
}
use common::adapters::{DandelionAdapter, PoolToNetAdapter};
/// grin_servers::ServerTxPool (there: TransactionPool<PoolToChainAdapter, PoolToNetAdapter> as well)
pub type ServerTxPool = Arc<RwLock<RealPool>>;
#[allow(dead_code, unused_imports)]
mod dandelion_monitor {
	include!(concat!(env!("OUT_DIR"), "/monitor.rs"));
}

use chrono::Duration;
use fake::{net, TICK};
use grin_chain::types::BlockStatus;
use grin_chain::{Chain, Options};
use grin_core::core::{transaction, Block, FeeFields, KernelFeatures, Output, Transaction, TxKernel};
use grin_core::genesis;
use grin_core::global::{self, ChainTypes};
use grin_core::libtx::{build, reward, ProofBuilder};
use grin_core::pow::{self, Difficulty};
use grin_keychain::{ExtKeychain, ExtKeychainPath, Identifier, Keychain};
use grin_pool::{DandelionConfig, PoolConfig, TransactionPool, TxSource};
use grin_servers::common::adapters::{ChainToPoolAndNetAdapter, PoolToChainAdapter};
use grin_servers::common::hooks::ChainEvents as ServerChainEvents;
use grin_util::secp::pedersen::Commitment;
use grin_util::RwLock;
use serde_json::{json, Value};
use std::collections::{BTreeMap, HashMap};
use std::panic::{catch_unwind, AssertUnwindSafe};
use std::sync::{Arc, Mutex, OnceLock};
use vcommon::*;

const REWARD: u64 = 60_000_000_000;
const TRUNK: u64 = 6; // coinbases 1..4 are mature for the next block (maturity 3 under AutomatedTesting)
const FEE_BASE: u64 = 1000;

type RealPool = TransactionPool<PoolToChainAdapter, PoolToNetAdapter>;

fn keychain() -> ExtKeychain {
	ExtKeychain::from_seed(&[7u8; 32], false).unwrap()
}
fn kid_coinbase(h: u64) -> Identifier {
	ExtKeychainPath::new(3, 1, h as u32, 0, 0).to_identifier()
}
fn kid_pool(c: u64) -> Identifier {
	ExtKeychainPath::new(3, 2, c as u32, 0, 0).to_identifier()
}
fn kid_block(n: u64) -> Identifier {
	ExtKeychainPath::new(3, 3, n as u32, 0, 0).to_identifier()
}

static REWARDS: OnceLock<Mutex<HashMap<(u8, u64, u64), (Output, TxKernel)>>> = OnceLock::new();
static TXS: OnceLock<Mutex<HashMap<String, Transaction>>> = OnceLock::new();
static GENESIS: OnceLock<Block> = OnceLock::new();
static TEMPLATE: OnceLock<String> = OnceLock::new();

/// kind 0 = trunk coinbase (key by height), 1 = later block (key by counter)
fn reward_for(kind: u8, n: u64, fees: u64) -> (Output, TxKernel) {
	let cache = REWARDS.get_or_init(|| Mutex::new(HashMap::new()));
	if let Some(r) = cache.lock().unwrap().get(&(kind, n, fees)) {
		return r.clone();
	}
	let kc = keychain();
	let kid = if kind == 0 { kid_coinbase(n) } else { kid_block(n) };
	let r = reward::output(&kc, &ProofBuilder::new(&kc), &kid, fees, false).unwrap();
	cache.lock().unwrap().insert((kind, n, fees), r.clone());
	r
}

fn the_genesis() -> Block {
	GENESIS
		.get_or_init(|| {
			let r = reward_for(0, 0, 0);
			let mut g = genesis::genesis_dev().with_reward(r.0, r.1);
			// header MMR sizes consistent with the body (like the mainnet/testnet genesis)
			g.header.output_mmr_size = 1;
			g.header.kernel_mmr_size = 1;
			g
		})
		.clone()
}

struct NoHook;
impl ServerChainEvents for NoHook {
	fn on_block_accepted(&self, _b: &Block, _status: BlockStatus) {}
}
struct NoEvents;
impl grin_chain::types::ChainAdapter for NoEvents {
	fn block_accepted(&self, _b: &Block, _status: BlockStatus, _opts: Options) {}
}

fn init_chain(dir: &str, rec: Arc<dyn grin_chain::types::ChainAdapter + Send + Sync>) -> Chain {
	Chain::init(dir.to_string(), rec, the_genesis(), pow::verify_size, false, None).expect("chain init")
}

fn next_nonce() -> u64 {
	static N: std::sync::atomic::AtomicU64 = std::sync::atomic::AtomicU64::new(1);
	N.fetch_add(1, std::sync::atomic::Ordering::SeqCst)
}

fn copy_dir(src: &str, dst: &str) {
	std::fs::create_dir_all(dst).unwrap();
	for e in std::fs::read_dir(src).unwrap() {
		let e = e.unwrap();
		let p = e.path();
		let d = format!("{}/{}", dst, e.file_name().to_string_lossy());
		if p.is_dir() {
			copy_dir(p.to_str().unwrap(), &d);
		} else {
			std::fs::copy(&p, &d).unwrap();
		}
	}
}

/// A chain directory holding genesis + TRUNK empty blocks, built once per process.
fn template(work: &str) -> String {
	TEMPLATE
		.get_or_init(|| {
			let dir = format!("{}/template", work);
			let _ = std::fs::remove_dir_all(&dir);
			std::fs::create_dir_all(&dir).unwrap();
			{
				let c = init_chain(&dir, Arc::new(NoEvents));
				for h in 1..=TRUNK {
					let prev = c.head_header().unwrap();
					let rw = reward_for(0, h, 0);
					let mut b = Block::new(&prev, &[], Difficulty::from_num(100), rw).unwrap();
					b.header.timestamp = prev.timestamp + Duration::seconds(60);
					b.header.pow.nonce = next_nonce();
					c.set_txhashset_roots(&mut b).unwrap();
					c.process_block(b, Options::SKIP_POW).unwrap();
				}
			}
			dir
		})
		.clone()
}

#[derive(Clone, Debug)]
struct Atom {
	id: u64,
	ins: Vec<u64>,
	outs: Vec<u64>,
	fee: u64,
}

struct World {
	atoms: BTreeMap<u64, Atom>,
	txs: HashMap<u64, Transaction>,
	id_of_kernel: HashMap<Commitment, u64>,
}

fn arr_u64(v: &Value) -> Vec<u64> {
	v.as_array()
		.map(|a| a.iter().map(|y| y.as_u64().unwrap()).collect())
		.unwrap_or_default()
}
fn sorted(mut v: Vec<u64>) -> Vec<u64> {
	v.sort();
	v
}

/// Values: coinbases (< 100) are worth the plain reward (trunk blocks are empty); an atom's outputs share
/// (inputs - fee), the last one taking the remainder.
fn build_world(beh: &Value) -> World {
	let mut atoms = BTreeMap::new();
	for (i, v) in beh["atoms"].as_array().expect("atoms").iter().enumerate() {
		let id = i as u64 + 1;
		atoms.insert(
			id,
			Atom {
				id,
				ins: sorted(arr_u64(&v["ins"])),
				outs: sorted(arr_u64(&v["outs"])),
				fee: v["fee"].as_u64().unwrap(),
			},
		);
	}
	let mut values: HashMap<u64, u64> = HashMap::new();
	for a in atoms.values() {
		let mut tin = 0u64;
		for c in &a.ins {
			tin += if *c < 100 {
				REWARD
			} else {
				*values.get(c).unwrap_or_else(|| panic!("atom {} spends commit {} of unknown value", a.id, c))
			};
		}
		let avail = tin - a.fee;
		let n = a.outs.len() as u64;
		for (i, c) in a.outs.iter().enumerate() {
			let v = if (i as u64) + 1 < n { avail / n } else { avail - (avail / n) * (n - 1) };
			values.insert(*c, v);
		}
	}
	let kc = keychain();
	let pb = ProofBuilder::new(&kc);
	let cache = TXS.get_or_init(|| Mutex::new(HashMap::new()));
	let mut txs = HashMap::new();
	let mut id_of_kernel = HashMap::new();
	for a in atoms.values() {
		let key = format!("{:?}|{:?}", a, a.ins.iter().map(|c| if *c < 100 { REWARD } else { values[c] }).collect::<Vec<_>>());
		let cached = cache.lock().unwrap().get(&key).cloned();
		let tx = match cached {
			Some(t) => t,
			None => {
				let mut elems = vec![];
				for c in &a.ins {
					if *c < 100 {
						elems.push(build::coinbase_input(REWARD, kid_coinbase(*c)));
					} else {
						elems.push(build::input(values[c], kid_pool(*c)));
					}
				}
				for c in &a.outs {
					elems.push(build::output(values[c], kid_pool(*c)));
				}
				let fee = FeeFields::new(0, a.fee).unwrap();
				let t = build::transaction(KernelFeatures::Plain { fee }, &elems, &kc, &pb).expect("build tx");
				cache.lock().unwrap().insert(key, t.clone());
				t
			}
		};
		id_of_kernel.insert(tx.kernels()[0].excess(), a.id);
		txs.insert(a.id, tx);
	}
	World { atoms, txs, id_of_kernel }
}

impl World {
	fn tx_of(&self, parts: &[u64]) -> Transaction {
		if parts.len() == 1 {
			self.txs[&parts[0]].clone()
		} else {
			let v: Vec<Transaction> = parts.iter().map(|a| self.txs[a].clone()).collect();
			transaction::aggregate(&v).expect("aggregate of universe atoms")
		}
	}
	fn ids_of(&self, tx: &Transaction) -> Vec<u64> {
		sorted(tx.kernels().iter().map(|k| self.id_of_kernel.get(&k.excess()).cloned().unwrap_or(0)).collect())
	}
	fn ids_of_commits(&self, ks: &[Commitment]) -> Vec<u64> {
		sorted(ks.iter().map(|k| self.id_of_kernel.get(k).cloned().unwrap_or(0)).collect())
	}
}

struct Node {
	chain: Arc<Chain>,
	pool: ServerTxPool,
	_peers: Arc<grin_p2p::Peers>,
	_fake_peers: Arc<fake::p2p::Peers>,
	net_adapter: Arc<PoolToNetAdapter>,
	dcfg: DandelionConfig,
	blocks_made: u64,
	/// arrival instant (scripted clock, seconds) of the entries now in the stempool, by kernel ids
	arrival: HashMap<Vec<u64>, i64>,
}

/// The age in seconds given to a real entry whose age on the scripted clock is `secs` (a multiple of TICK):
/// half a tick less. An entry of model age a ticks then satisfies `age > n * TICK + r` for every r in 0..=30
/// exactly when a > n (TICK = 80: a*80 - 40 > n*80 + 30 iff a >= n + 1), so neither the random addend of the
/// embargo nor a second boundary passing between the rewrite and the call decides anything.
fn real_age(secs: i64) -> i64 {
	if secs <= 0 {
		0
	} else {
		secs - TICK / 2
	}
}

fn rewrite_tx_at(n: &mut Node, w: &World) {
	let fnow = net().now;
	let now = chrono::Utc::now();
	let mut p = n.pool.write();
	for e in p.stempool.entries.iter_mut() {
		let ids = w.ids_of(&e.tx);
		let arr = n.arrival.get(&ids).cloned().unwrap_or(fnow);
		e.tx_at = now - Duration::seconds(real_age(fnow - arr));
	}
}

/// after every step: entries new to the stempool arrived now; entries that left it are forgotten
fn track_arrivals(n: &mut Node, w: &World) {
	let fnow = net().now;
	let present: Vec<Vec<u64>> = n.pool.read().stempool.entries.iter().map(|e| w.ids_of(&e.tx)).collect();
	n.arrival.retain(|k, _| present.contains(k));
	for ids in present {
		n.arrival.entry(ids).or_insert(fnow);
	}
}

fn src_name(s: &TxSource) -> String {
	format!("{:?}", s)
}

fn events_json(w: &World) -> Vec<Value> {
	net()
		.events
		.iter()
		.filter(|(e, _, _)| e != "stem_failed")
		.map(|(e, ks, p)| json!({"e": e, "tx": w.ids_of_commits(ks), "peer": p}))
		.collect()
}
fn model_events(ev: &Value) -> Vec<Value> {
	ev.as_array()
		.map(|a| {
			a.iter()
				.map(|x| json!({"e": x["e"], "tx": sorted(arr_u64(&x["tx"])), "peer": x["peer"]}))
				.collect()
		})
		.unwrap_or_default()
}

fn joint(n: &Node, txs: &[Transaction]) -> String {
	if txs.is_empty() {
		return "empty".into();
	}
	match transaction::aggregate(txs) {
		Err(e) => format!("aggregate:{:?}", e),
		Ok(agg) => match agg.validate(transaction::Weighting::NoLimit) {
			Err(e) => format!("validate:{:?}", e),
			Ok(()) => match n.chain.validate_tx(&agg) {
				Err(e) => format!("validate_tx:{:?}", e),
				Ok(()) => "ok".into(),
			},
		},
	}
}

/// Compare the projected state of the model after a step with the real objects; independent real-side checks.
fn compare_state(w: &World, n: &Node, cfg: &Value, proj: &Value, step: usize, k: &str, mism: &mut Vec<Value>) -> Value {
	let tp: Vec<(Vec<u64>, String)> = n.pool.read().txpool.entries.iter().map(|e| (w.ids_of(&e.tx), src_name(&e.src))).collect();
	let fnow = net().now;
	let agecap = cfg["embargo"].as_i64().unwrap() + cfg["jitter"].as_i64().unwrap() + 1;
	let sp: Vec<(Vec<u64>, String, i64)> = n
		.pool
		.read()
		.stempool
		.entries
		.iter()
		.map(|e| {
			let ids = w.ids_of(&e.tx);
			let arr = n.arrival.get(&ids).cloned().unwrap_or(fnow);
			(ids, src_name(&e.src), std::cmp::min((fnow - arr) / TICK, agecap))
		})
		.collect();
	let mtp: Vec<(Vec<u64>, String)> = proj["txpool"]
		.as_array()
		.map(|a| a.iter().map(|e| (sorted(arr_u64(&e["tx"])), e["src"].as_str().unwrap_or("").to_string())).collect())
		.unwrap_or_default();
	let msp: Vec<(Vec<u64>, String, i64)> = proj["stempool"]
		.as_array()
		.map(|a| {
			a.iter()
				.map(|e| (sorted(arr_u64(&e["tx"])), e["src"].as_str().unwrap_or("").to_string(), e["age"].as_i64().unwrap_or(-9)))
				.collect()
		})
		.unwrap_or_default();
	let tp_k: Vec<&Vec<u64>> = tp.iter().map(|x| &x.0).collect();
	let mtp_k: Vec<&Vec<u64>> = mtp.iter().map(|x| &x.0).collect();
	let sp_k: Vec<&Vec<u64>> = sp.iter().map(|x| &x.0).collect();
	let msp_k: Vec<&Vec<u64>> = msp.iter().map(|x| &x.0).collect();
	if tp_k != mtp_k {
		mism.push(json!({"step": step, "what": "txpool", "after": k, "expected": mtp_k, "observed": tp_k}));
	} else if tp != mtp {
		mism.push(json!({"step": step, "what": "txpool_src", "after": k, "expected": mtp, "observed": tp}));
	}
	if sp_k != msp_k {
		mism.push(json!({"step": step, "what": "stempool", "after": k, "expected": msp_k, "observed": sp_k}));
	} else if sp != msp {
		mism.push(json!({"step": step, "what": "stempool_entry", "after": k, "expected": msp, "observed": sp}));
	}
	let h = n.chain.head().unwrap().height - TRUNK;
	if Some(h) != proj["height"].as_u64() {
		mism.push(json!({"step": step, "what": "height", "after": k, "expected": proj["height"], "observed": h}));
	}
	// the epoch of the real DandelionEpoch (source text of the tree) on the scripted clock
	let (start, is_stem, relay) = n.net_adapter.verif_epoch();
	let epochcap = cfg["epochsecs"].as_i64().unwrap() + 1;
	let eage = match start {
		None => -1,
		Some(s) => std::cmp::min((fnow - s) / TICK, epochcap),
	};
	let oe = json!({"stem": is_stem, "age": eage, "relay": relay.unwrap_or(0)});
	let me = json!({"stem": proj["epoch"]["stem"], "age": proj["epoch"]["age"], "relay": proj["epoch"]["relay"]});
	if oe != me {
		mism.push(json!({"step": step, "what": "epoch", "after": k, "expected": me, "observed": oe}));
	}
	let exp = (n.net_adapter.clone() as Arc<dyn DandelionAdapter>).is_expired();
	if Some(exp) != proj["expired"].as_bool() {
		mism.push(json!({"step": step, "what": "epoch_expired", "after": k, "expected": proj["expired"], "observed": exp, "epoch": oe}));
	}
	// independent of the model: joint validity through the real chain, and disjointness by kernel
	let txs = n.pool.read().txpool.all_transactions();
	let stem = n.pool.read().stempool.all_transactions();
	let j = joint(n, &txs);
	if j != "ok" && j != "empty" {
		mism.push(json!({"step": step, "what": "txpool_not_jointly_valid", "after": k, "observed": j, "txpool": tp_k}));
	}
	let mut all = txs.clone();
	all.extend(stem.clone());
	let sj = if stem.is_empty() { "empty".to_string() } else { joint(n, &all) };
	if sj != "ok" && sj != "empty" && (j == "ok" || j == "empty") {
		let shared: Vec<u64> = sp_k.iter().flat_map(|x| x.iter()).filter(|a| tp_k.iter().any(|y| y.contains(a))).cloned().collect();
		mism.push(json!({"step": step, "what": "stempool_not_jointly_valid", "after": k, "observed": sj,
			"txpool": tp_k, "stempool": sp_k, "kernels_in_both": shared}));
	}
	// nothing announced to the whole network in this step may still be private (in the stempool)
	for (e, ks, _) in net().events.iter() {
		if e == "bcast" {
			let ids = w.ids_of_commits(ks);
			if ids.iter().any(|a| sp_k.iter().any(|x| x.contains(a))) {
				mism.push(json!({"step": step, "what": "announced_while_in_stempool", "after": k, "tx": ids, "stempool": sp_k}));
			}
			if !ids.iter().all(|a| tp_k.iter().any(|x| x.contains(a))) {
				mism.push(json!({"step": step, "what": "announced_but_not_public", "after": k, "tx": ids, "txpool": tp_k}));
			}
		}
	}
	json!({"txpool": tp, "stempool": sp, "epoch": oe, "joint": j, "stem_joint": sj})
}

fn replay_one(beh: &Value, work: &str, idx: usize, mode: &str) -> Value {
	let cfg = &beh["cfg"];
	global::set_local_accept_fee_base(FEE_BASE);
	global::set_local_nrd_enabled(false);
	let w = build_world(beh);
	if cfg["maxtxweight"].as_u64() != Some(global::max_tx_weight()) {
		panic!("behaviour generated for MaxTxWeight {} but global::max_tx_weight() = {}", cfg["maxtxweight"], global::max_tx_weight());
	}
	if cfg["jitter"].as_u64() != Some(0) {
		panic!("behaviours for replay must have Jitter = 0 (one tick is longer than the random addend)");
	}
	let tdir = template(work);
	let dir = format!("{}/b{}", work, idx);
	let _ = std::fs::remove_dir_all(&dir);
	copy_dir(&tdir, &format!("{}/main", dir));
	let dcfg = DandelionConfig {
		epoch_secs: (cfg["epochsecs"].as_i64().unwrap() * TICK) as u16,
		embargo_secs: (cfg["embargo"].as_i64().unwrap() * TICK) as u16,
		aggregation_secs: (cfg["agg"].as_i64().unwrap() * TICK) as u16,
		stem_probability: 90,
		always_stem_our_txs: cfg["always"].as_bool().unwrap(),
	};
	{
		let mut nt = net();
		*nt = fake::Net::default();
		nt.now = 1_000_000;
		nt.send_ok = true;
	}
	// pool <-> chain as in Server::new(): PoolToChainAdapter, PoolToNetAdapter, ChainToPoolAndNetAdapter
	let pool_adapter = Arc::new(PoolToChainAdapter::new());
	let net_adapter = Arc::new(PoolToNetAdapter::new(dcfg.clone()));
	let pool: ServerTxPool = Arc::new(RwLock::new(TransactionPool::new(
		PoolConfig {
			accept_fee_base: FEE_BASE,
			reorg_cache_period: 30,
			max_pool_size: 50,
			max_stempool_size: 50,
			mineable_max_weight: global::max_block_weight(),
		},
		pool_adapter.clone(),
		net_adapter.clone(),
	)));
	let chain_adapter = Arc::new(ChainToPoolAndNetAdapter::new(pool.clone(), vec![Box::new(NoHook)]));
	let chain = Arc::new(init_chain(&format!("{}/main", dir), chain_adapter.clone()));
	pool_adapter.set_chain(chain.clone());
	let peers = Arc::new(grin_p2p::Peers::new(
		grin_p2p::store::PeerStore::new(&format!("{}/peers", dir)).expect("peer store"),
		Arc::new(grin_p2p::DummyAdapter {}),
		grin_p2p::P2PConfig::default(),
	));
	chain_adapter.init(peers.clone());
	let fake_peers = Arc::new(fake::p2p::Peers);
	net_adapter.init(fake_peers.clone());
	let mut n = Node {
		chain,
		pool,
		_peers: peers,
		_fake_peers: fake_peers,
		net_adapter,
		dcfg,
		blocks_made: 0,
		arrival: HashMap::new(),
	};
	if n.chain.head().unwrap().height != TRUNK {
		panic!("template chain not at trunk height");
	}
	let dyn_adapter: Arc<dyn DandelionAdapter> = n.net_adapter.clone();
	let mut mism: Vec<Value> = vec![];
	let mut obs_steps: Vec<Value> = vec![];
	let steps = beh["steps"].as_array().unwrap();
	let atomic = cfg["atomic"].as_bool().unwrap_or(false);
	let use_loop = atomic && mode != "calls";
	let mut loop_events: Vec<Value> = vec![]; // model events of the steps folded into one loop iteration
	let mut i = 0usize;
	while i < steps.len() {
		let s = &steps[i];
		let l = &s["last"];
		let k = l["k"].as_str().unwrap();
		let mut o = json!({"k": k});
		let mut compare = true;
		let mut expected_events = model_events(&l["ev"]);
		net().events.clear();
		match k {
			"Init" => {
				net().connected = arr_u64(&s["proj"]["connected"]).into_iter().collect();
			}
			"Peers" => {
				net().connected = arr_u64(&l["c"]).into_iter().collect();
			}
			"Advance" => {
				net().now += l["d"].as_i64().unwrap() * TICK;
			}
			"Submit" => {
				let parts = sorted(arr_u64(&l["t"]));
				let stem = l["stem"].as_bool().unwrap();
				let src = if l["src"].as_str() == Some("PushApi") { TxSource::PushApi } else { TxSource::Broadcast };
				{
					let mut nt = net();
					nt.send_ok = l["sendok"].as_bool().unwrap_or(true);
					nt.choice = Some(l["np"].as_u64().unwrap_or(0));
					nt.unscripted_choices = 0;
				}
				let tx = w.tx_of(&parts);
				// as NetToChainAdapter::transaction_received / the push API do it
				let header = n.chain.head_header().unwrap();
				let r = catch_unwind(AssertUnwindSafe(|| n.pool.write().add_to_pool(src, tx.clone(), stem, &header)));
				let evs = events_json(&w);
				let (res, err) = match &r {
					Err(_) => ("panic".to_string(), "panic".to_string()),
					Ok(Err(e)) => ("reject".to_string(), format!("{:?}", e)),
					Ok(Ok(())) => {
						if evs.iter().any(|e| e["e"] == "bcast") {
							("ok_fluff".to_string(), String::new())
						} else {
							("ok_stem".to_string(), String::new())
						}
					}
				};
				o["res"] = json!(res);
				o["err"] = json!(err);
				if res != l["res"].as_str().unwrap() {
					mism.push(json!({"step": i, "what": "result", "k": k, "t": parts, "stem": stem, "src": l["src"], "why": l["why"],
						"expected": l["res"], "observed": res, "err": err, "events": evs}));
				}
				if net().unscripted_choices > 0 {
					mism.push(json!({"step": i, "what": "relay_chosen_when_model_keeps_it", "k": k, "t": parts}));
				}
			}
			"FluffPhase" if use_loop => {
				// one iteration of the real monitor loop = this step and the next two of the model
				if i + 2 >= steps.len() || steps[i + 1]["last"]["k"] != "Expired" || steps[i + 2]["last"]["k"] != "Rollover" {
					// the behaviour ends inside an iteration: nothing left to compare
					break;
				}
				let roll = &steps[i + 2]["last"];
				{
					let mut nt = net();
					nt.draw = if roll["st"].as_bool().unwrap_or(true) { 0 } else { 99 };
					nt.choice = Some(roll["np"].as_u64().unwrap_or(0));
					nt.unscripted_choices = 0;
					nt.draw_calls = 0;
				}
				rewrite_tx_at(&mut n, &w);
				let (cfgc, poolc, adc) = (n.dcfg.clone(), n.pool.clone(), dyn_adapter.clone());
				let r = catch_unwind(AssertUnwindSafe(|| dandelion_monitor::verif_iteration(cfgc, poolc, adc)));
				match r {
					Err(_) => mism.push(json!({"step": i, "what": "panic_in_monitor_iteration"})),
					Ok(false) => mism.push(json!({"step": i, "what": "harness_iteration_did_not_run"})),
					Ok(true) => {}
				}
				loop_events = model_events(&l["ev"]);
				loop_events.extend(model_events(&steps[i + 1]["last"]["ev"]));
				loop_events.extend(model_events(&roll["ev"]));
				expected_events = loop_events.clone();
				o["loop"] = json!([l["res"], steps[i + 1]["last"]["res"], roll["res"]]);
				let rolled = net().draw_calls > 0;
				if rolled != (roll["res"] == "rolled") {
					mism.push(json!({"step": i + 2, "what": "rollover", "expected": roll["res"], "observed_next_epoch_called": rolled}));
				}
				i += 2; // compare with the state after the roll-over
			}
			"FluffPhase" => {
				rewrite_tx_at(&mut n, &w);
				// the loop's `if !adapter.is_stem()` (harness glue in this mode; the loop mode runs the real text)
				let res = if dyn_adapter.is_stem() {
					"skipped".to_string()
				} else {
					let r = catch_unwind(AssertUnwindSafe(|| dandelion_monitor::verif_fluff_phase(&n.dcfg, &n.pool, &dyn_adapter)));
					match r {
						Err(_) => "panic".to_string(),
						Ok(Err(e)) => {
							o["err"] = json!(format!("{:?}", e));
							"error".to_string()
						}
						Ok(Ok(())) => {
							if net().events.iter().any(|(e, _, _)| e == "bcast") {
								"ok".to_string()
							} else {
								"idle".to_string()
							}
						}
					}
				};
				o["res"] = json!(res);
				if res != l["res"].as_str().unwrap() {
					mism.push(json!({"step": i, "what": "result", "k": k, "expected": l["res"], "observed": res, "err": o["err"], "agg": l["t"]}));
				}
			}
			"Expired" => {
				rewrite_tx_at(&mut n, &w);
				let r = catch_unwind(AssertUnwindSafe(|| dandelion_monitor::verif_expired_entries(&n.dcfg, &n.pool)));
				match r {
					Err(_) => mism.push(json!({"step": i, "what": "panic_in_process_expired_entries"})),
					Ok(Err(e)) => mism.push(json!({"step": i, "what": "result", "k": k, "expected": "Ok", "observed": format!("{:?}", e)})),
					Ok(Ok(())) => {}
				}
			}
			"Rollover" => {
				{
					let mut nt = net();
					nt.draw = if l["st"].as_bool().unwrap_or(true) { 0 } else { 99 };
					nt.choice = Some(l["np"].as_u64().unwrap_or(0));
					nt.draw_calls = 0;
				}
				// the loop's `if adapter.is_expired() { adapter.next_epoch() }`
				let rolled = if dyn_adapter.is_expired() {
					dyn_adapter.next_epoch();
					true
				} else {
					false
				};
				if rolled != (l["res"] == "rolled") {
					mism.push(json!({"step": i, "what": "rollover", "expected": l["res"], "observed_next_epoch_called": rolled}));
				}
			}
			"Connect" => {
				let atoms = sorted(arr_u64(&l["b"]));
				let prev = n.chain.head_header().unwrap();
				let txs: Vec<Transaction> = atoms.iter().map(|a| w.txs[a].clone()).collect();
				let fees: u64 = txs.iter().map(|t| t.fee()).sum();
				n.blocks_made += 1;
				let rw = reward_for(1, 1000 * (idx as u64 % 50) + n.blocks_made, fees);
				let mut failed = None;
				match Block::new(&prev, &txs, Difficulty::from_num(100), rw) {
					Err(e) => failed = Some(format!("unbuildable:{:?}", e)),
					Ok(mut b) => {
						b.header.timestamp = prev.timestamp + Duration::seconds(60);
						b.header.pow.nonce = next_nonce();
						if let Err(e) = n.chain.set_txhashset_roots(&mut b) {
							failed = Some(format!("roots:{:?}", e));
						} else {
							// the real ChainToPoolAndNetAdapter::block_accepted runs inside process_block
							match catch_unwind(AssertUnwindSafe(|| n.chain.process_block(b.clone(), Options::SKIP_POW))) {
								Err(_) => failed = Some("panic_in_block_accepted".into()),
								Ok(Err(e)) => failed = Some(format!("rejected:{:?}", e)),
								Ok(Ok(_)) => {}
							}
						}
					}
				}
				if let Some(f) = failed {
					mism.push(json!({"step": i, "what": "model_block_not_accepted_by_chain", "observed": f, "block": atoms}));
					compare = false;
				}
			}
			x => panic!("unknown step {}", x),
		}
		track_arrivals(&mut n, &w);
		if compare && mism.is_empty() {
			let evs = events_json(&w);
			if evs != expected_events {
				mism.push(json!({"step": i, "what": "notifications", "after": k, "expected": expected_events, "observed": evs}));
			}
			o["events"] = json!(evs);
			let st = compare_state(&w, &n, cfg, &steps[i]["proj"], i, k, &mut mism);
			o["state"] = st;
		}
		obs_steps.push(o);
		if !mism.is_empty() {
			break; // first divergence: later steps would only echo it
		}
		i += 1;
	}
	let _ = &w.atoms;
	drop(n);
	let _ = std::fs::remove_dir_all(&dir);
	json!({"steps": obs_steps.len(), "obs": obs_steps, "mismatches": mism, "mode": if use_loop { "loop" } else { "calls" }})
}

fn replay(args: &Args) -> i32 {
	let cases = read_ndjson(args.req("cases"));
	let out_path = args.req("out").to_string();
	let work = args.req("work").to_string();
	let mode = args.get("mode").unwrap_or("auto").to_string();
	std::fs::create_dir_all(&work).unwrap();
	let mut out = NdWriter::create(&out_path);
	for (i, c) in cases.iter().enumerate() {
		let r = catch_unwind(AssertUnwindSafe(|| replay_one(c, &work, i, &mode)));
		let v = match r {
			Ok(v) => v,
			Err(e) => {
				let msg = e
					.downcast_ref::<String>()
					.cloned()
					.or_else(|| e.downcast_ref::<&str>().map(|s| s.to_string()))
					.unwrap_or_default();
				json!({"steps": 0, "obs": [], "mismatches": [], "harness_panic": msg})
			}
		};
		out.put(&v);
	}
	out.finish();
	let _ = std::fs::remove_dir_all(&work);
	0
}

fn main() {
	quiet_panics();
	global::set_local_chain_type(ChainTypes::AutomatedTesting);
	let a: Vec<String> = std::env::args().skip(1).collect();
	let args = Args::parse(&a);
	let rc = match args.pos.get(0).map(|s| s.as_str()) {
		Some("replay") => replay(&args),
		_ => {
			eprintln!("dandelion replay --cases F --out F --work DIR [--mode auto|calls]");
			2
		}
	};
	std::process::exit(rc);
}
