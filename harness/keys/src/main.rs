//! C20 engine `keys`: Direction-A replay of the cases emitted from spec/Keys.tla (MC_Keys) against the
//! real keychain / proof / builder / reward code.  Each case is instantiated `--insts` times with seed
//! bytes, random path components and amounts drawn from VERIF_SEED (`--seed`).
//!
//!   h_keys replay --cases F --out F --seed S --insts N --shard I --nshards K
//!   h_keys probe                      (behaviours outside the property's quantifier, informational)
//!
//! The harness never decides what is right: expected result classes, zero-ness of sums and builder
//! domains come from the case records; the harness only maps class names to concrete values, runs the
//! code and classifies what came back.
use grin_core::core::transaction::Weighting;
use grin_core::core::{Block, BlockHeader, FeeFields, KernelFeatures, Transaction, TxKernel};
use grin_core::global;
use grin_core::libtx::proof::{self, LegacyProofBuilder, ProofBuild, ProofBuilder};
use grin_core::libtx::{aggsig, build, reward};
use grin_core::pow::Difficulty;
use grin_keychain::mnemonic;
use grin_keychain::{
	BlindSum, BlindingFactor, ChildNumber, ExtKeychain, ExtKeychainPath, Identifier, Keychain,
	SwitchCommitmentType, ViewKey,
};
use grin_util::secp::key::{PublicKey, SecretKey};
use grin_util::secp::pedersen::{Commitment, ProofMessage, RangeProof};
use grin_util::secp::{Message, Secp256k1};
use serde_json::{json, Value};
use std::panic::{catch_unwind, AssertUnwindSafe};
use vcommon::*;

// ---------------------------------------------------------------------------------------------
// deterministic randomness (splitmix64), independent of the rand crate's versions

#[derive(Clone)]
struct Rng(u64);
impl Rng {
	fn new(a: u64, b: u64, c: u64) -> Rng {
		let mut r = Rng(a ^ 0x9E37_79B9_7F4A_7C15);
		r.next();
		r.0 ^= b.wrapping_mul(0xBF58_476D_1CE4_E5B9);
		r.next();
		r.0 ^= c.wrapping_mul(0x94D0_49BB_1331_11EB);
		r.next();
		r
	}
	fn next(&mut self) -> u64 {
		self.0 = self.0.wrapping_add(0x9E37_79B9_7F4A_7C15);
		let mut z = self.0;
		z = (z ^ (z >> 30)).wrapping_mul(0xBF58_476D_1CE4_E5B9);
		z = (z ^ (z >> 27)).wrapping_mul(0x94D0_49BB_1331_11EB);
		z ^ (z >> 31)
	}
	fn below(&mut self, n: u64) -> u64 {
		self.next() % n
	}
	fn range(&mut self, lo: u64, hi: u64) -> u64 {
		lo + self.below(hi - lo + 1)
	}
	fn bytes32(&mut self) -> [u8; 32] {
		let mut b = [0u8; 32];
		for i in 0..4 {
			b[i * 8..i * 8 + 8].copy_from_slice(&self.next().to_be_bytes());
		}
		b
	}
}

// ---------------------------------------------------------------------------------------------
// class name -> concrete value

struct World {
	rng_base: (u64, u64, u64),
	seeds: Vec<[u8; 32]>,
	is_test: bool,
	arand: u64,
}

impl World {
	fn new(seed: u64, case: u64, inst: u64) -> World {
		let mut r = Rng::new(seed, case, inst);
		let mut seeds = vec![];
		for _ in 0..3 {
			seeds.push(r.bytes32());
		}
		let arand = r.next();
		World {
			rng_base: (seed, case, inst),
			seeds,
			is_test: inst % 2 == 1,
			arand,
		}
	}
	fn seed(&self, name: &str) -> &[u8; 32] {
		match name {
			"s1" => &self.seeds[0],
			"s2" => &self.seeds[1],
			"s3" => &self.seeds[2],
			x => panic!("seed class {}", x),
		}
	}
	fn keychain(&self, name: &str) -> ExtKeychain {
		ExtKeychain::from_seed(self.seed(name), self.is_test).expect("from_seed")
	}
	/// the same class at the same position is the same number within one instantiation
	fn comp(&self, pos: usize, class: &str) -> u32 {
		let mut r = Rng::new(
			self.rng_base.0 ^ 0xC0FFEE,
			self.rng_base.1,
			self.rng_base.2 * 16 + pos as u64,
		);
		match class {
			"c0" => 0,
			"c1" => 1,
			"nmax" => 0x7fff_ffff,
			"h0" => 0x8000_0000,
			"hmax" => 0xffff_ffff,
			"nr" => r.range(2, 0x7fff_fffe) as u32,
			"hr" => r.range(0x8000_0001, 0xffff_fffe) as u32,
			x => panic!("comp class {}", x),
		}
	}
	fn amount(&self, class: &str) -> u64 {
		match class {
			"a0" => 0,
			"a1" => 1,
			"a60" => 60_000_000_000,
			"a63" => 1u64 << 63,
			"amax" => u64::MAX,
			"arand" => self.arand,
			x => panic!("amount class {}", x),
		}
	}
	/// class "cj" of Keys.tla: the value in the identifier components behind the depth (non-zero, not hardened)
	fn junk(&self) -> u32 {
		let mut r = Rng::new(self.rng_base.0 ^ 0x9AD, self.rng_base.1, self.rng_base.2);
		r.range(1, 0x7fff_ffff) as u32
	}
	fn path(&self, p: &Value) -> Vec<u32> {
		p.as_array()
			.unwrap()
			.iter()
			.enumerate()
			.map(|(i, c)| self.comp(i, c.as_str().unwrap()))
			.collect()
	}
}

fn ident_p(path: &[u32], pad: u32) -> Identifier {
	let g = |i: usize| if i < path.len() { path[i] } else { pad };
	ExtKeychainPath::new(path.len() as u8, g(0), g(1), g(2), g(3)).to_identifier()
}

fn ident(path: &[u32]) -> Identifier {
	ident_p(path, 0)
}

fn mode_of(s: &str) -> SwitchCommitmentType {
	match s {
		"Regular" => SwitchCommitmentType::Regular,
		"None" => SwitchCommitmentType::None,
		x => panic!("mode {}", x),
	}
}

fn hex(b: &[u8]) -> String {
	b.iter().map(|x| format!("{:02x}", x)).collect()
}

enum AnyBuilder<'a> {
	New(ProofBuilder<'a, ExtKeychain>),
	Legacy(LegacyProofBuilder<'a, ExtKeychain>),
}

impl<'a> AnyBuilder<'a> {
	fn make(kind: &str, kc: &'a ExtKeychain) -> AnyBuilder<'a> {
		match kind {
			"new" => AnyBuilder::New(ProofBuilder::new(kc)),
			"legacy" => AnyBuilder::Legacy(LegacyProofBuilder::new(kc)),
			x => panic!("builder kind {}", x),
		}
	}
}

// ProofBuild by delegation so that generic code can take either generation
impl<'a> ProofBuild for AnyBuilder<'a> {
	fn rewind_nonce(&self, secp: &Secp256k1, commit: &Commitment) -> Result<SecretKey, grin_core::libtx::Error> {
		match self {
			AnyBuilder::New(b) => b.rewind_nonce(secp, commit),
			AnyBuilder::Legacy(b) => b.rewind_nonce(secp, commit),
		}
	}
	fn private_nonce(&self, secp: &Secp256k1, commit: &Commitment) -> Result<SecretKey, grin_core::libtx::Error> {
		match self {
			AnyBuilder::New(b) => b.private_nonce(secp, commit),
			AnyBuilder::Legacy(b) => b.private_nonce(secp, commit),
		}
	}
	fn proof_message(
		&self,
		secp: &Secp256k1,
		id: &Identifier,
		switch: SwitchCommitmentType,
	) -> Result<ProofMessage, grin_core::libtx::Error> {
		match self {
			AnyBuilder::New(b) => b.proof_message(secp, id, switch),
			AnyBuilder::Legacy(b) => b.proof_message(secp, id, switch),
		}
	}
	fn check_output(
		&self,
		secp: &Secp256k1,
		commit: &Commitment,
		amount: u64,
		message: ProofMessage,
	) -> Result<Option<(Identifier, SwitchCommitmentType)>, grin_core::libtx::Error> {
		match self {
			AnyBuilder::New(b) => b.check_output(secp, commit, amount, message),
			AnyBuilder::Legacy(b) => b.check_output(secp, commit, amount, message),
		}
	}
}

/// Classify a rewind answer against the creation triple: exact | garbage | none | err | panic
fn classify<B: ProofBuild>(
	secp: &Secp256k1,
	b: &B,
	commit: Commitment,
	proof: RangeProof,
	want: (u64, &Identifier, SwitchCommitmentType),
) -> (String, Value) {
	classify_x(secp, b, commit, None, proof, want)
}

fn classify_x<B: ProofBuild>(
	secp: &Secp256k1,
	b: &B,
	commit: Commitment,
	extra: Option<Vec<u8>>,
	proof: RangeProof,
	want: (u64, &Identifier, SwitchCommitmentType),
) -> (String, Value) {
	let r = catch_unwind(AssertUnwindSafe(|| proof::rewind(secp, b, commit, extra, proof)));
	match r {
		Err(_) => ("panic".into(), Value::Null),
		Ok(Err(e)) => ("err".into(), json!(format!("{:?}", e))),
		Ok(Ok(None)) => ("none".into(), Value::Null),
		Ok(Ok(Some((a, id, sw)))) => {
			if a == want.0 && &id == want.1 && sw == want.2 {
				("exact".into(), Value::Null)
			} else {
				(
					"garbage".into(),
					json!({"amount": a.to_string(), "id": hex(&id.to_bytes()), "switch": format!("{:?}", sw)}),
				)
			}
		}
	}
}

fn class_ok(exp: &str, got: &str) -> bool {
	match exp {
		"some" => got == "exact",
		// "recovers nothing" is the answer Ok(None) (Keys.tla NoneR); an Err aborts a wallet scan
		"none" => got == "none",
		// ViewKey::commit(.., Regular) is not implemented in the code (Err); if it ever is, the
		// only acceptable data is the exact triple
		"unsupported" => got == "none" || got == "err" || got == "exact",
		x => panic!("exp class {}", x),
	}
}

struct Tally {
	checks: u64,
	proofs: u64,
	mism: Vec<Value>,
}

impl Tally {
	fn ok(&mut self, cond: bool, what: &str, inst: u64, detail: Value) {
		self.checks += 1;
		if !cond && self.mism.len() < 8 {
			self.mism.push(json!({"what": what, "inst": inst, "detail": detail}));
		}
	}
}

fn child_numbers(p: &[u32]) -> Vec<ChildNumber> {
	p.iter().map(|x| ChildNumber::from(*x)).collect()
}

fn message_for(fmt: &str, id: &Identifier, sw: SwitchCommitmentType) -> [u8; 20] {
	let idb = id.to_bytes();
	let mut m = [0u8; 20];
	m[4..20].copy_from_slice(&idb[1..17]);
	let swb: u8 = match sw {
		SwitchCommitmentType::None => 0,
		SwitchCommitmentType::Regular => 1,
	};
	match fmt {
		"new" => {
			m[2] = swb;
			m[3] = idb[0];
		}
		"legacy" => {}
		"wallet1" => {
			m[1] = 1;
			m[2] = swb;
			m[3] = idb[0];
		}
		"sw2" => {
			m[2] = 2;
			m[3] = idb[0];
		}
		"b0" => {
			m[0] = 1;
			m[2] = swb;
			m[3] = idb[0];
		}
		"dp5" => {
			m[2] = swb;
			m[3] = 5;
		}
		"dp255" => {
			m[2] = swb;
			m[3] = 255;
		}
		"dpm1" => {
			m[2] = swb;
			m[3] = idb[0].saturating_sub(1);
		}
		x => panic!("fmt {}", x),
	}
	m
}

// ---------------------------------------------------------------------------------------------
// kind = "out": create / verify / rewind matrix / view keys / siblings

fn replay_out(c: &Value, w: &World, inst: u64, t: &mut Tally) {
	let a = &c["args"];
	let sname = a["seed"].as_str().unwrap();
	let path = w.path(&a["path"]);
	let amt = w.amount(a["amt"].as_str().unwrap());
	let mode = mode_of(a["mode"].as_str().unwrap());
	let fam = a["fam"].as_str().unwrap();
	let fmt = a["fmt"].as_str().unwrap();
	// identifier padding (Keys.tla IdentP): odd instantiations carry a junk value behind the depth when the
	// case record says that no expectation depends on it
	let pad_ok = c["pads"].as_array().map(|p| p.iter().any(|x| x == "cj")).unwrap_or(false);
	let pad = if pad_ok && inst % 2 == 1 { w.junk() } else { 0 };
	let id = ident_p(&path, pad);

	// identifier <-> path round trip
	let back = id.to_path();
	t.ok(
		back.depth as usize == path.len() && (0..4).all(|i| u32::from(back.path[i]) == *path.get(i).unwrap_or(&pad)),
		"ident_roundtrip",
		inst,
		json!({"id": hex(&id.to_bytes())}),
	);

	// determinism: two FRESH keychains from the same seed bytes
	let kc1 = w.keychain(sname);
	let kc2 = w.keychain(sname);
	let k1 = catch_unwind(AssertUnwindSafe(|| kc1.derive_key(amt, &id, mode)));
	let k2 = catch_unwind(AssertUnwindSafe(|| kc2.derive_key(amt, &id, mode)));
	let (k1, k2) = match (k1, k2) {
		(Ok(Ok(x)), Ok(Ok(y))) => (x, y),
		(x, _) => {
			t.ok(false, "derive_key_failed", inst, json!(format!("{:?}", x.map(|r| r.is_ok()))));
			return;
		}
	};
	t.ok(k1 == k2, "derive_nondeterministic", inst, json!({"depth": path.len()}));
	let c1 = kc1.commit(amt, &id, mode);
	let c2 = kc2.commit(amt, &id, mode);
	let (commit, c2) = match (c1, c2) {
		(Ok(x), Ok(y)) => (x, y),
		_ => {
			t.ok(false, "commit_failed", inst, json!({"amt": amt.to_string()}));
			return;
		}
	};
	t.ok(commit == c2, "commit_nondeterministic", inst, json!({"depth": path.len()}));
	if pad != 0 {
		// the bytes behind the depth do not influence the key
		t.ok(
			kc2.commit(amt, &ident(&path), mode).ok() == Some(commit),
			"padding_changes_commit",
			inst,
			json!({"depth": path.len()}),
		);
	}
	// commit is the Pedersen commitment to (amount, derived key)
	t.ok(
		kc1.secp().commit(amt, k1.clone()).ok() == Some(commit),
		"commit_not_of_derived_key",
		inst,
		Value::Null,
	);
	// the no-switch key equals the plain BIP32 private derivation
	if mode == SwitchCommitmentType::None {
		let mut h = kc1.hasher();
		let x = kc1.master.derive_priv(kc1.secp(), &mut h, &child_numbers(&path));
		t.ok(
			x.map(|e| e.secret_key == k1).unwrap_or(false),
			"derive_key_vs_derive_priv",
			inst,
			Value::Null,
		);
	}

	// creation
	let b1 = AnyBuilder::make(fam, &kc1);
	let secp = kc1.secp();
	let proof = if fam == fmt {
		catch_unwind(AssertUnwindSafe(|| proof::create(&kc1, &b1, amt, &id, mode, commit, None)))
	} else {
		catch_unwind(AssertUnwindSafe(|| {
			let rn = b1.rewind_nonce(secp, &commit)?;
			let pn = b1.private_nonce(secp, &commit)?;
			let m = message_for(fmt, &id, mode);
			Ok(secp.bullet_proof(amt, k1.clone(), rn, pn, None, Some(ProofMessage::from_bytes(&m))))
		}))
	};
	t.proofs += 1;
	let proof: RangeProof = match proof {
		Ok(Ok(p)) => p,
		Ok(Err(e)) => {
			t.ok(false, "create_err", inst, json!(format!("{:?}", e)));
			return;
		}
		Err(_) => {
			t.ok(false, "create_panic", inst, json!({"amt": amt.to_string()}));
			return;
		}
	};
	if fam == fmt && inst == 0 {
		// what the builder writes is what the format table of the specification says
		let m = b1.proof_message(secp, &id, mode).map(|m| m.as_bytes().to_vec()).unwrap_or_default();
		t.ok(m == message_for(fmt, &id, mode).to_vec(), "message_layout", inst, json!({"msg": hex(&m)}));
	}
	let v = catch_unwind(AssertUnwindSafe(|| proof::verify(secp, commit, proof, None)));
	t.ok(matches!(v, Ok(Ok(()))), "proof_does_not_verify", inst, json!({"amt": amt.to_string(), "depth": path.len()}));

	// Keychain::sign (Keys.tla SignOK): verifies under commit - amount*H, bound to the message
	let mut mr = Rng::new(w.rng_base.0 ^ 0x516, w.rng_base.1, w.rng_base.2);
	let msg1 = Message::from_slice(&mr.bytes32()).unwrap();
	let msg2 = Message::from_slice(&mr.bytes32()).unwrap();
	let own_pk: Option<PublicKey> = if amt == 0 {
		commit.to_pubkey(secp).ok()
	} else {
		secp.commit_value(amt)
			.and_then(|vc| secp.commit_sum(vec![commit], vec![vc]))
			.and_then(|x| x.to_pubkey(secp))
			.ok()
	};
	match (&own_pk, catch_unwind(AssertUnwindSafe(|| kc2.sign(&msg1, amt, &id, mode)))) {
		(Some(pk), Ok(Ok(sig))) => {
			t.ok(
				secp.verify(&msg1, &sig, pk).is_ok(),
				"sign_does_not_verify",
				inst,
				json!({"amt": a["amt"], "depth": path.len()}),
			);
			t.ok(secp.verify(&msg2, &sig, pk).is_err(), "sign_not_bound_to_message", inst, Value::Null);
		}
		(pk, sg) => t.ok(
			false,
			"sign_failed",
			inst,
			json!({"pubkey": pk.is_some(), "sign": format!("{:?}", sg.map(|r| r.is_ok()))}),
		),
	}

	let want = (amt, &id, mode);
	// rewinding wallets: one more fresh keychain per seed (never the creating instance)
	let wallets: Vec<(&str, ExtKeychain)> = ["s1", "s2", "s3"].iter().map(|n| (*n, w.keychain(n))).collect();
	let wallet = |n: &str| -> &ExtKeychain { &wallets.iter().find(|(k, _)| *k == n).expect("seed").1 };
	// keychain rewinders: every seed x both generations
	for row in c["rew"].as_array().unwrap() {
		let kc = wallet(row["seed"].as_str().unwrap());
		let kind = row["kind"].as_str().unwrap();
		let b = AnyBuilder::make(kind, kc);
		let (got, det) = classify(kc.secp(), &b, commit, proof, want);
		let exp = row["exp"].as_str().unwrap();
		t.ok(
			class_ok(exp, &got),
			"rewind",
			inst,
			json!({"rw": kind, "same_seed": row["seed"] == a["seed"], "exp": exp, "got": got, "data": det}),
		);
	}
	// extra data (Keys.tla ExtraDataBinds): instantiation 1 of honest cases
	if inst == 1 {
		let mut er = Rng::new(w.rng_base.0 ^ 0xE7A, w.rng_base.1, w.rng_base.2);
		let mut mk = |tag: u8| -> Vec<u8> {
			let n = er.range(1, 64) as usize;
			let mut v: Vec<u8> = (0..n).map(|_| er.next() as u8).collect();
			v[0] = tag; // "e1" and "e2" are different byte strings
			v
		};
		let e1 = mk(1);
		let e2 = mk(2);
		let data = |n: &str| -> Option<Vec<u8>> {
			match n {
				"none" => None,
				"e1" => Some(e1.clone()),
				"e2" => Some(e2.clone()),
				x => panic!("extra class {}", x),
			}
		};
		let mut made: Vec<(String, RangeProof)> = vec![("none".to_string(), proof)];
		for row in c["extra"].as_array().map(|x| x.to_vec()).unwrap_or_default() {
			let cx = row["c"].as_str().unwrap();
			let ry = row["r"].as_str().unwrap();
			let px = match made.iter().find(|(k, _)| k == cx) {
				Some((_, p)) => *p,
				None => {
					t.proofs += 1;
					match catch_unwind(AssertUnwindSafe(|| proof::create(&kc1, &b1, amt, &id, mode, commit, data(cx)))) {
						Ok(Ok(p)) => {
							made.push((cx.to_string(), p));
							p
						}
						_ => {
							t.ok(false, "create_err", inst, json!({"extra": cx}));
							continue;
						}
					}
				}
			};
			let v = catch_unwind(AssertUnwindSafe(|| proof::verify(secp, commit, px, data(ry))));
			let vgot = match v {
				Ok(Ok(())) => "ok",
				Ok(Err(_)) => "fail",
				Err(_) => "panic",
			};
			let vexp = if row["verifies"].as_bool().unwrap() { "ok" } else { "fail" };
			t.ok(vgot == vexp, "extra_verify", inst, json!({"created": cx, "with": ry, "exp": vexp, "got": vgot}));
			let kc = wallet(sname);
			let b = AnyBuilder::make(fam, kc);
			let (got, det) = classify_x(kc.secp(), &b, commit, data(ry), px, want);
			let exp = row["exp"].as_str().unwrap();
			t.ok(
				class_ok(exp, &got),
				"extra_rewind",
				inst,
				json!({"created": cx, "with": ry, "exp": exp, "got": got, "data": det}),
			);
		}
	}
	// view keys
	for row in c["view"].as_array().unwrap() {
		let kc = wallet(row["seed"].as_str().unwrap());
		let prefix = w.path(&row["prefix"]);
		let mut h = kc.hasher();
		let ext = match kc.master.derive_priv(kc.secp(), &mut h, &child_numbers(&prefix)) {
			Ok(x) => x,
			Err(_) => {
				t.ok(false, "derive_priv_failed", inst, Value::Null);
				continue;
			}
		};
		let vk = match ViewKey::create(kc, ext, &mut h, w.is_test) {
			Ok(x) => x,
			Err(_) => {
				t.ok(false, "viewkey_create_failed", inst, Value::Null);
				continue;
			}
		};
		let mut use_vk = vk.clone();
		if !prefix.is_empty() && prefix.iter().all(|x| x & 0x8000_0000 == 0) {
			// the same view key reached by public derivation from the root view key
			let mut h2 = kc.hasher();
			let root = ViewKey::create(kc, kc.master.clone(), &mut h2, w.is_test).unwrap();
			let mut cur = Ok(root);
			for x in &prefix {
				cur = cur.and_then(|k| k.ckd_pub(kc.secp(), &mut h2, ChildNumber::from(*x)));
			}
			match cur {
				Ok(k2) => {
					t.ok(k2 == vk, "viewkey_pub_vs_priv_derivation", inst, json!({"prefix_depth": prefix.len()}));
					if inst % 2 == 1 {
						use_vk = k2;
					}
				}
				Err(_) => t.ok(false, "viewkey_ckd_pub_failed", inst, Value::Null),
			}
		}
		let (got, det) = classify(kc.secp(), &use_vk, commit, proof, want);
		let exp = row["exp"].as_str().unwrap();
		t.ok(
			class_ok(exp, &got),
			"view_rewind",
			inst,
			json!({"prefix_depth": prefix.len(), "same_seed": row["seed"] == a["seed"], "exp": exp, "got": got, "data": det}),
		);
	}
	// siblings: a different argument gives a different commitment; the proof does not transfer
	for sb in c["sib"].as_array().unwrap() {
		let kc = wallet(sb["seed"].as_str().unwrap());
		let p2 = w.path(&sb["path"]);
		let id2 = ident(&p2);
		let amt2 = w.amount(sb["amt"].as_str().unwrap());
		let m2 = mode_of(sb["mode"].as_str().unwrap());
		let c2 = match kc.commit(amt2, &id2, m2) {
			Ok(x) => x,
			Err(_) => {
				t.ok(false, "commit_failed", inst, Value::Null);
				continue;
			}
		};
		let what = if sb["seed"] != a["seed"] {
			"seed"
		} else if sb["amt"] != a["amt"] {
			"amt"
		} else if sb["mode"] != a["mode"] {
			"mode"
		} else if p2.len() != path.len() {
			"depth"
		} else {
			"comp"
		};
		t.ok(c2 != commit, "sibling_commit_collides", inst, json!({"differs_in": what}));
		let v = catch_unwind(AssertUnwindSafe(|| proof::verify(secp, c2, proof, None)));
		t.ok(matches!(v, Ok(Err(_))), "proof_verifies_for_other_commit", inst, json!({"differs_in": what}));
		let (got, det) = classify(secp, &b1, c2, proof, want);
		t.ok(
			got == "none",
			"rewind_on_other_commit",
			inst,
			json!({"differs_in": what, "got": got, "data": det}),
		);
		// the sibling's signature verifies under this output's key iff the specification says the keys coincide
		if let (Some(pk), Some(sigok)) = (&own_pk, sb["sigok"].as_bool()) {
			match catch_unwind(AssertUnwindSafe(|| kc.sign(&msg1, amt2, &id2, m2))) {
				Ok(Ok(sig)) => t.ok(
					secp.verify(&msg1, &sig, pk).is_ok() == sigok,
					"sibling_sign",
					inst,
					json!({"differs_in": what, "exp": sigok}),
				),
				_ => t.ok(false, "sign_failed", inst, json!({"differs_in": what})),
			}
		}
	}
}

// ---------------------------------------------------------------------------------------------
// kind = "pair": two outputs differing in at least two coordinates (MC_Keys_pairs)

fn replay_pair(c: &Value, w: &World, inst: u64, t: &mut Tally) {
	let arg = |a: &Value| {
		(
			a["seed"].as_str().unwrap().to_string(),
			w.path(&a["path"]),
			w.amount(a["amt"].as_str().unwrap()),
			mode_of(a["mode"].as_str().unwrap()),
			a["fam"].as_str().unwrap().to_string(),
		)
	};
	let (sa, pa, va, ma, fa) = arg(&c["a"]);
	let (sb, pb, vb, mb, _) = arg(&c["b"]);
	let (ida, idb) = (ident(&pa), ident(&pb));
	let kca = w.keychain(&sa);
	let kcb = w.keychain(&sb);
	let desc = json!({"a": c["a"], "b": c["b"]});
	let (ca, cb) = match (kca.commit(va, &ida, ma), kcb.commit(vb, &idb, mb)) {
		(Ok(x), Ok(y)) => (x, y),
		_ => {
			t.ok(false, "commit_failed", inst, desc);
			return;
		}
	};
	t.ok(
		(ca == cb) == c["same_commit"].as_bool().unwrap(),
		"pair_commit_collision",
		inst,
		desc.clone(),
	);
	let ba = AnyBuilder::make(&fa, &kca);
	t.proofs += 1;
	let proof = match catch_unwind(AssertUnwindSafe(|| proof::create(&kca, &ba, va, &ida, ma, ca, None))) {
		Ok(Ok(p)) => p,
		_ => {
			t.ok(false, "create_err", inst, desc);
			return;
		}
	};
	let secp = kca.secp();
	let v = catch_unwind(AssertUnwindSafe(|| proof::verify(secp, cb, proof, None)));
	let vexp = c["swapped_verifies"].as_bool().unwrap();
	t.ok(
		matches!(v, Ok(Ok(()))) == vexp && v.is_ok(),
		"pair_swapped_proof_verifies",
		inst,
		desc.clone(),
	);
	let want = (va, &ida, ma);
	for (field, commit) in [("swapped", cb), ("own", ca)] {
		for row in c[field].as_array().unwrap() {
			let kc = w.keychain(row["seed"].as_str().unwrap());
			let kind = row["kind"].as_str().unwrap();
			let b = AnyBuilder::make(kind, &kc);
			let (got, det) = classify(kc.secp(), &b, commit, proof, want);
			let exp = row["exp"].as_str().unwrap();
			t.ok(
				class_ok(exp, &got),
				if field == "own" { "pair_own_rewind" } else { "pair_swapped_rewind" },
				inst,
				json!({"case": desc, "rw": kind, "seed": row["seed"], "exp": exp, "got": got, "data": det}),
			);
		}
	}
}

// ---------------------------------------------------------------------------------------------
// kind = "wal": two keychain constructors (Keys.tla wallet part)

struct WalEnv {
	blocks: Vec<[u8; 16]>,   // p, q
	words: Vec<String>,      // w1 (12 words), w2 (24 words)
	pass: Vec<String>,       // "", x, y
	masks: Vec<SecretKey>,   // m1, m2
	is_test: bool,
}

impl WalEnv {
	fn seed_bytes(&self, b: &Value) -> Vec<u8> {
		let mut v = vec![];
		for x in b.as_array().unwrap() {
			let i = match x.as_str().unwrap() {
				"p" => 0,
				"q" => 1,
				y => panic!("block {}", y),
			};
			v.extend_from_slice(&self.blocks[i]);
		}
		v
	}
	fn words_of(&self, c: &Value) -> (&str, &str) {
		let w = match c["w"].as_str().unwrap() {
			"w1" => &self.words[0],
			"w2" => &self.words[1],
			y => panic!("word list {}", y),
		};
		let p = match c["p"].as_str().unwrap() {
			"" => &self.pass[0],
			"x" => &self.pass[1],
			"y" => &self.pass[2],
			y => panic!("passphrase {}", y),
		};
		(w.as_str(), p.as_str())
	}
	/// the constructor named by the case record, as the code offers it
	fn make(&self, c: &Value) -> Result<ExtKeychain, String> {
		match c["k"].as_str().unwrap() {
			"seed" => ExtKeychain::from_seed(&self.seed_bytes(&c["b"]), self.is_test).map_err(|e| format!("{:?}", e)),
			"mnemonic" => {
				let (w, p) = self.words_of(c);
				ExtKeychain::from_mnemonic(w, p, self.is_test).map_err(|e| format!("{:?}", e))
			}
			"mnemonic_seed" => {
				let (w, p) = self.words_of(c);
				let seed = mnemonic::to_seed(w, p).map_err(|e| format!("{:?}", e))?;
				ExtKeychain::from_seed(&seed, self.is_test).map_err(|e| format!("{:?}", e))
			}
			"masked" => {
				let mut kc =
					ExtKeychain::from_seed(&self.seed_bytes(&c["b"]), self.is_test).map_err(|e| format!("{:?}", e))?;
				for m in c["m"].as_array().unwrap() {
					let i = match m.as_str().unwrap() {
						"m1" => 0,
						"m2" => 1,
						y => panic!("mask {}", y),
					};
					kc.mask_master_key(&self.masks[i]).map_err(|e| format!("{:?}", e))?;
				}
				Ok(kc)
			}
			y => panic!("ctor {}", y),
		}
	}
}

fn replay_wal(c: &Value, seed: u64, case: u64, inst: u64, t: &mut Tally) {
	let mut r = Rng::new(seed ^ 0x3A11, case, inst);
	let secp0 = Secp256k1::with_caps(grin_util::secp::ContextFlag::Commit);
	let mut b16 = || {
		let x = r.bytes32();
		let mut y = [0u8; 16];
		y.copy_from_slice(&x[..16]);
		y
	};
	let blocks = vec![b16(), b16()];
	let e1 = b16();
	let e2 = r.bytes32();
	let words = vec![mnemonic::from_entropy(&e1).unwrap(), mnemonic::from_entropy(&e2).unwrap()];
	let mut pw = |tag: char| -> String {
		let n = r.range(1, 24);
		let mut s2: String = (0..n).map(|_| (b'a' + r.below(26) as u8) as char).collect();
		s2.push(tag); // x and y are different, neither is empty
		s2
	};
	let pass = vec![String::new(), pw('1'), pw('2')];
	let masks = vec![rand_key(&secp0, &mut r), rand_key(&secp0, &mut r)];
	let env = WalEnv {
		blocks,
		words,
		pass,
		masks,
		is_test: inst % 2 == 1,
	};
	let same = c["same"].as_bool().unwrap();
	let desc = json!({"c1": c["c1"], "c2": c["c2"], "class": c["class"], "same": same});
	let (k1, k2) = match (
		catch_unwind(AssertUnwindSafe(|| env.make(&c["c1"]))),
		catch_unwind(AssertUnwindSafe(|| env.make(&c["c2"]))),
	) {
		(Ok(Ok(a)), Ok(Ok(b))) => (a, b),
		(a, b) => {
			t.ok(
				false,
				"wallet_constructor_failed",
				inst,
				json!({"case": desc, "c1": format!("{:?}", a.map(|x| x.map(|_| ()))), "c2": format!("{:?}", b.map(|x| x.map(|_| ())))}),
			);
			return;
		}
	};
	// arguments: new generation on any path / mode, legacy generation inside its domain
	let legacy = inst % 3 == 2;
	let mut p = rand_path(&mut r);
	if legacy {
		while p.len() < 3 {
			p.push(r.next() as u32);
		}
		p.truncate(3);
	}
	let id = ident(&p);
	let amt = rand_amount(&mut r);
	let mode = if legacy || r.below(2) == 0 {
		SwitchCommitmentType::Regular
	} else {
		SwitchCommitmentType::None
	};
	let fam = if legacy { "legacy" } else { "new" };
	let d1 = catch_unwind(AssertUnwindSafe(|| (k1.derive_key(amt, &id, mode), k1.commit(amt, &id, mode))));
	let d2 = catch_unwind(AssertUnwindSafe(|| (k2.derive_key(amt, &id, mode), k2.commit(amt, &id, mode))));
	let (key1, c1, key2, c2) = match (d1, d2) {
		(Ok((Ok(a), Ok(b))), Ok((Ok(x), Ok(y)))) => (a, b, x, y),
		_ => {
			t.ok(false, "derive_key_failed", inst, desc);
			return;
		}
	};
	t.ok((key1 == key2) == same, "wallet_identity_key", inst, desc.clone());
	if (key1 == key2) != same {
		// the two constructors do not denote what the specification says: everything below would repeat it
		return;
	}
	t.ok((c1 == c2) == same, "wallet_identity_commit", inst, desc.clone());
	let b1 = AnyBuilder::make(fam, &k1);
	t.proofs += 1;
	let proof = match catch_unwind(AssertUnwindSafe(|| proof::create(&k1, &b1, amt, &id, mode, c1, None))) {
		Ok(Ok(p)) => p,
		_ => {
			t.ok(false, "create_err", inst, desc);
			return;
		}
	};
	let v = catch_unwind(AssertUnwindSafe(|| proof::verify(k2.secp(), c2, proof, None)));
	t.ok(
		v.is_ok() && matches!(v, Ok(Ok(()))) == same,
		"wallet_identity_proof",
		inst,
		desc.clone(),
	);
	let want = (amt, &id, mode);
	let b2 = AnyBuilder::make(fam, &k2);
	let exp = if same { "some" } else { "none" };
	let (got, det) = classify(k2.secp(), &b2, c1, proof, want);
	t.ok(
		class_ok(exp, &got),
		"wallet_rewind",
		inst,
		json!({"case": desc, "exp": exp, "got": got, "data": det}),
	);
	if !same {
		let (got, det) = classify(k2.secp(), &b2, c2, proof, want);
		t.ok(
			class_ok("none", &got),
			"wallet_rewind",
			inst,
			json!({"case": desc, "on": "own_commit", "exp": "none", "got": got, "data": det}),
		);
	}
}

// ---------------------------------------------------------------------------------------------
// kind = "alg": blinding-factor identities

enum NameVal {
	Derived(u64, Identifier, SwitchCommitmentType),
	Raw(SecretKey),
}

fn rand_path(r: &mut Rng) -> Vec<u32> {
	let d = r.below(5) as usize;
	(0..d)
		.map(|_| match r.below(6) {
			0 => 0,
			1 => 1,
			2 => 0x7fff_ffff,
			3 => 0x8000_0000,
			4 => 0xffff_ffff,
			_ => r.next() as u32,
		})
		.collect()
}

fn rand_amount(r: &mut Rng) -> u64 {
	match r.below(6) {
		0 => 0,
		1 => 1,
		2 => 60_000_000_000,
		3 => 1u64 << 63,
		4 => u64::MAX,
		_ => r.next(),
	}
}

fn rand_key(secp: &Secp256k1, r: &mut Rng) -> SecretKey {
	loop {
		if let Ok(k) = SecretKey::from_slice(secp, &r.bytes32()) {
			return k;
		}
	}
}

struct AlgEnv<'a> {
	kc: &'a ExtKeychain,
	names: Vec<(String, NameVal)>,
}

impl<'a> AlgEnv<'a> {
	fn get(&self, n: &str) -> &NameVal {
		&self.names.iter().find(|(k, _)| k == n).expect("name").1
	}
	/// the key behind a name, as a blinding factor ("z" is the zero key)
	fn bf(&self, n: &str) -> BlindingFactor {
		if n == "z" {
			return BlindingFactor::zero();
		}
		match self.get(n) {
			NameVal::Derived(v, id, sw) => BlindingFactor::from_secret_key(self.kc.derive_key(*v, id, *sw).expect("derive")),
			NameVal::Raw(k) => BlindingFactor::from_secret_key(k.clone()),
		}
	}
	fn blind_sum_of(&self, terms: &[(i64, String)]) -> BlindSum {
		let mut bs = BlindSum::new();
		for (s, n) in terms {
			if n == "z" {
				bs = if *s > 0 {
					bs.add_blinding_factor(BlindingFactor::zero())
				} else {
					bs.sub_blinding_factor(BlindingFactor::zero())
				};
				continue;
			}
			match self.get(n) {
				NameVal::Derived(v, id, sw) => {
					let mut vp = id.to_value_path(*v);
					vp.switch = *sw;
					bs = if *s > 0 { bs.add_key_id(vp) } else { bs.sub_key_id(vp) };
				}
				NameVal::Raw(k) => {
					let b = BlindingFactor::from_secret_key(k.clone());
					bs = if *s > 0 { bs.add_blinding_factor(b) } else { bs.sub_blinding_factor(b) };
				}
			}
		}
		bs
	}
	fn sum(&self, terms: &[(i64, String)]) -> Result<BlindingFactor, String> {
		let bs = self.blind_sum_of(terms);
		match catch_unwind(AssertUnwindSafe(|| self.kc.blind_sum(&bs))) {
			Ok(Ok(b)) => Ok(b),
			Ok(Err(e)) => Err(format!("{:?}", e)),
			Err(_) => Err("panic".into()),
		}
	}
	/// independent evaluation on the curve: commit_sum of the per-term commitments, value parts cancelled
	fn commit_oracle(&self, terms: &[(i64, String)]) -> Result<Commitment, String> {
		let secp = self.kc.secp();
		let mut pos = vec![];
		let mut neg = vec![];
		for (s, n) in terms {
			if n == "z" {
				continue;
			}
			let (c, vc) = match self.get(n) {
				NameVal::Derived(v, id, sw) => (
					self.kc.commit(*v, id, *sw).map_err(|e| format!("{:?}", e))?,
					if *v > 0 {
						Some(secp.commit_value(*v).map_err(|e| format!("{:?}", e))?)
					} else {
						None
					},
				),
				NameVal::Raw(k) => (secp.commit(0, k.clone()).map_err(|e| format!("{:?}", e))?, None),
			};
			if *s > 0 {
				pos.push(c);
				if let Some(x) = vc {
					neg.push(x);
				}
			} else {
				neg.push(c);
				if let Some(x) = vc {
					pos.push(x);
				}
			}
		}
		secp.commit_sum(pos, neg).map_err(|e| format!("{:?}", e))
	}
}

fn bf_commit(secp: &Secp256k1, b: &BlindingFactor) -> Option<Commitment> {
	b.secret_key(secp).ok().and_then(|k| secp.commit(0, k).ok())
}

fn replay_alg(c: &Value, seed: u64, case: u64, inst: u64, t: &mut Tally) {
	let mut r = Rng::new(seed ^ 0xA16, case, inst);
	let kc = ExtKeychain::from_seed(&r.bytes32(), inst % 2 == 1).unwrap();
	let secp = kc.secp();
	let mut names = vec![];
	let mut used: Vec<Vec<u32>> = vec![];
	for n in ["d1", "d2"] {
		// different names are different keys: distinct effective paths
		let mut p = rand_path(&mut r);
		while used.contains(&p) {
			p = rand_path(&mut r);
		}
		used.push(p.clone());
		let sw = if r.below(2) == 0 {
			SwitchCommitmentType::Regular
		} else {
			SwitchCommitmentType::None
		};
		names.push((n.to_string(), NameVal::Derived(rand_amount(&mut r), ident(&p), sw)));
	}
	for n in ["r1", "r2"] {
		names.push((n.to_string(), NameVal::Raw(rand_key(secp, &mut r))));
	}
	let env = AlgEnv { kc: &kc, names };
	let terms: Vec<(i64, String)> = c["terms"]
		.as_array()
		.unwrap()
		.iter()
		.map(|x| (x["s"].as_i64().unwrap(), x["n"].as_str().unwrap().to_string()))
		.collect();
	let zero = c["zero"].as_bool().unwrap();
	let whole = env.sum(&terms);
	let desc = json!(c["terms"]);
	let zf = BlindingFactor::zero();
	// Keys.tla AlgZeroOperands: 0 + 0 is defined and zero (BlindingFactor::add's own branch)
	t.ok(
		matches!(catch_unwind(AssertUnwindSafe(|| zf.add(&zf, secp))), Ok(Ok(ref b)) if b.is_zero()),
		"alg_zero_plus_zero",
		inst,
		Value::Null,
	);

	if zero {
		// the specification leaves a zero total free (the code answers Err(InvalidSecretKey));
		// it must never be a non-zero key, and never a panic
		let ok = match &whole {
			Ok(b) => b.is_zero(),
			Err(e) => e != "panic",
		};
		t.ok(ok, "alg_zero_sum_not_zero", inst, desc.clone());
		return;
	}
	let w = match whole {
		Ok(b) => b,
		Err(e) => {
			t.ok(false, "alg_blind_sum_failed", inst, json!({"terms": desc, "err": e}));
			return;
		}
	};
	// against the curve
	let oracle = env.commit_oracle(&terms);
	t.ok(
		!w.is_zero() && oracle.is_ok() && bf_commit(secp, &w) == oracle.clone().ok(),
		"alg_blind_sum_vs_commit_sum",
		inst,
		json!({"terms": desc, "oracle": oracle.clone().map(|_| "ok")}),
	);
	// zero operands: w + 0 = 0 + w = w (the pool adds tx offsets to a header offset that is usually zero)
	t.ok(w.add(&zf, secp).ok().as_ref() == Some(&w), "alg_add_zero", inst, json!({"terms": desc, "side": "right"}));
	t.ok(zf.add(&w, secp).ok().as_ref() == Some(&w), "alg_add_zero", inst, json!({"terms": desc, "side": "left"}));
	// Keychain::sign_with_blinding(msg, w) verifies under the homomorphic image of w
	{
		let mut mr = Rng::new(seed ^ 0x516, case, inst);
		let msg = Message::from_slice(&mr.bytes32()).unwrap();
		let pk = oracle.clone().ok().and_then(|cm| cm.to_pubkey(secp).ok());
		let sig = catch_unwind(AssertUnwindSafe(|| kc.sign_with_blinding(&msg, &w)));
		let ok = match (pk, sig) {
			(Some(pk), Ok(Ok(sig))) => secp.verify(&msg, &sig, &pk).is_ok(),
			_ => false,
		};
		t.ok(ok, "alg_sign_with_blinding", inst, json!({"terms": desc}));
	}
	// order does not matter
	let n = terms.len();
	let mut perms: Vec<Vec<(i64, String)>> = vec![];
	let mut rev = terms.clone();
	rev.reverse();
	perms.push(rev);
	for i in 0..n.saturating_sub(1) {
		let mut p = terms.clone();
		p.swap(i, i + 1);
		perms.push(p);
	}
	if n > 2 {
		let mut p = terms.clone();
		p.rotate_left(1);
		perms.push(p);
	}
	for p in perms {
		t.ok(env.sum(&p).ok().as_ref() == Some(&w), "alg_order_dependent", inst, json!({"terms": desc}));
	}
	// + x - x restores
	for row in c["addx"].as_array().unwrap() {
		let x = row["n"].as_str().unwrap();
		let mut e = terms.clone();
		e.push((1, x.to_string()));
		e.push((-1, x.to_string()));
		t.ok(env.sum(&e).ok().as_ref() == Some(&w), "alg_add_sub_in_sum", inst, json!({"terms": desc, "x": x}));
		let mut e = terms.clone();
		e.insert(0, (-1, x.to_string()));
		e.push((1, x.to_string()));
		t.ok(env.sum(&e).ok().as_ref() == Some(&w), "alg_sub_add_in_sum", inst, json!({"terms": desc, "x": x}));
		let xb = env.bf(x);
		if !row["pluszero"].as_bool().unwrap() {
			let r1 = w.add(&xb, secp).and_then(|y| y.split(&xb, secp));
			t.ok(r1.ok().as_ref() == Some(&w), "alg_add_then_split", inst, json!({"terms": desc, "x": x}));
		}
		if !row["minuszero"].as_bool().unwrap() {
			let r2 = w.split(&xb, secp).and_then(|y| y.add(&xb, secp));
			t.ok(r2.ok().as_ref() == Some(&w), "alg_split_then_add", inst, json!({"terms": desc, "x": x}));
			if x != "z" {
				// (0 split x) + w = w split x
				let l = zf.split(&xb, secp).and_then(|y| y.add(&w, secp));
				let rr = w.split(&xb, secp);
				t.ok(
					l.is_ok() && l.ok() == rr.ok(),
					"alg_zero_split_then_add",
					inst,
					json!({"terms": desc, "x": x}),
				);
			}
		}
	}
	// split parts sum to the whole
	let cuts: Vec<&Value> = match &c["cuts"] {
		Value::Object(m) => m.values().collect(),
		Value::Array(a) => a.iter().collect(),
		_ => vec![],
	};
	for cut in cuts {
		let k = cut["k"].as_u64().unwrap() as usize;
		let pz = cut["pzero"].as_bool().unwrap();
		let sz = cut["szero"].as_bool().unwrap();
		if pz {
			// splitting off the zero key leaves the whole, and the zero part plus the rest is the whole
			let q = w.split(&zf, secp);
			t.ok(q.as_ref().ok() == Some(&w), "alg_split_zero", inst, json!({"terms": desc, "k": k}));
			if let Ok(q) = q {
				t.ok(
					zf.add(&q, secp).ok().as_ref() == Some(&w),
					"alg_split_parts_do_not_sum",
					inst,
					json!({"terms": desc, "k": k, "zero": "prefix"}),
				);
			}
			continue;
		}
		let p = match env.sum(&terms[..k]) {
			Ok(p) => p,
			Err(e) => {
				t.ok(false, "alg_blind_sum_failed", inst, json!({"terms": desc, "k": k, "err": e}));
				continue;
			}
		};
		if sz {
			t.ok(p == w, "alg_prefix_ne_whole", inst, json!({"terms": desc, "k": k}));
			t.ok(
				p.add(&zf, secp).ok().as_ref() == Some(&w),
				"alg_split_parts_do_not_sum",
				inst,
				json!({"terms": desc, "k": k, "zero": "suffix"}),
			);
			continue;
		}
		let q = match w.split(&p, secp) {
			Ok(q) => q,
			Err(e) => {
				t.ok(false, "alg_split_failed", inst, json!({"terms": desc, "k": k, "err": format!("{:?}", e)}));
				continue;
			}
		};
		t.ok(
			p.add(&q, secp).ok().as_ref() == Some(&w),
			"alg_split_parts_do_not_sum",
			inst,
			json!({"terms": desc, "k": k}),
		);
		t.ok(
			env.sum(&terms[k..]).ok().as_ref() == Some(&q),
			"alg_split_ne_suffix",
			inst,
			json!({"terms": desc, "k": k}),
		);
		// and on the curve: commit(0,p) + commit(0,q) = commit(0,w)
		let cs = match (bf_commit(secp, &p), bf_commit(secp, &q)) {
			(Some(a), Some(b)) => secp.commit_sum(vec![a, b], vec![]).ok(),
			_ => None,
		};
		t.ok(cs.is_some() && cs == bf_commit(secp, &w), "alg_split_commit_sum", inst, json!({"terms": desc, "k": k}));
	}
}

// ---------------------------------------------------------------------------------------------
// kind = "tx" / "cb": builder and reward

fn distinct_ids(r: &mut Rng, n: usize, legacy_depth3: bool) -> Vec<Identifier> {
	let mut seen: Vec<Vec<u32>> = vec![];
	while seen.len() < n {
		let mut p = rand_path(r);
		if legacy_depth3 {
			while p.len() < 3 {
				p.push(r.next() as u32);
			}
			p.truncate(3);
		}
		if p.is_empty() || seen.contains(&p) {
			continue;
		}
		seen.push(p);
	}
	seen.iter().map(|p| ident(p)).collect()
}

fn fee_of(class: &str, r: &mut Rng) -> u64 {
	match class {
		"f1" | "cf1" => 1,
		"ftyp" | "cftyp" => r.range(100_000, 100_000_000),
		"fmax" | "cfmax40" => (1u64 << 40) - 1,
		"cf0" => 0,
		"cfmax64" => u64::MAX,
		x => panic!("fee class {}", x),
	}
}

fn sign_kernel(secp: &Secp256k1, features: KernelFeatures, excess: &BlindingFactor) -> Result<TxKernel, String> {
	let mut kernel = TxKernel::with_features(features);
	let msg = kernel.msg_to_sign().map_err(|e| format!("{:?}", e))?;
	let skey = excess.secret_key(secp).map_err(|e| format!("{:?}", e))?;
	kernel.excess = secp.commit(0, skey).map_err(|e| format!("{:?}", e))?;
	let pubkey = kernel.excess.to_pubkey(secp).map_err(|e| format!("{:?}", e))?;
	kernel.excess_sig =
		aggsig::sign_with_blinding(secp, &msg, excess, Some(&pubkey)).map_err(|e| format!("{:?}", e))?;
	Ok(kernel)
}

/// The interactive two-party build (Keys.tla via = "exchange"): A = sender, B = receiver.
/// Returns the finished transaction; every intermediate claim of ExchangeOK is checked on the way.
#[allow(clippy::too_many_arguments)]
fn build_exchange<'k>(
	features: KernelFeatures,
	elems_a: &[Box<build::Append<ExtKeychain, AnyBuilder<'k>>>],
	elems_b: Vec<Box<build::Append<ExtKeychain, AnyBuilder<'k>>>>,
	kca: &ExtKeychain,
	ba: &AnyBuilder<'k>,
	kcb: &ExtKeychain,
	bb: &AnyBuilder<'k>,
	r: &mut Rng,
	inst: u64,
	desc: &Value,
	t: &mut Tally,
) -> Result<Transaction, String> {
	let secp = kca.secp();
	let es = |e: grin_core::libtx::Error| format!("{:?}", e);
	let ks = |e: grin_keychain::Error| format!("{:?}", e);
	let ss = |e: grin_util::secp::Error| format!("{:?}", e);
	// A: own elements, offset share o, signing key blind_A - o
	let (tx_a, blind_a) = build::partial_transaction(Transaction::empty(), elems_a, kca, ba).map_err(es)?;
	let off_a = BlindingFactor::from_secret_key(rand_key(secp, r));
	let x_a = blind_a.split(&off_a, secp).map_err(ks)?;
	let tx_a = tx_a.with_offset(off_a.clone());
	// B: continues A's transaction (build::initial_tx, or the transaction handed to partial_transaction),
	// adds the extra key k through build::with_excess; signing key blind_B + k; offset of the tx = o - k
	let k_b = BlindingFactor::from_secret_key(rand_key(secp, r));
	let mut eb: Vec<Box<build::Append<ExtKeychain, AnyBuilder<'k>>>> = vec![];
	let start = if inst % 2 == 0 {
		eb.push(build::initial_tx::<ExtKeychain, AnyBuilder>(tx_a.clone()));
		Transaction::empty()
	} else {
		tx_a.clone()
	};
	eb.push(build::with_excess::<ExtKeychain, AnyBuilder>(k_b.clone()));
	eb.extend(elems_b);
	let (tx_b, x_b) = build::partial_transaction(start, &eb, kcb, bb).map_err(es)?;
	let offset = off_a.split(&k_b, secp).map_err(ks)?;
	let tx_b = tx_b.with_offset(offset);
	// signing round
	let mut kernel = TxKernel::with_features(features);
	let msg = kernel.msg_to_sign().map_err(|e| format!("{:?}", e))?;
	let sk_a = x_a.secret_key(secp).map_err(ks)?;
	let sk_b = x_b.secret_key(secp).map_err(ks)?;
	let pk_a = PublicKey::from_secret_key(secp, &sk_a).map_err(ss)?;
	let pk_b = PublicKey::from_secret_key(secp, &sk_b).map_err(ss)?;
	let n_a = aggsig::create_secnonce(secp).map_err(es)?;
	let n_b = aggsig::create_secnonce(secp).map_err(es)?;
	let rn_a = PublicKey::from_secret_key(secp, &n_a).map_err(ss)?;
	let rn_b = PublicKey::from_secret_key(secp, &n_b).map_err(ss)?;
	let nonce_sum = PublicKey::from_combination(secp, vec![&rn_a, &rn_b]).map_err(ss)?;
	let key_sum = PublicKey::from_combination(secp, vec![&pk_a, &pk_b]).map_err(ss)?;
	let s_a = aggsig::calculate_partial_sig(secp, &sk_a, &n_a, &nonce_sum, Some(&key_sum), &msg).map_err(es)?;
	let s_b = aggsig::calculate_partial_sig(secp, &sk_b, &n_b, &nonce_sum, Some(&key_sum), &msg).map_err(es)?;
	for (who, s, pk, other) in [("A", &s_a, &pk_a, &pk_b), ("B", &s_b, &pk_b, &pk_a)] {
		t.ok(
			aggsig::verify_partial_sig(secp, s, &nonce_sum, pk, Some(&key_sum), &msg).is_ok(),
			"partial_sig_does_not_verify",
			inst,
			json!({"case": desc, "party": who}),
		);
		// a partial signature is one under its own key only
		t.ok(
			aggsig::verify_partial_sig(secp, s, &nonce_sum, other, Some(&key_sum), &msg).is_err(),
			"partial_sig_verifies_for_other_key",
			inst,
			json!({"case": desc, "party": who}),
		);
	}
	let sig = aggsig::add_signatures(secp, vec![&s_a, &s_b], &nonce_sum).map_err(es)?;
	t.ok(
		aggsig::verify_completed_sig(secp, &sig, &key_sum, Some(&key_sum), &msg).is_ok(),
		"completed_sig_does_not_verify",
		inst,
		desc.clone(),
	);
	// one partial signature is not the completed signature
	t.ok(
		aggsig::verify_completed_sig(secp, &s_a, &key_sum, Some(&key_sum), &msg).is_err(),
		"partial_sig_verifies_as_completed",
		inst,
		desc.clone(),
	);
	// subtracting one partial signature leaves the other
	for (who, part, rest) in [("A", &s_a, &s_b), ("B", &s_b, &s_a)] {
		let ok = match aggsig::subtract_signature(secp, &sig, part) {
			Ok((x, y)) => &x == rest || y.as_ref() == Some(rest),
			Err(_) => false,
		};
		t.ok(ok, "subtract_signature", inst, json!({"case": desc, "subtracted": who}));
	}
	kernel.excess = Commitment::from_pubkey(secp, &key_sum).map_err(ss)?;
	// the kernel excess is the sum of the two parties' public excesses (commitments to zero)
	let cs = match (secp.commit(0, sk_a), secp.commit(0, sk_b)) {
		(Ok(x), Ok(y)) => secp.commit_sum(vec![x, y], vec![]).ok(),
		_ => None,
	};
	t.ok(cs == Some(kernel.excess), "exchange_excess_ne_sum_of_parties", inst, desc.clone());
	kernel.excess_sig = sig;
	Ok(tx_b.replace_kernel(kernel))
}

fn replay_tx(c: &Value, seed: u64, case: u64, inst: u64, t: &mut Tally) {
	let sh = &c["shape"];
	let mut r = Rng::new(seed ^ 0x7C5, case, inst);
	let kc = ExtKeychain::from_seed(&r.bytes32(), inst % 2 == 1).unwrap();
	let fam = if inst % 3 == 2 { "legacy" } else { "new" };
	let b = AnyBuilder::make(fam, &kc);
	let secp = kc.secp();
	// exchange: the receiver's wallet (another seed) and the elements it owns (from the case record)
	let seed_b = Rng::new(seed ^ 0xB0B, case, inst).bytes32();
	let kcb = ExtKeychain::from_seed(&seed_b, inst % 2 == 1).unwrap();
	let bb = AnyBuilder::make(fam, &kcb);
	let owned_b = |field: &str, pos: usize| -> bool {
		c["partyB"][field]
			.as_array()
			.map(|a| a.iter().any(|x| x.as_u64() == Some(pos as u64 + 1)))
			.unwrap_or(false)
	};
	let ins: Vec<u64> = sh["ins"].as_array().unwrap().iter().map(|x| x.as_u64().unwrap()).collect();
	let outs: Vec<u64> = sh["outs"].as_array().unwrap().iter().map(|x| x.as_u64().unwrap()).collect();
	let via = sh["via"].as_str().unwrap();
	let fee = fee_of(sh["fee"].as_str().unwrap(), &mut r);
	let shift = if inst % 3 == 0 { r.below(16) } else { 0 };
	let units: u64 = ins.iter().sum();
	let scale = match sh["scale"].as_str().unwrap() {
		"one" => 1,
		"grin" => 60_000_000_000,
		"max" => {
			if units > 0 {
				(u64::MAX - fee) / units
			} else {
				1
			}
		}
		x => panic!("scale {}", x),
	};
	let ids = distinct_ids(&mut r, ins.len() + outs.len() + 1, fam == "legacy");
	let in_vals: Vec<u64> = ins.iter().enumerate().map(|(i, u)| u * scale + if i == 0 { fee } else { 0 }).collect();
	let out_vals: Vec<u64> = outs.iter().map(|u| u * scale).collect();
	let desc = json!({"shape": sh, "fee": fee, "shift": shift, "scale": scale.to_string(), "fam": fam});
	let ff = match FeeFields::new(shift, fee) {
		Ok(x) => x,
		Err(_) => {
			t.ok(false, "feefields_rejected", inst, desc);
			return;
		}
	};
	let features = match sh["kern"].as_str().unwrap() {
		"Plain" => KernelFeatures::Plain { fee: ff },
		"HeightLocked" => KernelFeatures::HeightLocked {
			fee: ff,
			// a block built on the default header has height 1
			lock_height: if via == "block" { r.below(2) } else { r.below(1 << 20) },
		},
		x => panic!("kern {}", x),
	};
	let mut elems = vec![];
	let mut elems_b = vec![];
	for (i, v) in in_vals.iter().enumerate() {
		let e = build::input::<ExtKeychain, AnyBuilder>(*v, ids[i].clone());
		if via == "exchange" && owned_b("ins", i) {
			elems_b.push(e);
		} else {
			elems.push(e);
		}
	}
	for (j, v) in out_vals.iter().enumerate() {
		let e = build::output::<ExtKeychain, AnyBuilder>(*v, ids[ins.len() + j].clone());
		if via == "exchange" && owned_b("outs", j) {
			elems_b.push(e);
		} else {
			elems.push(e);
		}
	}
	t.proofs += outs.len() as u64;
	if via == "exchange" {
		// the partition comes from the specification: both parties contribute, A owns the first input
		t.ok(
			!elems_b.is_empty() && !elems.is_empty() && !owned_b("ins", 0),
			"harness_exchange_partition",
			inst,
			desc.clone(),
		);
	}
	let mut tally_x = Tally {
		checks: 0,
		proofs: 0,
		mism: vec![],
	};
	let built = catch_unwind(AssertUnwindSafe(|| -> Result<Transaction, String> {
		match via {
			"exchange" => build_exchange(
				features,
				&elems,
				std::mem::take(&mut elems_b),
				&kc,
				&b,
				&kcb,
				&bb,
				&mut r.clone(),
				inst,
				&desc,
				&mut tally_x,
			),
			"transaction" | "block" => build::transaction(features, &elems, &kc, &b).map_err(|e| format!("{:?}", e)),
			"with_kernel" => {
				let excess = BlindingFactor::from_secret_key(rand_key(secp, &mut r.clone()));
				let kernel = sign_kernel(secp, features, &excess)?;
				build::transaction_with_kernel(&elems, kernel, excess, &kc, &b).map_err(|e| format!("{:?}", e))
			}
			"partial" => {
				let (tx, blind) = build::partial_transaction(Transaction::empty(), &elems, &kc, &b)
					.map_err(|e| format!("{:?}", e))?;
				let kernel = sign_kernel(secp, features, &blind)?;
				Ok(tx.replace_kernel(kernel))
			}
			x => panic!("via {}", x),
		}
	}));
	t.checks += tally_x.checks;
	for m in tally_x.mism {
		if t.mism.len() < 8 {
			t.mism.push(m);
		}
	}
	let tx = match built {
		Ok(Ok(tx)) => tx,
		Ok(Err(e)) => {
			t.ok(false, "builder_err", inst, json!({"case": desc, "err": e}));
			return;
		}
		Err(_) => {
			t.ok(false, "builder_panic", inst, desc);
			return;
		}
	};
	t.ok(
		tx.inputs().len() == ins.len() && tx.outputs().len() == outs.len() && tx.kernels().len() == 1,
		"builder_shape",
		inst,
		desc.clone(),
	);
	t.ok(tx.fee() == fee, "builder_fee", inst, desc.clone());
	let v = catch_unwind(AssertUnwindSafe(|| tx.validate(Weighting::AsTransaction)));
	t.ok(
		matches!(v, Ok(Ok(()))),
		"tx_does_not_validate",
		inst,
		json!({"case": desc, "res": format!("{:?}", v.map_err(|_| "panic"))}),
	);
	for k in tx.kernels() {
		let kv = catch_unwind(AssertUnwindSafe(|| k.verify()));
		t.ok(matches!(kv, Ok(Ok(()))), "kernel_sig_does_not_verify", inst, desc.clone());
	}
	if via == "partial" {
		t.ok(tx.offset.is_zero(), "partial_offset_not_zero", inst, desc.clone());
	}
	// every output is found again by the wallet that built it (and, in an exchange, not by the other party)
	for (j, v) in out_vals.iter().enumerate() {
		let id = &ids[ins.len() + j];
		let of_b = via == "exchange" && owned_b("outs", j);
		let owner = if of_b { &kcb } else { &kc };
		let cm = owner.commit(*v, id, SwitchCommitmentType::Regular).unwrap();
		match tx.outputs().iter().find(|o| o.commitment() == cm) {
			None => t.ok(false, "built_output_commit_unexpected", inst, desc.clone()),
			Some(o) => {
				let sa = Rng::new(seed ^ 0x7C5, case, inst).bytes32();
				let (own_seed, other_seed) = if of_b { (&seed_b, &sa) } else { (&sa, &seed_b) };
				let kc2 = ExtKeychain::from_seed(own_seed, inst % 2 == 1).unwrap();
				let b2 = AnyBuilder::make(fam, &kc2);
				let (got, det) = classify(kc2.secp(), &b2, cm, o.proof, (*v, id, SwitchCommitmentType::Regular));
				t.ok(got == "exact", "built_output_not_recovered", inst, json!({"case": desc, "got": got, "data": det}));
				if via == "exchange" {
					let kc3 = ExtKeychain::from_seed(other_seed, inst % 2 == 1).unwrap();
					let b3 = AnyBuilder::make(fam, &kc3);
					let (got, det) = classify(kc3.secp(), &b3, cm, o.proof, (*v, id, SwitchCommitmentType::Regular));
					t.ok(
						got == "none",
						"built_output_recovered_by_other_party",
						inst,
						json!({"case": desc, "got": got, "data": det}),
					);
				}
			}
		}
	}
	// anti-vacuity: validate must notice a dropped offset / a changed fee
	if inst == 0 && via != "partial" {
		let bad = tx.clone().with_offset(BlindingFactor::zero());
		t.ok(bad.validate(Weighting::AsTransaction).is_err(), "selftest_validate_blind", inst, Value::Null);
	}
	if via == "block" {
		let cb_id = &ids[ins.len() + outs.len()];
		t.proofs += 1;
		let res = catch_unwind(AssertUnwindSafe(|| -> Result<(), String> {
			let rw = reward::output(&kc, &b, cb_id, tx.fee(), inst % 2 == 0).map_err(|e| format!("reward {:?}", e))?;
			let blk = Block::new(&BlockHeader::default(), &[tx.clone()], Difficulty::min_dma(), rw)
				.map_err(|e| format!("Block::new {:?}", e))?;
			blk.validate(&BlindingFactor::zero()).map_err(|e| format!("validate {:?}", e))
		}));
		t.ok(
			matches!(res, Ok(Ok(()))),
			"block_with_built_tx_and_reward_invalid",
			inst,
			json!({"case": desc, "res": format!("{:?}", res.map_err(|_| "panic"))}),
		);
	}
}

fn replay_cb(c: &Value, seed: u64, case: u64, inst: u64, t: &mut Tally) {
	let sh = &c["shape"];
	let mut r = Rng::new(seed ^ 0xCB, case, inst);
	let sbytes = r.bytes32();
	let other = r.bytes32();
	let kc = ExtKeychain::from_seed(&sbytes, inst % 2 == 1).unwrap();
	let fam = sh["fam"].as_str().unwrap();
	let depth = sh["depth"].as_u64().unwrap() as usize;
	let b = AnyBuilder::make(fam, &kc);
	let mut p = rand_path(&mut r);
	while p.len() < depth {
		p.push(r.next() as u32);
	}
	p.truncate(depth);
	let id = ident(&p);
	let fees = fee_of(sh["cbfee"].as_str().unwrap(), &mut r);
	let desc = json!({"shape": sh, "fees": fees.to_string()});
	t.proofs += 1;
	let res = catch_unwind(AssertUnwindSafe(|| reward::output(&kc, &b, &id, fees, inst % 2 == 0)));
	let (out, kern) = match res {
		Ok(Ok(x)) => x,
		Ok(Err(e)) => {
			t.ok(false, "reward_err", inst, json!({"case": desc, "err": format!("{:?}", e)}));
			return;
		}
		Err(_) => {
			t.ok(false, "reward_panic", inst, desc);
			return;
		}
	};
	let value = grin_core::consensus::reward(fees);
	let secp = kc.secp();
	t.ok(out.is_coinbase() && kern.is_coinbase(), "reward_features", inst, desc.clone());
	t.ok(
		kc.commit(value, &id, SwitchCommitmentType::Regular).ok() == Some(out.commitment()),
		"reward_commit_nondeterministic",
		inst,
		desc.clone(),
	);
	t.ok(out.verify_proof().is_ok(), "reward_proof_does_not_verify", inst, desc.clone());
	let kv = catch_unwind(AssertUnwindSafe(|| kern.verify()));
	t.ok(matches!(kv, Ok(Ok(()))), "reward_kernel_sig_does_not_verify", inst, desc.clone());
	let ex = secp
		.commit_value(value)
		.and_then(|oc| secp.commit_sum(vec![out.commitment()], vec![oc]));
	t.ok(ex.ok() == Some(kern.excess), "reward_excess_ne_output_minus_reward", inst, desc.clone());
	// the wallet finds its coinbase again (fresh keychain), nobody else does
	let kc2 = ExtKeychain::from_seed(&sbytes, inst % 2 == 1).unwrap();
	let b2 = AnyBuilder::make(fam, &kc2);
	let want = (value, &id, SwitchCommitmentType::Regular);
	let (got, det) = classify(kc2.secp(), &b2, out.commitment(), out.proof, want);
	let exp = if c["recoverable"].as_bool().unwrap() { "some" } else { "none" };
	t.ok(class_ok(exp, &got), "reward_rewind", inst, json!({"case": desc, "exp": exp, "got": got, "data": det}));
	let kc3 = ExtKeychain::from_seed(&other, inst % 2 == 1).unwrap();
	let b3 = AnyBuilder::make(fam, &kc3);
	let (got, det) = classify(kc3.secp(), &b3, out.commitment(), out.proof, want);
	t.ok(class_ok("none", &got), "reward_rewind_other_seed", inst, json!({"case": desc, "got": got, "data": det}));
	if sh["block"].as_bool().unwrap() {
		let res = catch_unwind(AssertUnwindSafe(|| -> Result<(), String> {
			let txs = if fees == 0 {
				vec![]
			} else {
				t.proofs += 1;
				let ids = distinct_ids(&mut r, 2, fam == "legacy");
				let v = r.range(0, 1 << 50);
				let ff = FeeFields::new(0, fees).map_err(|e| format!("{:?}", e))?;
				vec![build::transaction(
					KernelFeatures::Plain { fee: ff },
					&[
						build::input::<ExtKeychain, AnyBuilder>(v + fees, ids[0].clone()),
						build::output::<ExtKeychain, AnyBuilder>(v, ids[1].clone()),
					],
					&kc,
					&b,
				)
				.map_err(|e| format!("{:?}", e))?]
			};
			let blk = Block::new(&BlockHeader::default(), &txs, Difficulty::min_dma(), (out.clone(), kern.clone()))
				.map_err(|e| format!("Block::new {:?}", e))?;
			blk.verify_coinbase().map_err(|e| format!("verify_coinbase {:?}", e))?;
			blk.validate(&BlindingFactor::zero()).map_err(|e| format!("validate {:?}", e))
		}));
		t.ok(
			matches!(res, Ok(Ok(()))),
			"coinbase_block_invalid",
			inst,
			json!({"case": desc, "res": format!("{:?}", res.map_err(|_| "panic"))}),
		);
	}
}

// ---------------------------------------------------------------------------------------------

fn replay(args: &Args) -> i32 {
	let cases = read_ndjson(args.req("cases"));
	let mut out = NdWriter::create(args.req("out"));
	let seed = args.u64("seed", 1);
	let insts = args.u64("insts", 5);
	let shard = args.u64("shard", 0);
	let nshards = args.u64("nshards", 1);
	for (i, c) in cases.iter().enumerate() {
		if (i as u64) % nshards != shard {
			continue;
		}
		let idx = c["idx"].as_u64().unwrap_or(i as u64);
		let mut t = Tally {
			checks: 0,
			proofs: 0,
			mism: vec![],
		};
		for inst in 0..insts {
			let kind = c["kind"].as_str().unwrap_or("");
			let r = catch_unwind(AssertUnwindSafe(|| match kind {
				"out" => replay_out(c, &World::new(seed, idx, inst), inst, &mut t),
				"alg" => replay_alg(c, seed, idx, inst, &mut t),
				"tx" => replay_tx(c, seed, idx, inst, &mut t),
				"cb" => replay_cb(c, seed, idx, inst, &mut t),
				"pair" => replay_pair(c, &World::new(seed, idx, inst), inst, &mut t),
				"wal" => replay_wal(c, seed, idx, inst, &mut t),
				x => panic!("case kind {}", x),
			}));
			if r.is_err() {
				t.ok(false, "harness_or_code_panic", inst, json!({"kind": kind}));
			}
		}
		out.put(&json!({"i": i, "idx": idx, "checks": t.checks, "proofs": t.proofs, "insts": insts, "mismatches": t.mism}));
	}
	out.finish();
	0
}

/// Behaviours outside the quantifier of the property (recorded in the evidence, no verdict).
fn probe() -> i32 {
	let kc = ExtKeychain::from_seed(&[7u8; 32], false).unwrap();
	let id5 = Identifier::from_bytes(&[5u8, 0, 0, 0, 1, 0, 0, 0, 1, 0, 0, 0, 1, 0, 0, 0, 1]);
	let d5 = catch_unwind(AssertUnwindSafe(|| kc.derive_key(1, &id5, SwitchCommitmentType::None).is_ok()));
	let x = BlindingFactor::from_secret_key(SecretKey::from_slice(kc.secp(), &[3u8; 32]).unwrap());
	let zs = kc.blind_sum(&BlindSum::new().add_blinding_factor(x.clone()).sub_blinding_factor(x.clone()));
	println!(
		"{}",
		json!({
			"derive_key_depth5": match d5 { Ok(true) => "ok", Ok(false) => "err", Err(_) => "panic" },
			"blind_sum_zero_total": match zs { Ok(b) => if b.is_zero() { "zero" } else { "nonzero" }, Err(_) => "err" },
		})
	);
	0
}

fn main() {
	quiet_panics();
	global::set_local_chain_type(global::ChainTypes::AutomatedTesting);
	let a: Vec<String> = std::env::args().skip(1).collect();
	let args = Args::parse(&a);
	let rc = match args.pos.get(0).map(|s| s.as_str()) {
		Some("replay") => replay(&args),
		Some("probe") => probe(),
		_ => {
			eprintln!("keys replay|probe");
			2
		}
	};
	std::process::exit(rc);
}
