//! probe (temporary)
use grin_core::libtx::proof::{self, LegacyProofBuilder, ProofBuild, ProofBuilder};
use grin_keychain::{BlindSum, BlindingFactor, ExtKeychain, ExtKeychainPath, Identifier, Keychain, SwitchCommitmentType, ViewKey};
use grin_util::secp::key::SecretKey;
use std::time::Instant;

fn main() {
	let kc = ExtKeychain::from_seed(&[7u8; 32], false).unwrap();
	let secp = kc.secp();
	let b = ProofBuilder::new(&kc);
	let lb = LegacyProofBuilder::new(&kc);
	for amt in [0u64, 1, 60_000_000_000, 1u64 << 63, u64::MAX] {
		for sw in [SwitchCommitmentType::Regular, SwitchCommitmentType::None] {
			let id = ExtKeychainPath::new(4, 1, 0x7fffffff, 0x80000000, 0xffffffff).to_identifier();
			let t = Instant::now();
			let c = kc.commit(amt, &id, sw);
			println!("amt {} sw {:?} commit {:?}", amt, sw, c.is_ok());
			let c = c.unwrap();
			let p = proof::create(&kc, &b, amt, &id, sw, c, None).unwrap();
			let t1 = t.elapsed();
			let v = proof::verify(secp, c, p, None);
			let t2 = t.elapsed();
			let r = proof::rewind(secp, &b, c, None, p);
			let t3 = t.elapsed();
			println!("  plen {} verify {:?} rewind {:?}  t create {:?} verify {:?} rewind {:?}", p.plen, v.is_ok(), r, t1, t2 - t1, t3 - t2);
			let r2 = proof::rewind(secp, &lb, c, None, p);
			println!("  legacy rewind of new: {:?}", r2);
		}
	}
	// zero sums
	let x = SecretKey::from_slice(secp, &[3u8; 32]).unwrap();
	let bx = BlindingFactor::from_secret_key(x.clone());
	let r = kc.blind_sum(&BlindSum::new().add_blinding_factor(bx.clone()).sub_blinding_factor(bx.clone()));
	println!("x-x = {:?} zero? {:?}", r.is_ok(), r.as_ref().map(|b| b.is_zero()));
	let r = kc.blind_sum(&BlindSum::new());
	println!("empty = {:?} zero? {:?}", r.is_ok(), r.as_ref().map(|b| b.is_zero()));
	let z = BlindingFactor::zero();
	println!("commit(0,zero) {:?}", secp.commit(0, z.secret_key(secp).unwrap()));
	println!("x.split(x) {:?}", bx.split(&bx, secp).map(|b| b.is_zero()));
	println!("x.split(zero) == x {:?}", bx.split(&z, secp).map(|b| b == bx));
	println!("zero.split(x) {:?}", z.split(&bx, secp).map(|b| b.is_zero()));
	println!("zero.add(zero) {:?}", z.add(&z, secp).map(|b| b.is_zero()));
	println!("x.add(zero)==x {:?}", bx.add(&z, secp).map(|b| b == bx));
	let r = kc.blind_sum(&BlindSum::new().add_blinding_factor(z.clone()).add_blinding_factor(bx.clone()));
	println!("0+x == x {:?}", r.map(|b| b == bx));
	println!("commit_value(0) {:?}", secp.commit_value(0));
	println!("commit_sum([],[]) {:?}", secp.commit_sum(vec![], vec![]));
	let c1 = secp.commit(0, x.clone()).unwrap();
	println!("commit_sum([c],[c]) {:?}", secp.commit_sum(vec![c1], vec![c1]));
	// depth 5
	let id5 = Identifier::from_bytes(&[5u8, 0, 0, 0, 1, 0, 0, 0, 1, 0, 0, 0, 1, 0, 0, 0, 1]);
	let r = std::panic::catch_unwind(|| kc.derive_key(1, &id5, SwitchCommitmentType::None).is_ok());
	println!("depth5 derive: {:?}", r.is_ok());
	// view key
	let mut h = kc.hasher();
	let vk = ViewKey::create(&kc, kc.master.clone(), &mut h, false).unwrap();
	let id = ExtKeychainPath::new(0, 0, 0, 0, 0).to_identifier();
	for sw in [SwitchCommitmentType::Regular, SwitchCommitmentType::None] {
		let c = kc.commit(5, &id, sw).unwrap();
		let p = proof::create(&kc, &b, 5, &id, sw, c, None).unwrap();
		println!("view rewind depth0 {:?}: {:?}", sw, proof::rewind(secp, &vk, c, None, p));
	}
	let _ = lb.rewind_nonce(secp, &secp.commit(1, x).unwrap());
}
