//! Conformance harness binding the TLA+ specifications in /verif/spec to the grin crates.
//! One sub-command per engine; all I/O is NDJSON (see DESIGN.md Appendix A).
#[macro_use]
extern crate serde_derive;

mod common;
mod mmr;

fn main() {
	let args: Vec<String> = std::env::args().collect();
	if args.len() < 2 {
		eprintln!("usage: harness <engine> <cmd> [args]");
		std::process::exit(2);
	}
	let rest = &args[2..];
	let rc = match args[1].as_str() {
		"mmr" => mmr::main(rest),
		e => {
			eprintln!("unknown engine {}", e);
			2
		}
	};
	std::process::exit(rc);
}
