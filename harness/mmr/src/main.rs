//! C07 engine: MMR position arithmetic, roots and Merkle proofs against MMR.tla.
use vcommon::*;
use grin_core::core::hash::Hash;
use grin_core::core::pmmr::{self, ReadablePMMR, VecBackend, PMMR};
mod ind;
mod replay;
use replay::replay;
use rand::rngs::StdRng;
use rand::{Rng, SeedableRng};
use serde_json::{json, Value};

fn main() {
	quiet_panics();
	let a: Vec<String> = std::env::args().skip(1).collect();
	let args = Args::parse(&a);
	let rc = run(&args);
	std::process::exit(rc);
}

fn run(args: &Args) -> i32 {
	match args.pos.get(0).map(|s| s.as_str()) {
		Some("record") => record(args),
		Some("replay") => replay(args),
		Some("rewind") => rewind(args),
		Some("huge") => huge(args),
		_ => {
			eprintln!("mmr record|replay|rewind|huge");
			2
		}
	}
}

fn opt(x: Option<u64>) -> i64 {
	x.map(|v| v as i64).unwrap_or(-1)
}

fn pairs(v: Vec<(u64, u64)>) -> Value {
	Value::Array(v.into_iter().map(|(a, b)| json!([a, b])).collect())
}

/// Direction B: drive a real PMMR and the pure functions, log every return value.
fn record(args: &Args) -> i32 {
	let leaves = args.u64("leaves", 300);
	let big = args.u64("big", 200);
	let seed = args.u64("seed", 1);
	let mut out = NdWriter::create(args.req("out"));
	let mut ba = VecBackend::<Elem>::new();
	let mut size = 0u64;
	for i in 0..leaves {
		let prev = size;
		let pos = {
			let mut p = PMMR::at(&mut ba, size);
			let pos = p.push(&Elem::of(i)).expect("push");
			size = p.unpruned_size();
			pos
		};
		let (pm, h) = pmmr::peak_map_height(size);
		out.put(&json!({"k":"Push","pos":pos,"size":size,"peaks":pmmr::peaks(size),"nleaves":pmmr::n_leaves(size),"pmh":[pm,h]}));
		for sz in (prev + 2)..size {
			// sizes strictly inside the merge sequence
			out.put(&json!({"k":"Size","sz":sz,"peaks":pmmr::peaks(sz),"nleaves":pmmr::n_leaves(sz)}));
		}
		for p in pos..size {
			let r = pmmr::bintree_range(p);
			out.put(&json!({"k":"Node","p":p,
				"height":pmmr::bintree_postorder_height(p),
				"is_leaf":pmmr::is_leaf(p),
				"leftmost":pmmr::bintree_leftmost(p),
				"rightmost":pmmr::bintree_rightmost(p),
				"range":[r.start, r.end],
				"leaf_idx":opt(pmmr::pmmr_leaf_to_insertion_index(p)),
				"ins2pos": if pmmr::is_leaf(p) { pmmr::insertion_to_pmmr_index(pmmr::pmmr_leaf_to_insertion_index(p).unwrap_or(0)) } else { 0 },
				"round_up":pmmr::round_up_to_leaf_pos(p),
				"nleaves_to":pmmr::n_leaves(p),
			}));
		}
	}
	// family / branch of every node that has a parent inside the final forest
	let peaks = pmmr::peaks(size);
	for p in 0..size {
		if peaks.contains(&p) {
			continue;
		}
		let (par, sib) = pmmr::family(p);
		out.put(&json!({"k":"Fam","p":p,"family":[par,sib],"is_left":pmmr::is_left_sibling(p),
			"branch":pairs(pmmr::family_branch(p, size))}));
	}
	// large positions: closed forms only
	let mut rng: StdRng = SeedableRng::from_seed([seed as u8; 32]);
	let mut ps: Vec<u64> = vec![];
	for k in 13..30u32 {
		let b = 1u64 << k;
		ps.extend_from_slice(&[b - 2, b - 1, b, b + 1]);
	}
	for _ in 0..big {
		ps.push(rng.gen_range(1u64 << 13, 1u64 << 29));
	}
	for p in ps {
		let (pm, h) = pmmr::peak_map_height(p);
		let (par, sib) = pmmr::family(p);
		let n = p / 2;
		out.put(&json!({"k":"Big","p":p,"n":n,"pmh":[pm,h],"height":pmmr::bintree_postorder_height(p),
			"family":[par,sib],"is_left":pmmr::is_left_sibling(p),
			"leaf_idx":opt(pmmr::pmmr_leaf_to_insertion_index(p)),
			"round_up":pmmr::round_up_to_leaf_pos(p),
			"leftmost":pmmr::bintree_leftmost(p),"rightmost":pmmr::bintree_rightmost(p),
			"nleaves":pmmr::n_leaves(p),"peaks":pmmr::peaks(p),
			"ins2pos":pmmr::insertion_to_pmmr_index(n)}));
	}
	let n = out.n;
	out.finish();
	println!("{}", json!({"events": n, "size": size}));
	0
}

/// Direction A, histories: pushes and rewinds emitted by MC_MMRRewind (simulation of SpecRW) executed on a
/// data-carrying and on a hash-only VecBackend; after every step the size is the closed form of the leaf
/// count and the backend holds exactly that many hashes; at the end root, peaks and every proof path are
/// those of the specification's MMR of the final leaf count (RewindIsPrefix).
fn rewind(args: &Args) -> i32 {
	let cases = read_ndjson(args.req("cases"));
	let mut out = NdWriter::create(args.req("out"));
	for c in cases {
		let mut mism: Vec<Value> = vec![];
		let mut nchecks = 0u64;
		for kind in ["data", "hash_only"] {
			let mut ba = if kind == "data" {
				VecBackend::<Elem>::new()
			} else {
				VecBackend::<Elem>::new_hash_only()
			};
			let mut size = 0u64;
			let mut nl = 0u64;
			for (step, op) in c["ops"].as_array().unwrap().iter().enumerate() {
				let k = op["k"].as_u64().unwrap();
				let r = std::panic::catch_unwind(std::panic::AssertUnwindSafe(|| {
					let mut p = PMMR::at(&mut ba, size);
					if op["op"] == "push" {
						p.push(&Elem::of(nl)).map(|_| ()).map_err(|e| e.to_string())?;
					} else {
						p.rewind(pmmr::insertion_to_pmmr_index(k), &croaring::Bitmap::new())?;
					}
					Ok::<u64, String>(p.unpruned_size())
				}));
				match r {
					Ok(Ok(sz)) => size = sz,
					Ok(Err(e)) => {
						mism.push(json!({"what":"op_error","kind":kind,"step":step,"err":e}));
						break;
					}
					Err(_) => {
						mism.push(json!({"what":"op_panic","kind":kind,"step":step}));
						break;
					}
				}
				nl = if op["op"] == "push" { nl + 1 } else { k };
				nchecks += 1;
				if size != pmmr::insertion_to_pmmr_index(nl) {
					mism.push(json!({"what":"size_after_op","kind":kind,"step":step,"nl":nl,"real":size}));
					break;
				}
				if ba.size() != size {
					mism.push(json!({"what":"backend_size_after_op","kind":kind,"step":step,"nl":nl,"pmmr":size,"backend":ba.size()}));
					break;
				}
			}
			if !mism.is_empty() {
				continue;
			}
			let f = &c["final"];
			if f["nl"].as_u64() != Some(nl) || f["size"].as_u64() != Some(size) {
				mism.push(json!({"what":"final_count","kind":kind,"spec_nl":f["nl"],"real_nl":nl,"spec_size":f["size"],"real_size":size}));
				continue;
			}
			let p = PMMR::at(&mut ba, size);
			let mut ev = ind::Ev::new();
			let root_spec = ev.term(&f["root"]);
			match p.root() {
				Ok(r) if r == root_spec => {}
				_ => mism.push(json!({"what":"root_after_history","kind":kind,"nl":nl})),
			}
			let peaks_spec: Vec<u64> = f["peaks"].as_array().unwrap().iter().map(|x| x.as_u64().unwrap()).collect();
			if pmmr::peaks(size) != peaks_spec {
				mism.push(json!({"what":"peaks_after_history","kind":kind,"nl":nl}));
			}
			for pr in f["proofs"].as_array().unwrap() {
				let pos = pr["pos"].as_u64().unwrap();
				let path_spec: Vec<Hash> = ev.terms(&pr["path"]);
				nchecks += 1;
				match p.merkle_proof(pos) {
					Ok(x) => {
						if x.path != path_spec || x.mmr_size != size {
							mism.push(json!({"what":"proof_after_history","kind":kind,"pos":pos,"nl":nl}));
						}
					}
					Err(e) => mism.push(json!({"what":"merkle_proof_err_after_history","kind":kind,"pos":pos,"err":e})),
				}
			}
			mism.append(&mut ev.prim);
		}
		out.put(&json!({"checks":nchecks,"mismatches":mism}));
	}
	out.finish();
	0
}


/// Positions beyond TLC's 32-bit integers (2^30 .. 2^64): return values of the pure position functions, one
/// `Huge` event per position; the driver compares them with MMR.tla's closed forms evaluated over unbounded
/// integers (lib/checks/_c07_closed.py).  A panic is data (null).
fn huge(args: &Args) -> i32 {
	let n = args.u64("n", 300);
	let seed = args.u64("seed", 1);
	let mut out = NdWriter::create(args.req("out"));
	let mut rng: StdRng = SeedableRng::from_seed([(seed as u8) ^ 0x5a; 32]);
	// (position, all functions?)  positions >= 2^62: only the functions that do no arithmetic on the position
	let mut ps: Vec<(u64, bool)> = vec![];
	for k in 30..=62u32 {
		let b = 1u64 << k;
		for p in [b - 2, b - 1, b, b + 1] {
			ps.push((p, true));
		}
	}
	for i in 0..n {
		let k = 30 + (i % 32) as u32;
		ps.push((rng.gen_range(1u64 << k, 1u64 << (k + 1)), true));
	}
	let top = 1u64 << 63;
	for p in [top - 2, top - 1, top, top + 1, u64::MAX - 3, u64::MAX - 2, u64::MAX - 1, u64::MAX] {
		ps.push((p, false));
	}
	for _ in 0..(n / 10) {
		ps.push((rng.gen_range(1u64 << 62, u64::MAX), false));
	}
	fn g<T: Into<Value>, F: FnOnce() -> T + std::panic::UnwindSafe>(f: F) -> Value {
		match std::panic::catch_unwind(f) {
			Ok(v) => v.into(),
			Err(_) => Value::Null,
		}
	}
	let one = args.u64("p", 0);
	if one != 0 {
		ps = vec![(one, one <= (1u64 << 62) + 1)];
	}
	for (p, all) in ps {
		let mut e = json!({"k":"Huge","p":p,
			"pmh": g(|| { let (a, b) = pmmr::peak_map_height(p); vec![a, b] }),
			"height": g(|| pmmr::bintree_postorder_height(p)),
			"leaf_idx": g(|| match pmmr::pmmr_leaf_to_insertion_index(p) { Some(v) => json!(v), None => json!(-1) }),
			"nleaves": g(|| pmmr::n_leaves(p)),
			"peaks": g(|| pmmr::peaks(p)),
		});
		if all {
			let m = e.as_object_mut().unwrap();
			m.insert("family".into(), g(|| { let (a, b) = pmmr::family(p); vec![a, b] }));
			m.insert("is_left".into(), g(|| pmmr::is_left_sibling(p)));
			m.insert("round_up".into(), g(|| pmmr::round_up_to_leaf_pos(p)));
			m.insert("leftmost".into(), g(|| pmmr::bintree_leftmost(p)));
			m.insert("rightmost".into(), g(|| pmmr::bintree_rightmost(p)));
			m.insert("ins2pos".into(), g(|| pmmr::insertion_to_pmmr_index(p / 2)));
		}
		out.put(&e);
	}
	let cnt = out.n;
	out.finish();
	println!("{}", json!({"events": cnt}));
	0
}
