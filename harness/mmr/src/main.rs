//! C07 engine: MMR position arithmetic, roots and Merkle proofs against MMR.tla.
use vcommon::*;
use grin_core::core::hash::Hash;
use grin_core::core::merkle_proof::MerkleProof;
use grin_core::core::pmmr::{self, ReadablePMMR, VecBackend, PMMR};
use rand::rngs::StdRng;
use rand::{Rng, SeedableRng};
use serde_json::{json, Value};

fn main() {
	quiet_panics();
	let a: Vec<String> = std::env::args().skip(1).collect();
	let args = Args::parse(&a);
	let rc = run(&args);
	std::process::exit(rc);
}

fn run(args: &Args) -> i32 {
	match args.pos.get(0).map(|s| s.as_str()) {
		Some("record") => record(args),
		Some("replay") => replay(args),
		Some("rewind") => rewind(args),
		_ => {
			eprintln!("mmr record|replay|rewind");
			2
		}
	}
}

fn opt(x: Option<u64>) -> i64 {
	x.map(|v| v as i64).unwrap_or(-1)
}

fn pairs(v: Vec<(u64, u64)>) -> Value {
	Value::Array(v.into_iter().map(|(a, b)| json!([a, b])).collect())
}

/// Direction B: drive a real PMMR and the pure functions, log every return value.
fn record(args: &Args) -> i32 {
	let leaves = args.u64("leaves", 300);
	let big = args.u64("big", 200);
	let seed = args.u64("seed", 1);
	let mut out = NdWriter::create(args.req("out"));
	let mut ba = VecBackend::<Elem>::new();
	let mut size = 0u64;
	for i in 0..leaves {
		let prev = size;
		let pos = {
			let mut p = PMMR::at(&mut ba, size);
			let pos = p.push(&Elem::of(i)).expect("push");
			size = p.unpruned_size();
			pos
		};
		let (pm, h) = pmmr::peak_map_height(size);
		out.put(&json!({"k":"Push","pos":pos,"size":size,"peaks":pmmr::peaks(size),"nleaves":pmmr::n_leaves(size),"pmh":[pm,h]}));
		for sz in (prev + 2)..size {
			// sizes strictly inside the merge sequence
			out.put(&json!({"k":"Size","sz":sz,"peaks":pmmr::peaks(sz),"nleaves":pmmr::n_leaves(sz)}));
		}
		for p in pos..size {
			let r = pmmr::bintree_range(p);
			out.put(&json!({"k":"Node","p":p,
				"height":pmmr::bintree_postorder_height(p),
				"is_leaf":pmmr::is_leaf(p),
				"leftmost":pmmr::bintree_leftmost(p),
				"rightmost":pmmr::bintree_rightmost(p),
				"range":[r.start, r.end],
				"leaf_idx":opt(pmmr::pmmr_leaf_to_insertion_index(p)),
				"ins2pos": if pmmr::is_leaf(p) { pmmr::insertion_to_pmmr_index(pmmr::pmmr_leaf_to_insertion_index(p).unwrap_or(0)) } else { 0 },
				"round_up":pmmr::round_up_to_leaf_pos(p),
				"nleaves_to":pmmr::n_leaves(p),
			}));
		}
	}
	// family / branch of every node that has a parent inside the final forest
	let peaks = pmmr::peaks(size);
	for p in 0..size {
		if peaks.contains(&p) {
			continue;
		}
		let (par, sib) = pmmr::family(p);
		out.put(&json!({"k":"Fam","p":p,"family":[par,sib],"is_left":pmmr::is_left_sibling(p),
			"branch":pairs(pmmr::family_branch(p, size))}));
	}
	// large positions: closed forms only
	let mut rng: StdRng = SeedableRng::from_seed([seed as u8; 32]);
	let mut ps: Vec<u64> = vec![];
	for k in 13..30u32 {
		let b = 1u64 << k;
		ps.extend_from_slice(&[b - 2, b - 1, b, b + 1]);
	}
	for _ in 0..big {
		ps.push(rng.gen_range(1u64 << 13, 1u64 << 29));
	}
	for p in ps {
		let (pm, h) = pmmr::peak_map_height(p);
		let (par, sib) = pmmr::family(p);
		let n = p / 2;
		out.put(&json!({"k":"Big","p":p,"n":n,"pmh":[pm,h],"height":pmmr::bintree_postorder_height(p),
			"family":[par,sib],"is_left":pmmr::is_left_sibling(p),
			"leaf_idx":opt(pmmr::pmmr_leaf_to_insertion_index(p)),
			"round_up":pmmr::round_up_to_leaf_pos(p),
			"leftmost":pmmr::bintree_leftmost(p),"rightmost":pmmr::bintree_rightmost(p),
			"nleaves":pmmr::n_leaves(p),"peaks":pmmr::peaks(p),
			"ins2pos":pmmr::insertion_to_pmmr_index(n)}));
	}
	let n = out.n;
	out.finish();
	println!("{}", json!({"events": n, "size": size}));
	0
}

/// Direction A, histories: pushes and rewinds emitted by MC_MMRRewind (simulation of SpecRW) executed on a
/// data-carrying and on a hash-only VecBackend; after every step the size is the closed form of the leaf
/// count and the backend holds exactly that many hashes; at the end root, peaks and every proof path are
/// those of the specification's MMR of the final leaf count (RewindIsPrefix).
fn rewind(args: &Args) -> i32 {
	let cases = read_ndjson(args.req("cases"));
	let mut out = NdWriter::create(args.req("out"));
	for c in cases {
		let mut mism: Vec<Value> = vec![];
		let mut nchecks = 0u64;
		for kind in ["data", "hash_only"] {
			let mut ba = if kind == "data" {
				VecBackend::<Elem>::new()
			} else {
				VecBackend::<Elem>::new_hash_only()
			};
			let mut size = 0u64;
			let mut nl = 0u64;
			for (step, op) in c["ops"].as_array().unwrap().iter().enumerate() {
				let k = op["k"].as_u64().unwrap();
				let r = std::panic::catch_unwind(std::panic::AssertUnwindSafe(|| {
					let mut p = PMMR::at(&mut ba, size);
					if op["op"] == "push" {
						p.push(&Elem::of(nl)).map(|_| ()).map_err(|e| e.to_string())?;
					} else {
						p.rewind(pmmr::insertion_to_pmmr_index(k), &croaring::Bitmap::new())?;
					}
					Ok::<u64, String>(p.unpruned_size())
				}));
				match r {
					Ok(Ok(sz)) => size = sz,
					Ok(Err(e)) => {
						mism.push(json!({"what":"op_error","kind":kind,"step":step,"err":e}));
						break;
					}
					Err(_) => {
						mism.push(json!({"what":"op_panic","kind":kind,"step":step}));
						break;
					}
				}
				nl = if op["op"] == "push" { nl + 1 } else { k };
				nchecks += 1;
				if size != pmmr::insertion_to_pmmr_index(nl) {
					mism.push(json!({"what":"size_after_op","kind":kind,"step":step,"nl":nl,"real":size}));
					break;
				}
				if ba.size() != size {
					mism.push(json!({"what":"backend_size_after_op","kind":kind,"step":step,"nl":nl,"pmmr":size,"backend":ba.size()}));
					break;
				}
			}
			if !mism.is_empty() {
				continue;
			}
			let f = &c["final"];
			if f["nl"].as_u64() != Some(nl) || f["size"].as_u64() != Some(size) {
				mism.push(json!({"what":"final_count","kind":kind,"spec_nl":f["nl"],"real_nl":nl,"spec_size":f["size"],"real_size":size}));
				continue;
			}
			let p = PMMR::at(&mut ba, size);
			let root_spec = eval_term(&f["root"], &elem_leaf);
			match p.root() {
				Ok(r) if r == root_spec => {}
				_ => mism.push(json!({"what":"root_after_history","kind":kind,"nl":nl})),
			}
			let peaks_spec: Vec<u64> = f["peaks"].as_array().unwrap().iter().map(|x| x.as_u64().unwrap()).collect();
			if pmmr::peaks(size) != peaks_spec {
				mism.push(json!({"what":"peaks_after_history","kind":kind,"nl":nl}));
			}
			for pr in f["proofs"].as_array().unwrap() {
				let pos = pr["pos"].as_u64().unwrap();
				let path_spec: Vec<Hash> = pr["path"].as_array().unwrap().iter().map(|t| eval_term(t, &elem_leaf)).collect();
				nchecks += 1;
				match p.merkle_proof(pos) {
					Ok(x) => {
						if x.path != path_spec || x.mmr_size != size {
							mism.push(json!({"what":"proof_after_history","kind":kind,"pos":pos,"nl":nl}));
						}
					}
					Err(e) => mism.push(json!({"what":"merkle_proof_err_after_history","kind":kind,"pos":pos,"err":e})),
				}
			}
		}
		out.put(&json!({"checks":nchecks,"mismatches":mism}));
	}
	out.finish();
	0
}

/// Direction A: each case is one small MMR emitted by MC_MMR (root term, proof-path terms).
/// The real PMMR must produce exactly these hashes; MerkleProof::verify must accept the honest
/// proof and refuse every single corruption (ProofsOK in the spec).
fn replay(args: &Args) -> i32 {
	let cases = read_ndjson(args.req("cases"));
	let mut out = NdWriter::create(args.req("out"));
	for c in cases {
		let nl = c["nl"].as_u64().unwrap();
		let size_spec = c["size"].as_u64().unwrap();
		let mut ba = VecBackend::<Elem>::new();
		let mut size = 0;
		let mut lpos = vec![];
		for i in 0..nl {
			let mut p = PMMR::at(&mut ba, size);
			lpos.push(p.push(&Elem::of(i)).unwrap());
			size = p.unpruned_size();
		}
		let p = PMMR::at(&mut ba, size);
		let mut mism: Vec<Value> = vec![];
		if size != size_spec {
			mism.push(json!({"what":"size","spec":size_spec,"real":size}));
		}
		let root_spec = eval_term(&c["root"], &elem_leaf);
		let root = p.root().unwrap();
		if root != root_spec {
			mism.push(json!({"what":"root","nl":nl}));
		}
		let mut nchecks = 0u64;
		for (i, pr) in c["proofs"].as_array().unwrap().iter().enumerate() {
			let pos = pr["pos"].as_u64().unwrap();
			let d = pr["d"].as_u64().unwrap();
			if lpos[i] != pos {
				mism.push(json!({"what":"leafpos","i":i,"spec":pos,"real":lpos[i]}));
			}
			let path_spec: Vec<Hash> = pr["path"].as_array().unwrap().iter().map(|t| eval_term(t, &elem_leaf)).collect();
			let proof = match p.merkle_proof(pos) {
				Ok(x) => x,
				Err(e) => {
					mism.push(json!({"what":"merkle_proof_err","pos":pos,"err":e}));
					continue;
				}
			};
			if proof.path != path_spec {
				mism.push(json!({"what":"proof_path","pos":pos,"nl":nl}));
			}
			if proof.mmr_size != size {
				mism.push(json!({"what":"proof_size","pos":pos}));
			}
			let el = Elem::of(d);
			// honest, from the specification's path (not the implementation's)
			let sp = MerkleProof { mmr_size: size, path: path_spec.clone() };
			if sp.verify(root_spec, &el, pos).is_err() {
				mism.push(json!({"what":"honest_refused","pos":pos,"nl":nl}));
			}
			nchecks += 1;
			// corruptions
			let mut bad: Vec<(String, MerkleProof, Elem, u64)> = vec![];
			bad.push(("other_elem".into(), sp.clone(), Elem::of(d + 1000), pos));
			for (j, q) in lpos.iter().enumerate() {
				if j != i {
					bad.push((format!("other_pos:{}", q), sp.clone(), el, *q));
				}
			}
			for k in 0..path_spec.len() {
				let mut pp = sp.clone();
				pp.path[k] = junk_hash();
				bad.push((format!("alter:{}", k), pp, el, pos));
			}
			if !path_spec.is_empty() {
				let mut pp = sp.clone();
				pp.path.pop();
				bad.push(("shorten_end".into(), pp, el, pos));
				let mut pp = sp.clone();
				pp.path.remove(0);
				bad.push(("shorten_front".into(), pp, el, pos));
			}
			let mut pp = sp.clone();
			pp.path.push(junk_hash());
			bad.push(("lengthen_end".into(), pp, el, pos));
			let mut pp = sp.clone();
			pp.path.insert(0, junk_hash());
			bad.push(("lengthen_front".into(), pp, el, pos));
			for (name, pp, e, q) in bad {
				nchecks += 1;
				let r = std::panic::catch_unwind(|| pp.verify(root_spec, &e, q).is_ok());
				match r {
					Ok(false) => {}
					Ok(true) => mism.push(json!({"what":"corruption_accepted","class":name,"pos":pos,"nl":nl})),
					Err(_) => mism.push(json!({"what":"verify_panic","class":name,"pos":pos,"nl":nl})),
				}
			}
		}
		// Pruning marks live outside the forest: root and proof paths are functions of the construction
		// only (MMR.tla: RootTerm / ProofPathD never look at removals), so removing leaves must leave the
		// root and the proofs of the remaining leaves unchanged (hashes of removed leaves are retained).
		let patterns: Vec<(&str, Vec<usize>)> = vec![
			("last", vec![lpos.len() - 1]),
			("first", vec![0]),
			("even", (0..lpos.len()).step_by(2).collect()),
			("all_but_first", (1..lpos.len()).collect()),
		];
		for (pname, rm) in patterns {
			let mut bb = VecBackend::<Elem>::new();
			let mut sz = 0;
			for i in 0..nl {
				let mut p = PMMR::at(&mut bb, sz);
				p.push(&Elem::of(i)).unwrap();
				sz = p.unpruned_size();
			}
			{
				let mut p = PMMR::at(&mut bb, sz);
				for i in &rm {
					let _ = p.prune(lpos[*i]);
				}
			}
			let p = PMMR::at(&mut bb, sz);
			nchecks += 1;
			match std::panic::catch_unwind(std::panic::AssertUnwindSafe(|| p.root())) {
				Ok(Ok(r)) if r == root_spec => {}
				_ => mism.push(json!({"what":"root_after_prune","pattern":pname,"nl":nl})),
			}
			for (i, pr) in c["proofs"].as_array().unwrap().iter().enumerate() {
				if rm.contains(&i) {
					continue;
				}
				let pos = pr["pos"].as_u64().unwrap();
				let path_spec: Vec<Hash> = pr["path"].as_array().unwrap().iter().map(|t| eval_term(t, &elem_leaf)).collect();
				nchecks += 1;
				match std::panic::catch_unwind(std::panic::AssertUnwindSafe(|| p.merkle_proof(pos))) {
					Ok(Ok(x)) => {
						if x.path != path_spec {
							mism.push(json!({"what":"proof_path_after_prune","pattern":pname,"pos":pos,"nl":nl}));
						}
					}
					Ok(Err(e)) => mism.push(json!({"what":"merkle_proof_err_after_prune","pattern":pname,"pos":pos,"nl":nl,"err":e})),
					Err(_) => mism.push(json!({"what":"merkle_proof_panic_after_prune","pattern":pname,"pos":pos,"nl":nl})),
				}
			}
		}
		out.put(&json!({"nl":nl,"size":size,"checks":nchecks,"mismatches":mism}));
	}
	out.finish();
	0
}
