//! Direction A: each case is one small MMR emitted by MC_MMR (CaseV: root term, proof-path terms, node terms,
//! removal patterns, view sizes, rewind sizes, which altered hash validate must refuse).
//! All terms are evaluated INDEPENDENTLY of grin_core (ind.rs).  The real PMMR must produce exactly these
//! hashes; MerkleProof::verify must accept the honest proof and refuse every single corruption (ProofsOK,
//! AnyPosOK); every view (ReadonlyPMMR::at, RewindablePMMR::rewind + as_readonly, PMMR::readonly_pmmr,
//! PMMR::at) at every earlier leaf count k, with every removal pattern, must show the case of k leaves
//! (ViewsOK); RewindablePMMR::rewind(q) must land on rwsize[q] (RewindableOK); PMMR::validate must accept
//! the honest backend and refuse every altered hash that the specification says is bound (ValidateOK).
use crate::ind::{self, Ev};
use grin_core::core::hash::Hash;
use grin_core::core::merkle_proof::MerkleProof;
use grin_core::core::pmmr::{ReadablePMMR, ReadonlyPMMR, RewindablePMMR, VecBackend, PMMR};
use serde_json::{json, Value};
use std::collections::{HashMap, HashSet};
use std::panic::{catch_unwind, AssertUnwindSafe};
use vcommon::*;

pub struct Exp {
	pub size: u64,
	pub root: Hash,
	pub peaks: Vec<Hash>,
	pub nodes: Vec<Hash>,
	/// (pos, d, path)
	pub proofs: Vec<(u64, u64, Vec<Hash>)>,
}

impl Exp {
	pub fn from(c: &Value, ev: &mut Ev) -> Exp {
		Exp {
			size: c["size"].as_u64().unwrap(),
			root: ev.term(&c["root"]),
			peaks: if c["peakterms"].is_array() { ev.terms(&c["peakterms"]) } else { vec![] },
			nodes: if c["nodes"].is_array() { ev.terms(&c["nodes"]) } else { vec![] },
			proofs: c["proofs"]
				.as_array()
				.unwrap()
				.iter()
				.map(|pr| (pr["pos"].as_u64().unwrap(), pr["d"].as_u64().unwrap(), ev.terms(&pr["path"])))
				.collect(),
		}
	}
}

fn u64s(v: &Value) -> Vec<u64> {
	v.as_array().map(|a| a.iter().map(|x| x.as_u64().unwrap()).collect()).unwrap_or_default()
}

fn build(nl: u64) -> (VecBackend<Elem>, u64, Vec<u64>) {
	let mut ba = VecBackend::<Elem>::new();
	let mut size = 0;
	let mut lpos = vec![];
	for i in 0..nl {
		let mut p = PMMR::at(&mut ba, size);
		lpos.push(p.push(&Elem::of(i)).unwrap());
		size = p.unpruned_size();
	}
	(ba, size, lpos)
}

struct Ctx<'a> {
	nl: u64,
	pname: &'a str,
	rm: &'a HashSet<u64>,
	lpos: &'a [u64],
	full: u64,
}

/// One view of the backend, expected to show exactly the case `e` of k leaves.
fn check_view<P: ReadablePMMR<Item = Elem>>(v: &P, kind: &str, k: u64, size_k: u64, e: &Exp, cx: &Ctx, mism: &mut Vec<Value>, n: &mut u64) {
	let mut bad = |what: &str, extra: Value| {
		if mism.len() < 40 {
			mism.push(json!({"what":what,"class":kind,"pattern":cx.pname,"nl":cx.nl,"k":k,"detail":extra}));
		}
	};
	let r = catch_unwind(AssertUnwindSafe(|| {
		let mut out: Vec<(&'static str, Value)> = vec![];
		if v.unpruned_size() != size_k {
			out.push(("view_size", json!({"spec":size_k,"real":v.unpruned_size()})));
		}
		match v.root() {
			Ok(r) if r == e.root => {}
			Ok(_) => out.push(("view_root", json!("differs"))),
			Err(x) => out.push(("view_root", json!({"err":x}))),
		}
		if v.peaks() != e.peaks {
			out.push(("view_peaks", json!({"spec":e.peaks.len(),"real":v.peaks().len()})));
		}
		for (i, pos) in cx.lpos.iter().enumerate() {
			let pos = *pos;
			let present = (i as u64) < k && !cx.rm.contains(&pos);
			let pr = v.merkle_proof(pos);
			if present {
				let (_, d, path) = &e.proofs[i];
				match pr {
					Ok(x) => {
						if &x.path != path || x.mmr_size != size_k {
							out.push(("view_proof", json!({"pos":pos})));
						} else if x.verify(e.root, &Elem::of(*d), pos).is_err() {
							out.push(("view_proof_unverifiable", json!({"pos":pos})));
						}
					}
					Err(x) => out.push(("view_proof", json!({"pos":pos,"err":x}))),
				}
				if v.get_hash(pos) != Some(ind::leaf(pos, *d)) {
					out.push(("view_get_hash", json!({"pos":pos})));
				}
				if v.get_data(pos) != Some(Elem::of(*d)) {
					out.push(("view_get_data", json!({"pos":pos})));
				}
			} else {
				if pr.is_ok() {
					out.push(("view_proof_of_absent", json!({"pos":pos})));
				}
				if v.get_hash(pos).is_some() || v.get_data(pos).is_some() {
					out.push(("view_get_absent", json!({"pos":pos})));
				}
			}
		}
		// parents inside the view: their hash whatever is removed, no data, no proof
		for p in 0..size_k {
			if cx.lpos.contains(&p) {
				continue;
			}
			if v.get_hash(p) != Some(e.nodes[p as usize]) || v.get_from_file(p) != Some(e.nodes[p as usize]) {
				out.push(("view_get_hash", json!({"pos":p,"parent":true})));
			}
			if v.get_data(p).is_some() || v.merkle_proof(p).is_ok() {
				out.push(("view_parent_as_leaf", json!({"pos":p})));
			}
		}
		// nothing at or beyond the size of the view
		for p in size_k..(cx.full + 2) {
			if v.get_hash(p).is_some()
				|| v.get_from_file(p).is_some()
				|| v.get_peak_from_file(p).is_some()
				|| v.get_data(p).is_some()
				|| v.get_data_from_file(p).is_some()
				|| v.merkle_proof(p).is_ok()
			{
				out.push(("view_beyond_size", json!({"pos":p})));
			}
		}
		out
	}));
	*n += 1 + cx.lpos.len() as u64;
	match r {
		Ok(out) => {
			for (w, x) in out {
				bad(w, x);
			}
		}
		Err(_) => bad("view_panic", json!(null)),
	}
}

pub fn replay(args: &Args) -> i32 {
	let cases = read_ndjson(args.req("cases"));
	let only = args.u64("only", 0);
	let mut out = NdWriter::create(args.req("out"));
	let mut ev = Ev::new();
	let mut exps: HashMap<u64, Exp> = HashMap::new();
	for c in &cases {
		exps.insert(c["nl"].as_u64().unwrap(), Exp::from(c, &mut ev));
	}
	// hash_with_index against the independent evaluation of the same terms (reported once, first record)
	let mut prim = std::mem::take(&mut ev.prim);
	for c in &cases {
		let nl = c["nl"].as_u64().unwrap();
		if only != 0 && nl != only {
			continue;
		}
		let e = &exps[&nl];
		let (mut ba, size, lpos) = build(nl);
		let mut mism: Vec<Value> = std::mem::take(&mut prim);
		let mut nchecks = 0u64;
		if size != e.size {
			mism.push(json!({"what":"size","spec":e.size,"real":size}));
		}
		// every stored hash is the independently evaluated term of that node
		if !e.nodes.is_empty() {
			nchecks += e.nodes.len() as u64;
			if ba.hashes != e.nodes {
				let p = (0..e.nodes.len().min(ba.hashes.len())).find(|i| ba.hashes[*i] != e.nodes[*i]);
				mism.push(json!({"what":"node_hash","nl":nl,"pos":p}));
			}
		}
		let root_spec = e.root;
		{
			let p = PMMR::at(&mut ba, size);
			match catch_unwind(AssertUnwindSafe(|| p.root())) {
				Ok(Ok(r)) if r == root_spec => {}
				_ => mism.push(json!({"what":"root","nl":nl})),
			}
			if !e.peaks.is_empty() {
				nchecks += 1;
				match catch_unwind(AssertUnwindSafe(|| p.peaks())) {
					Ok(x) if x == e.peaks => {}
					_ => mism.push(json!({"what":"peaks","nl":nl})),
				}
			}
			for (pos, d, path_spec) in e.proofs.iter() {
				let (pos, d) = (*pos, *d);
				let i = d as usize; // Data(i) = i: the data of a leaf is its insertion index
				if lpos[i] != pos {
					mism.push(json!({"what":"leafpos","i":i,"spec":pos,"real":lpos[i]}));
				}
				let proof = match p.merkle_proof(pos) {
					Ok(x) => x,
					Err(e) => {
						mism.push(json!({"what":"merkle_proof_err","pos":pos,"err":e}));
						continue;
					}
				};
				if &proof.path != path_spec {
					mism.push(json!({"what":"proof_path","pos":pos,"nl":nl}));
				}
				if proof.mmr_size != size {
					mism.push(json!({"what":"proof_size","pos":pos}));
				}
				let el = Elem::of(d);
				// honest, from the specification's path (not the implementation's)
				let sp = MerkleProof { mmr_size: size, path: path_spec.clone() };
				if sp.verify(root_spec, &el, pos).is_err() {
					mism.push(json!({"what":"honest_refused","pos":pos,"nl":nl}));
				}
				nchecks += 1;
				// corruptions (Corruptions in MMR.tla, AnyPosOK in MMRViews.tla)
				let mut bad: Vec<(String, MerkleProof, Elem, u64)> = vec![];
				bad.push(("other_elem".into(), sp.clone(), Elem::of(d + 1000), pos));
				for q in 0..(size + 4) {
					if q != pos {
						bad.push((format!("other_pos:{}", q), sp.clone(), el, q));
					}
				}
				for k in 0..path_spec.len() {
					let mut pp = sp.clone();
					pp.path[k] = junk_hash();
					bad.push((format!("alter:{}", k), pp, el, pos));
				}
				if !path_spec.is_empty() {
					let mut pp = sp.clone();
					pp.path.pop();
					bad.push(("shorten_end".into(), pp, el, pos));
					let mut pp = sp.clone();
					pp.path.remove(0);
					bad.push(("shorten_front".into(), pp, el, pos));
				}
				let mut pp = sp.clone();
				pp.path.push(junk_hash());
				bad.push(("lengthen_end".into(), pp, el, pos));
				let mut pp = sp.clone();
				pp.path.insert(0, junk_hash());
				bad.push(("lengthen_front".into(), pp, el, pos));
				for (name, pp, e, q) in bad {
					nchecks += 1;
					let r = catch_unwind(|| pp.verify(root_spec, &e, q).is_ok());
					match r {
						Ok(false) => {}
						Ok(true) => mism.push(json!({"what":"corruption_accepted","class":name,"pos":pos,"nl":nl})),
						Err(_) => mism.push(json!({"what":"verify_panic","class":name,"pos":pos,"nl":nl})),
					}
				}
			}
		}

		// PMMR::validate (ValidateOK): honest accepted; one altered hash refused iff the specification binds it
		if c["vbound"].is_array() {
			let vb: Vec<bool> = c["vbound"].as_array().unwrap().iter().map(|x| x.as_bool().unwrap()).collect();
			for p in 0..(size as usize) {
				let keep = ba.hashes[p];
				ba.hashes[p] = junk_hash();
				let r = catch_unwind(AssertUnwindSafe(|| PMMR::at(&mut ba, size).validate().is_ok()));
				ba.hashes[p] = keep;
				nchecks += 1;
				match r {
					Ok(true) if vb[p] => mism.push(json!({"what":"validate_accepts_altered","nl":nl,"pos":p,"class": if lpos.contains(&(p as u64)) {"leaf"} else {"parent"}})),
					Ok(_) => {}
					Err(_) => mism.push(json!({"what":"validate_panic","nl":nl,"pos":p})),
				}
			}
		}

		// RewindablePMMR::rewind(q) lands on the size of the MMR of the leaves below q (RewindableOK)
		for (q, want) in u64s(&c["rwsize"]).iter().enumerate() {
			nchecks += 1;
			let r = catch_unwind(AssertUnwindSafe(|| {
				let mut v = RewindablePMMR::at(&ba, size);
				v.rewind(q as u64).map(|_| v.as_readonly().unpruned_size())
			}));
			match r {
				Ok(Ok(s)) if s == *want => {}
				Ok(x) => mism.push(json!({"what":"rewindable_rewind_size","nl":nl,"q":q,"spec":want,"real":format!("{:?}", x)})),
				Err(_) => mism.push(json!({"what":"rewindable_rewind_panic","nl":nl,"q":q})),
			}
		}

		// Removal patterns (RmPatterns in MMRViews.tla).  Removal marks live outside the forest: root, peaks
		// and proof paths are functions of the construction only, so removing leaves must leave the root and
		// the proofs of the remaining leaves unchanged; the removed leaves have no hash, no data, no proof.
		let patterns: Vec<(String, Vec<u64>)> = match c["rms"].as_array() {
			Some(a) => a.iter().map(|x| (x["name"].as_str().unwrap().to_string(), u64s(&x["pos"]))).collect(),
			None => vec![
				("last".into(), vec![lpos[lpos.len() - 1]]),
				("first".into(), vec![lpos[0]]),
				("even".into(), lpos.iter().cloned().step_by(2).collect()),
				("all_but_first".into(), lpos[1..].to_vec()),
			],
		};
		let views: Vec<(u64, u64)> = c["views"]
			.as_array()
			.map(|a| a.iter().map(|x| (x["k"].as_u64().unwrap(), x["size"].as_u64().unwrap())).collect())
			.unwrap_or_default();
		for (pname, rmv) in &patterns {
			let rm: HashSet<u64> = rmv.iter().cloned().collect();
			let (mut bb, sz, _) = build(nl);
			{
				let mut p = PMMR::at(&mut bb, sz);
				for q in rmv {
					match p.prune(*q) {
						Ok(true) => {}
						x => mism.push(json!({"what":"prune_result","pattern":pname,"pos":q,"nl":nl,"real":format!("{:?}", x)})),
					}
				}
			}
			{
				let p = PMMR::at(&mut bb, sz);
				nchecks += 2;
				match catch_unwind(AssertUnwindSafe(|| p.root())) {
					Ok(Ok(r)) if r == root_spec => {}
					_ => mism.push(json!({"what":"root_after_prune","pattern":pname,"nl":nl})),
				}
				match catch_unwind(AssertUnwindSafe(|| p.validate())) {
					Ok(Ok(())) => {}
					_ => mism.push(json!({"what":"validate_refuses_honest","pattern":pname,"nl":nl})),
				}
				for (pos, _, path_spec) in &e.proofs {
					let pos = *pos;
					nchecks += 1;
					let r = catch_unwind(AssertUnwindSafe(|| p.merkle_proof(pos)));
					if rm.contains(&pos) {
						if let Ok(Ok(_)) = r {
							mism.push(json!({"what":"proof_of_removed_leaf","pattern":pname,"pos":pos,"nl":nl}));
						}
						continue;
					}
					match r {
						Ok(Ok(x)) => {
							if &x.path != path_spec {
								mism.push(json!({"what":"proof_path_after_prune","pattern":pname,"pos":pos,"nl":nl}));
							}
						}
						Ok(Err(e)) => mism.push(json!({"what":"merkle_proof_err_after_prune","pattern":pname,"pos":pos,"nl":nl,"err":e})),
						Err(_) => mism.push(json!({"what":"merkle_proof_panic_after_prune","pattern":pname,"pos":pos,"nl":nl})),
					}
				}
			}
			// views at every earlier leaf count (ViewsOK): they show the case of that leaf count
			let cx = Ctx { nl, pname: pname.as_str(), rm: &rm, lpos: &lpos, full: sz };
			for (k, size_k) in &views {
				let (k, size_k) = (*k, *size_k);
				let ek = match exps.get(&k) {
					Some(x) if !x.nodes.is_empty() => x,
					_ => continue,
				};
				if ek.size != size_k {
					mism.push(json!({"what":"view_size_cases_disagree","k":k}));
					continue;
				}
				check_view(&ReadonlyPMMR::at(&bb, size_k), "readonly_at", k, size_k, ek, &cx, &mut mism, &mut nchecks);
				let rw = catch_unwind(AssertUnwindSafe(|| {
					let mut v = RewindablePMMR::at(&bb, sz);
					v.rewind(size_k).map(|_| v.as_readonly())
				}));
				match rw {
					Ok(Ok(v)) => check_view(&v, "rewindable", k, size_k, ek, &cx, &mut mism, &mut nchecks),
					_ => mism.push(json!({"what":"view_panic","class":"rewindable","pattern":pname,"nl":nl,"k":k})),
				}
				{
					let p = PMMR::at(&mut bb, size_k);
					check_view(&p, "pmmr_at", k, size_k, ek, &cx, &mut mism, &mut nchecks);
					if k == nl {
						check_view(&p.readonly_pmmr(), "readonly_pmmr", k, size_k, ek, &cx, &mut mism, &mut nchecks);
					}
				}
			}
		}
		out.put(&json!({"nl":nl,"size":size,"checks":nchecks,"terms":ev.n_terms,"mismatches":mism}));
	}
	out.finish();
	0
}
