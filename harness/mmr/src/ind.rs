//! INDEPENDENT evaluation of the specification's hash terms (MMRViews.tla, "INTERPRETATION"):
//!   [[ ["L", pos, d] ]]    = blake2b-256( be64(pos) || ser(Elem d) )      (Elem = four big-endian u32)
//!   [[ ["N", idx, l, r] ]] = blake2b-256( be64(idx) || [[l]] || [[r]] )
//! computed with the blake2-rfc crate directly - NOT through grin_core's hash_with_index / Hashed / ser.
//! Every evaluation is also compared with grin_core's hash_with_index (mechanism item of C07).
use blake2_rfc::blake2b::Blake2b;
use grin_core::core::hash::{Hash, ZERO_HASH};
use grin_core::ser::PMMRIndexHashable;
use serde_json::{json, Value};
use vcommon::{junk_hash, Elem};

fn b2(parts: &[&[u8]]) -> Hash {
	let mut st = Blake2b::new(32);
	for p in parts {
		st.update(p);
	}
	Hash::from_vec(st.finalize().as_bytes())
}

pub fn elem_bytes(d: u64) -> Vec<u8> {
	// the harness element of data d: words d_lo, d_hi, 0x5eed, 7, each a big-endian u32
	let words: [u32; 4] = [d as u32, (d >> 32) as u32, 0x5eed, 7];
	let mut b = vec![];
	for w in &words {
		b.extend_from_slice(&w.to_be_bytes());
	}
	b
}

pub fn leaf(pos: u64, d: u64) -> Hash {
	b2(&[&pos.to_be_bytes(), &elem_bytes(d)])
}

pub fn node(idx: u64, l: &Hash, r: &Hash) -> Hash {
	b2(&[&idx.to_be_bytes(), &l.to_vec(), &r.to_vec()])
}

/// Evaluator; `prim` collects disagreements between the independent value and grin's hash_with_index.
pub struct Ev {
	pub prim: Vec<Value>,
	pub n_terms: u64,
}

impl Ev {
	pub fn new() -> Ev {
		Ev { prim: vec![], n_terms: 0 }
	}
	pub fn term(&mut self, t: &Value) -> Hash {
		match t {
			Value::String(s) if s == "ZERO" => ZERO_HASH,
			Value::Array(a) => match a[0].as_str().unwrap() {
				"L" => {
					let (pos, d) = (a[1].as_u64().unwrap(), a[2].as_u64().unwrap());
					let h = leaf(pos, d);
					self.n_terms += 1;
					if self.prim.len() < 4 {
						let g = std::panic::catch_unwind(|| Elem::of(d).hash_with_index(pos));
						if g.ok() != Some(h) {
							self.prim.push(json!({"what":"hash_with_index","class":"leaf","pos":pos,"d":d}));
						}
					}
					h
				}
				"N" => {
					let idx = a[1].as_u64().unwrap();
					let l = self.term(&a[2]);
					let r = self.term(&a[3]);
					let h = node(idx, &l, &r);
					self.n_terms += 1;
					if self.prim.len() < 4 {
						let g = std::panic::catch_unwind(|| (l, r).hash_with_index(idx));
						if g.ok() != Some(h) {
							self.prim.push(json!({"what":"hash_with_index","class":"node","idx":idx}));
						}
					}
					h
				}
				"J" => junk_hash(),
				x => panic!("bad term tag {}", x),
			},
			_ => panic!("bad term {}", t),
		}
	}
	pub fn terms(&mut self, v: &Value) -> Vec<Hash> {
		v.as_array().unwrap().iter().map(|t| self.term(t)).collect()
	}
}
