"""Single source for MANIFEST.json: run `bin/mkmanifest` after editing."""
HOOK_COMMITS = []

CHECKS = {
 "C07": dict(
   category="model_checking",
   text="TLC checks, for every MMR of up to 520 (thorough 4100) leaves built by the defining Append construction, that the transcribed closed-form position arithmetic equals the construction and that the transcribed proof verifier accepts the definitional proof and refuses every single corruption (symbolic injective hashing). The code is bound in both directions: TLC-emitted root and proof-path terms are evaluated with the real hash primitive and must equal PMMR::root / merkle_proof, MerkleProof::verify must agree on honest and corrupted proofs; return values recorded from every pmmr.rs position function over all positions of a 600 (2100) leaf MMR and sampled positions < 2^30 are validated by the trace specification against the construction.",
   design_ref="§4 C07",
   note="Hash primitive treated as injective; positions >= 2^30 not covered (TLC 32-bit integers); advisory proof size field not claimed.",
   technique="TLA+ construction-vs-closed-form model checking (TLC) + spec-to-impl replay of hash terms + TLC trace validation of recorded calls",
   engine="MMR"),
}

NOT_BUILT_REASON = "check not built yet in this session (planned engine described in DESIGN.md §4); not claimed"
NOT_APPLICABLE = {}

ENGINES = [
 dict(name="MMR", path="spec/MMR.tla", serves_properties=["C07"], kind_free_text="TLA+ spec + TLC model check + replay + trace validation"),
]
