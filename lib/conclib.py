"""C17 helpers: turn the lock log of a real concurrent run into the linearised trace for ChainConcTrace."""
import json


def scenario_json(case):
    """Scenario file for the trace spec: tree as array (index = id), programs as array, pool as pairs."""
    tree = case["tree"]
    items = tree.items() if isinstance(tree, dict) else enumerate(tree)
    arr = [None] * len(tree)
    for k, v in items:
        arr[int(k)] = v
    progs = [case["threads"][str(t)] for t in range(1, len(case["threads"]) + 1)]
    pool = [[int(c), v] for c, v in sorted(case.get("pool", {}).items())]
    return {"trunk": case["trunk"], "tree": arr, "progs": progs, "pool": pool, "max_orphans": case.get("max_orphans", 200)}


def linearise(case, out):
    """Returns (events for the trace spec, stats). Ordering key = global sequence numbers."""
    tx = out["tx_addr"]
    ev = out["events"]
    commits = [e[0] for e in ev if e[2] == "lmdb_commit"]
    # write-transaction windows (lmdb_begin .. lmdb_commit of one thread): the commit is visible to an unlocked
    # reader from some instant INSIDE the window (the lmdb_commit event gets its sequence number after the commit
    # has returned), so an unlocked read that overlaps a window cannot be placed before or after that commit
    wins, open_at = [], {}
    for e in ev:
        if e[2] == "lmdb_begin":
            open_at[e[1]] = e[0]
        elif e[2] == "lmdb_commit":
            wins.append((open_at.pop(e[1], e[0]), e[0]))
    items = []
    hp = out["hp_addr"]
    stats = {"sections": 0, "reads": 0, "heads": 0, "heads_ambiguous": 0, "vtx": 0, "scans": 0, "hdr_at": 0, "hdr_of": 0,
             "read_errors": 0}
    by_thread = {}
    for e in ev:
        by_thread.setdefault(e[1], []).append(e)
    for c in out["calls"]:
        t = c["t"]
        if c["k"] in ("ProcessBlock", "ProcessHeader", "Compact"):
            # a section = w_acq(txhashset) .. w_rel(txhashset); its effects become visible at its last
            # LMDB commit (readers that take no chain lock read committed LMDB state), so that is its
            # position in the linearisation (w_rel when it commits nothing)
            evs = [e for e in by_thread.get(t, []) if c["s0"] < e[0] < c["s1"]]
            cur = None
            for e in evs:
                if e[2] == "w_acq" and e[3] == tx:
                    cur = {"acq": e[0], "commit": None}
                elif e[2] == "lmdb_commit" and cur is not None:
                    cur["commit"] = e[0]
                elif e[2] == "w_rel" and e[3] == tx and cur is not None:
                    items.append((cur["commit"] or e[0], {"k": "Sec", "t": t}))
                    stats["sections"] += 1
                    cur = None
            items.append((c["s1"], {"k": "End", "t": t, "i": c["i"], "res": c["res"]}))
        elif c["k"] == "GetUnspent":
            acq = [e[0] for e in by_thread.get(t, []) if c["s0"] < e[0] < c["s1"] and e[2] == "r_acq" and e[3] == tx]
            if c["val"] < -1:
                stats["read_errors"] += 1      # get_unspent returned Err: reported by the driver, not placed
            elif acq:
                items.append((acq[0], {"k": "Read", "t": t, "c": c["c"], "val": c["val"]}))
                stats["reads"] += 1
        elif c["k"] in ("HdrAt", "HdrOf"):
            # positioned by the first read-lock acquisition of the header MMR: block / header sections hold its
            # WRITE lock around their commit, so the view is the state before or after a whole section
            acq = [e[0] for e in by_thread.get(t, []) if c["s0"] < e[0] < c["s1"] and e[2] == "r_acq" and e[3] == hp]
            if acq:
                if c["k"] == "HdrAt":
                    items.append((acq[0], {"k": "HdrAt", "t": t, "h": c["h"], "id": c["id"]}))
                    stats["hdr_at"] += 1
                else:
                    items.append((acq[0], {"k": "HdrOf", "t": t, "c": c["c"], "id": c["id"]}))
                    stats["hdr_of"] += 1
        elif c["k"] == "Scan":
            acq = [e[0] for e in by_thread.get(t, []) if c["s0"] < e[0] < c["s1"] and e[2] == "r_acq" and e[3] == tx]
            if acq:
                items.append((acq[0], {"k": "Scan", "t": t, "ok": c["ok"], "cnt": c["cnt"], "nl": c["nl"]}))
                stats["scans"] = stats.get("scans", 0) + 1
        elif c["k"] == "ValidateTx":
            acq = [e[0] for e in by_thread.get(t, []) if c["s0"] < e[0] < c["s1"] and e[2] == "r_acq" and e[3] == tx]
            if acq:
                items.append((acq[0], {"k": "VTx", "t": t, "b": c["b"], "ok": c["ok"]}))
                stats["vtx"] = stats.get("vtx", 0) + 1
        elif c["k"] == "Head" and "head" in c and c["head"] is not None:
            if any(c["s0"] < s < c["s1"] for s in commits) or any(b < c["s1"] and cm > c["s0"] for b, cm in wins):
                stats["heads_ambiguous"] += 1      # a commit landed during the unlocked read: not placed
            else:
                items.append((c["s0"], {"k": "Head", "t": t, "head": c["head"]}))
                stats["heads"] += 1
    items.sort(key=lambda x: x[0])
    f = out["final"]
    fin = {"k": "Final", "head": f["head"], "hhead": f["hhead"], "nleaves": f["nleaves"],
           "unspent": [[int(c), h] for c, h in sorted(f["unspent"].items(), key=lambda x: int(x[0]))],
           "orph": f["orph"], "bodies": f["bodies"], "hdrs": f["hdrs"]}
    return [x[1] for x in items] + [fin], stats


def normalise(seq):
    """seq = [[op, lock]] with op in r_acq/r_rel/w_acq/w_rel/m_acq/m_rel.  (1) A batch that is dropped without commit
    releases the LMDB writer before the chain locks are released: insert the missing m_rel.  (2) Leaf locks (a lock
    other than tx/hp acquired and released with nothing acquired in between) are kept out of the model."""
    out, held = [], False
    for op, l in seq:
        if op == "m_acq":
            if held:                # a second batch while the first was dropped
                out.append(["m_rel", "db"])
            held = True
        if op == "m_rel":
            if not held:
                continue
            held = False
        if held and op in ("r_rel", "w_rel") and l in ("tx", "hp"):
            out.append(["m_rel", "db"])
            held = False
        out.append([op, l])
    if held:
        out.append(["m_rel", "db"])
    keep, i = [], 0
    while i < len(out):
        op, l = out[i]
        if l not in ("tx", "hp", "db") and op in ("r_acq", "w_acq") and i + 1 < len(out) and out[i + 1][1] == l \
                and out[i + 1][0] in ("r_rel", "w_rel"):
            i += 2
            continue
        keep.append([op, l])
        i += 1
    return keep


def sections(proto):
    """Cut a protocol wherever the thread holds no lock at all (resource-use marks are not lock events)."""
    secs, cur, held = [], [], 0
    for op, l in proto:
        if op.startswith("use_"):
            continue
        cur.append([op, l])
        held += 1 if op.endswith("_acq") else -1
        if held <= 0:
            secs.append(cur)
            cur, held = [], 0
    if cur:
        secs.append(cur)
    return secs


def observed_sections(out):
    """Per kind of call of a threaded run: the distinct sections on the named chain locks and the LMDB writer."""
    tx, hp = out["tx_addr"], out["hp_addr"]
    name = {tx: "tx", hp: "hp"}
    by_thread = {}
    for e in out["events"]:
        by_thread.setdefault(e[1], []).append(e)
    res = {}
    for c in out["calls"]:
        if "s0" not in c:
            continue
        seq = []
        for e in by_thread.get(c["t"], []):
            if c["s0"] < e[0] < c["s1"]:
                if e[3] in name and e[2] in ("w_acq", "w_rel", "r_acq", "r_rel"):
                    seq.append([e[2], name[e[3]]])
                elif e[2] == "lmdb_begin":
                    seq.append(["m_acq", "db"])
                elif e[2] == "lmdb_commit":
                    seq.append(["m_rel", "db"])
        for sec in sections(normalise(seq)):
            lst = res.setdefault(c["k"], [])
            if sec not in lst:
                lst.append(sec)
    return res


def deadlock_signature(named_sections):
    """A narrow name for a deadlock TLC found in the lock model: the pattern that makes one possible.
    named_sections: {"op+op": [[op, lock], ...]}"""
    # (a) a read lock taken again while it is held (a queued writer in between blocks both)
    writers = {l for sec in named_sections.values() for op, l in sec if op in ("w_acq", "m_acq")}
    for names, sec in sorted(named_sections.items()):
        held = []
        for op, l in sec:
            if op.endswith("_acq"):
                if l in held and l in writers:
                    return "locks:deadlock:model:reacquired:%s:%s" % (l, names.split("+")[0])
                held.append(l)
            elif l in held:
                held.remove(l)
    # (b) two sections that take two locks in opposite orders: name the side fewer operations are on
    order = {}
    for names, sec in sorted(named_sections.items()):
        held = []
        for op, l in sec:
            if op.endswith("_acq"):
                for h in held:
                    if h != l:
                        order.setdefault((h, l), []).append(names)
                held.append(l)
            elif l in held:
                held.remove(l)
    for (a, b), who in sorted(order.items()):
        if (b, a) in order and a < b:
            w1, w2 = who, order[(b, a)]
            side, first, second = (w1, a, b) if len(w1) <= len(w2) else (w2, b, a)
            return "locks:deadlock:model:order:%s_before_%s:%s" % (first, second, side[0].split("+")[0])
    return "locks:deadlock:model"


def lock_protocols(out):
    """Per call: the sequence of (op, lock) acquisitions/releases on the named chain locks and the LMDB writer."""
    tx, hp = out["tx_addr"], out["hp_addr"]
    name = {tx: "tx", hp: "hp"}
    ev = out["events"]
    by_thread = {}
    for e in ev:
        by_thread.setdefault(e[1], []).append(e)
    protos = {}
    for c in out["calls"]:
        if "s0" not in c:
            continue
        seq = []
        for e in by_thread.get(c["t"], []):
            if c["s0"] < e[0] < c["s1"]:
                if e[3] in name and e[2] in ("w_acq", "w_rel", "r_acq", "r_rel"):
                    seq.append(e[2] + ":" + name[e[3]])
                elif e[2] in ("lmdb_begin", "lmdb_commit"):
                    seq.append(e[2])
        protos.setdefault(c["k"], set()).add(tuple(seq))
    return protos
