"""C17 helpers: turn the lock log of a real concurrent run into the linearised trace for ChainConcTrace."""
import json


def scenario_json(case):
    """Scenario file for the trace spec: tree as array (index = id), programs as array, pool as pairs."""
    tree = case["tree"]
    items = tree.items() if isinstance(tree, dict) else enumerate(tree)
    arr = [None] * len(tree)
    for k, v in items:
        arr[int(k)] = v
    progs = [case["threads"][str(t)] for t in range(1, len(case["threads"]) + 1)]
    pool = [[int(c), v] for c, v in sorted(case.get("pool", {}).items())]
    return {"trunk": case["trunk"], "tree": arr, "progs": progs, "pool": pool}


def linearise(case, out):
    """Returns (events for the trace spec, stats). Ordering key = global sequence numbers."""
    tx = out["tx_addr"]
    ev = out["events"]
    commits = [e[0] for e in ev if e[2] == "lmdb_commit"]
    items = []
    stats = {"sections": 0, "reads": 0, "heads": 0, "heads_ambiguous": 0, "vtx": 0}
    by_thread = {}
    for e in ev:
        by_thread.setdefault(e[1], []).append(e)
    for c in out["calls"]:
        t = c["t"]
        if c["k"] in ("ProcessBlock", "ProcessHeader"):
            # a section = w_acq(txhashset) .. w_rel(txhashset); its effects become visible at its last
            # LMDB commit (readers that take no chain lock read committed LMDB state), so that is its
            # position in the linearisation (w_rel when it commits nothing)
            evs = [e for e in by_thread.get(t, []) if c["s0"] < e[0] < c["s1"]]
            cur = None
            for e in evs:
                if e[2] == "w_acq" and e[3] == tx:
                    cur = {"acq": e[0], "commit": None}
                elif e[2] == "lmdb_commit" and cur is not None:
                    cur["commit"] = e[0]
                elif e[2] == "w_rel" and e[3] == tx and cur is not None:
                    items.append((cur["commit"] or e[0], {"k": "Sec", "t": t}))
                    stats["sections"] += 1
                    cur = None
            items.append((c["s1"], {"k": "End", "t": t, "i": c["i"], "res": c["res"]}))
        elif c["k"] == "GetUnspent":
            acq = [e[0] for e in by_thread.get(t, []) if c["s0"] < e[0] < c["s1"] and e[2] == "r_acq" and e[3] == tx]
            if acq and c["val"] >= -1:
                items.append((acq[0], {"k": "Read", "t": t, "c": c["c"], "val": c["val"]}))
                stats["reads"] += 1
        elif c["k"] == "Scan":
            acq = [e[0] for e in by_thread.get(t, []) if c["s0"] < e[0] < c["s1"] and e[2] == "r_acq" and e[3] == tx]
            if acq:
                items.append((acq[0], {"k": "Scan", "t": t, "ok": c["ok"], "cnt": c["cnt"], "nl": c["nl"]}))
                stats["scans"] = stats.get("scans", 0) + 1
        elif c["k"] == "ValidateTx":
            acq = [e[0] for e in by_thread.get(t, []) if c["s0"] < e[0] < c["s1"] and e[2] == "r_acq" and e[3] == tx]
            if acq:
                items.append((acq[0], {"k": "VTx", "t": t, "b": c["b"], "ok": c["ok"]}))
                stats["vtx"] = stats.get("vtx", 0) + 1
        elif c["k"] == "Head" and "head" in c and c["head"] is not None:
            if any(c["s0"] < s < c["s1"] for s in commits):
                stats["heads_ambiguous"] += 1      # a commit landed during the unlocked read: not placed
            else:
                items.append((c["s0"], {"k": "Head", "t": t, "head": c["head"]}))
                stats["heads"] += 1
    items.sort(key=lambda x: x[0])
    f = out["final"]
    fin = {"k": "Final", "head": f["head"], "hhead": f["hhead"], "nleaves": f["nleaves"],
           "unspent": [[int(c), h] for c, h in sorted(f["unspent"].items(), key=lambda x: int(x[0]))],
           "orph": f["orph"], "bodies": f["bodies"], "hdrs": f["hdrs"]}
    return [x[1] for x in items] + [fin], stats


def lock_protocols(out):
    """Per call: the sequence of (op, lock) acquisitions/releases on the named chain locks and the LMDB writer."""
    tx, hp = out["tx_addr"], out["hp_addr"]
    name = {tx: "tx", hp: "hp"}
    ev = out["events"]
    by_thread = {}
    for e in ev:
        by_thread.setdefault(e[1], []).append(e)
    protos = {}
    for c in out["calls"]:
        if "s0" not in c:
            continue
        seq = []
        for e in by_thread.get(c["t"], []):
            if c["s0"] < e[0] < c["s1"]:
                if e[3] in name and e[2] in ("w_acq", "w_rel", "r_acq", "r_rel"):
                    seq.append(e[2] + ":" + name[e[3]])
                elif e[2] in ("lmdb_begin", "lmdb_commit"):
                    seq.append(e[2])
        protos.setdefault(c["k"], set()).add(tuple(seq))
    return protos
