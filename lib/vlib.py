"""Shared driver library for /verif checks.

Contract (see DESIGN.md §2.6):
  exit 0  property held on everything explored (KNOWN-FINDING lines allowed)
  exit 1  + line "VIOLATION property=<id> replay=<path>"
  exit 2  tool error / timeout (never a verdict)
"""
import json, os, re, subprocess, sys, time, shutil, hashlib

VERIF = os.path.dirname(os.path.dirname(os.path.abspath(__file__)))
REPO = os.environ.get("VERIF_REPO", "/repo")
SPEC = os.path.join(VERIF, "spec")
HARNESS_DIR = os.environ.get("VERIF_HARNESS_DIR", os.path.join(VERIF, "harness"))
OUT = os.environ.get("VERIF_OUT", VERIF)   # where work/, evidence/, replays/ go (bin/mutcheck redirects it)
HARNESS_BINDIR = os.path.join(HARNESS_DIR, "target", "release")
TLA_JARS = "/opt/veriftools/tla/tla2tools.jar:/opt/veriftools/tla/CommunityModules-deps.jar"
TLA_LIB = ":".join([SPEC, os.path.join(SPEC, "mc"), os.path.join(SPEC, "trace")])


class ToolError(Exception):
    pass


def log(*a):
    print(*a, flush=True)


def seed():
    try:
        return int(os.environ.get("VERIF_SEED", "1"))
    except ValueError:
        return 1


def workdir(pid, sub=None, clean=False):
    d = os.path.join(OUT, "work", pid)
    if sub:
        d = os.path.join(d, sub)
    if clean and os.path.isdir(d):
        shutil.rmtree(d, ignore_errors=True)
    os.makedirs(d, exist_ok=True)
    return d


def build_harness(engines=None):
    """Rebuild the harness crates h_<engine> (and therefore the grin crates) from /repo's working tree."""
    t0 = time.time()
    env = dict(os.environ)
    env["CARGO_NET_OFFLINE"] = "true"
    lock = os.path.join(HARNESS_DIR, "Cargo.lock")
    if not os.path.exists(lock):
        shutil.copy(os.path.join(REPO, "Cargo.lock"), lock)
    cmd = ["cargo", "build", "--release", "--offline", "-q"]
    for e in (engines or []):
        cmd += ["-p", "h_" + e]
    for attempt in range(8):
        p = subprocess.run(cmd, cwd=HARNESS_DIR,
                           env=env, stdout=subprocess.PIPE, stderr=subprocess.STDOUT, text=True)
        # another engine's crate may be half-created while it is being developed: wait and retry
        if p.returncode != 0 and "failed to load manifest for workspace member" in p.stdout:
            time.sleep(10)
            continue
        break
    if p.returncode != 0:
        # A tree that does not compile is a tool error, not a verdict.
        sys.stdout.write(p.stdout[-6000:])
        raise ToolError("harness build failed")
    return time.time() - t0


def harness(args, stdin=None, timeout=3600, env=None, check=True, cwd=None):
    """args[0] is the engine name: runs target/release/h_<engine> args[1:]"""
    e = dict(os.environ)
    e.setdefault("RUST_BACKTRACE", "0")
    if env:
        e.update({k: str(v) for k, v in env.items()})
    try:
        p = subprocess.run([os.path.join(HARNESS_BINDIR, "h_" + args[0])] + [str(a) for a in args[1:]], input=stdin, stdout=subprocess.PIPE,
                           stderr=subprocess.PIPE, text=True, timeout=timeout, env=e, cwd=cwd)
    except subprocess.TimeoutExpired:
        raise ToolError("harness timeout: %s" % " ".join(map(str, args)))
    if check and p.returncode != 0:
        sys.stdout.write(p.stdout[-3000:])
        sys.stdout.write(p.stderr[-3000:])
        raise ToolError("harness failed (%d): %s" % (p.returncode, " ".join(map(str, args))))
    return p


class TlcResult:
    def __init__(self, out, rc, wall):
        self.out = out
        self.rc = rc
        self.wall = wall
        m = re.findall(r"(\d+) states generated, (\d+) distinct states found", out)
        self.generated = int(m[-1][0]) if m else 0
        self.distinct = int(m[-1][1]) if m else 0
        m = re.search(r"The depth of the complete state graph search is (\d+)", out)
        self.depth = int(m.group(1)) if m else None
        self.invariant_violated = re.findall(r"Invariant (\S+) is violated", out)
        self.property_violated = bool(re.search(r"Action property \S+ is violated|Temporal properties were violated", out))
        self.deadlock = "Deadlock reached" in out
        self.finished = "Model checking completed. No error has been found." in out
        self.post_failed = "is violated" in out and "Postcondition" in out or "POSTCONDITION" in out and "violated" in out
        self.error = bool(re.search(r"^Error:", out, re.M)) or "Exception" in out and not self.finished

    def printed(self, tag):
        """Lines produced by PrintT(<<tag, json>>): return the list of json payload strings."""
        res = []
        pat = re.compile(r'^<<"%s", "(.*)">>$' % re.escape(tag))
        for line in self.out.splitlines():
            m = pat.match(line)
            if m:
                res.append(unescape_tla(m.group(1)))
        return res

    def action_counts(self):
        """Per-action distinct-state counts from -coverage output: {name: (distinct, total)}"""
        res = {}
        for m in re.finditer(r"^<(\w+) line \d+, col \d+ to line \d+, col \d+ of module (\w+)>: (\d+):(\d+)", self.out, re.M):
            name = m.group(1)
            d, t = int(m.group(3)), int(m.group(4))
            od, ot = res.get(name, (0, 0))
            res[name] = (max(od, d), max(ot, t))
        return res


def unescape_tla(s):
    # TLC prints strings with \" and \\ escaped
    return s.replace('\\"', '"').replace("\\\\", "\\")


def tlc(module, cfg=None, workers=8, simulate=None, depth=None, coverage=True, env=None, timeout=1200,
        xmx="6g", deque=False, xss=None, metadir=None, extra=None, seed_=None, cwd=None, deadlock=False):
    """Run TLC on spec/<...>/module.tla. `module` may be a path relative to spec/ (e.g. mc/MC_MMR)."""
    path = os.path.join(SPEC, module + ".tla")
    if not os.path.exists(path):
        raise ToolError("no such spec " + path)
    cfgp = os.path.join(SPEC, (cfg or module) + ".cfg")
    md = metadir or workdir("tlc", hashlib.md5((module + str(cfg) + str(os.getpid()) + str(time.time_ns()) + str(seed_)).encode()).hexdigest()[:12], clean=True)
    jopts = ["-XX:+UseParallelGC", "-Xmx" + xmx, "-DTLA-Library=" + TLA_LIB]
    if xss:
        jopts.append("-Xss" + xss)
    if deque:
        jopts.append("-Dtlc2.tool.queue.IStateQueue=StateDeque")
    cmd = ["java"] + jopts + ["-cp", TLA_JARS, "tlc2.TLC", "-workers", str(workers), "-metadir", md,
                              "-cleanup", "-noGenerateSpecTE", "-config", cfgp]
    if coverage:
        cmd += ["-coverage", "1"]
    if not deadlock:
        cmd += ["-deadlock"]  # disable deadlock checking unless asked
    if simulate is not None:
        cmd += ["-simulate", "num=%d" % simulate]
        if depth:
            cmd += ["-depth", str(depth)]
        if seed_ is not None:
            cmd += ["-seed", str(seed_)]
    if extra:
        cmd += extra
    cmd.append(path)
    e = dict(os.environ)
    e.pop("JAVA_TOOL_OPTIONS", None)
    if env:
        e.update({k: str(v) for k, v in env.items()})
    t0 = time.time()
    try:
        p = subprocess.run(cmd, stdout=subprocess.PIPE, stderr=subprocess.STDOUT, text=True, timeout=timeout,
                           env=e, cwd=cwd or md)
    except subprocess.TimeoutExpired:
        raise ToolError("TLC timeout on " + module)
    finally:
        pass
    r = TlcResult(p.stdout, p.returncode, time.time() - t0)
    shutil.rmtree(md, ignore_errors=True)
    return r


def tlc_ok(r, what):
    """Require that a TLC run finished without any error; else raise ToolError (model problem)."""
    if not r.finished:
        sys.stdout.write(r.out[-5000:])
        raise ToolError("TLC did not complete cleanly: " + what)


def sany(module):
    path = os.path.join(SPEC, module + ".tla")
    p = subprocess.run(["java", "-DTLA-Library=" + TLA_LIB, "-cp", TLA_JARS, "tla2sany.SANY", path],
                       stdout=subprocess.PIPE, stderr=subprocess.STDOUT, text=True)
    ok = p.returncode == 0 and "Semantic errors" not in p.stdout and "Parse Error" not in p.stdout \
        and "Fatal errors" not in p.stdout and "Could not" not in p.stdout
    return ok, p.stdout


# ---------------------------------------------------------------------------------------
# known findings

def load_known():
    p = os.path.join(VERIF, "known_findings.json")
    if not os.path.exists(p):
        return []
    return json.load(open(p))["findings"]


class Report:
    """Collects violations / known findings for one check run and writes the evidence file."""

    def __init__(self, pid, tier, level):
        self.pid = pid
        self.tier = tier
        self.level = level
        self.t0 = time.time()
        self.violations = []   # (signature, replay_path, what)
        self.known_hit = {}    # signature -> what
        self.max_replays = 20
        self.coverage = {}
        self.assumptions = []
        self.known = [k for k in load_known() if k["property"] == pid and k["status"] == "known"]
        os.makedirs(os.path.join(OUT, "replays"), exist_ok=True)

    def violation(self, signature, replay_obj, what=""):
        """Record a violation with a narrow signature. Known signatures are downgraded."""
        for k in self.known:
            if k["signature"] == signature:
                if signature not in self.known_hit:
                    self.known_hit[signature] = k.get("what", what)
                return False
        if len(self.violations) >= self.max_replays:
            self.violations.append((signature, None, what))
            return True
        name = "%s_%s_%d.json" % (self.pid, re.sub(r"[^A-Za-z0-9_.-]+", "_", signature)[:80], len(self.violations))
        path = os.path.join(OUT, "replays", name)
        obj = {"property": self.pid, "signature": signature, "what": what, "seed": seed(), "tier": self.tier,
               "repo_head": repo_head(), "case": replay_obj}
        with open(path, "w") as f:
            json.dump(obj, f, indent=1, default=str)
        self.violations.append((signature, path, what))
        return True

    def finish(self, extra_cov=None):
        cov = dict(self.coverage)
        if extra_cov:
            cov.update(extra_cov)
        ev = {
            "property_id": self.pid,
            "tier": self.tier,
            "seed": seed(),
            "level": self.level,
            "coverage": cov,
            "assumptions": self.assumptions,
            "wall_s": round(time.time() - self.t0, 2),
            "violations": len(self.violations),
        }
        if self.known_hit:
            ev["known_findings_reproduced"] = sorted(self.known_hit)
        # a --replay run re-executes one saved case: its record goes next to the work files, not over the
        # evidence of the last full run; engines outside the property list (ids X..) have their own directory
        if "--replay" in sys.argv:
            edir, fname = os.path.join(OUT, "work", self.pid), "replay_evidence.json"
        elif self.pid.startswith("X"):
            edir, fname = os.path.join(OUT, "evidence_extra"), self.pid + ".json"
        else:
            edir, fname = os.path.join(OUT, "evidence"), self.pid + ".json"
        os.makedirs(edir, exist_ok=True)
        with open(os.path.join(edir, fname), "w") as f:
            json.dump(ev, f, indent=1, default=str)
        for sig, what in sorted(self.known_hit.items()):
            log("KNOWN-FINDING: property=%s %s [%s]" % (self.pid, what, sig))
        if self.violations:
            seen = set()
            for sig, path, what in self.violations:
                if path is None or path in seen:
                    continue
                seen.add(path)
                log("VIOLATION property=%s replay=%s" % (self.pid, path))
                log("  signature=%s %s" % (sig, what))
            return 1
        log("OK property=%s tier=%s wall=%.1fs" % (self.pid, self.tier, time.time() - self.t0))
        return 0


def repo_head():
    try:
        return subprocess.run(["git", "-C", REPO, "rev-parse", "--short", "HEAD"], stdout=subprocess.PIPE,
                              text=True).stdout.strip()
    except Exception:
        return "?"


def read_ndjson(path):
    res = []
    with open(path) as f:
        for line in f:
            line = line.strip()
            if line:
                res.append(json.loads(line))
    return res


def write_ndjson(path, items):
    with open(path, "w") as f:
        for it in items:
            f.write(json.dumps(it, separators=(",", ":")))
            f.write("\n")
