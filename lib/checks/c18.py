"""C18 — database batches are atomic, isolated and survive growth of the map (spec/KV.tla).

(M)  TLC: KV.tla exhaustively within small constants (several configs, see below).
(A)  TLC-generated behaviours replayed on a real grin_store::Store; after every action every
     inside read (batch.get_ser / exists / iter at the innermost level) and every outside read
     (store.get_ser / exists / iter on another thread, held iterators) must equal the model's.
(B1) writer threads + reader thread + iterator thread on a 1 MiB test-mode map that has to be
     enlarged; interval-stamped trace validated by spec/trace/KVTrace.tla.
(B2) child processes abort()ing right before / right after Batch::commit(); reopened contents
     validated by the same trace specification.
     The threaded runs include burst readers (back-to-back read transactions closed in parallel) and a
     watchdog: a store call that does not return (all threads blocked >= 30 s, re-confirmed for 15 s with
     a fresh probe call) is a violation kv:mt:hang:..., not a tool timeout.
(G)  directed scenario for the resize gate (KV!BeginWait / Resize / Admit): the enlargement is deferred
     because another thread holds an open iterator; the batch that waited for it then writes 200 KiB.
(P)  probe: is the head-room checked in Store::batch() still there once the write lock is held?
"""
import json, os, re, shutil
import vlib
from vlib import Report, ToolError, log

PID = "C18"
ENGINES = ["kv"]

MC_ACTIONS = ["MBegin", "MBeginWait", "MAdmit", "MChild", "MCommitChild", "MDropChild", "MCommit", "MDrop", "MResize", "MCrash",
              "MPut", "MDel", "MOutIterOpen", "MOutIterNext", "MOutIterClose",
              "MGet", "MExists", "MIter", "MOutGet", "MOutExists", "MOutIter"]
RACE_SIG = "kv:resize:stale_check:second_writer:mapfull"
GATE_SIG = "kv:resize:deferred:waiting_batch:mapfull"
# key-space size of the recorded runs; must equal NK in the trace configuration used
TRACE_CFG = {60: "trace/KVTrace", 100: "trace/KVTrace_thorough"}
T_ACTIONS = ["TBegin", "TPut", "TDel", "TGet", "TExists", "TIter", "TChild", "TCommitChild", "TDropChild", "TDrop",
             "TCommit", "TCrash", "TOutGet", "TOutExists", "TOutIter", "TReset"]
TCOUNTS = {}


def coverage_counts(out, prefix):
    """{action: total transitions} from -coverage 1 output (also the `\\E`-actions, which carry a
    location suffix that vlib.action_counts does not parse)."""
    res = {}
    for m in re.finditer(r"^<(%s\w+) line \d+, col \d+ to line \d+, col \d+ of module \w+(?: \([\d ]+\))?>: (\d+):(\d+)" % prefix, out, re.M):
        res[m.group(1)] = max(res.get(m.group(1), 0), int(m.group(3)))
    return res


def model_check(cfgs):
    states = trans = 0
    counts = {}
    per = {}
    for cfg in cfgs:
        r = vlib.tlc("mc/MC_KV", "mc/" + cfg, workers=4, timeout=1500)
        if r.invariant_violated or r.property_violated:
            print(r.out[-4000:])
            raise ToolError("KV.tla violates its own properties in %s (%s): the model is wrong" % (cfg, r.invariant_violated))
        vlib.tlc_ok(r, cfg)
        states += r.distinct
        trans += r.generated
        per[cfg] = {"states": r.distinct, "transitions": r.generated, "depth": r.depth, "wall_s": round(r.wall, 1)}
        for k, v in coverage_counts(r.out, "M").items():
            counts[k] = counts.get(k, 0) + v
    never = [a for a in MC_ACTIONS if counts.get(a, 0) == 0]
    if never:
        raise ToolError("model actions never taken (vacuous model check): %s" % never)
    # anti-vacuity for the resize gate: with the write transaction opened BEFORE the gate (TxnBeforeGate = TRUE)
    # the enlargement is refused and the model must run out of space
    r = vlib.tlc("mc/MC_KV", "mc/MC_KV_gateorder", workers=4, coverage=False, timeout=600)
    if "NoMapFull" not in " ".join(r.invariant_violated):
        print(r.out[-3000:])
        raise ToolError("MC_KV_gateorder: the careless gate order does not violate NoMapFull (vacuous resize-gate model)")
    per["MC_KV_gateorder"] = {"expected_violation": "NoMapFull", "states": r.distinct, "wall_s": round(r.wall, 1)}
    return states, trans, counts, per


def emit_behaviours(thorough):
    res = []
    cfg = "mc/MC_KV_emit_thorough" if thorough else "mc/MC_KV_emit"
    e = vlib.tlc("mc/MC_KV", cfg, workers=1, coverage=False, timeout=1500)
    vlib.tlc_ok(e, cfg)
    sysb = e.printed("KVBEH")
    n = 12000 if thorough else 1800
    s = vlib.tlc("mc/MC_KV", "mc/MC_KV_emitsim", workers=1, coverage=False, simulate=n, depth=15,
                 seed_=vlib.seed() * 7919 + 13, timeout=1500)
    simb = s.printed("KVBEH")
    if len(sysb) < 500 or len(simb) < n // 2:
        print(e.out[-1500:], s.out[-1500:])
        raise ToolError("too few behaviours emitted (%d systematic, %d random)" % (len(sysb), len(simb)))
    seen = set()
    for x in sysb + simb:
        if x not in seen:
            seen.add(x)
            res.append(json.loads(x))
    return res, len(sysb), len(simb)


def step_sig(beh, mm):
    st = mm.get("step", 0)
    act = beh[st]["a"]["k"] if isinstance(st, int) and st < len(beh) else "?"
    d = beh[st]["d"] if isinstance(st, int) and st < len(beh) else 0
    return "kv:replay:%s:after=%s:depth=%s" % (mm.get("op", "?"), act, d)


def replay_behaviours(rep, wd, behs, tag="cases"):
    """Run the harness on behaviours; returns (checks, action counts). Records violations."""
    cp = os.path.join(wd, tag + ".ndjson")
    vlib.write_ndjson(cp, behs)
    outp = os.path.join(wd, tag + "_out.ndjson")
    for f in (outp, outp + ".hang"):
        if os.path.exists(f):
            os.remove(f)
    p = vlib.harness(["kv", "replay", "--cases", cp, "--out", outp, "--dir", os.path.join(wd, "stores"),
                      "--ns", 2, "--nk", 3], check=False, timeout=1500)
    if os.path.exists(outp + ".hang"):
        h = json.load(open(outp + ".hang"))
        b = behs[h["behaviour"]]
        nxt = min(h["after_step"] + 1, len(b) - 1)
        rep.violation("kv:replay:hang:in=%s" % b[nxt]["a"]["k"],
                      {"kind": "behaviour", "behaviour": b, "hang": h},
                      "a store call never returned (>20 s) around step %d of %s" % (h["after_step"], [s["a"]["k"] for s in b]))
        return 0, {}
    if p.returncode < 0:
        done = len(vlib.read_ndjson(outp)) if os.path.exists(outp) else 0
        rep.violation("kv:replay:crash:signal=%d" % -p.returncode,
                      {"kind": "behaviour", "behaviour": behs[min(done, len(behs) - 1)]},
                      "harness killed by signal %d while replaying behaviour %d" % (-p.returncode, done))
        return 0, {}
    if p.returncode != 0:
        print(p.stdout[-2000:], p.stderr[-2000:])
        raise ToolError("kv replay failed")
    info = json.loads(p.stdout.strip().splitlines()[-1])
    res = vlib.read_ndjson(outp)
    for b, r in zip(behs, res):
        for mm in r["mismatches"][:1]:
            rep.violation(step_sig(b, mm), {"kind": "behaviour", "behaviour": b, "defdb": r.get("defdb"), "mismatch": mm},
                          json.dumps(mm)[:600])
    return info["checks"], info["actions"]


def validate_trace(path, what, nk=60):
    r = vlib.tlc("trace/KVTrace", TRACE_CFG[nk], workers=1, coverage=True, env={"TRACE": path}, xss="1g", xmx="4g", timeout=1500)
    if r.finished:
        for k, v in coverage_counts(r.out, "T").items():
            TCOUNTS[k] = TCOUNTS.get(k, 0) + v
        return True, None, r
    if "TRACE-REJECTED" in r.out:
        m = re.search(r'TRACE-REJECTED at event",\s*(\d+)', r.out)
        idx = int(m.group(1)) if m else 0
        evs = vlib.read_ndjson(path)
        ev = evs[idx - 1] if 0 < idx <= len(evs) else {"k": "eof"}
        ctx = None
        for e in evs[:idx]:
            if e.get("k") == "Reset":
                ctx = e
        return False, {"index": idx, "event": ev, "run": ctx}, r
    print(r.out[-4000:])
    raise ToolError("KVTrace failed without a verdict (%s)" % what)


def keep_trace(path, name):
    keep = os.path.join(vlib.OUT, "replays", name)
    os.makedirs(os.path.dirname(keep), exist_ok=True)
    shutil.copy(path, keep)
    return keep


def run_record(rep, wd, seed, writers, min_pages, tag, nk=60):
    tp = os.path.join(wd, "trace_%s.ndjson" % tag)
    args = ["kv", "record", "--dir", os.path.join(wd, "mt_" + tag), "--out", tp, "--seed", seed, "--writers", writers,
            "--batches", 120, "--min-pages", min_pages, "--max-batches", 1200, "--nk", nk]
    p = vlib.harness(args, check=False, timeout=600)
    case = {"kind": "record", "args": [str(a) for a in args[1:]]}
    if p.returncode < 0:
        rep.violation("kv:mt:crash:signal=%d" % -p.returncode, case,
                      "store under threads: process killed by signal %d (writers=%d seed=%d)" % (-p.returncode, writers, seed))
        return None
    if p.returncode != 0:
        print(p.stdout[-2000:], p.stderr[-2000:])
        raise ToolError("kv record failed")
    info = json.loads(p.stdout.strip().splitlines()[-1])
    if info.get("hang"):
        h = info["hang"]
        rep.violation("kv:mt:hang:%s:writer_in=%s" % (h["kind"], h.get("writer_in") or "none"), dict(case, hang=h),
                      "store calls never returned under threads (no progress for >= %s s, re-confirmed with a fresh probe call: "
                      "returned=%s) after %s commits at %s data pages; stuck threads: %s"
                      % (h["bound_s"], h["probe_exists_returned"], h["commits"], h["data_pages"],
                         ", ".join("%s in %s" % (t["role"], t["in"]) for t in h["threads"])))
        info["errors"] = [{"op": "hang", "class": h["kind"]}]
        return info
    for e in info["errors"][:2]:
        rep.violation("kv:mt:error:%s:%s" % (e["op"], e["class"]), case, "operation failed under threads: %s" % json.dumps(e))
    if info["errors"]:
        return info
    ok, why, _ = validate_trace(tp, "record " + tag, nk)
    if not ok:
        keep = keep_trace(tp, "C18_trace_%s_%d.ndjson" % (tag, seed))
        rep.violation("kv:trace:%s" % why["event"].get("k"), {"kind": "trace", "trace": keep, "nk": nk, "rejected": why, "record": case},
                      "recorded event not allowed by KV.tla: #%d %s" % (why["index"], json.dumps(why["event"])[:400]))
    info["trace"] = tp
    info["nk"] = nk
    return info


def run_crash(rep, wd, seed, runs):
    tp = os.path.join(wd, "crash.ndjson")
    args = ["kv", "crash", "--dir", os.path.join(wd, "crash"), "--out", tp, "--seed", seed, "--runs", runs, "--nk", 60]
    p = vlib.harness(args, timeout=900)
    info = json.loads(p.stdout.strip().splitlines()[-1])
    case = {"kind": "crash", "args": [str(a) for a in args[1:]]}
    for pr in info["problems"][:2]:
        what = "reopen" if "reopen_error" in pr else "child"
        rep.violation("kv:crash:%s:%s" % (what, pr["mode"]), case, "process-death run failed: %s" % json.dumps(pr)[:500])
    if len(info["runs"]) == 0:
        if not info["problems"]:
            raise ToolError("no crash run executed")
        return info
    ok, why, _ = validate_trace(tp, "crash")
    if not ok:
        keep = keep_trace(tp, "C18_crash_%d.ndjson" % seed)
        mode = (why.get("run") or {}).get("mode", "?")
        rep.violation("kv:crash:contents:%s:%s" % (mode, why["event"].get("k")), {"kind": "trace", "trace": keep, "nk": 60, "rejected": why},
                      "after abort() %s commit the reopened store is neither... expected exactly the %s-batch map: #%d %s"
                      % (mode, "pre" if mode == "before" else "post", why["index"], json.dumps(why["event"])[:300]))
    info["trace"] = tp
    return info


def run_race(rep, wd):
    """Head-room probe (two writers, both batches far below 10 % of the map)."""
    res = {}
    for mode in ("control", "raced"):
        p = vlib.harness(["kv", "race", "--dir", os.path.join(wd, "race"), "--mode", mode], timeout=120, check=False)
        try:
            res[mode] = json.loads(p.stdout.strip().splitlines()[-1])
        except Exception:
            # the probe is best effort (it depends on timing and on the exact fill level): never an error
            shutil.rmtree(os.path.join(wd, "race"), ignore_errors=True)
            return {"inconclusive": "probe %s run ended with rc=%s" % (mode, p.returncode)}
    shutil.rmtree(os.path.join(wd, "race"), ignore_errors=True)
    c, r = res["control"], res["raced"]
    if c["writer_a"] or c["writer_b"]:
        # even without the race a < 10 % batch failed: report as a plain space failure
        rep.violation("kv:resize:control:mapfull", {"kind": "race", "result": res}, "sequential writers failed: %s" % json.dumps(c))
    elif r["writer_a"] or r["writer_b"]:
        err = r["writer_a"] or r["writer_b"]
        if "MAP_FULL" in err:
            rep.violation(RACE_SIG, {"kind": "race", "result": res},
                          "Store::batch() checks needs_resize before taking the LMDB writer mutex: a second writer's "
                          "commit used up the head-room and a 72 KiB batch (< 10 %% of the 1 MiB map) failed: %s" % err)
        else:
            rep.violation("kv:resize:raced:error", {"kind": "race", "result": res}, "raced writers failed: %s" % err)
    return res


def run_gate(rep, wd):
    """Deferred enlargement: a reader holds an iterator when batch() finds the map > 90 % full; the batch waits at
    the gate, the reader closes, the map is enlarged, the batch writes 200 KiB (20 % of the OLD map, < 10 % of the new)."""
    res = None
    for attempt in (1, 2):
        d = os.path.join(wd, "gate")
        p = vlib.harness(["kv", "gate", "--dir", d, "--big", 200 * 1024], timeout=300, check=False)
        shutil.rmtree(d, ignore_errors=True)
        if p.returncode < 0:
            rep.violation("kv:resize:deferred:crash:signal=%d" % -p.returncode, {"kind": "gate"},
                          "deferred-resize scenario: process killed by signal %d" % -p.returncode)
            return {"class": "crash"}
        try:
            res = json.loads(p.stdout.strip().splitlines()[-1])
        except Exception:
            print(p.stdout[-1500:], p.stderr[-1500:])
            raise ToolError("kv gate gave no result")
        if res.get("class") != "hang" or attempt == 2:
            break
        log("kv gate: a store call did not return within %s s (%s); re-confirming once" % (res.get("bound_s"), res.get("phase")))
    res["attempts"] = attempt
    case = {"kind": "gate", "result": res}
    cls = res.get("class")
    if cls == "hang":
        rep.violation("kv:resize:deferred:hang:%s" % res.get("phase"), case,
                      "deferred-resize scenario: a store call did not return within %s s, twice: %s" % (res.get("bound_s"), json.dumps(res)))
    elif not res.get("reached"):
        if cls == "fill_error" and "MAP_FULL" in str(res.get("error")):
            rep.violation("kv:resize:fill:mapfull", case, "small batches (4 KiB) ran out of space while filling: %s" % json.dumps(res))
        else:
            raise ToolError("kv gate: the deferred-resize point was never reached: %s" % json.dumps(res))
    elif cls == "mapfull":
        rep.violation(GATE_SIG, case,
                      "a batch that had to wait at the resize gate for another thread's open iterator ran out of space after the "
                      "reader closed: map %s -> %s bytes, %s pages used, wrote %s bytes: %s"
                      % (res.get("map_at_wait"), res.get("map_after_gate"), res.get("pages_at_wait"), res.get("big_bytes"), res.get("error")))
    elif cls in ("error", "lost"):
        rep.violation("kv:resize:deferred:waiting_batch:%s" % cls, case, "deferred-resize scenario failed: %s" % json.dumps(res))
    return res


def selftest(rep, wd, behs, trace_path, nk):
    """The binding must be able to fail: a wrong expectation and a corrupted recorded field are rejected."""
    b = json.loads(json.dumps(next(x for x in behs if any(s["a"]["k"] == "Commit" and s["out"] != [[], []] for s in x))))
    i = next(i for i, s in enumerate(b) if s["a"]["k"] == "Commit" and s["out"] != [[], []])
    sp = 0 if b[i]["out"][0] else 1
    b[i]["out"][sp][0][1] = 3 - b[i]["out"][sp][0][1]      # committed value 1 <-> 2
    probe = Report(PID, "selftest", "model_checking")
    probe.known = []
    replay_behaviours(probe, wd, [b], tag="selftest")
    for _, path, _ in probe.violations:
        if path and os.path.exists(path):
            os.remove(path)
    if not probe.violations:
        raise ToolError("selftest: a corrupted expectation was not noticed by the replay")
    evs = vlib.read_ndjson(trace_path)
    cand = [i for i, e in enumerate(evs) if e["k"] == "OutIter" and len(e["res"]) >= 2 and e["lo"] == e["hi"]]
    if not cand:
        raise ToolError("selftest: no non-empty iterator observation in the trace")
    j = cand[len(cand) // 2]
    evs[j]["res"] = evs[j]["res"][1:]                          # the iterator "skipped" its first key
    bad = os.path.join(wd, "selftest_trace.ndjson")
    vlib.write_ndjson(bad, evs)
    ok, why, _ = validate_trace(bad, "selftest", nk)
    if ok or why["index"] != j + 1:
        raise ToolError("selftest: a corrupted iterator observation was not rejected at its event (%s)" % (why,))
    return {"corrupted_expectation_rejected": True, "corrupted_trace_rejected_at": j + 1}


def do_replay(rep, wd, obj):
    case = obj["case"]
    kind = case.get("kind")
    if kind == "behaviour":
        replay_behaviours(rep, wd, [case["behaviour"]], tag="replay")
    elif kind == "trace":
        ok, why, _ = validate_trace(case["trace"], "replay", case.get("nk", 60))
        if not ok:
            rep.violation(obj["signature"], case, json.dumps(why)[:600])
    elif kind == "record":
        a = case["args"]
        g = lambda k: int(a[a.index(k) + 1])
        run_record(rep, wd, g("--seed"), g("--writers"), g("--min-pages"), "replay", g("--nk"))
    elif kind == "crash":
        a = case["args"]
        g = lambda k: int(a[a.index(k) + 1])
        run_crash(rep, wd, g("--seed"), g("--runs"))
    elif kind == "race":
        run_race(rep, wd)
    elif kind == "gate":
        run_gate(rep, wd)
    else:
        raise ToolError("unknown replay kind %r" % kind)
    rep.coverage = {"states": 1, "transitions": 1, "traces_validated_against_impl": 1, "samples": [obj["signature"]]}
    return rep.finish()


def run(tier, replay):
    rep = Report(PID, tier, "model_checking")
    wd = vlib.workdir(PID, clean=True)
    thorough = tier == "thorough"
    if replay:
        return do_replay(rep, wd, json.load(open(replay)))
    seed = vlib.seed()

    # (M) the specification itself
    cfgs = ["MC_KV", "MC_KV_reads", "MC_KV_resize"]
    if thorough:
        cfgs = ["MC_KV_thorough", "MC_KV_wide", "MC_KV_reads", "MC_KV_resize"]
    states, trans, mc_counts, per_cfg = model_check(cfgs)

    # (A) behaviours -> real Store
    behs, nsys, nsim = emit_behaviours(thorough)
    checks, replayed_actions = replay_behaviours(rep, wd, behs)
    if rep.violations:
        rep.coverage = {"states": states, "transitions": trans, "traces_validated_against_impl": len(behs),
                        "samples": [{"behaviour": [s["a"]["k"] for s in behs[0]]}], "stopped_after": "replay"}
        return rep.finish()
    need = ["Begin", "Put", "Del", "Child", "CommitChild", "DropChild", "Commit", "Drop", "Crash",
            "OutIterOpen", "OutIterNext", "OutIterClose"]
    missing = [a for a in need if replayed_actions.get(a, 0) == 0]
    if missing:
        raise ToolError("replayed behaviours never contain %s" % missing)
    deep = sum(1 for b in behs if max(s["d"] for s in b) >= 3)

    # (G) deferred enlargement: the waiting batch must find the enlarged map (directed, ~1 s; before the random
    # threaded runs so that a failure gets its own narrow signature)
    gate = run_gate(rep, wd)
    if rep.violations:
        rep.coverage = {"states": states, "transitions": trans, "traces_validated_against_impl": len(behs),
                        "samples": [{"deferred_resize_scenario": gate}], "stopped_after": "gate"}
        return rep.finish()

    # (B1) threads + map growth
    recs = []
    plan = [(seed * 10 + 1, 2, 480, "w2", 60), (seed * 10 + 2, 1, 480, "w1", 60)]
    if thorough:
        # NK = 100: enough live data for a third resize (map 5 MiB)
        plan = [(seed * 10 + i, 2 if i % 3 else 1, 740 if i % 2 else 480, "r%d" % i, 100 if i % 2 else 60) for i in range(1, 7)]
    for s, writers, pages, tag, nk in plan:
        info = run_record(rep, wd, s, writers, pages, tag, nk)
        if info is None or info.get("errors"):
            break
        if not info.get("map_size") or info["map_size"] <= 1048576:
            raise ToolError("the workload did not force a map resize (map_size=%s)" % info.get("map_size"))
        recs.append(info)
    if rep.violations:
        rep.coverage = {"states": states, "transitions": trans, "traces_validated_against_impl": len(behs) + len(recs),
                        "samples": [{"behaviour": [s["a"]["k"] for s in behs[0]]}], "stopped_after": "record"}
        return rep.finish()

    # (B2) process death around commit()
    crash = run_crash(rep, wd, seed, 24 if thorough else 8)

    st = selftest(rep, wd, behs, recs[0]["trace"], recs[0]["nk"]) if recs and not rep.violations else None

    # (P) stale head-room check with two writers
    race = run_race(rep, wd)

    never = [a for a in T_ACTIONS if TCOUNTS.get(a, 0) == 0]
    if never and not rep.violations:
        raise ToolError("trace-specification actions never taken (vacuous validation): %s" % never)

    sample_b = next((b for b in behs if max(s["d"] for s in b) >= 3 and any(s["a"]["k"] == "Commit" for s in b)), behs[0])
    rep.coverage = {
        "states": states, "transitions": trans,
        "traces_validated_against_impl": len(behs) + len(recs) + len(crash["runs"]),
        "samples": [{"behaviour": sample_b},
                    {"mt_trace_head": vlib.read_ndjson(recs[0]["trace"])[:6] if recs else []},
                    {"crash_runs": crash["runs"][:3]}],
        "exhaustive": True,
        "model_configs": per_cfg,
        "model_action_transitions": mc_counts,
        "behaviours_replayed": len(behs), "behaviours_systematic": nsys, "behaviours_random_walks": nsim,
        "behaviours_reaching_depth_3": deep,
        "replay_read_comparisons": checks, "replayed_action_counts": replayed_actions,
        "mt_runs": [{k: r[k] for k in ("events", "batches", "commits", "concurrent_observations", "map_size", "nk",
                                       "data_file_bytes", "max_batch_growth_pages", "wall_ms", "defdb",
                                       "burst_reader_threads", "burst_reads", "stalls_recovered")} for r in recs],
        "map_resizes_forced": [{1: 0, 2: 1, 3: 2, 4: 3, 5: 3}.get(r["map_size"] // 1048576, 4) for r in recs],
        "crash_runs": len(crash["runs"]), "crash_trace_events": crash["events"],
        "trace_action_counts": dict(TCOUNTS),
        "deferred_resize_scenario": gate,
        "headroom_probe": race,
        "selftest": st,
        "checker_cmd": "tlc mc/MC_KV (%s); h_kv replay; h_kv record + tlc trace/KVTrace; h_kv crash + tlc trace/KVTrace; h_kv gate; h_kv race" % ",".join(cfgs),
    }
    rep.assumptions = [
        "LMDB itself (lmdb-master-sys / heed 0.22) is trusted for page-level atomicity and fsync; the check observes it only through grin_store's API",
        "per-batch allocation <= 40 KiB of values (<= 24 pages = the 10 % of the initial 1 MiB test-mode map that needs_resize keeps free when a batch is opened, shared by the queued writer threads): KV!BatchMax",
        "process death = abort() of the process; power loss / torn sector writes are not modelled",
        "direction A uses AutomatedTesting (1 MiB chunk) and tiny values: no resize happens there; resizes are exercised in direction B only",
        "a hang is a store call that has not returned after 30 s while every other thread is blocked too and a fresh probe call "
        "does not return within 15 more seconds (or a single call stuck for 135 s)",
        "outside observations are validated as 'equal to one committed version inside the call's commit-counter interval' (no wall-clock ordering)",
        "Crash in direction A = close without commit and reopen in the same process; real process kills are direction B(ii)",
    ]
    return rep.finish()
