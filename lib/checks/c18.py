"""C18 — database batches are atomic, isolated and survive growth of the map (spec/KV.tla).

(M)  TLC: KV.tla exhaustively within small constants (several configs, see below).
(A)  TLC-generated behaviours replayed on a real grin_store::Store; after every action every
     inside read (batch.get_ser / exists / iter at the innermost level) and every outside read
     (store.get_ser / exists / iter on another thread, held iterators) must equal the model's.
(B1) writer threads + reader thread + iterator thread on a 1 MiB test-mode map that has to be
     enlarged; interval-stamped trace validated by spec/trace/KVTrace.tla.
(B2) child processes abort()ing right before / right after Batch::commit(); reopened contents
     validated by the same trace specification.
     The threaded runs include burst readers (back-to-back read transactions closed in parallel) and a
     watchdog: a store call that does not return (all threads blocked >= 30 s, re-confirmed for 15 s with
     a fresh probe call) is a violation kv:mt:hang:..., not a tool timeout.
(G)  directed scenario for the resize gate (KV!BeginWait / Resize / Admit): the enlargement is deferred
     because another thread holds an open iterator; the batch that waited for it then writes 200 KiB.
(N)  directed scenario for per-thread nesting (KV!Entered / Left / CanEnter, NoHolderParked, GateLive): ONE thread holds a
     store iterator, looks its items up, writes and opens further transactions while the data crosses 90 % of the map -
     once with its own batch() asking for the enlargement, once with another thread's; supervised (a call that does not
     return is a hang verdict), recorded and validated by KVTrace.tla (iterators held across other calls).
(F)  directed scenario for reads in flight (KV!ReadBegin .. ReadEnd, CountAgrees, NoRemapUnderTxn): a Store::get_ser is
     stopped in the middle of its value while a writer needs the enlargement: the writer must stall, the mapping of the
     data file must stay, the released read must yield the committed value; the process is supervised (a SIGSEGV of the
     code under test is a verdict); recorded and validated by KVTrace.tla.
(R)  restart: a db grown past one chunk is closed and reopened; the map must come back as persisted (KV!Crash, HeadroomKept) and
     the first write - under the writer's own iterator - must have the room it had before.
(L)  the letter of "no operation fails for lack of space": MC_KV_bigbatch / MC_KV_squeeze violate NoMapFull (no assumption on
     callers); each counterexample is run on the real Store by one deterministic scenario (h_kv bigbatch / squeeze).
(P)  probe: is the head-room checked in Store::batch() still there once the write lock is held?
(C)  chain/src/store.rs: the behaviours of (A) that nest or commit, replayed on a real grin_chain::ChainStore through its typed
     accessors (save/get block sums, spent index, output_pos index, output_pos_iter; ChainStore::batch / Batch::child / commit);
     every batch-scoped getter and every ChainStore getter after every action.
(S)  production-mode sizing (KV!NeedsResize `mapSize < Chunk`, MC_KV_prodchunk): h_kv prodsize - Mainnet chain type, 128 MiB chunk,
     the first batch() must enlarge LMDB's initial map to one chunk; 3 MiB then go in in 64 KiB batches.
(X)  h_kv crashresize: the process is killed while an enlargement is pending (writer parked at the gate), right after it, and
     after the first commit on the new map; restarted on its files: every returned commit is there, the next rewrites fit.
(K)  iterator key paging (KV!OutIterNext page-shaped: KeyPage / skip_cur / skip_total, PageWalk, IterInOrder; careless variant
     MC_KV_pageskip): h_kv pages - 30 011 keys, store iterators (through a SECOND Store handle on the environment) walked across
     every 10 000-key page boundary while another thread commits deletes / inserts in every page, at and between the
     boundaries; Batch::iter over the uncommitted writes of a batch and of its child; the expected list is the snapshot.
(W)  rewrite under a pinned reader (KV!NeedsResize measures by the LAST PAGE; careless variant MC_KV_livesized must violate
     NoMapFull): h_kv rewrite - 640 KiB of values rewritten 48 KiB at a time while another thread's iterator (second handle,
     dropped and reopened mid-run) pins the snapshot: the file grows although the live data does not; when the last page says
     an enlargement is due, batch() of a thread that holds nothing must park and come back on the enlarged map, and no batch
     may fail with MDB_MAP_FULL. An enlargement that is due and not carried out is a VERDICT (also in (N)), not vacuity.
"""
import json, os, re, shutil, time
import vlib
from vlib import Report, ToolError, log

PID = "C18"
ENGINES = ["kv"]

MC_ACTIONS = ["MBegin", "MBeginWait", "MAdmit", "MChild", "MCommitChild", "MDropChild", "MCommit", "MDrop", "MResize", "MCrash",
              "MPut", "MDel", "MOutIterOpen", "MOutIterNext", "MOutIterClose", "MReadBegin", "MReadEnd",
              "MGet", "MExists", "MIter", "MOutGet", "MOutExists", "MOutIter"]
# careless variants of the model (anti-vacuity): configuration -> what TLC has to report
CARELESS = [("MC_KV_gateorder", "NoMapFull"),            # write_txn() before enter_tx()
            ("MC_KV_nestedmark", "NoHolderParked"),      # a nested close wipes the thread's mark
            ("MC_KV_nestedmark_dl", "deadlock"),         # ... and then nothing ever moves again
            ("MC_KV_readcount", "NoRemapUnderTxn"),      # a plain read is not counted while it is in flight
            ("MC_KV_reopenclamp", "prop:HeadroomKept"),  # a restart clamps the map to the size of the data
            ("MC_KV_pageskip", "PageWalk"),              # load_next_keys() skips skip_cur instead of skip_total keys
            ("MC_KV_pagesnap", "prop:IterInOrder"),      # a fresh read transaction (snapshot) for every further page of keys
            ("MC_KV_livesized", "NoMapFull")]            # env_size() from the live pages instead of the last page number
# the letter of the property ("no operation fails for lack of space", no assumption on callers): the code's policy - enlarge only
# between batches, never under the caller's own transaction - cannot hold NoMapFull. TLC must find the violation; its
# counterexample is then run on the real Store (a verdict only if reproduced there)
LETTER = [("MC_KV_bigbatch", "NoMapFull"), ("MC_KV_squeeze", "NoMapFull")]
BIGBATCH_SIG = "kv:batch:larger_than_headroom:mapfull"
SQUEEZE_SIG = "kv:resize:own_iterator:squeezed_batch:mapfull"
NESTED_SIG = "kv:nested:resize_deadlock:iterator_held"
INFLIGHT_SIG = "kv:resize:inflight_read_not_counted"
INFLIGHT_CRASH_SIG = "kv:resize:under_inflight_read:crash"
RACE_SIG = "kv:resize:stale_check:second_writer:mapfull"
GATE_SIG = "kv:resize:deferred:waiting_batch:mapfull"
DUE_SIG = "kv:resize:due_not_enlarged"          # + :<scenario>:<detail>
# key-space size of the recorded runs; must equal NK in the trace configuration used
TRACE_CFG = {60: "trace/KVTrace", 100: "trace/KVTrace_thorough"}
T_ACTIONS = ["TBegin", "TPut", "TDel", "TGet", "TExists", "TIter", "TChild", "TCommitChild", "TDropChild", "TDrop",
             "TCommit", "TCrash", "TOutGet", "TOutExists", "TOutIter", "TReset",
             "TOutIterOpen", "TOutIterNext", "TOutIterClose", "TReadBegin", "TReadEnd"]
TCOUNTS = {}


def coverage_counts(out, prefix):
    """{action: total transitions} from -coverage 1 output (also the `\\E`-actions, which carry a
    location suffix that vlib.action_counts does not parse)."""
    res = {}
    for m in re.finditer(r"^<(%s\w+) line \d+, col \d+ to line \d+, col \d+ of module \w+(?: \([\d ]+\))?>: (\d+):(\d+)" % prefix, out, re.M):
        res[m.group(1)] = max(res.get(m.group(1), 0), int(m.group(3)))
    return res


def model_check(cfgs):
    """All TLC runs of the specification itself: the property configurations (must hold, every action taken), the
    deadlock-freedom run and the careless variants (must fail in the expected way). Two runs at a time (3 + 1 workers)."""
    from concurrent.futures import ThreadPoolExecutor
    jobs = [(c, "hold") for c in cfgs] + [("MC_KV_live", "live")] + CARELESS + LETTER

    BIG = ("MC_KV", "MC_KV_thorough", "MC_KV_wide", "MC_KV_reads", "MC_KV_full", "MC_KV_resize_full", "MC_KV_resize", "MC_KV_prodchunk")

    NOCOV = ("MC_KV", "MC_KV_thorough", "MC_KV_wide", "MC_KV_full")

    def lane(mine):
        # the large data configurations run without -coverage (their actions are all taken in the smaller ones, which are counted)
        return [((cfg, kind), vlib.tlc("mc/MC_KV", "mc/" + cfg, workers=3 if cfg in BIG else 1, coverage=(kind == "hold" and cfg not in NOCOV),
                                       timeout=1500, deadlock=(kind in ("live", "deadlock")))) for cfg, kind in mine]
    with ThreadPoolExecutor(max_workers=2) as ex:
        a = ex.submit(lane, [j for j in jobs if j[0] in BIG])
        b = ex.submit(lane, [j for j in jobs if j[0] not in BIG])
        results = a.result() + b.result()
    states = trans = 0
    counts = {}
    per = {}
    for (cfg, kind), r in results:
        if kind in ("hold", "live"):
            if r.invariant_violated or r.property_violated or r.deadlock:
                print(r.out[-4000:])
                raise ToolError("KV.tla violates its own properties in %s (%s%s): the model is wrong"
                                % (cfg, r.invariant_violated, " deadlock" if r.deadlock else ""))
            vlib.tlc_ok(r, cfg)
            states += r.distinct
            trans += r.generated
            per[cfg] = {"states": r.distinct, "transitions": r.generated, "depth": r.depth, "wall_s": round(r.wall, 1)}
            if kind == "live":
                per[cfg]["deadlock_checking"] = True
            for k, v in coverage_counts(r.out, "M").items():
                counts[k] = counts.get(k, 0) + v
        else:
            # anti-vacuity: the careless variant must break exactly the invariant that guards against it
            if kind == "deadlock":
                got = r.deadlock
            elif kind.startswith("prop:"):
                got = kind[5:] in re.findall(r"Action property (\S+) is violated", r.out)
            else:
                got = kind in " ".join(r.invariant_violated)
            if not got:
                print(r.out[-3000:])
                raise ToolError("%s: the variant does not violate %s (vacuous model)" % (cfg, kind))
            per[cfg] = {"expected_violation": kind, "states": r.distinct, "wall_s": round(r.wall, 1)}
            if (cfg, kind) in LETTER or cfg == "MC_KV_livesized":
                # the counterexample, as action labels (what the directed scenario then does to the real Store)
                per[cfg]["counterexample"] = [re.sub(r"\s+", " ", a) for a in re.findall(r"/\\ act = (\[.*?\])\n", r.out)][1:]
    never = [a for a in MC_ACTIONS if counts.get(a, 0) == 0]
    if never:
        raise ToolError("model actions never taken (vacuous model check): %s" % never)
    return states, trans, counts, per


def emit_behaviours(thorough):
    res = []
    cfg = "mc/MC_KV_emit_thorough" if thorough else "mc/MC_KV_emit"
    from concurrent.futures import ThreadPoolExecutor
    n = 12000 if thorough else 1800
    with ThreadPoolExecutor(max_workers=2) as ex:
        fe = ex.submit(vlib.tlc, "mc/MC_KV", cfg, workers=1, coverage=False, timeout=1500)
        fs = ex.submit(vlib.tlc, "mc/MC_KV", "mc/MC_KV_emitsim", workers=1, coverage=False, simulate=n, depth=15,
                       seed_=vlib.seed() * 7919 + 13, timeout=1500)
        e, s = fe.result(), fs.result()
    vlib.tlc_ok(e, cfg)
    sysb = e.printed("KVBEH")
    simb = s.printed("KVBEH")
    if len(sysb) < 500 or len(simb) < n // 2:
        print(e.out[-1500:], s.out[-1500:])
        raise ToolError("too few behaviours emitted (%d systematic, %d random)" % (len(sysb), len(simb)))
    seen = set()
    for x in sysb + simb:
        if x not in seen:
            seen.add(x)
            res.append(json.loads(x))
    return res, len(sysb), len(simb)


def step_sig(beh, mm):
    st = mm.get("step", 0)
    act = beh[st]["a"]["k"] if isinstance(st, int) and st < len(beh) else "?"
    d = beh[st]["d"] if isinstance(st, int) and st < len(beh) else 0
    return "kv:replay:%s:after=%s:depth=%s" % (mm.get("op", "?"), act, d)


def replay_shard(wd, behs, tag):
    """One harness process over `behs`; returns (violations [(signature, case, what)], checks, action counts)."""
    cp = os.path.join(wd, tag + ".ndjson")
    vlib.write_ndjson(cp, behs)
    outp = os.path.join(wd, tag + "_out.ndjson")
    for f in (outp, outp + ".hang"):
        if os.path.exists(f):
            os.remove(f)
    p = vlib.harness(["kv", "replay", "--cases", cp, "--out", outp, "--dir", os.path.join(wd, "stores_" + tag),
                      "--ns", 2, "--nk", 3], check=False, timeout=1500)
    if os.path.exists(outp + ".hang"):
        h = json.load(open(outp + ".hang"))
        b = behs[h["behaviour"]]
        nxt = min(h["after_step"] + 1, len(b) - 1)
        return [("kv:replay:hang:in=%s" % b[nxt]["a"]["k"], {"kind": "behaviour", "behaviour": b, "hang": h},
                 "a store call never returned (>20 s) around step %d of %s" % (h["after_step"], [s["a"]["k"] for s in b]))], 0, {}
    if p.returncode < 0:
        done = len(vlib.read_ndjson(outp)) if os.path.exists(outp) else 0
        return [("kv:replay:crash:signal=%d" % -p.returncode, {"kind": "behaviour", "behaviour": behs[min(done, len(behs) - 1)]},
                 "harness killed by signal %d while replaying behaviour %d" % (-p.returncode, done))], 0, {}
    if p.returncode != 0:
        print(p.stdout[-2000:], p.stderr[-2000:])
        raise ToolError("kv replay failed")
    info = json.loads(p.stdout.strip().splitlines()[-1])
    res = vlib.read_ndjson(outp)
    viol = []
    for b, r in zip(behs, res):
        for mm in r["mismatches"][:1]:
            viol.append((step_sig(b, mm), {"kind": "behaviour", "behaviour": b, "defdb": r.get("defdb"), "mismatch": mm}, json.dumps(mm)[:600]))
    return viol, info["checks"], info["actions"]


def replay_behaviours(rep, wd, behs, tag="cases"):
    """Run the harness on behaviours; returns (checks, action counts). Records violations.
    The replay waits for the disk (every Commit is an fsync): three harness processes share the behaviours."""
    from concurrent.futures import ThreadPoolExecutor
    k = 3 if len(behs) >= 300 else 1
    shards = [behs[i::k] for i in range(k)]
    with ThreadPoolExecutor(max_workers=k) as ex:
        results = list(ex.map(lambda x: replay_shard(wd, x[1], "%s%d" % (tag, x[0]) if k > 1 else tag), enumerate(shards)))
    checks, actions = 0, {}
    for viol, c, a in results:
        for sig, case, what in viol:
            rep.violation(sig, case, what)
        checks += c
        for key, v in a.items():
            actions[key] = actions.get(key, 0) + v
    return checks, actions


def chain_sig(beh, mm):
    st = mm.get("step", 0)
    act = beh[st]["a"]["k"] if isinstance(st, int) and st < len(beh) else "?"
    d = beh[st]["d"] if isinstance(st, int) and st < len(beh) else 0
    return "kv:chainstore:%s:after=%s:depth=%s" % (mm.get("op", "?"), act, d)


def replay_chainstore(rep, wd, behs, tag="chaincases"):
    """(C) the same behaviours on a real grin_chain::ChainStore through its typed accessors (chain/src/store.rs): block sums / spent
    index and the output_pos index; every batch-scoped getter and iterator after every action. Returns (checks, actions, n)."""
    cp = os.path.join(wd, tag + ".ndjson")
    vlib.write_ndjson(cp, behs)
    outp = os.path.join(wd, tag + "_out.ndjson")
    for f in (outp, outp + ".hang"):
        if os.path.exists(f):
            os.remove(f)
    p = vlib.harness(["kv", "chainreplay", "--cases", cp, "--out", outp, "--dir", os.path.join(wd, "stores_" + tag), "--nk", 3],
                     check=False, timeout=900)
    if os.path.exists(outp + ".hang"):
        h = json.load(open(outp + ".hang"))
        b = behs[h["behaviour"]]
        rep.violation("kv:chainstore:hang:in=%s" % b[min(h["after_step"] + 1, len(b) - 1)]["a"]["k"], {"kind": "chain_behaviour", "behaviour": b, "hang": h},
                      "a ChainStore call never returned (>20 s) around step %d of %s" % (h["after_step"], [s["a"]["k"] for s in b]))
        return 0, {}, 0
    if p.returncode < 0:
        done = len(vlib.read_ndjson(outp)) if os.path.exists(outp) else 0
        rep.violation("kv:chainstore:crash:signal=%d" % -p.returncode, {"kind": "chain_behaviour", "behaviour": behs[min(done, len(behs) - 1)]},
                      "harness killed by signal %d while replaying behaviour %d on a ChainStore" % (-p.returncode, done))
        return 0, {}, 0
    if p.returncode != 0:
        print(p.stdout[-2000:], p.stderr[-2000:])
        raise ToolError("kv chainreplay failed")
    info = json.loads(p.stdout.strip().splitlines()[-1])
    res = vlib.read_ndjson(outp)
    n = 0
    for b, r in zip(behs, res):
        for mm in r["mismatches"][:1]:
            if n < 3:
                rep.violation(chain_sig(b, mm), {"kind": "chain_behaviour", "behaviour": b, "spent_index": r.get("spent_index"), "mismatch": mm}, json.dumps(mm)[:600])
            n += 1
    return info["checks"], info["actions"], len(behs)


def validate_trace(path, what, nk=60):
    r = vlib.tlc("trace/KVTrace", TRACE_CFG[nk], workers=1, coverage=True, env={"TRACE": path}, xss="1g", xmx="4g", timeout=1500)
    if r.finished:
        for k, v in coverage_counts(r.out, "T").items():
            TCOUNTS[k] = TCOUNTS.get(k, 0) + v
        return True, None, r
    if "TRACE-REJECTED" in r.out:
        m = re.search(r'TRACE-REJECTED at event",\s*(\d+)', r.out)
        idx = int(m.group(1)) if m else 0
        evs = vlib.read_ndjson(path)
        ev = evs[idx - 1] if 0 < idx <= len(evs) else {"k": "eof"}
        ctx = None
        for e in evs[:idx]:
            if e.get("k") == "Reset":
                ctx = e
        return False, {"index": idx, "event": ev, "run": ctx}, r
    print(r.out[-4000:])
    raise ToolError("KVTrace failed without a verdict (%s)" % what)


def keep_trace(path, name):
    keep = os.path.join(vlib.OUT, "replays", name)
    os.makedirs(os.path.dirname(keep), exist_ok=True)
    shutil.copy(path, keep)
    return keep


def run_record(rep, wd, seed, writers, min_pages, tag, nk=60):
    tp = os.path.join(wd, "trace_%s.ndjson" % tag)
    args = ["kv", "record", "--dir", os.path.join(wd, "mt_" + tag), "--out", tp, "--seed", seed, "--writers", writers,
            "--batches", 120, "--min-pages", min_pages, "--max-batches", 1200, "--nk", nk]
    p = vlib.harness(args, check=False, timeout=600)
    case = {"kind": "record", "args": [str(a) for a in args[1:]]}
    if p.returncode < 0:
        rep.violation("kv:mt:crash:signal=%d" % -p.returncode, case,
                      "store under threads: process killed by signal %d (writers=%d seed=%d)" % (-p.returncode, writers, seed))
        return None
    if p.returncode != 0:
        print(p.stdout[-2000:], p.stderr[-2000:])
        raise ToolError("kv record failed")
    info = json.loads(p.stdout.strip().splitlines()[-1])
    if info.get("hang"):
        h = info["hang"]
        rep.violation("kv:mt:hang:%s:writer_in=%s" % (h["kind"], h.get("writer_in") or "none"), dict(case, hang=h),
                      "store calls never returned under threads (no progress for >= %s s, re-confirmed with a fresh probe call: "
                      "returned=%s) after %s commits at %s data pages; stuck threads: %s"
                      % (h["bound_s"], h["probe_exists_returned"], h["commits"], h["data_pages"],
                         ", ".join("%s in %s" % (t["role"], t["in"]) for t in h["threads"])))
        info["errors"] = [{"op": "hang", "class": h["kind"]}]
        return info
    for e in info["errors"][:2]:
        rep.violation("kv:mt:error:%s:%s" % (e["op"], e["class"]), case, "operation failed under threads: %s" % json.dumps(e))
    if info["errors"]:
        return info
    ok, why, _ = validate_trace(tp, "record " + tag, nk)
    if not ok:
        keep = keep_trace(tp, "C18_trace_%s_%d.ndjson" % (tag, seed))
        rep.violation("kv:trace:%s" % why["event"].get("k"), {"kind": "trace", "trace": keep, "nk": nk, "rejected": why, "record": case},
                      "recorded event not allowed by KV.tla: #%d %s" % (why["index"], json.dumps(why["event"])[:400]))
    info["trace"] = tp
    info["nk"] = nk
    return info


def run_crash(rep, wd, seed, runs):
    tp = os.path.join(wd, "crash.ndjson")
    args = ["kv", "crash", "--dir", os.path.join(wd, "crash"), "--out", tp, "--seed", seed, "--runs", runs, "--nk", 60]
    p = vlib.harness(args, timeout=900)
    info = json.loads(p.stdout.strip().splitlines()[-1])
    case = {"kind": "crash", "args": [str(a) for a in args[1:]]}
    for pr in info["problems"][:2]:
        what = "reopen" if "reopen_error" in pr else "child"
        rep.violation("kv:crash:%s:%s" % (what, pr["mode"]), case, "process-death run failed: %s" % json.dumps(pr)[:500])
    if len(info["runs"]) == 0:
        if not info["problems"]:
            raise ToolError("no crash run executed")
        return info
    ok, why, _ = validate_trace(tp, "crash")
    if not ok:
        keep = keep_trace(tp, "C18_crash_%d.ndjson" % seed)
        mode = (why.get("run") or {}).get("mode", "?")
        rep.violation("kv:crash:contents:%s:%s" % (mode, why["event"].get("k")), {"kind": "trace", "trace": keep, "nk": 60, "rejected": why},
                      "after abort() %s commit the reopened store is neither... expected exactly the %s-batch map: #%d %s"
                      % (mode, "pre" if mode == "before" else "post", why["index"], json.dumps(why["event"])[:300]))
    info["trace"] = tp
    return info


def run_race(rep, wd):
    """Head-room probe (two writers, both batches far below 10 % of the map)."""
    res = {}
    for mode in ("control", "raced"):
        p = vlib.harness(["kv", "race", "--dir", os.path.join(wd, "race"), "--mode", mode], timeout=120, check=False)
        try:
            res[mode] = json.loads(p.stdout.strip().splitlines()[-1])
        except Exception:
            # the probe is best effort (it depends on timing and on the exact fill level): never an error
            shutil.rmtree(os.path.join(wd, "race"), ignore_errors=True)
            return {"inconclusive": "probe %s run ended with rc=%s" % (mode, p.returncode)}
    shutil.rmtree(os.path.join(wd, "race"), ignore_errors=True)
    c, r = res["control"], res["raced"]
    if c["writer_a"] or c["writer_b"]:
        # even without the race a < 10 % batch failed: report as a plain space failure
        rep.violation("kv:resize:control:mapfull", {"kind": "race", "result": res}, "sequential writers failed: %s" % json.dumps(c))
    elif r["writer_a"] or r["writer_b"]:
        err = r["writer_a"] or r["writer_b"]
        if "MAP_FULL" in err:
            rep.violation(RACE_SIG, {"kind": "race", "result": res},
                          "Store::batch() checks needs_resize before taking the LMDB writer mutex: a second writer's "
                          "commit used up the head-room and a 72 KiB batch (< 10 %% of the 1 MiB map) failed: %s" % err)
        else:
            rep.violation("kv:resize:raced:error", {"kind": "race", "result": res}, "raced writers failed: %s" % err)
    return res


def cex_kinds(cex):
    return [re.search(r'k \|-> "(\w+)"', a).group(1) for a in cex if re.search(r'k \|-> "(\w+)"', a)]


def run_squeeze(rep, wd, cex):
    """KV counterexample of MC_KV_squeeze (.. OutIterOpen(t), Begin(t), Put) on the real Store: a batch below 10 % of the map
    opened by the thread that holds an iterator, on a map that is more than 90 % full. Control: the same batch, no iterator."""
    kinds = cex_kinds(cex)
    if not ("OutIterOpen" in kinds and kinds[-2:] == ["Begin", "Put"] and kinds.index("OutIterOpen") < len(kinds) - 2):
        raise ToolError("MC_KV_squeeze: unexpected counterexample shape %s" % kinds)
    res = {}
    for mode in ("control", "own_iterator"):
        d = os.path.join(wd, "squeeze")
        p = vlib.harness(["kv", "squeeze", "--dir", d, "--mode", mode], timeout=120, check=False)
        shutil.rmtree(d, ignore_errors=True)
        res[mode] = last_json(p) or {"inconclusive": "rc=%s" % p.returncode}
    c, o = res["control"], res["own_iterator"]
    case = {"kind": "squeeze", "model_counterexample": cex, "result": res}
    if c.get("class") != "ok":
        if "MAP_FULL" in str(c.get("error")):
            rep.violation("kv:resize:control:small_batch:mapfull", case, "a %s-byte batch with no other transaction open failed: %s" % (c.get("batch_bytes"), json.dumps(c)))
        else:
            raise ToolError("kv squeeze control run failed: %s" % json.dumps(c))
    elif o.get("class") == "failed" and "MAP_FULL" in str(o.get("error")):
        rep.violation(SQUEEZE_SIG, case,
                      "a thread that holds its own store iterator opened a batch on a map that is more than 90 %% full (%s pages of %s bytes): "
                      "the enlargement that is due cannot take place before the batch (it waits for that iterator), the gate lets the thread "
                      "through, and a %s-byte write (< 10 %% of the map; fine without the iterator) failed: %s"
                      % (o.get("pages_before"), o.get("map_before"), o.get("batch_bytes"), o.get("error")))
    elif o.get("class") != "ok":
        rep.violation("kv:resize:own_iterator:squeezed_batch:error", case, "batch under the thread's own iterator failed: %s" % json.dumps(o))
    return res


def run_bigbatch(rep, wd, cex):
    """KV counterexample of MC_KV_bigbatch (Begin, n x Put of a tenth of the map) on the real Store: ONE batch that needs more than
    what is free. Control: the same volume in 64 KiB batches."""
    kinds = cex_kinds(cex)
    n = kinds.count("Put")
    if kinds[:1] != ["Begin"] or n < 2 or set(kinds[1:]) != {"Put"}:
        raise ToolError("MC_KV_bigbatch: unexpected counterexample shape %s" % kinds)
    res = {}
    for mode in ("control", "single"):
        d = os.path.join(wd, "bigbatch")
        p = vlib.harness(["kv", "bigbatch", "--dir", d, "--mode", mode, "--tenths", n], timeout=120, check=False)
        shutil.rmtree(d, ignore_errors=True)
        res[mode] = last_json(p) or {"inconclusive": "rc=%s" % p.returncode}
    c, o = res["control"], res["single"]
    case = {"kind": "bigbatch", "model_counterexample": cex, "result": res}
    if c.get("class") != "ok":
        if c.get("class") == "mapfull":
            rep.violation("kv:resize:control:small_batches:mapfull", case, "64 KiB batches with nothing else open ran out of space: %s" % json.dumps(c))
        else:
            raise ToolError("kv bigbatch control run failed: %s" % json.dumps(c))
    elif o.get("class") == "mapfull":
        rep.violation(BIGBATCH_SIG, case,
                      "ONE batch of %s bytes (%s tenths of the %s-byte map) on a fresh store failed after %s puts / %s bytes: the map is enlarged "
                      "only between batches (Store::batch -> maybe_resize), never for the batch that needs the space; the same volume in "
                      "64 KiB batches is fine (map %s -> %s): %s"
                      % (o.get("batch_bytes"), o.get("tenths_of_map"), o.get("map_before"), o.get("puts_done"), o.get("bytes_written"),
                         c.get("map_before"), c.get("map_after"), o.get("error")))
    elif o.get("class") != "ok":
        rep.violation("kv:batch:larger_than_headroom:error", case, "one large batch failed: %s" % json.dumps(o))
    return res


def run_reopen(rep, wd):
    """(R) restart of a db that has grown past one chunk: the map comes back as persisted, the first write has its room."""
    d = os.path.join(wd, "reopen")
    p = vlib.harness(["kv", "reopen", "--dir", d], timeout=300, check=False)
    shutil.rmtree(d, ignore_errors=True)
    res = last_json(p)
    case = {"kind": "reopen", "result": res}
    if p.returncode < 0:
        rep.violation("kv:reopen:crash:signal=%d" % -p.returncode, case, "restart scenario: process killed by signal %d" % -p.returncode)
        return {"class": "crash"}
    if res is None:
        print(p.stdout[-1500:], p.stderr[-1500:])
        raise ToolError("kv reopen gave no result")
    cls = res.get("class")
    if cls == "mapfull":
        rep.violation("kv:reopen:headroom_lost:first_write_under_own_iterator:mapfull", case,
                      "after closing and reopening a db of %s pages the map came back with %s bytes (%s before the restart) and the first "
                      "write of the restarted process - %s bytes under the writer's own iterator, fine right before the restart and far "
                      "from the 90 %% mark - failed: %s"
                      % (res.get("data_pages"), res.get("map_after_restart"), res.get("map_before_restart"), res.get("step_bytes"), res.get("error")))
    elif cls == "map_shrunk":
        rep.violation("kv:reopen:map_shrunk", case, "the map came back smaller after a restart (%s -> %s bytes; %s data pages)"
                      % (res.get("map_before_restart"), res.get("map_after_restart"), res.get("data_pages")))
    elif cls in ("lost", "error"):
        rep.violation("kv:reopen:first_write:%s" % cls, case, "restart scenario failed: %s" % json.dumps(res))
    elif cls != "ok" or res.get("resize_due_before_restart") or res.get("map_before_restart", 0) <= 1048576:
        raise ToolError("kv reopen: scenario not exercised: %s" % json.dumps(res))
    return res


def run_gate(rep, wd):
    """Deferred enlargement: a reader holds an iterator when batch() finds the map > 90 % full; the batch waits at
    the gate, the reader closes, the map is enlarged, the batch writes 200 KiB (20 % of the OLD map, < 10 % of the new)."""
    res = None
    for attempt in (1, 2):
        d = os.path.join(wd, "gate")
        p = vlib.harness(["kv", "gate", "--dir", d, "--big", 200 * 1024], timeout=300, check=False)
        shutil.rmtree(d, ignore_errors=True)
        if p.returncode < 0:
            rep.violation("kv:resize:deferred:crash:signal=%d" % -p.returncode, {"kind": "gate"},
                          "deferred-resize scenario: process killed by signal %d" % -p.returncode)
            return {"class": "crash"}
        try:
            res = json.loads(p.stdout.strip().splitlines()[-1])
        except Exception:
            print(p.stdout[-1500:], p.stderr[-1500:])
            raise ToolError("kv gate gave no result")
        if res.get("class") != "hang" or attempt == 2:
            break
        log("kv gate: a store call did not return within %s s (%s); re-confirming once" % (res.get("bound_s"), res.get("phase")))
    res["attempts"] = attempt
    case = {"kind": "gate", "result": res}
    cls = res.get("class")
    if cls == "hang":
        rep.violation("kv:resize:deferred:hang:%s" % res.get("phase"), case,
                      "deferred-resize scenario: a store call did not return within %s s, twice: %s" % (res.get("bound_s"), json.dumps(res)))
    elif cls == "remapped":
        rep.violation("kv:resize:deferred:remapped_under_iterator", case,
                      "the memory map of the data file was replaced (%s -> %s bytes) while another thread held an open store iterator "
                      "(its read transaction is not among the open transactions the enlargement waits for): %s"
                      % (res.get("map_before"), res.get("map_after"), json.dumps(res)))
    elif not res.get("reached"):
        if cls == "fill_error" and "MAP_FULL" in str(res.get("error")):
            rep.violation("kv:resize:fill:mapfull", case, "small batches (4 KiB) ran out of space while filling: %s" % json.dumps(res))
        elif cls == "fill_error" and str(res.get("error", "")).startswith("panic:"):
            rep.violation("kv:handles:writer_panic:second_handle_%s" % ("reopened" if res.get("iterations", 0) >= 16 else "open"), case,
                          "a 4 KiB batch through the first Store handle panicked while a reader works through a second handle on the same "
                          "environment (round %s; the second handle is dropped and opened again every 16th round): %s" % (res.get("iterations"), json.dumps(res)))
        elif cls in ("second_handle_error", "iter_error"):
            rep.violation("kv:handles:%s" % cls, case, "a second Store handle on the open environment (as PeerStore next to ChainStore) could not be "
                          "opened / read through: %s" % json.dumps(res))
        else:
            raise ToolError("kv gate: the deferred-resize point was never reached: %s" % json.dumps(res))
    elif cls == "mapfull":
        rep.violation(GATE_SIG, case,
                      "a batch that had to wait at the resize gate for another thread's open iterator ran out of space after the "
                      "reader closed: map %s -> %s bytes, %s pages used, wrote %s bytes: %s"
                      % (res.get("map_at_wait"), res.get("map_after_gate"), res.get("pages_at_wait"), res.get("big_bytes"), res.get("error")))
    elif cls in ("error", "lost"):
        rep.violation("kv:resize:deferred:waiting_batch:%s" % cls, case, "deferred-resize scenario failed: %s" % json.dumps(res))
    return res


def last_json(p):
    """Last stdout line of a harness run as JSON (None if there is none)."""
    for line in reversed(p.stdout.strip().splitlines()):
        try:
            return json.loads(line)
        except Exception:
            continue
    return None


def run_nested(rep, wd, seed):
    """(N) one thread: iterator held + per-item lookups + own batch + more transactions while the map crosses 90 %."""
    tp = os.path.join(wd, "trace_nested.ndjson")
    res = None
    for attempt in (1, 2):
        d = os.path.join(wd, "nested")
        if os.path.exists(tp):
            os.remove(tp)
        p = vlib.harness(["kv", "nested", "--dir", d, "--out", tp, "--seed", seed], timeout=300, check=False)
        shutil.rmtree(d, ignore_errors=True)
        res = last_json(p)
        case = {"kind": "nested", "seed": seed, "result": res}
        if p.returncode < 0:
            rep.violation("kv:nested:crash:signal=%d" % -p.returncode, case,
                          "nested-transactions scenario: process killed by signal %d (last report: %s)" % (-p.returncode, json.dumps(res)))
            return {"class": "crash"}, None
        if res is None or p.returncode != 0:
            print(p.stdout[-1500:], p.stderr[-1500:])
            raise ToolError("kv nested gave no result")
        if res.get("class") != "hang" or attempt == 2:
            break
        log("kv nested: a store call did not return within %s s (in %s); re-confirming once" % (res.get("bound_s"), res.get("in")))
    res["attempts"] = attempt
    cls = res.get("class")
    if cls == "hang":
        op = res.get("in")
        if op in ("batch", "put", "commit", "exists", "get_ser", "iter_second", "iter_next"):
            rep.violation("%s:in=%s" % (NESTED_SIG, op), case,
                          "a thread that holds a store iterator (and has looked an item up under it) called %s while a map "
                          "enlargement was due (asked for by %s): the call never returned (%s s, twice) - the enlargement waits for "
                          "the iterator, the thread for the enlargement, every other thread for the flag: %s"
                          % (op, res.get("kind"), res.get("bound_s"), json.dumps(res)))
        else:
            rep.violation("kv:nested:hang:in=%s" % op, case, "nested-transactions scenario: a store call did not return (%s s, twice): %s"
                          % (res.get("bound_s"), json.dumps(res)))
    elif cls == "remapped":
        rep.violation("kv:nested:remapped_under_own_iterator:when=%s" % res.get("kind"), case,
                      "the memory map of the data file was replaced while the thread held its store iterator (round %s, %s): %s"
                      % (res.get("round"), res.get("kind"), res.get("error")))
    elif cls in ("mapfull", "error", "panic"):
        rep.violation("kv:nested:%s:%s:when=%s" % (cls, res.get("op"), res.get("kind")), case,
                      "nested-transactions scenario: operation failed: %s" % json.dumps(res))
    elif cls == "due_not_enlarged":
        d = res.get("not_enlarged") or {}
        rep.violation("%s:nested:asked_by=%s" % (DUE_SIG, d.get("kind")), case,
                      "KV!NeedsResize (used > 90 %% of the map, measured by the LAST PAGE of the data file as LMDB measures when it "
                      "allocates) said an enlargement was due (%s data pages, map %s bytes) and a batch() was opened (%s): nothing was "
                      "pending afterwards and with every transaction closed the map is still %s bytes - the enlargement was never asked "
                      "for: %s" % (d.get("data_pages"), d.get("map_before"), d.get("kind"), d.get("map_after"), json.dumps(res)[:600]))
    elif cls != "ok":
        raise ToolError("kv nested: scenario not exercised: %s" % json.dumps(res))
    return res, (tp if cls == "ok" else None)


def run_inflight(rep, wd):
    """(F) a get_ser stopped in the middle of its value while a writer needs the enlargement."""
    tp = os.path.join(wd, "trace_inflight.ndjson")
    res = None
    for attempt in (1, 2):
        d = os.path.join(wd, "inflight")
        if os.path.exists(tp):
            os.remove(tp)
        p = vlib.harness(["kv", "inflight", "--dir", d, "--out", tp], timeout=300, check=False)
        shutil.rmtree(d, ignore_errors=True)
        res = last_json(p)
        case = {"kind": "inflight", "result": res}
        if p.returncode < 0 and not (res and res.get("class") == "remapped"):
            # the code under test took the process down (unmapped memory under a reader): data, not a tool problem
            rep.violation("%s:signal=%d" % (INFLIGHT_CRASH_SIG, -p.returncode), case,
                          "a writer forced a map enlargement while a Store::get_ser was in flight: process killed by signal %d" % -p.returncode)
            return {"class": "crash", "signal": -p.returncode}, None
        if res is None or (p.returncode != 0 and p.returncode > 0):
            print(p.stdout[-1500:], p.stderr[-1500:])
            raise ToolError("kv inflight gave no result")
        if p.returncode < 0:
            res["killed_by_signal_after_report"] = -p.returncode
        if res.get("class") != "hang" or attempt == 2:
            break
        log("kv inflight: no progress within %s s (%s); re-confirming once" % (res.get("bound_s"), res.get("phase")))
    res["attempts"] = attempt
    cls = res.get("class")
    if cls == "remapped":
        rep.violation(INFLIGHT_SIG, case,
                      "the memory map of the data file was replaced (%s -> %s) while a Store::get_ser read transaction was open on another "
                      "thread (stopped in the middle of its value): the read is not counted among the open transactions the "
                      "enlargement has to wait for; writer commits done: %s; the read afterwards: %s%s"
                      % (res.get("map_before"), res.get("map_after"), res.get("writer_commits_done"), res.get("read_after_remap", "process died"),
                         ", process killed by signal %s" % res["killed_by_signal_after_report"] if "killed_by_signal_after_report" in res else ""))
    elif cls in ("wrong_value", "read_error"):
        rep.violation("kv:inflight:read:%s" % cls, case, "the read that was in flight while the writer stalled did not yield the committed value: %s" % json.dumps(res))
    elif cls == "hang":
        rep.violation("kv:inflight:hang:%s" % res.get("phase"), case, "read-in-flight scenario: no progress within %s s, twice: %s" % (res.get("bound_s"), json.dumps(res)))
    elif cls in ("mapfull", "error"):
        rep.violation("kv:inflight:%s:%s" % (cls, res.get("phase", "setup")), case, "read-in-flight scenario: operation failed: %s" % json.dumps(res))
    elif cls != "ok":
        raise ToolError("kv inflight: scenario not exercised: %s" % json.dumps(res))
    return res, (tp if cls == "ok" else None)


def run_rewrite(rep, wd, cex):
    """(W) KV counterexample of MC_KV_livesized (batches that REWRITE the same cells until a Put finds no room) on the real Store,
    under the condition that makes the model's accounting exact (a reader of another thread pins the old snapshot, so freed pages
    are not reusable): it must NOT reproduce - the enlargement is due by the last page, the writer parks, the map grows."""
    kinds = cex_kinds(cex)
    if kinds.count("Commit") < 1 or kinds[-1] != "Put" or "Resize" in kinds:
        raise ToolError("MC_KV_livesized: unexpected counterexample shape %s" % kinds)
    res = None
    for attempt in (1, 2):
        d = os.path.join(wd, "rewrite")
        p = vlib.harness(["kv", "rewrite", "--dir", d], timeout=300, check=False)
        shutil.rmtree(d, ignore_errors=True)
        res = last_json(p)
        case = {"kind": "rewrite", "model_counterexample": cex, "result": res}
        if p.returncode < 0:
            rep.violation("kv:rewrite:crash:signal=%d" % -p.returncode, case, "rewrite-under-a-pinned-reader scenario: process killed by signal %d" % -p.returncode)
            return {"class": "crash"}
        if res is None or p.returncode != 0:
            print(p.stdout[-1500:], p.stderr[-1500:])
            raise ToolError("kv rewrite gave no result")
        if res.get("class") != "hang" or attempt == 2:
            break
        log("kv rewrite: a store call did not return within %s s (%s); re-confirming once" % (res.get("bound_s"), res.get("phase")))
    res["attempts"] = attempt
    cls = res.get("class")
    if cls == "due_not_enlarged":
        rep.violation("%s:rewrite_under_pinned_reader%s" % (DUE_SIG, ":batch_mapfull" if "MAP_FULL" in str(res.get("batch_result")) else ""), case,
                      "data rewritten while another thread's iterator pins an old snapshot (freed pages not reusable: %s bytes of live "
                      "values, data file %s pages): KV!NeedsResize - used > 90 %% of the map measured by the LAST PAGE, as LMDB measures "
                      "when it allocates (%.3f of %s bytes) - said an enlargement was due, but batch() of a thread that holds no "
                      "transaction came back at once on the old map (KV!ResizeGate: such a batch parks until the map has been enlarged)"
                      "; the batch then: %s" % (res.get("live_value_bytes"), res.get("pages"), res.get("used_fraction_by_last_page") or 0.0,
                                               res.get("map_bytes"), res.get("batch_result") or "ok"))
    elif cls == "mapfull":
        rep.violation("kv:rewrite:pinned_reader:small_batch:mapfull", case,
                      "a %s-byte batch (< 10 %% of the map) that rewrites values while another thread's iterator pins an old snapshot ran "
                      "out of space (data file %s pages, map %s bytes, enlargement due by last page when it was opened: %s): %s"
                      % (res.get("batch_value_bytes"), res.get("pages"), res.get("map_bytes"), res.get("due_by_last_page_at_batch"), res.get("error")))
    elif cls == "remapped":
        rep.violation("kv:rewrite:remapped_under_pinned_reader", case,
                      "the memory map of the data file was replaced (%s -> %s bytes) while another thread's iterator (second Store handle) "
                      "was open: %s" % (res.get("map_before"), res.get("map_after"), json.dumps(res)))
    elif cls == "snapshot_changed":
        rep.violation("kv:rewrite:pinned_iterator:snapshot_changed", case, "the pinned iterator handed out something else than the snapshot it was opened on: %s" % json.dumps(res)[:600])
    elif cls == "hang":
        rep.violation("kv:rewrite:hang:%s" % res.get("phase"), case, "rewrite-under-a-pinned-reader scenario: a store call did not return (%s s, twice): %s" % (res.get("bound_s"), json.dumps(res)))
    elif cls in ("error", "lost", "panic"):
        rep.violation("kv:rewrite:%s:%s" % (cls, res.get("op")), case, "rewrite-under-a-pinned-reader scenario failed: %s" % json.dumps(res)[:600])
    elif cls != "ok":
        raise ToolError("kv rewrite: scenario not exercised: %s" % json.dumps(res))
    return res


def run_prodsize(rep, wd):
    """(S) production-mode sizing: 128 MiB chunk, LMDB's initial map is smaller (KV!NeedsResize `mapSize < Chunk`, MC_KV_prodchunk)."""
    d = os.path.join(wd, "prodsize")
    p = vlib.harness(["kv", "prodsize", "--dir", d], timeout=300, check=False)
    shutil.rmtree(d, ignore_errors=True)
    res = last_json(p)
    case = {"kind": "prodsize", "result": res}
    if p.returncode < 0:
        rep.violation("kv:resize:production_chunk:crash:signal=%d" % -p.returncode, case, "production-mode sizing scenario: process killed by signal %d" % -p.returncode)
        return {"class": "crash"}
    if res is None or p.returncode != 0:
        print(p.stdout[-1500:], p.stderr[-1500:])
        raise ToolError("kv prodsize gave no result")
    cls = res.get("class")
    if cls == "due_not_enlarged":
        rep.violation("%s:production_chunk:first_batch" % DUE_SIG, case,
                      "a fresh environment in production mode (allocation chunk %s bytes) starts with a map of %s bytes: KV!NeedsResize "
                      "(`mapSize < Chunk`) says the first batch() has to enlarge it to one chunk - it came back on a map of %s bytes"
                      % (res.get("chunk"), res.get("map_initial"), res.get("map_bytes")))
    elif cls == "mapfull":
        rep.violation("kv:resize:production_chunk:small_batch:mapfull", case,
                      "production mode (chunk %s bytes): 64 KiB batch no. %s ran out of space on a map of %s bytes (%s data pages; the "
                      "environment started with %s bytes): %s" % (res.get("chunk"), res.get("batch"), res.get("map_bytes"), res.get("pages"),
                                                                 res.get("map_initial"), res.get("error")))
    elif cls in ("error", "lost", "panic"):
        rep.violation("kv:resize:production_chunk:%s:%s" % (cls, res.get("op")), case, "production-mode sizing scenario failed: %s" % json.dumps(res)[:600])
    elif cls != "ok":
        raise ToolError("kv prodsize: scenario not exercised: %s" % json.dumps(res))
    return res


def run_crashresize(rep, wd):
    """(X) process death around a map enlargement: while it is pending (writer parked at the gate), right after it (nothing
    committed on the new map yet), after the first commit on the new map; restart on the files (KV!Crash, CrashDurable, NoMapFull)."""
    d = os.path.join(wd, "crashresize")
    p = vlib.harness(["kv", "crashresize", "--dir", d], timeout=600, check=False)
    shutil.rmtree(d, ignore_errors=True)
    res = last_json(p)
    case = {"kind": "crashresize", "result": res}
    if p.returncode < 0:
        rep.violation("kv:crash:resize:restart_crash:signal=%d" % -p.returncode, case, "restart after a kill around a map enlargement: process killed by signal %d" % -p.returncode)
        return {"class": "crash"}
    if res is None or p.returncode != 0:
        print(p.stdout[-1500:], p.stderr[-1500:])
        raise ToolError("kv crashresize gave no result")
    cls = res.get("class")
    if cls in ("lost", "mapfull", "error", "hang", "panic"):
        rep.violation("kv:crash:resize:%s:%s:%s" % (res.get("mode"), cls, res.get("op")), case,
                      "process killed %s a map enlargement, restarted on its files: %s"
                      % ({"pending": "while the writer was parked at the gate for", "resized": "right after", "committed": "after the first commit following"}.get(res.get("mode"), "around"),
                         json.dumps(res)[:700]))
    elif cls != "ok" or len(res.get("runs", [])) < 3:
        raise ToolError("kv crashresize: scenario not exercised: %s" % json.dumps(res))
    return res


def run_pages(rep, wd, seed):
    """(K) iterators across the 10 000-key page boundaries (KV!OutIterNext / PageWalk / IterInOrder, SnapStable)."""
    d = os.path.join(wd, "pages")
    p = vlib.harness(["kv", "pages", "--dir", d, "--seed", seed], timeout=400, check=False)
    shutil.rmtree(d, ignore_errors=True)
    res = last_json(p)
    case = {"kind": "pages", "seed": seed, "result": res}
    if p.returncode < 0:
        rep.violation("kv:iter:paging:crash:signal=%d" % -p.returncode, case, "iterator paging scenario: process killed by signal %d" % -p.returncode)
        return {"class": "crash"}
    if res is None or p.returncode != 0:
        print(p.stdout[-1500:], p.stderr[-1500:])
        raise ToolError("kv pages gave no result")
    cls = res.get("class")
    if cls == "mismatch":
        m = res["problems"][0]
        rep.violation("kv:iter:paging:%s:%s:page=%s" % (m.get("where"), m.get("kind"), m.get("page")), case,
                      "an iterator over %s keys (pages of 10 000 keys) did not hand out its snapshot: %s at item %s (page %s): got %s, "
                      "expected %s; %s items handed out, %s in the snapshot (walk %s)"
                      % (res.get("keys"), m.get("kind"), m.get("index"), m.get("page"), m.get("got"), m.get("expected"), m.get("got_len"),
                         m.get("expected_len"), m.get("walk", "-")))
    elif cls == "hang":
        rep.violation("kv:iter:paging:hang", case, "iterator paging scenario: no result within %s s: %s" % (res.get("bound_s"), json.dumps(res)))
    elif cls in ("error", "panic", "mapfull"):
        if str(res.get("op", "")).endswith("_hang") or res.get("op") == "harness":
            # the writer parked at the resize gate behind the scenario's own iterator: the room made beforehand was not enough
            raise ToolError("kv pages: the scenario could not be set up: %s" % json.dumps(res))
        rep.violation("kv:iter:paging:%s:%s" % (cls, res.get("op")), case, "iterator paging scenario failed: %s" % json.dumps(res)[:600])
    elif cls != "ok":
        raise ToolError("kv pages: scenario not exercised: %s" % json.dumps(res)[:1500])
    return res


def validate_scenarios(rep, wd, traces):
    """The recorded directed scenarios, one Reset-separated trace, against KVTrace.tla (NK = 100)."""
    evs = []
    for name, tp in traces:
        evs.append({"k": "Reset", "scenario": name})
        evs.extend(vlib.read_ndjson(tp))
    path = os.path.join(wd, "trace_scenarios.ndjson")
    vlib.write_ndjson(path, evs)
    ok, why, _ = validate_trace(path, "scenarios", 100)
    if not ok:
        keep = keep_trace(path, "C18_scenarios_%d.ndjson" % vlib.seed())
        scen = (why.get("run") or {}).get("scenario", "?")
        rep.violation("kv:%s:trace:%s" % (scen, why["event"].get("k")), {"kind": "trace", "trace": keep, "nk": 100, "rejected": why},
                      "%s scenario: recorded event not allowed by KV.tla: #%d %s" % (scen, why["index"], json.dumps(why["event"])[:400]))
    return path, len(evs)


def selftest(rep, wd, behs, trace_path, nk, scen_path=None):
    """The binding must be able to fail: a wrong expectation and a corrupted recorded field are rejected."""
    b = json.loads(json.dumps(next(x for x in behs if any(s["a"]["k"] == "Commit" and s["out"] != [[], []] for s in x))))
    i = next(i for i, s in enumerate(b) if s["a"]["k"] == "Commit" and s["out"] != [[], []])
    sp = 0 if b[i]["out"][0] else 1
    b[i]["out"][sp][0][1] = 3 - b[i]["out"][sp][0][1]      # committed value 1 <-> 2
    probe = Report(PID, "selftest", "model_checking")
    probe.known = []
    replay_behaviours(probe, wd, [b], tag="selftest")
    for _, path, _ in probe.violations:
        if path and os.path.exists(path):
            os.remove(path)
    if not probe.violations:
        raise ToolError("selftest: a corrupted expectation was not noticed by the replay")
    probe = Report(PID, "selftest", "model_checking")
    probe.known = []
    # (the output_pos space is compared inside and outside under both mappings of key space 1)
    bc = json.loads(json.dumps(next(x for x in behs if any(s["a"]["k"] == "Commit" and s["out"][1] for s in x))))
    i = next(i for i, s in enumerate(bc) if s["a"]["k"] == "Commit" and s["out"][1])
    bc[i]["out"][1][0][1] = 3 - bc[i]["out"][1][0][1]
    replay_chainstore(probe, wd, [bc, bc], tag="selftest_chain")
    for _, path, _ in probe.violations:
        if path and os.path.exists(path):
            os.remove(path)
    if len(probe.violations) < 2:
        raise ToolError("selftest: a corrupted expectation was not noticed by the ChainStore replay (both key-space mappings)")
    # corrupted recorded fields: each must be rejected at exactly its event (three trace validations side by side)
    jobs = []
    evs = vlib.read_ndjson(trace_path)
    cand = [i for i, e in enumerate(evs) if e["k"] == "OutIter" and len(e["res"]) >= 2 and e["lo"] == e["hi"]]
    if not cand:
        raise ToolError("selftest: no non-empty iterator observation in the trace")
    j = cand[len(cand) // 2]
    evs[j]["res"] = evs[j]["res"][1:]                          # the iterator "skipped" its first key
    bad = os.path.join(wd, "selftest_trace.ndjson")
    vlib.write_ndjson(bad, evs)
    jobs.append(("trace", bad, nk, j))
    if scen_path:
        # a held iterator that "sees" its own thread's later commit, and a read in flight that yields another value
        evs = vlib.read_ndjson(scen_path)
        for what, pick in (("held_iterator", lambda i, e: e["k"] == "OutIterNext" and e["res"] and i > 0 and evs[i - 1]["k"] == "OutIterClose"),
                           ("read_in_flight", lambda i, e: e["k"] == "ReadEnd")):
            cand = [i for i, e in enumerate(evs) if pick(i, e)]
            if not cand:
                raise ToolError("selftest: no %s observation in the scenario trace" % what)
            j = cand[-1]
            bad_evs = json.loads(json.dumps(evs))
            if what == "held_iterator":
                bad_evs[j]["res"][1] += 1
            else:
                bad_evs[j]["res"] += 1
            bad = os.path.join(wd, "selftest_%s.ndjson" % what)
            vlib.write_ndjson(bad, bad_evs)
            jobs.append((what, bad, 100, j))
    from concurrent.futures import ThreadPoolExecutor
    with ThreadPoolExecutor(max_workers=3) as ex:
        verdicts = list(ex.map(lambda jb: validate_trace(jb[1], "selftest " + jb[0], jb[2]), jobs))
    st = {"corrupted_expectation_rejected": True}
    for (what, _, _, j), (ok, why, _) in zip(jobs, verdicts):
        if ok or why["index"] != j + 1:
            raise ToolError("selftest: a corrupted %s observation was not rejected at its event (%s)" % (what, why))
        st["corrupted_%s_rejected_at" % what] = j + 1
    return st


def do_replay(rep, wd, obj):
    case = obj["case"]
    kind = case.get("kind")
    if kind == "behaviour":
        replay_behaviours(rep, wd, [case["behaviour"]], tag="replay")
    elif kind == "chain_behaviour":
        # position in the file selects the mapping of key space 1 (even: block sums, odd: spent index)
        replay_chainstore(rep, wd, [case["behaviour"]] * 2 if case.get("spent_index") else [case["behaviour"]], tag="replay_chain")
    elif kind == "trace":
        ok, why, _ = validate_trace(case["trace"], "replay", case.get("nk", 60))
        if not ok:
            rep.violation(obj["signature"], case, json.dumps(why)[:600])
    elif kind == "record":
        a = case["args"]
        g = lambda k: int(a[a.index(k) + 1])
        run_record(rep, wd, g("--seed"), g("--writers"), g("--min-pages"), "replay", g("--nk"))
    elif kind == "crash":
        a = case["args"]
        g = lambda k: int(a[a.index(k) + 1])
        run_crash(rep, wd, g("--seed"), g("--runs"))
    elif kind == "race":
        run_race(rep, wd)
    elif kind == "gate":
        run_gate(rep, wd)
    elif kind == "nested":
        run_nested(rep, wd, case.get("seed", 1))
    elif kind == "inflight":
        run_inflight(rep, wd)
    elif kind == "reopen":
        run_reopen(rep, wd)
    elif kind == "squeeze":
        run_squeeze(rep, wd, case["model_counterexample"])
    elif kind == "bigbatch":
        run_bigbatch(rep, wd, case["model_counterexample"])
    elif kind == "rewrite":
        run_rewrite(rep, wd, case["model_counterexample"])
    elif kind == "pages":
        run_pages(rep, wd, case.get("seed", 1))
    elif kind == "prodsize":
        run_prodsize(rep, wd)
    elif kind == "crashresize":
        run_crashresize(rep, wd)
    else:
        raise ToolError("unknown replay kind %r" % kind)
    rep.coverage = {"states": 1, "transitions": 1, "traces_validated_against_impl": 1, "samples": [obj["signature"]]}
    return rep.finish()


def run(tier, replay):
    rep = Report(PID, tier, "model_checking")
    wd = vlib.workdir(PID, clean=True)
    thorough = tier == "thorough"
    if replay:
        return do_replay(rep, wd, json.load(open(replay)))
    seed = vlib.seed()
    phases = {}
    t_ph = [time.time()]

    def phase(name):
        phases[name] = round(time.time() - t_ph[0], 1)
        t_ph[0] = time.time()

    # (M) the specification itself
    # quick: the three largest exhaustive configurations run with a horizon that is one to three actions shorter (MC_KV: MaxOps 6;
    # MC_KV_resize: UsedInit 8 / MaxOps 19; MC_KV_inflight: MaxOps 7); the full horizons (MC_KV_full, MC_KV_resize_full,
    # MC_KV_inflight_full) are checked in the thorough tier. Every action and every invariant / property is exercised in both.
    cfgs = ["MC_KV", "MC_KV_reads", "MC_KV_resize", "MC_KV_inflight", "MC_KV_threads", "MC_KV_prodchunk"]
    if thorough:
        cfgs = ["MC_KV_thorough", "MC_KV_wide", "MC_KV_full", "MC_KV_reads", "MC_KV_resize_full", "MC_KV_inflight_full", "MC_KV_threads", "MC_KV_prodchunk"]
    states, trans, mc_counts, per_cfg = model_check(cfgs)
    phase("model_check")

    # (A) behaviours -> real Store
    behs, nsys, nsim = emit_behaviours(thorough)
    phase("emit")
    checks, replayed_actions = replay_behaviours(rep, wd, behs)
    phase("replay")
    if rep.violations:
        rep.coverage = {"states": states, "transitions": trans, "traces_validated_against_impl": len(behs),
                        "samples": [{"behaviour": [s["a"]["k"] for s in behs[0]]}], "stopped_after": "replay"}
        return rep.finish()
    need = ["Begin", "Put", "Del", "Child", "CommitChild", "DropChild", "Commit", "Drop", "Crash",
            "OutIterOpen", "OutIterNext", "OutIterClose", "ReadBegin", "ReadEnd"]
    missing = [a for a in need if replayed_actions.get(a, 0) == 0]
    if missing:
        raise ToolError("replayed behaviours never contain %s" % missing)
    deep = sum(1 for b in behs if max(s["d"] for s in b) >= 3)

    # (C) chain/src/store.rs: the behaviours with nesting or a commit (at most 700 / 4000, the deepest first) on a real ChainStore
    cb = sorted((b for b in behs if any(s["a"]["k"] in ("Child", "Commit") for s in b)), key=lambda b: -max(s["d"] for s in b))
    cb = cb[:4000 if thorough else 700]
    chain_checks, chain_actions, chain_n = replay_chainstore(rep, wd, cb)
    phase("chainstore")
    if rep.violations:
        rep.coverage = {"states": states, "transitions": trans, "traces_validated_against_impl": len(behs) + chain_n,
                        "samples": [{"behaviour": [s["a"]["k"] for s in cb[0]]}], "stopped_after": "chainstore replay"}
        return rep.finish()
    cmissing = [a for a in ("Begin", "Put", "Del", "Child", "CommitChild", "DropChild", "Commit", "Drop", "Crash") if chain_actions.get(a, 0) == 0]
    if cmissing:
        raise ToolError("behaviours replayed on the ChainStore never contain %s" % cmissing)

    # (G) deferred enlargement: the waiting batch must find the enlarged map (directed, ~1 s; before the random
    # threaded runs so that a failure gets its own narrow signature)
    gate = run_gate(rep, wd)
    if rep.violations:
        rep.coverage = {"states": states, "transitions": trans, "traces_validated_against_impl": len(behs),
                        "samples": [{"deferred_resize_scenario": gate}], "stopped_after": "gate"}
        return rep.finish()

    # (N) (F) per-thread nesting and reads in flight at the resize gate (directed, ~2 s each; before the random runs)
    nested, ntrace = run_nested(rep, wd, seed)
    scen_traces = [("nested", ntrace)]
    if thorough and not rep.violations:
        # the other order of the two crossings (own batch first / another thread's batch first)
        os.rename(ntrace, ntrace + ".a")
        scen_traces = [("nested", ntrace + ".a")]
        nested2, ntrace2 = run_nested(rep, wd, seed + 1)
        nested = [nested, nested2]
        scen_traces.append(("nested", ntrace2))
    inflight, ftrace = (None, None) if rep.violations else run_inflight(rep, wd)
    reopen = None if rep.violations else run_reopen(rep, wd)
    # (W) rewrite under a pinned reader, (K) iterator paging (directed, ~2 s and ~1 s)
    rewrite = None if rep.violations else run_rewrite(rep, wd, per_cfg["MC_KV_livesized"]["counterexample"])
    pages = None if rep.violations else run_pages(rep, wd, seed)
    prodsize = None if rep.violations else run_prodsize(rep, wd)
    scen_path, scen_events = (None, 0)
    if not rep.violations:
        scen_path, scen_events = validate_scenarios(rep, wd, scen_traces + [("inflight", ftrace)])
    if rep.violations:
        rep.coverage = {"states": states, "transitions": trans, "traces_validated_against_impl": len(behs),
                        "samples": [{"nested_scenario": nested, "inflight_scenario": inflight, "reopen_scenario": reopen,
                                     "rewrite_scenario": rewrite, "pages_scenario": pages, "production_sizing_scenario": prodsize}],
                        "stopped_after": "nested/inflight/reopen/rewrite/pages"}
        return rep.finish()

    phase("scenarios")

    # (B1) threads + map growth
    recs = []
    plan = [(seed * 10 + 1, 2, 480, "w2", 60), (seed * 10 + 2, 1, 480, "w1", 60)]
    if thorough:
        # NK = 100: enough live data for a third resize (map 5 MiB)
        plan = [(seed * 10 + i, 2 if i % 3 else 1, 740 if i % 2 else 480, "r%d" % i, 100 if i % 2 else 60) for i in range(1, 7)]
    for s, writers, pages, tag, nk in plan:
        info = run_record(rep, wd, s, writers, pages, tag, nk)
        if info is None or info.get("errors"):
            break
        if not info.get("map_size") or info["map_size"] <= 1048576:
            raise ToolError("the workload did not force a map resize (map_size=%s)" % info.get("map_size"))
        recs.append(info)
    if rep.violations:
        rep.coverage = {"states": states, "transitions": trans, "traces_validated_against_impl": len(behs) + len(recs),
                        "samples": [{"behaviour": [s["a"]["k"] for s in behs[0]]}], "stopped_after": "record"}
        return rep.finish()

    phase("record")
    # (B2) process death around commit()
    crash = run_crash(rep, wd, seed, 24 if thorough else 8)
    crashresize = None if rep.violations else run_crashresize(rep, wd)
    phase("crash")

    st = selftest(rep, wd, behs, recs[0]["trace"], recs[0]["nk"], scen_path) if recs and not rep.violations else None

    phase("selftest")
    # (P) stale head-room check with two writers
    race = run_race(rep, wd)
    # (L) the letter of the property: the model's NoMapFull counterexamples on the real Store (last: they are findings of the
    # unchanged tree and must not keep the rest from running)
    squeeze = run_squeeze(rep, wd, per_cfg["MC_KV_squeeze"]["counterexample"])
    bigbatch = run_bigbatch(rep, wd, per_cfg["MC_KV_bigbatch"]["counterexample"])
    phase("race")

    never = [a for a in T_ACTIONS if TCOUNTS.get(a, 0) == 0]
    if never and not rep.violations:
        raise ToolError("trace-specification actions never taken (vacuous validation): %s" % never)

    sample_b = next((b for b in behs if max(s["d"] for s in b) >= 3 and any(s["a"]["k"] == "Commit" for s in b)), behs[0])
    rep.coverage = {
        "states": states, "transitions": trans,
        "traces_validated_against_impl": len(behs) + chain_n + len(recs) + len(crash["runs"]) + len(scen_traces) + 1,
        "samples": [{"behaviour": sample_b},
                    {"mt_trace_head": vlib.read_ndjson(recs[0]["trace"])[:6] if recs else []},
                    {"crash_runs": crash["runs"][:3]}],
        "exhaustive": True,
        "model_configs": per_cfg,
        "model_action_transitions": mc_counts,
        "behaviours_replayed": len(behs), "behaviours_systematic": nsys, "behaviours_random_walks": nsim,
        "behaviours_reaching_depth_3": deep,
        "replay_read_comparisons": checks, "replayed_action_counts": replayed_actions,
        "chainstore_behaviours_replayed": chain_n, "chainstore_read_comparisons": chain_checks, "chainstore_action_counts": chain_actions,
        "mt_runs": [{k: r[k] for k in ("events", "batches", "commits", "concurrent_observations", "map_size", "nk",
                                       "data_file_bytes", "max_batch_growth_pages", "wall_ms", "defdb",
                                       "burst_reader_threads", "burst_reads", "stalls_recovered")} for r in recs],
        "map_resizes_forced": [{1: 0, 2: 1, 3: 2, 4: 3, 5: 3}.get(r["map_size"] // 1048576, 4) for r in recs],
        "crash_runs": len(crash["runs"]), "crash_trace_events": crash["events"],
        "trace_action_counts": dict(TCOUNTS),
        "deferred_resize_scenario": gate,
        "nested_transactions_scenario": nested,
        "read_in_flight_scenario": inflight,
        "scenario_trace_events": scen_events,
        "headroom_probe": race,
        "own_iterator_squeezed_batch": squeeze,
        "batch_larger_than_headroom": bigbatch,
        "restart_scenario": reopen,
        "rewrite_under_pinned_reader_scenario": rewrite,
        "iterator_paging_scenario": pages,
        "production_sizing_scenario": prodsize,
        "kill_around_enlargement_scenario": crashresize,
        "selftest": st,
        "phase_wall_s": phases,
        "checker_cmd": "tlc mc/MC_KV (%s); h_kv replay; h_kv chainreplay; h_kv record + tlc trace/KVTrace; h_kv crash + tlc trace/KVTrace; h_kv gate; h_kv nested + h_kv inflight + tlc trace/KVTrace; h_kv race; h_kv rewrite; h_kv pages; h_kv prodsize; h_kv crashresize; careless model variants: %s"
                       % (",".join(cfgs + ["MC_KV_live"]), ",".join(c for c, _ in CARELESS)),
    }
    rep.assumptions = [
        "LMDB itself (lmdb-master-sys / heed 0.22) is trusted for page-level atomicity and fsync; the check observes it only through grin_store's API",
        "per-batch allocation <= 40 KiB of values (<= 24 pages = the 10 % of the initial 1 MiB test-mode map that needs_resize keeps free when a batch is opened, shared by the queued writer threads): KV!BatchMax",
        "process death = abort() of the process; power loss / torn sector writes are not modelled",
        "direction A uses AutomatedTesting (1 MiB chunk) and tiny values: no resize happens there; resizes are exercised in direction B only",
        "a hang is a store call that has not returned after 30 s while every other thread is blocked too and a fresh probe call "
        "does not return within 15 more seconds (or a single call stuck for 135 s)",
        "outside observations are validated as 'equal to one committed version inside the call's commit-counter interval' (no wall-clock ordering)",
        "Crash in direction A = close without commit and reopen in the same process; real process kills are direction B(ii)",
        "NoMapFull is proved under KV!SmallBatches (a batch allocates <= 10 % of the map) and KV!SqueezedFits (a batch opened under its "
        "thread's own iterator on a > 90 % full map fits into what is left); without them the model violates it and both "
        "counterexamples reproduce on the unchanged Store (findings kv:batch:larger_than_headroom:mapfull, "
        "kv:resize:own_iterator:squeezed_batch:mapfull)",
        "whether an enlargement is due is judged as KV!NeedsResize does - by the last page of the data file (file length / 4096 - 1, never "
        "more than LMDB's last page number) against the mapped size (/proc/self/maps); the model counts freed pages as never reused, which "
        "is exact while a reader pins the snapshot they belonged to (scenario W) and pessimistic otherwise",
        "iterator paging is bound by one directed scenario with the code's page size (10 000 keys; 30 011 keys, 2 x 6 + 3 walks); the model "
        "turns pages with Page = 1 / 2 keys (every MC configuration) and 7 keys (trace validation)",
        "two Store handles on one environment are exercised in scenarios G, K and W only (reader on the second handle, writer on the first)",
        "reads in flight are produced with a Readable that stops between two halves of its value; Store::exists cannot be stopped that way",
        "direction A runs reads in flight and iterators on helper threads (no resize there, so the owning thread has no observable effect); "
        "thread ownership at the gate is bound by the directed scenarios (N), (F), (G) only",
    ]
    return rep.finish()
