"""C09 — a crash at any persistence step never bricks or corrupts the chain (spec/Crash.tla).

Fault enumeration inside a model-checking frame: the durable step list of every scenario is
recorded from the real run (cfg(grin_verif) crash points), Crash.tla is model-checked over those
lists (WriteOrder, recoverability), and EVERY crash point of every scenario is executed for real:
the child process abort()s at the point, the directory is reopened with Chain::init, validated,
everything above the recovered head is re-delivered and compared with the never-interrupted run;
the recorded outcomes are decided by the specification's Recover/Redeliver post-conditions
(TLC, CrashTrace).  Also carries the chain-level clause of C08 (compaction is a stutter on
head / roots / validation).
"""
import json, os, re, shutil, subprocess, concurrent.futures as cf
import vlib
from vlib import Report, ToolError

PID = "C09"
ENGINES = ["crash"]


def BIN():
    return os.path.join(vlib.HARNESS_BINDIR, "h_crash")


QUICK = ["extend", "extend_plain", "fork", "reorg", "headers"]
THOROUGH = ["extend", "extend_plain", "fork", "reorg", "headers", "compact", "compact_block"]
PRIMARY = {"opened": "init_error", "head_on_chain": "head_not_on_chain", "valid": "invalid_state", "converged": "no_convergence",
           "input_converged": "no_convergence_on_interrupted_input"}


def sh(cmd, env=None, timeout=900):
    e = dict(os.environ)
    e.pop("GRIN_VERIF_CRASH_AT", None)
    e.pop("GRIN_VERIF_CRASH_LOG", None)
    if env:
        e.update(env)
    return subprocess.run(cmd, stdout=subprocess.PIPE, stderr=subprocess.PIPE, text=True, env=e, timeout=timeout)


def copytree(a, b):
    shutil.rmtree(b, ignore_errors=True)
    shutil.copytree(a, b)


def prepare(wd, sc, blocks):
    d = os.path.join(wd, sc)
    p = sh([BIN(), "prepare", "--scenario", sc, "--dir", d, "--blocks", str(blocks)], timeout=1800)
    if p.returncode != 0:
        print(p.stdout[-2000:], p.stderr[-2000:])
        raise ToolError("prepare failed for " + sc)
    desc = json.load(open(os.path.join(d, "data.json")))
    # reference: uninterrupted run, recording the durable step labels
    ref = os.path.join(d, "ref")
    copytree(os.path.join(d, "base"), ref)
    logf = os.path.join(d, "labels.txt")
    if os.path.exists(logf):
        os.remove(logf)
    p = sh([BIN(), "run", "--dir", ref, "--data", d], env={"GRIN_VERIF_CRASH_LOG": logf})
    if p.returncode != 0:
        print(p.stdout[-2000:], p.stderr[-2000:])
        raise ToolError("reference run failed for " + sc)
    refstate = json.loads(p.stdout.strip().splitlines()[-1])
    labels = [l.split(" ", 1)[1].strip() for l in open(logf)] if os.path.exists(logf) else []
    shutil.rmtree(ref, ignore_errors=True)
    return d, desc, refstate, labels


def ancestors(desc, h):
    by = {b["hash"]: b for b in desc["blocks"]}
    res = set()
    while h in by:
        res.add(h)
        if by[h]["height"] == 0:
            break
        h = by[h]["prev"]
    return res


def one_point(d, k):
    run = os.path.join(d, "run%d" % k)
    copytree(os.path.join(d, "base"), run)
    p = sh([BIN(), "run", "--dir", run, "--data", d], env={"GRIN_VERIF_CRASH_AT": str(k)})
    crashed = p.returncode != 0
    r = sh([BIN(), "recover", "--dir", run, "--data", d])
    shutil.rmtree(run, ignore_errors=True)
    if r.returncode != 0 or not r.stdout.strip():
        return {"k": k, "crashed": crashed, "init": "recover_tool_error", "stderr": r.stderr[-500:]}
    o = json.loads(r.stdout.strip().splitlines()[-1])
    o["k"] = k
    o["crashed"] = crashed
    if "unspent_map" in o:
        um = o.pop("unspent_map")
        tw = twin_unspent(d, o["reopened"]["head"])
        if tw is not None:
            o["unspent_vs_replay"] = "ok" if um == tw else "differs:%d/%d outputs" % (len(um), len(tw))
    return o


_TWIN = {}
import threading
_TWIN_LOCK = threading.Lock()


def twin_unspent(d, head):
    """get_unspent map of a node that only ever processed the chain of `head` (cached per scenario dir and head)."""
    with _TWIN_LOCK:
        return _twin_unspent(d, head)


def _twin_unspent(d, head):
    key = (d, head)
    if key not in _TWIN:
        p = sh([BIN(), "twin_unspent", "--data", d, "--head", head, "--dir", os.path.join(d, "twin_" + head[:12])])
        if p.returncode != 0 or not p.stdout.strip():
            raise ToolError("twin_unspent failed: " + p.stderr[-300:])
        t = json.loads(p.stdout.strip().splitlines()[-1])
        _TWIN[key] = t["unspent_map"] if t["ok"] else None
    return _TWIN[key]


def classify(desc, refstate, o):
    """Outcome record for the trace spec + list of failed clauses (in order of severity)."""
    allowed = ancestors(desc, desc["old_head"]) | ancestors(desc, refstate["head"])
    ev = {"opened": o.get("init") == "ok", "head_on_chain": False, "valid": False, "converged": False, "input_converged": False}
    if ev["opened"]:
        ev["head_on_chain"] = o["reopened"]["head"] in allowed
        ev["valid"] = o.get("validate") == "ok" and o.get("unspent_vs_replay", "ok") == "ok"
        ev["converged"] = (not o.get("redeliver_errors")) and o["final"]["head"] == refstate["head"] \
            and o["final"]["roots"] == refstate["roots"] and o.get("final_validate") == "ok"
        # the statement's clause: re-delivering the interrupted input alone reaches the uninterrupted node's state
        ev["input_converged"] = (not o.get("input_errors")) and o["input_final"]["head"] == refstate["head"] \
            and o["input_final"]["roots"] == refstate["roots"]
    fails = [k for k in ("opened", "head_on_chain", "valid", "converged", "input_converged") if not ev[k]]
    return ev, fails


def point_signature(sc, fails, label, occ):
    """One narrow signature per (scenario, crash point, primary failure class)."""
    return "crash:%s:%s:at=%s#%d" % (sc, PRIMARY[fails[0]], label.replace(" ", "_"), occ)


def describe(sc, label, fails, o):
    return "%s after a kill at '%s' (%s): init=%s %s validate=%s reopened_height=%s redeliver=%s" % (
        ",".join(PRIMARY[f] for f in fails), label, sc, o.get("init"), o.get("err", "")[:60],
        (str(o.get("validate")) + "/unspent:" + str(o.get("unspent_vs_replay", "-")))[:120],
        o.get("reopened", {}).get("head_height"), str(o.get("redeliver_errors"))[:80])


def enumerate_scenario(wd, sc, blocks=90, workers=8):
    d, desc, refstate, labels = prepare(wd, sc, blocks)
    if not labels:
        raise ToolError("no crash points recorded for %s (hook not compiled in?)" % sc)
    n = len(labels)
    with cf.ThreadPoolExecutor(max_workers=workers) as ex:
        outs = list(ex.map(lambda k: one_point(d, k), range(1, n + 2)))   # n+1: no crash point reached => completes
    occ, details = {}, []
    for o in outs:
        k = o["k"]
        label = labels[k - 1] if k <= n else "completed"
        occ[label] = occ.get(label, 0) + 1
        if k <= n and not o["crashed"]:
            raise ToolError("child did not abort at point %d of %s" % (k, sc))
        if o.get("init") == "recover_tool_error":
            raise ToolError("recover failed at %s #%d: %s" % (sc, k, o.get("stderr")))
        ev, fails = classify(desc, refstate, o)
        ev.update({"k": "Crash", "scenario": sc, "at": k, "label": label})
        details.append({"sc": sc, "k": k, "label": label, "occ": occ[label], "fails": fails, "o": o, "ev": ev})
    shutil.rmtree(d, ignore_errors=True)
    return refstate, labels, details


def run(tier, replay):
    rep = Report(PID, tier, "fault_enumeration")
    rep.max_replays = 400
    wd = vlib.workdir(PID, clean=True)
    thorough = tier == "thorough"
    scenarios = THOROUGH if thorough else QUICK
    if replay:
        obj = json.load(open(replay))
        c = obj["case"]
        d, desc, refstate, labels = prepare(wd, c["scenario"], 90)
        o = one_point(d, c["k"])
        ev, fails = classify(desc, refstate, o)
        if fails:
            rep.violation(obj["signature"], c, "still fails: " + describe(c["scenario"], c.get("label"), fails, o))
        rep.coverage = {"evaluations": 1, "distinct_nontrivial": 2, "rule": "replay of one crash point",
                        "samples": [{"scenario": c["scenario"], "k": c["k"]}]}
        return rep.finish()

    all_labels, details, samples, compaction_stutter = {}, [], [], []
    for sc in scenarios:
        refstate, labels, det = enumerate_scenario(wd, sc)
        all_labels[sc] = labels
        details.extend(det)
        if sc.startswith("compact"):
            # chain-level clause of C08: compaction leaves head / validation untouched
            compaction_stutter.append({"scenario": sc, "validate_after": refstate.get("validate"), "results": refstate.get("results")})
            if refstate.get("validate") != "Ok(())" or any("Err" in x for x in refstate.get("results", [])):
                rep.violation("compact:%s:uninterrupted_run_invalid" % sc, {"scenario": sc, "k": 0}, str(refstate)[:300])
        n = len(labels)
        for dt in det:
            if dt["k"] in (1, n // 2, n) and len(samples) < 6:
                samples.append({"scenario": sc, "crash_at": dt["k"], "label": dt["label"],
                                "reopened_head_height": dt["o"].get("reopened", {}).get("head_height"), "outcome": dt["ev"]})

    # (M) Crash.tla over the recorded step lists: WriteOrder + every prefix recoverable by the contract
    steps_path = os.path.join(wd, "steps.json")
    json.dump([{"name": sc, "steps": [{"l": l, "file": l.startswith("aof.") or l.startswith("tmpfile."),
                                       "top": l == "lmdb.commit.before top"} for l in all_labels[sc]]}
               for sc in scenarios], open(steps_path, "w"))
    r = vlib.tlc("mc/MC_Crash", "mc/MC_Crash", workers=2, coverage=False, env={"STEPS": steps_path}, timeout=900)
    if r.invariant_violated:
        # WriteOrder is a statement about the recorded (real) step order: a violation is a real finding
        for inv in r.invariant_violated:
            rep.violation("crash:model:%s" % inv, {"scenario": "model", "k": 0, "tlc": r.out[-1500:]},
                          "Crash.tla invariant %s violated on the recorded step lists" % inv)
    elif not r.finished:
        print(r.out[-3000:])
        raise ToolError("MC_Crash did not complete")

    # (B) every recorded outcome is decided by the spec's Recover/Redeliver post-conditions (TLC)
    tp = os.path.join(wd, "trace.ndjson")
    vlib.write_ndjson(tp, [dt["ev"] for dt in details])
    t = vlib.tlc("trace/CrashTrace", workers=1, coverage=False, env={"TRACE": tp, "STEPS": steps_path}, xss="512m", timeout=900)
    if not t.finished:
        print(t.out[-3000:])
        raise ToolError("CrashTrace did not accept the trace structure (label / step-list binding broken?)")
    bad = sorted({int(x) for x in re.findall(r'<<"CRASHVIOLATION", (\d+)>>', t.out)})
    py_bad = [i + 1 for i, dt in enumerate(details) if dt["fails"]]
    if bad != py_bad:
        raise ToolError("trace spec and driver disagree on failing events: %s vs %s" % (bad[:10], py_bad[:10]))
    for i in bad:
        dt = details[i - 1]
        rep.violation(point_signature(dt["sc"], dt["fails"], dt["label"], dt["occ"]),
                      {"scenario": dt["sc"], "k": dt["k"], "label": dt["label"], "outcome": dt["o"]},
                      describe(dt["sc"], dt["label"], dt["fails"], dt["o"]))

    rep.coverage = {
        "evaluations": len(details),
        "distinct_nontrivial": len({(dt["sc"], dt["label"]) for dt in details}),
        "rule": "one evaluation per (scenario, crash point): child aborted at the k-th durable step, directory reopened, validated, everything above the recovered head re-delivered, compared with the uninterrupted run; distinct = distinct (scenario, step label)",
        "samples": samples,
        "scenarios": {sc: len(all_labels[sc]) for sc in scenarios},
        "crash_points_failing": len(bad),
        "states": r.distinct, "transitions": r.generated,
        "traces_validated_against_impl": len(details),
        "exhaustive": True,
        "compaction_stutter": compaction_stutter,
    }
    rep.assumptions = ["process death (abort), not power loss: data written before the kill is in the page cache; missing fsyncs are not detectable",
                       "crash points are the cfg(grin_verif) hooks at file truncate/append/replace, temp-file rename and LMDB commit",
                       "blocks processed with SKIP_POW under AutomatedTesting"]
    return rep.finish()
