"""C09 — a crash at any persistence step never bricks or corrupts the chain (spec/Crash.tla).

Fault enumeration inside a model-checking frame.  The durable step list of every scenario is
recorded from the real run in two layers: the cfg(grin_verif) crash points (hook layer) and every
libc persistence call on a file of the chain directory, recorded by an LD_PRELOAD interposer
(syscall layer, harness/crash/shim/crashshim.c — independent of where the hooks sit).  Crash.tla is
model-checked over those lists (WriteOrder on both layers, layer agreement, recoverability), and the
crash points are executed for real: the child process dies at the point (abort at the k-th hook /
exit_group before — or in the middle of — the k-th system call), the directory is reopened with
Chain::init, validated, the header-chain state is compared with the chain of the recovered
header_head, the interrupted input and then everything above the recovered head is re-delivered and
compared (body head, roots, header_head, header MMR root, height index) with the never-interrupted
run; the recorded outcomes are decided by the specification's Recover/Redeliver post-conditions and
the completeness of the enumeration by its crash-point definitions (TLC, CrashTrace).  Also carries
the chain-level clause of C08 (compaction is a stutter on head / roots / validation).
"""
import json, os, random, re, shutil, subprocess, time, concurrent.futures as cf
import vlib
from vlib import Report, ToolError

PID = "C09"
ENGINES = ["crash"]


def BIN():
    return os.path.join(vlib.HARNESS_BINDIR, "h_crash")


SHORT = ["extend", "extend_plain", "fork", "reorg", "headers"]
# scenario -> (hook layer, syscall layer, torn writes); "all" = every crash point the spec defines
QUICK = {"extend": ("all", "sample", "sample"), "extend_plain": ("all", "all", "all"), "fork": ("all", "all", "sample"),
         "reorg": ("all", "all", "all"), "headers": ("all", "all", "sample"), "compact": ("all", "sample", "sample")}
THOROUGH = {sc: ("all", "all", "all") for sc in SHORT + ["compact", "compact_block"]}
SAMPLE_MAX = 28
TORN_SAMPLE = 8
CLAUSES = ("opened", "head_on_chain", "valid", "header_ok", "converged", "input_converged")
PRIMARY = {"opened": "init_error", "head_on_chain": "head_not_on_chain", "valid": "invalid_state",
           "header_ok": "header_state_inconsistent", "converged": "no_convergence",
           "input_converged": "no_convergence_on_interrupted_input"}
SHIM_KILL_RC = 97
SYNC_CALLS = ("fsync", "fdatasync", "msync", "sync_file_range", "ftruncate_nop")
WRITE_CALLS = ("write", "pwrite", "writev", "pwritev")
_SHIM = {}


def sh(cmd, env=None, timeout=900):
    e = dict(os.environ)
    for k in list(e):
        if k.startswith("CRASHSHIM_") or k in ("GRIN_VERIF_CRASH_AT", "GRIN_VERIF_CRASH_LOG", "LD_PRELOAD"):
            e.pop(k)
    if env:
        e.update(env)
    return subprocess.run(cmd, stdout=subprocess.PIPE, stderr=subprocess.PIPE, text=True, env=e, timeout=timeout)


def copytree(a, b):
    shutil.rmtree(b, ignore_errors=True)
    shutil.copytree(a, b)


def build_shim(wd):
    """The LD_PRELOAD fault injector is built from source on every run (never kept in git)."""
    src = os.path.join(vlib.HARNESS_DIR, "crash", "shim", "crashshim.c")
    so = os.path.join(wd, "libcrashshim.so")
    p = subprocess.run(["cc", "-shared", "-fPIC", "-O1", "-U_FORTIFY_SOURCE", "-o", so, src, "-ldl", "-lpthread"],
                       stdout=subprocess.PIPE, stderr=subprocess.STDOUT, text=True)
    if p.returncode != 0 or not os.path.exists(so):
        print(p.stdout[-2000:])
        raise ToolError("could not build the crash shim")
    _SHIM["so"] = so
    return so


def shim_env(run_dir, **kw):
    e = {"LD_PRELOAD": _SHIM["so"], "CRASHSHIM_DIR": os.path.realpath(run_dir), "CRASHSHIM_MARKER": os.path.realpath(run_dir) + ".armed"}
    e.update({k: str(v) for k, v in kw.items()})
    return e


def sys_step(call, path, nbytes):
    lmdb = os.path.basename(path) in ("data.mdb", "lock.mdb")
    mut = call not in SYNC_CALLS
    return {"l": "%s %s" % (call, path), "call": call, "path": path, "bytes": nbytes, "mut": mut,
            "file": mut and not lmdb, "top": lmdb and call in WRITE_CALLS and nbytes < 4096,
            "tearable": call in WRITE_CALLS and nbytes >= 2 and not lmdb}


def hook_step(l):
    return {"l": l, "file": l.startswith("aof.") or l.startswith("tmpfile."), "top": l == "lmdb.commit.before top"}


def prepare(wd, sc, blocks):
    d = os.path.join(wd, sc)
    p = sh([BIN(), "prepare", "--scenario", sc, "--dir", d, "--blocks", str(blocks)], timeout=1800)
    if p.returncode != 0:
        print(p.stdout[-2000:], p.stderr[-2000:])
        raise ToolError("prepare failed for " + sc)
    desc = json.load(open(os.path.join(d, "data.json")))
    # reference: uninterrupted run, recording both layers of durable steps in one execution
    ref = os.path.join(d, "ref")
    copytree(os.path.join(d, "base"), ref)
    logf, sysf = os.path.realpath(os.path.join(d, "labels.txt")), os.path.realpath(os.path.join(d, "sys.txt"))
    for f in (logf, sysf):
        if os.path.exists(f):
            os.remove(f)
    env = shim_env(ref, CRASHSHIM_LOG=sysf, CRASHSHIM_HOOKLOG=logf)
    env["GRIN_VERIF_CRASH_LOG"] = logf
    p = sh([BIN(), "run", "--dir", ref, "--data", d], env=env)
    if p.returncode != 0:
        print(p.stdout[-2000:], p.stderr[-2000:])
        raise ToolError("reference run failed for " + sc)
    refstate = json.loads(p.stdout.strip().splitlines()[-1])
    labels = [l.split(" ", 1)[1].strip() for l in open(logf)] if os.path.exists(logf) else []
    sys_steps, hookpos, hooks_seen = [], [], []
    for line in (open(sysf) if os.path.exists(sysf) else []):
        line = line.rstrip("\n")
        if line.startswith("H "):
            hooks_seen.append(line.split(" ", 2)[2].strip())
            hookpos.append(len(sys_steps))
            continue
        n, call, path, nbytes = line.split(" ")
        if int(n) != len(sys_steps) + 1:
            raise ToolError("crash shim log of %s is not contiguous at %s" % (sc, line))
        sys_steps.append(sys_step(call, path, int(nbytes)))
    if hooks_seen != labels:
        raise ToolError("the interposer did not see the hook log of %s as the hooks wrote it (%d vs %d labels)" % (sc, len(hooks_seen), len(labels)))
    shutil.rmtree(ref, ignore_errors=True)
    return d, desc, refstate, labels, sys_steps, hookpos


def ancestors(desc, h):
    by = {b["hash"]: b for b in desc["blocks"]}
    res = set()
    while h in by:
        res.add(h)
        if by[h]["height"] == 0:
            break
        h = by[h]["prev"]
    return res


def one_point(d, layer, k, torn=False, expect=None):
    """expect (syscall layer): the step list of the reference run; the killed child must have executed exactly
    its first k-1 steps and died at the k-th (the system-call sequence is reproducible)."""
    run = os.path.join(d, "run_%s%d%s" % (layer, k, "t" if torn else ""))
    copytree(os.path.join(d, "base"), run)
    if layer == "hook":
        p = sh([BIN(), "run", "--dir", run, "--data", d], env={"GRIN_VERIF_CRASH_AT": str(k)})
        crashed = p.returncode != 0
    else:
        slog = os.path.realpath(run) + ".sys"
        p = sh([BIN(), "run", "--dir", run, "--data", d], env=shim_env(run, CRASHSHIM_AT=k, CRASHSHIM_TORN=1 if torn else 0, CRASHSHIM_LOG=slog))
        crashed = p.returncode == SHIM_KILL_RC
        seen = [x.rstrip("\n").split(" ", 1)[1].rsplit(" ", 1)[0] for x in open(slog)] if os.path.exists(slog) else []
        if os.path.exists(slog):
            os.remove(slog)
        bad = None
        if p.returncode not in (0, SHIM_KILL_RC):
            bad = "rc=%s %s" % (p.returncode, p.stderr[-300:])
        elif expect is not None and seen != [x["l"] for x in expect[:k]]:
            bad = "system-call sequence differs from the reference run: %s vs %s" % (seen[-3:], [x["l"] for x in expect[:k]][-3:])
        if bad:
            shutil.rmtree(run, ignore_errors=True)
            return {"k": k, "layer": layer, "torn": torn, "crashed": False, "init": "run_tool_error", "stderr": bad}
    marker = os.path.realpath(run) + ".armed"
    if os.path.exists(marker):
        os.remove(marker)
    r = sh([BIN(), "recover", "--dir", run, "--data", d])
    shutil.rmtree(run, ignore_errors=True)
    if r.returncode != 0 or not r.stdout.strip():
        return {"k": k, "layer": layer, "torn": torn, "crashed": crashed, "init": "recover_tool_error", "stderr": r.stderr[-500:]}
    o = json.loads(r.stdout.strip().splitlines()[-1])
    o.update({"k": k, "layer": layer, "torn": torn, "crashed": crashed})
    if "unspent_map" in o:
        um = o.pop("unspent_map")
        tw = twin_unspent(d, o["reopened"]["head"])
        if tw is not None:
            o["unspent_vs_replay"] = "ok" if um == tw else "differs:%d/%d outputs" % (len(um), len(tw))
    return o


_TWIN = {}
import threading
_TWIN_LOCK = threading.Lock()


def twin_unspent(d, head):
    """get_unspent map of a node that only ever processed the chain of `head` (cached per scenario dir and head)."""
    with _TWIN_LOCK:
        return _twin_unspent(d, head)


def _twin_unspent(d, head):
    key = (d, head)
    if key not in _TWIN:
        p = sh([BIN(), "twin_unspent", "--data", d, "--head", head, "--dir", os.path.join(d, "twin_" + head[:12])])
        if p.returncode != 0 or not p.stdout.strip():
            raise ToolError("twin_unspent failed: " + p.stderr[-300:])
        t = json.loads(p.stdout.strip().splitlines()[-1])
        _TWIN[key] = t["unspent_map"] if t["ok"] else None
    return _TWIN[key]


def header_problem(desc, refstate, st):
    """The header-chain state of a reopened node must be that of an accepted header chain: header_head is a
    header of the old or of the new header chain, the header MMR ends in it (head, size, root) and the height
    index answers with its ancestors.  Returns None or a short description."""
    by = {b["hash"]: b for b in desc["blocks"]}
    hh, hdr = st["header_head"], st.get("hdr")
    if hdr is None:
        return "no_header_state"
    if hh not in (ancestors(desc, desc["old_head"]) | ancestors(desc, refstate["header_head"])):
        return "header_head_not_on_an_accepted_chain"
    chain, h = [], hh
    while h in by:
        chain.append(h)
        if by[h]["height"] == 0:
            break
        h = by[h]["prev"]
    chain.reverse()
    if hdr["by_height"] != chain:
        bad = [i for i in range(min(len(chain), len(hdr["by_height"]))) if chain[i] != hdr["by_height"][i]]
        return "height_index_differs_from_header_head_chain(first at %s)" % (bad[0] if bad else "length")
    if hdr["mmr_head"] != hh:
        return "header_mmr_head_differs_from_header_head"
    n = by[hh]["height"] + 1
    if hdr["size"] != 2 * n - bin(n).count("1"):
        return "header_mmr_size"
    kids = [b for b in desc["blocks"] if b["prev"] == hh and b["height"] > 0]
    want = kids[0]["prev_root"] if kids else (refstate["hdr"]["root"] if hh == refstate["header_head"] else None)
    if want is not None and hdr["root"] != want:
        return "header_mmr_root"
    return None


def same_as_ref(st, refstate):
    return st["head"] == refstate["head"] and st["roots"] == refstate["roots"] and st["header_head"] == refstate["header_head"] \
        and st.get("hdr") == refstate.get("hdr")


def classify(desc, refstate, o):
    """Outcome record for the trace spec + list of failed clauses (in order of severity)."""
    allowed = ancestors(desc, desc["old_head"]) | ancestors(desc, refstate["head"])
    ev = {k: False for k in CLAUSES}
    ev["opened"] = o.get("init") == "ok"
    if ev["opened"]:
        ev["head_on_chain"] = o["reopened"]["head"] in allowed
        ev["valid"] = o.get("validate") == "ok" and o.get("unspent_vs_replay", "ok") == "ok"
        o["header_problem"] = header_problem(desc, refstate, o["reopened"])
        ev["header_ok"] = o["header_problem"] is None
        ev["converged"] = (not o.get("redeliver_errors")) and same_as_ref(o["final"], refstate) and o.get("final_validate") == "ok"
        # the statement's clause: re-delivering the interrupted input alone reaches the uninterrupted node's state
        ev["input_converged"] = (not o.get("input_errors")) and same_as_ref(o["input_final"], refstate)
    fails = [k for k in CLAUSES if not ev[k]]
    return ev, fails


def point_signature(sc, fails, label, occ):
    """One narrow signature per (scenario, crash point, primary failure class)."""
    return "crash:%s:%s:at=%s#%d" % (sc, PRIMARY[fails[0]], label.replace(" ", "_"), occ)


def sys_kind(steps, n):
    """(call kind, file, occurrence) of syscall-layer step n, stable across runs: LMDB page writes are counted
    per commit (their number depends on the page layout), everything else per (file, call) pair."""
    s = steps[n - 1]
    if os.path.basename(s["path"]) == "data.mdb" and s["call"] in WRITE_CALLS:
        metas = sum(1 for x in steps[:n - 1] if x["top"])
        return ("lmdb_meta", s["path"], metas + 1) if s["top"] else ("lmdb_page", s["path"], metas + 1)
    return s["call"], s["path"], sum(1 for x in steps[:n] if x["call"] == s["call"] and x["path"] == s["path"])


def sys_signature(sc, fails, steps, n, torn):
    if n > len(steps):
        return "crash:%s:%s:sys=completed" % (sc, PRIMARY[fails[0]])
    kind, path, occ = sys_kind(steps, n)
    return "crash:%s:%s:sys=%s%s:%s#%d" % (sc, PRIMARY[fails[0]], "torn_" if torn else "", kind, path, occ)


def describe(sc, label, fails, o):
    return "%s after a kill at '%s' (%s): init=%s %s validate=%s header=%s reopened_height=%s redeliver=%s" % (
        ",".join(PRIMARY[f] for f in fails), label, sc, o.get("init"), o.get("err", "")[:60],
        (str(o.get("validate")) + "/unspent:" + str(o.get("unspent_vs_replay", "-")))[:120], o.get("header_problem"),
        o.get("reopened", {}).get("head_height"), str(o.get("redeliver_errors"))[:80])


class Layers:
    """The two recorded step lists of one scenario and the derived notions (the same definitions as Crash.tla;
    CrashTrace re-computes state / window of every event and rejects the trace when they differ)."""

    def __init__(self, labels, steps, hookpos):
        self.labels, self.steps, self.hookpos = labels, steps, hookpos
        self.mutbefore = [0]
        for s in steps:
            self.mutbefore.append(self.mutbefore[-1] + (1 if s["mut"] else 0))
        occ, self.hook_occ = {}, []
        for l in labels:
            occ[l] = occ.get(l, 0) + 1
            self.hook_occ.append(occ[l])

    def sys_state(self, at):
        return self.mutbefore[at - 1]

    def hook_state(self, j):
        return self.mutbefore[self.hookpos[j - 1]] if j <= len(self.labels) else self.mutbefore[-1]

    def open_hook(self, at):
        js = [j for j in range(1, len(self.hookpos) + 1) if self.hookpos[j - 1] <= at - 1]
        return max(js) if js else 0

    def sys_points(self):
        return [i for i in range(1, len(self.steps) + 1) if self.steps[i - 1]["mut"]] + [len(self.steps) + 1]

    def torn_points(self):
        return [i for i in range(1, len(self.steps) + 1) if self.steps[i - 1]["tearable"]]

    def sample(self, pts, rng, keep_uncovered):
        """Quick-tier sample: prefer crash states no hook point has, thin runs of equal calls, then draw."""
        if keep_uncovered:
            hs = {self.hook_state(j) for j in range(1, len(self.labels) + 2)}
            unc = [i for i in pts if self.sys_state(i) not in hs]
            pts = unc or pts
        thin = [i for n, i in enumerate(pts) if i > len(self.steps) or n == 0 or n == len(pts) - 1
                or not (self.steps[i - 1]["l"] == self.steps[pts[n - 1] - 1]["l"] and pts[n + 1] <= len(self.steps)
                        and self.steps[i - 1]["l"] == self.steps[pts[n + 1] - 1]["l"])]
        if len(thin) > SAMPLE_MAX:
            thin = sorted(rng.sample(thin, SAMPLE_MAX))
        return thin


def enumerate_scenario(wd, sc, si, modes, rng, blocks=90, workers=8):
    hookmode, sysmode, tornmode = modes
    t0 = time.time()
    d, desc, refstate, labels, steps, hookpos = prepare(wd, sc, blocks)
    t1 = time.time()
    if not labels:
        raise ToolError("no crash points recorded for %s (hook not compiled in?)" % sc)
    if not steps:
        raise ToolError("no system calls recorded for %s (interposer not loaded?)" % sc)
    L = Layers(labels, steps, hookpos)
    n = len(labels)
    jobs = [("hook", k, False) for k in range(1, n + 2)]      # n+1: no crash point reached => completes
    sp = L.sys_points()
    jobs += [("sys", k, False) for k in (sp if sysmode == "all" else L.sample(sp, rng, True))]
    tp = L.torn_points()
    jobs += [("sys", k, True) for k in (tp if tornmode == "all" else sorted(rng.sample(tp, min(len(tp), TORN_SAMPLE))))]
    with cf.ThreadPoolExecutor(max_workers=workers) as ex:
        outs = list(ex.map(lambda j: one_point(d, j[0], j[1], j[2], steps if j[0] == "sys" else None), jobs))
    occ, details = {}, []
    for o in outs:
        k, layer, torn = o["k"], o["layer"], o["torn"]
        lst = labels if layer == "hook" else [s["l"] for s in steps]
        label = lst[k - 1] if k <= len(lst) else "completed"
        if layer == "hook":
            occ[label] = occ.get(label, 0) + 1
        if o.get("init") in ("recover_tool_error", "run_tool_error"):
            raise ToolError("%s failed at %s %s#%d: %s" % (o["init"], sc, layer, k, o.get("stderr")))
        if k <= len(lst) and not o["crashed"]:
            raise ToolError("child did not die at %s point %d of %s" % (layer, k, sc))
        ev, fails = classify(desc, refstate, o)
        state = L.hook_state(k) if layer == "hook" else L.sys_state(k)
        ev.update({"k": "Crash", "scenario": sc, "si": si, "layer": layer, "at": k, "label": label, "torn": torn,
                   "win": L.open_hook(k) if layer == "sys" else 0, "state": state})
        details.append({"sc": sc, "layer": layer, "k": k, "torn": torn, "label": label, "occ": occ.get(label, 0), "fails": fails,
                        "o": o, "ev": ev, "state": state})
    shutil.rmtree(d, ignore_errors=True)
    vlib.log("C09 %s: prepared in %.0fs; %d hook-layer, %d syscall-layer, %d torn-write crash points run in %.0fs" % (
        sc, t1 - t0, n + 1, len([j for j in jobs if j[0] == "sys" and not j[2]]), len([j for j in jobs if j[2]]), time.time() - t1))
    return refstate, L, details


def signature_of(rep, dt, L):
    """Hook-layer points keep their signature. A failing syscall-layer point is the same finding as a hook-layer
    point when it leaves the same crash state, or lies in the window that hook point opens / closes, and fails
    the same primary clause: it then carries that point's signature (so a listed finding stays one finding);
    otherwise it gets a signature of its own (scenario, clause, call kind, file, occurrence)."""
    if dt["layer"] == "hook":
        return point_signature(dt["sc"], dt["fails"], dt["label"], dt["occ"])
    known = {k["signature"] for k in rep.known}
    n, nh = dt["k"], len(L.labels)
    w = L.open_hook(n)
    cands = [j for j in range(1, nh + 1) if not dt["torn"] and L.hook_state(j) == dt["state"]] + [j for j in (w, w + 1) if 1 <= j <= nh]
    for j in cands:
        s = point_signature(dt["sc"], dt["fails"], L.labels[j - 1], L.hook_occ[j - 1])
        if s in known:
            return s
    return sys_signature(dt["sc"], dt["fails"], L.steps, n, dt["torn"])


def run(tier, replay):
    rep = Report(PID, tier, "fault_enumeration")
    rep.max_replays = 400
    wd = vlib.workdir(PID, clean=True)
    build_shim(wd)
    thorough = tier == "thorough"
    plan = THOROUGH if thorough else QUICK
    rng = random.Random(vlib.seed())
    if replay:
        obj = json.load(open(replay))
        c = obj["case"]
        if c["scenario"] == "model":
            raise ToolError("a model-level finding is re-checked by a full run, not by --replay")
        d, desc, refstate, labels, steps, hookpos = prepare(wd, c["scenario"], 90)
        o = one_point(d, c.get("layer", "hook"), c["k"], c.get("torn", False))
        ev, fails = classify(desc, refstate, o)
        if fails:
            rep.violation(obj["signature"], c, "still fails: " + describe(c["scenario"], c.get("label"), fails, o))
        rep.coverage = {"evaluations": 1, "distinct_nontrivial": 2, "rule": "replay of one crash point",
                        "samples": [{"scenario": c["scenario"], "layer": c.get("layer", "hook"), "k": c["k"]}]}
        return rep.finish()

    layers, details, samples, compaction_stutter = {}, [], [], []
    for si, (sc, modes) in enumerate(plan.items()):
        refstate, L, det = enumerate_scenario(wd, sc, si + 1, modes, rng)     # si: position in the Scenarios constant
        layers[sc] = L
        details.extend(det)
        if sc.startswith("compact"):
            # chain-level clause of C08: compaction leaves head / validation untouched
            compaction_stutter.append({"scenario": sc, "validate_after": refstate.get("validate"), "results": refstate.get("results")})
            if refstate.get("validate") != "Ok(())" or any("Err" in x for x in refstate.get("results", [])):
                rep.violation("compact:%s:uninterrupted_run_invalid" % sc, {"scenario": sc, "k": 0}, str(refstate)[:300])
        n = len(L.labels)
        for dt in det:
            if dt["layer"] == "hook" and dt["k"] in (1, n // 2, n) and len(samples) < 6:
                samples.append({"scenario": sc, "crash_at": dt["k"], "label": dt["label"],
                                "reopened_head_height": dt["o"].get("reopened", {}).get("head_height"), "outcome": dt["ev"]})
        sysd = [dt for dt in det if dt["layer"] == "sys"]
        for dt in ([x for x in sysd if not x["torn"]][len(sysd) // 3:][:1] + [x for x in sysd if x["torn"]][:1]):
            if len(samples) < 14:
                samples.append({"scenario": sc, "layer": "sys", "torn": dt["torn"], "crash_at": dt["k"], "label": dt["label"], "outcome": dt["ev"]})

    # (M) Crash.tla over the recorded step lists: WriteOrder on both layers, layer agreement,
    #     every prefix recoverable by the contract
    steps_path = os.path.join(wd, "steps.json")
    json.dump([{"name": sc, "steps": [hook_step(l) for l in layers[sc].labels], "sys": layers[sc].steps, "hookpos": layers[sc].hookpos,
                "hookmode": plan[sc][0], "sysmode": plan[sc][1], "tornmode": plan[sc][2]} for sc in plan], open(steps_path, "w"))
    r = vlib.tlc("mc/MC_Crash", "mc/MC_Crash", workers=2, coverage=False, env={"STEPS": steps_path}, timeout=900)
    if r.invariant_violated and not set(r.invariant_violated) <= {"WriteOrder", "EndsWithCommit", "SysWriteOrder", "SysEndsWithCommit"}:
        print(r.out[-3000:])
        raise ToolError("MC_Crash: %s violated (the two recorded layers do not describe one execution, or the spec is wrong)" % r.invariant_violated)
    if r.invariant_violated:
        # these invariants are statements about the recorded (real) step order: a violation is a real finding
        for inv in r.invariant_violated:
            rep.violation("crash:model:%s" % inv, {"scenario": "model", "k": 0, "tlc": r.out[-1500:]},
                          "Crash.tla invariant %s violated on the recorded step lists" % inv)
    elif not r.finished:
        print(r.out[-3000:])
        raise ToolError("MC_Crash did not complete")

    # (B) every recorded outcome is decided by the spec's Recover/Redeliver post-conditions, the crash points
    #     by its Crash / CrashTorn guards, the completeness of the enumeration by its crash-point sets (TLC)
    tp = os.path.join(wd, "trace.ndjson")
    vlib.write_ndjson(tp, [dt["ev"] for dt in details])
    t = vlib.tlc("trace/CrashTrace", workers=1, coverage=False, env={"TRACE": tp, "STEPS": steps_path}, xss="512m", timeout=900)
    if not t.finished:
        print(t.out[-3000:])
        raise ToolError("CrashTrace did not accept the trace structure (label / step-list / crash-point binding broken?)")
    bad = sorted({int(x) for x in re.findall(r'<<"CRASHVIOLATION", (\d+)>>', t.out)})
    py_bad = [i + 1 for i, dt in enumerate(details) if dt["fails"]]
    if bad != py_bad:
        raise ToolError("trace spec and driver disagree on failing events: %s vs %s" % (bad[:10], py_bad[:10]))
    new_sys = []
    for i in bad:
        dt = details[i - 1]
        L = layers[dt["sc"]]
        sig = signature_of(rep, dt, L)
        what = describe(dt["sc"], dt["label"], dt["fails"], dt["o"])
        is_new = rep.violation(sig, {"scenario": dt["sc"], "layer": dt["layer"], "k": dt["k"], "torn": dt["torn"], "label": dt["label"],
                                     "outcome": dt["o"]}, what)
        if dt["layer"] == "sys" and is_new:
            w = L.open_hook(dt["k"])
            new_sys.append({"property": PID, "status": "known", "signature": sig, "what": what, "scenario": dt["sc"], "syscall_index": dt["k"],
                            "torn": dt["torn"], "window_opened_by": (L.labels[w - 1] + "#%d" % L.hook_occ[w - 1]) if w else "start"})
    if new_sys:
        # proposal only: the list of known findings is not edited by the check
        with open(os.path.join(vlib.OUT, "work", "c09_proposed_known.json"), "w") as f:
            json.dump({"findings": new_sys}, f, indent=1)

    # crash points of the two layers that leave the same crash state: do their verdicts agree? (measured, not demanded)
    by_state = {}
    for dt in details:
        if not dt["torn"]:
            by_state.setdefault((dt["sc"], dt["state"]), {}).setdefault(dt["layer"], set()).add(bool(dt["fails"]))
    both = [v for v in by_state.values() if "hook" in v and "sys" in v]
    hookd = [dt for dt in details if dt["layer"] == "hook"]
    sysd = [dt for dt in details if dt["layer"] == "sys"]
    rep.coverage = {
        "evaluations": len(details),
        "distinct_nontrivial": len({(dt["sc"], dt["layer"], dt["label"]) for dt in details}),
        "rule": "one evaluation per (scenario, layer, crash point): child killed at the k-th durable step (abort at the hook / exit_group before or in the middle of the system call), directory reopened, validated, header-chain state checked, interrupted input and then everything above the recovered head re-delivered, compared with the uninterrupted run; distinct = distinct (scenario, layer, step label)",
        "samples": samples,
        "scenarios": {sc: len(layers[sc].labels) for sc in plan},
        "syscall_steps": {sc: {"steps": len(layers[sc].steps), "crash_states": len(layers[sc].sys_points()), "torn_points": len(layers[sc].torn_points()),
                               "modes": list(plan[sc])} for sc in plan},
        "hook_points_run": len(hookd), "syscall_points_run": len([d_ for d_ in sysd if not d_["torn"]]), "torn_points_run": len([d_ for d_ in sysd if d_["torn"]]),
        "syscall_states_without_hook_point": len({(dt["sc"], dt["state"]) for dt in sysd if not dt["torn"]} - {(dt["sc"], dt["state"]) for dt in hookd}),
        "state_equal_points_in_both_layers": len(both), "state_equal_points_disagreeing": len([v for v in both if v["hook"] != v["sys"]]),
        "known_signatures_not_reproduced": sorted(k["signature"] for k in rep.known if k["signature"].split(":")[1] in plan
                                                  and k["signature"] not in rep.known_hit),
        "crash_points_failing": len(bad), "syscall_points_failing_outside_known_windows": len(new_sys),
        "states": r.distinct, "transitions": r.generated,
        "traces_validated_against_impl": len(details),
        "exhaustive": all(m == "all" for sc in plan for m in plan[sc]),
        "hook_layer_exhaustive": all(plan[sc][0] == "all" for sc in plan),
        "syscall_layer_exhaustive_for": [sc for sc in plan if plan[sc][1] == "all"],
        "compaction_stutter": compaction_stutter,
    }
    rep.assumptions = ["process death (abort / exit_group), not power loss: data written before the kill is in the page cache; missing fsyncs are not detectable, and crash points that differ only by a sync are one crash state",
                       "hook layer: the cfg(grin_verif) hooks at file truncate/append/replace, temp-file rename and LMDB commit; syscall layer: the libc calls interposed by harness/crash/shim/crashshim.c on files under the chain directory (stores through a writable shared mapping would not be seen; grin and LMDB without MDB_WRITEMAP have none)",
                       "a torn write leaves the first half of the bytes of one write(2); writes to the LMDB data file are not torn (its pages are unreferenced until the single small meta-page write)",
                       "blocks processed with SKIP_POW under AutomatedTesting"]
    return rep.finish()
