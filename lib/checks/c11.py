"""C11 — Decoding untrusted bytes never panics, aborts, hangs or over-allocates (spec/Decode.tla).

Level: exploration.  A TLA+ specification cannot enumerate byte strings; Decode.tla contributes
  (1) the call protocol and resource contract of a decoder call (Begin -> End(ok|err, consumed <= len,
      peak <= A + B*len), stream decoders: every delivered message consumed >= 1 byte), model-checked in
      mc/MC_Decode and used by trace/DecodeTrace to accept or refuse the recorded executions, and
  (2) the structure-aware mutation generator: TLC enumerates, over the abstract layouts that the real
      encoders produce, the mutation classes of the property's quantifier (mc/MC_Decode_gen).
  (3) the catalogue of post-decode steps (PostSteps): the conversions / accessors / stateless checks that the message
      handlers apply unconditionally to a freshly decoded value before chain state is consulted
      (BitmapSegment::into_segment, Untrusted* -> into(), Block::hydrate_from, Segment::validate, identifier and fee
      arithmetic, Get*Segment serving ...).  The harness pushes every value that decodes Ok through the steps of its
      decoder under the same supervision; a violation names the step (decode:BitmapSegment::into_segment:panic:...).
  (4) the sharper resource contract: a call the decoder itself refused is held to the decoder-only constant DecA (derived from
      the decoder's own limit constants); Codec::read is bounded per frame type by the table max_msg_size (MsgLimit) and a frame
      announcing more than 4 * MsgLimit must consume the 11 header bytes and nothing else (FrameLimitOK); every Get*Segment
      request the real admission text of servers/src/common/adapters.rs answers must be of a height whose full segment fits
      the response frame (ServeOK).
  (5) the generators of large inputs: repeated groups (RepeatOps: a count field's limit worth of copies of an item, also with
      per-item boundary values), many valid items built by the real encoders at the limits of both chain types (BigCounts),
      hard-fork eras x header versions x edge_bits with re-packed nonces on Mainnet / Testnet / AutomatedTesting (EraOps),
      frame lengths at the boundary of what each message type admits with the body present (FrameLenOps), JSON array lengths.
harness/decode runs every decoder reachable from the network or the API in child processes (counting
allocator with a 1 GiB cap, catch_unwind, parent-side watchdog and restart) on valid encodings x mutations,
random bytes and valid-prefix + random bytes, at protocol versions 1, 2, 3, 1000, release profile.  The serving side of
Get*Segment and the stratum server's share submission run as the source text of the tree under test (build.rs extraction).
"""
import json, os, re, subprocess, shutil, collections, time, concurrent.futures
import vlib
from vlib import Report, ToolError, log

PID = "C11"
ENGINES = ["decode"]
TIMEOUT_MS = 10_000
STEPS_OF = {}   # decoder -> post-decode steps (exported by the harness, checked equal to Decode.tla PostSteps by MC_Decode_gen!StepsAgree)


def cause_of(note):
    msg = note.split(" @ ")[0]
    table = [
        ("called `Result::unwrap()` on an `Err` value", "unwrap_on_err"),
        ("called `Option::unwrap()` on a `None` value", "unwrap_on_none"),
        ("capacity overflow", "capacity_overflow"),
        ("is not a char boundary", "not_char_boundary"),
        ("index out of bounds", "index_out_of_bounds"),
        ("out of range for slice", "index_out_of_bounds"),
        ("range end index", "index_out_of_bounds"),
        ("range start index", "index_out_of_bounds"),
        ("slice index starts at", "index_out_of_bounds"),
        ("attempt to divide by zero", "div_by_zero"),
        ("attempt to calculate the remainder with a divisor of zero", "div_by_zero"),
        ("overflow", "arith_overflow"),
        ("assertion", "assertion_failed"),
        ("already borrowed", "already_borrowed"),
    ]
    for pat, c in table:
        if pat in msg:
            return c
    slug = re.sub(r"[^a-z0-9]+", "_", msg.lower()).strip("_")
    return "_".join(slug.split("_")[:4]) or "unknown"


def signature(b, e, bounds):
    """narrow signature of one non-conforming call: the decoder - or the post-decode step in progress when the call
    ended - + outcome class + short cause (no line numbers)"""
    dec = b["dec"]
    out = e["out"]
    unit = e.get("step") or dec
    if out == "panic":
        return "decode:%s:panic:%s" % (unit, cause_of(e.get("note", "")))
    if out == "abort":
        return "decode:%s:abort:%s" % (unit, "alloc_refused" if e.get("alloc_refused") else re.sub(r"\W+", "_", e.get("note", "?"))
                                       )
    if out == "hang":
        return "decode:%s:hang" % unit
    if e.get("step") and e["step"] not in STEPS_OF.get(dec, ()):
        return "decode:%s:step_not_in_catalogue:%s" % (dec, re.sub(r"\W+", "_", e["step"]))
    for sv in e.get("served", []):
        if not serve_ok(sv):
            # (one signature per kind of segment, whatever the decoder the request came through and the height admitted)
            return "decode:Segment::from_pmmr:serve_over_frame_limit:%s" % sv["kind"]
    if dec == "Codec::read" and frame_refused(b, bounds) and (e["consumed"] != 11 or e["reads"] != 0):
        return "decode:Codec::read:frame_over_limit_not_refused:type_%s" % b.get("fty")
    if e["peak"] > call_bound(b, e, bounds):
        if dec == "Codec::read" and b.get("fty", -1) >= 0:
            return "decode:Codec::read:alloc:over_bound:type_%s" % b["fty"]
        return "decode:%s:alloc:over_bound%s" % (dec, ":decoder_refused" if e["out"] == "err" else "")
    if e["consumed"] > b["len"]:
        return "decode:%s:consumed_gt_len" % dec
    if b.get("stream") and e["reads"] > e["consumed"]:
        return "decode:%s:no_progress" % dec
    return "decode:%s:rejected_by_trace_spec" % dec


SERVE_LEAF = {"kernel": 8 + 98, "bitmap": 128, "output": 8 + 34, "rangeproof": 8 + 683}
SERVE_LIMIT = 2 * (40000 // 21) * 708


def serve_ok(sv):
    """mirror of Decode.tla ServeOK, used only to NAME a violation the trace specification has found"""
    return sv["kind"] in SERVE_LEAF and sv["h"] < 22 and (1 << sv["h"]) * SERVE_LEAF[sv["kind"]] <= SERVE_LIMIT and sv["resp"] <= SERVE_LIMIT


def frame_refused(b, bounds):
    t = bounds.get("frames@" + b["ct"])
    if b.get("fty", -1) < 0 or not t:
        return False
    return b["flen"] > t[min(b["fty"], len(t) - 1)]["admit"]


def call_bound(b, e, bounds):
    """mirror of Decode.tla CallBound (naming only)"""
    bd = bounds[b["dec"] + "@" + b["ct"]]
    if b["dec"] == "Codec::read" and b.get("fty", -1) >= 0:
        t = bounds["frames@" + b["ct"]]
        row = t[min(b["fty"], len(t) - 1)]
        if b["flen"] > row["admit"]:
            return 64 * 1024 + bd["b"] * b["len"]
        if e["consumed"] < b["flen"] + 22:
            return min(b["flen"], row["admit"]) + row["a"] + 64 * 1024 + bd["b"] * b["len"]
    if b["dec"] != "Codec::read" and e["out"] == "err":
        return bd["da"] + bd["b"] * b["len"]
    return bd["a"] + bd["b"] * b["len"]


def validate_trace(path, what):
    """-> (accepted, [1-based indices of non-conforming events], reject line)"""
    r = vlib.tlc("trace/DecodeTrace", workers=1, coverage=False, env={"TRACE": path}, xmx="4g", timeout=900)
    bad = []
    for line in r.out.splitlines():
        m = re.match(r'^<<"TRACE-BAD", (\d+)>>$', line.strip())
        if m:
            bad.append(int(m.group(1)))
    if r.finished:
        return True, [], ""
    rej = [x for x in r.out.splitlines() if "TRACE-REJECTED" in x]
    if rej:
        return False, bad, rej[0]
    print(r.out[-4000:])
    raise ToolError("DecodeTrace failed without a verdict (%s)" % what)


def report_bad(rep, events, bad_idx, cases_by_i, bounds, rej, seen):
    for li in bad_idx:
        e = events[li - 1]
        if e["k"] == "Steps":
            sig = "decode:steps:not_in_catalogue"
            if sig not in seen:
                seen.add(sig)
                rep.violation(sig, {"kind": "steps", "event": e}, json.dumps(e)[:400])
            continue
        if e["k"] == "Sum":
            sig = "decode:%s:summary_inconsistent" % e["dec"]
            if sig not in seen:
                seen.add(sig)
                rep.violation(sig, {"kind": "summary", "event": e}, json.dumps(e))
            continue
        b = events[li - 2]
        if e["out"] == "panic" and "decode/src/" in e.get("note", ""):
            raise ToolError("panic inside the harness, not in the code under test: " + e["note"][:300])
        sig = signature(b, e, bounds)
        if sig in seen:
            continue
        seen.add(sig)
        case = cases_by_i.get(e["i"])
        what = "%s rd=%s ver=%s ct=%s len=%d -> %sout=%s consumed=%s peak=%s reads=%s %s" % (
            b["dec"], b["rd"], b["ver"], b["ct"], b["len"], ("decoded, then in step %s: " % e["step"]) if e.get("step") else "",
            e["out"], e["consumed"], e["peak"], e["reads"], e.get("note", "")[:200])
        rep.violation(sig, {"kind": "case", "case": case, "begin": b, "end": e}, what)
    if not bad_idx and rej:
        rep.violation("decode:trace:rejected", {"kind": "trace", "rejected": rej}, rej)


def run_single(wd, case, bounds_path):
    """Re-execute one saved input alone in a fresh child, with the watchdog; returns (begin, end) events."""
    cf = os.path.join(wd, "replay_case.json")
    json.dump(case, open(cf, "w"))
    pf = os.path.join(wd, "replay_plans.ndjson")
    open(pf, "w").close()
    of = os.path.join(wd, "replay_out.ndjson")
    exe = os.path.join(vlib.HARNESS_BINDIR, "h_decode")
    end = None
    for attempt in range(2):  # a hang is re-confirmed once
        if os.path.exists(of):
            os.remove(of)
        p = subprocess.Popen([exe, "worker", "--plans", pf, "--bounds", bounds_path, "--seed", "1", "--tier", "quick", "--case", cf, "--out", of],
                             stdout=subprocess.PIPE, stderr=subprocess.PIPE, text=True)
        try:
            so, se = p.communicate(timeout=TIMEOUT_MS / 1000.0 + 5)
            hung = False
        except subprocess.TimeoutExpired:
            p.kill()
            so, se = p.communicate()
            hung = True
        evs = vlib.read_ndjson(of) if os.path.exists(of) else []
        begin = next((x for x in evs if x["k"] == "Begin"), None)
        if begin is None:
            raise ToolError("replay: the worker did not start the case: " + se[-500:])
        end = next((x for x in evs if x["k"] == "End"), None)
        if end is not None:
            return begin, end
        steps_seen = [x[2:].strip() for x in (so or "").splitlines() if x.startswith("S ")]
        step = steps_seen[-1] if steps_seen else ""
        if hung:
            if attempt == 0:
                continue
            return begin, {"k": "End", "i": begin["i"], "out": "hang", "consumed": 0, "peak": 0, "reads": 0, "maxreq": 0, "note": "", "step": step, "served": []}
        refused = [int(x.split()[1]) for x in se.splitlines() if x.startswith("ALLOC-REFUSED ")]
        how = "signal %d" % -p.returncode if p.returncode < 0 else "exit %d" % p.returncode
        pk = min(max(refused), 2_000_000_000) if refused else 0
        return begin, {"k": "End", "i": begin["i"], "out": "abort", "consumed": 0, "peak": pk, "reads": 0, "maxreq": pk, "note": how,
                       "alloc_refused": str(max(refused)) if refused else "", "step": step, "served": []}
    raise ToolError("replay: no result")


def gen_plans(wd, thorough, layouts):
    cfg = "mc/MC_Decode_gen_thorough" if thorough else "mc/MC_Decode_gen"
    r = vlib.tlc("mc/MC_Decode_gen", cfg, workers=1, coverage=False, timeout=900, env={"LAYOUTS": layouts}, xmx="4g")
    if r.invariant_violated:
        print(r.out[-3000:])
        if "StepsAgree" in str(r.invariant_violated):
            raise ToolError("the post-decode steps implemented by the harness differ from the catalogue PostSteps of Decode.tla")
        raise ToolError("MC_Decode_gen: %s violated inside the generator" % r.invariant_violated)
    vlib.tlc_ok(r, "MC_Decode_gen")
    plans = r.printed("PLAN")
    b = r.printed("BOUNDS")
    fr = r.printed("FRAMES")
    big = r.printed("BIG")
    if len(plans) < 500 or len(b) != 1 or len(fr) != 1 or len(big) < 10:
        raise ToolError("MC_Decode_gen emitted %d plans / %d bounds tables / %d frame tables / %d many-items plans" % (len(plans), len(b), len(fr), len(big)))
    # the (family, chain type, count) plans travel in the same file
    plans = plans + [json.dumps({"big": json.loads(x)}) for x in big]
    bounds = {}
    for x in json.loads(b[0]):
        for ct in ("auto", "main", "test"):
            bounds[x["dec"] + "@" + ct] = x[ct]
    for ct, rows in json.loads(fr[0]).items():
        bounds["frames@" + ct] = rows
    STEPS_OF.clear()
    for x in vlib.read_ndjson(layouts):
        if x["t"] == "target":
            STEPS_OF[x["dec"]] = list(x.get("steps", []))
    pp = os.path.join(wd, "plans.ndjson")
    with open(pp, "w") as f:
        f.write("\n".join(plans) + "\n")
    bp = os.path.join(wd, "bounds.json")
    json.dump(bounds, open(bp, "w"))
    return r, [json.loads(p) for p in plans], pp, bounds, bp


def selftest(wd, events):
    """The binding is real: corrupted copies of recorded events must be refused, each one individually."""
    ev = [dict(e) for e in events]
    ends = [i for i, e in enumerate(ev) if e["k"] == "End" and e["out"] in ("ok", "err")]
    sums = [i for i, e in enumerate(ev) if e["k"] == "Sum"]
    if len(ends) < 3 or len(sums) < 2:
        return 0
    expect = []
    ev[ends[0]]["out"] = "panic"
    expect.append(ends[0] + 1)
    ev[ends[1]]["peak"] = 1_900_000_000
    expect.append(ends[1] + 1)
    ev[ends[2]]["consumed"] = ev[ends[2] - 1]["len"] + 1
    expect.append(ends[2] + 1)
    # an admitted segment request of a height whose full segment cannot fit the response frame
    srv = [i for i in ends[4:] if ev[i].get("served")]
    if srv:
        ev[srv[0]]["served"] = [dict(ev[srv[0]]["served"][0], h=40)]
        expect.append(srv[0] + 1)
    # a codec call that read on after a frame header announcing more than its type admits
    cod = [i for i in ends[4:] if ev[i - 1]["dec"] == "Codec::read" and ev[i - 1].get("fty", -1) >= 0 and i not in srv[:1]]
    if cod:
        ev[cod[0] - 1] = dict(ev[cod[0] - 1], fty=3, flen=65)
        ev[cod[0]] = dict(ev[cod[0]], consumed=12, reads=0, out="err")
        ev[cod[0] - 1]["len"] = max(ev[cod[0] - 1]["len"], 12)
        expect.append(cod[0] + 1)
    # a call the decoder refused, above the decoder-only constant but below the full one
    ref = [i for i in ends[4:] if ev[i - 1]["dec"] == "PeerAddrs::read" and ev[i]["out"] == "err" and i not in srv[:1] + cod[:1]]
    if ref:
        ev[ref[0]]["peak"] = 100_000
        expect.append(ref[0] + 1)
    ev[sums[0]]["n"] += 1          # one call whose outcome was neither ok nor err
    expect.append(sums[0] + 1)
    ev[sums[1]]["wp"] = 1_900_000_000
    ev[sums[1]]["maxpeak"] = 1_900_000_000
    expect.append(sums[1] + 1)
    if len(ends) > 3:
        ev[ends[3]]["step"] = "Segment::no_such_step"
        expect.append(ends[3] + 1)
    used = set(expect)
    stp = [i for i, e in enumerate(ev) if e["k"] == "Steps"]
    if stp:
        ev[stp[0]]["names"] = list(ev[stp[0]]["names"]) + ["Segment::no_such_step"]
        ev[stp[0]]["n"] = list(ev[stp[0]]["n"]) + [1]
        ev[stp[0]]["ok"] = list(ev[stp[0]]["ok"]) + [1]
        expect.append(stp[0] + 1)
    st = [i for i in ends if ev[i - 1].get("stream")]
    if st:
        i = st[-1]
        if i not in ends[:4] and i + 1 not in used:
            ev[i]["reads"] = ev[i]["consumed"] + 1
            expect.append(i + 1)
    p = os.path.join(wd, "selftest_trace.ndjson")
    vlib.write_ndjson(p, ev)
    ok, bad, _ = validate_trace(p, "selftest")
    if ok or sorted(bad) != sorted(expect):
        raise ToolError("selftest: corrupted events %s were not all refused by DecodeTrace (refused: %s)" % (expect, bad))
    # a dropped End must be refused too
    ev2 = [dict(e) for e in events]
    del ev2[ends[0]]
    p2 = os.path.join(wd, "selftest_trace2.ndjson")
    vlib.write_ndjson(p2, ev2)
    ok2, _, _ = validate_trace(p2, "selftest2")
    if ok2:
        raise ToolError("selftest: a trace with a missing End event was accepted")
    return len(expect) + 1


def run(tier, replay):
    rep = Report(PID, tier, "exploration")
    thorough = tier == "thorough"
    wd = vlib.workdir(PID, "run", clean=True)
    seed = vlib.seed()

    if replay:
        obj = json.load(open(replay))
        rc = obj["case"]
        lay = os.path.join(wd, "layouts.ndjson")
        vlib.harness(["decode", "layouts", "--seed", 1, "--out", lay])
        _, _, _, bounds, bp = gen_plans(wd, False, lay)
        if rc.get("kind") != "case" or not rc.get("case"):
            raise ToolError("replay file carries no input")
        b, e = run_single(wd, rc["case"], bp)
        tp = os.path.join(wd, "replay_trace.ndjson")
        vlib.write_ndjson(tp, [b, e])
        ok, bad, rej = validate_trace(tp, "replay")
        if not ok:
            report_bad(rep, [b, e], bad, {e["i"]: rc["case"]}, bounds, rej, set())
        log("replay: %s -> %s" % (rc["case"].get("dec"), json.dumps(e)[:300]))
        rep.coverage = {"states": 1, "transitions": 1, "traces_validated_against_impl": 1, "samples": [obj["signature"]],
                        "replayed_outcome": e}
        return rep.finish()

    # (M) the call protocol and (G) the plan generator are independent TLC runs: side by side (3 TLC workers in all)
    def protocol_models():
        # the contract machine satisfies the per-call summary the trace spec relies on ...
        m = vlib.tlc("mc/MC_Decode", "mc/MC_Decode", workers=2, timeout=300)
        if m.invariant_violated:
            print(m.out[-3000:])
            raise ToolError("Decode.tla: %s violated by the contract machine itself" % m.invariant_violated)
        vlib.tlc_ok(m, "MC_Decode")
        ac = m.action_counts()
        if m.distinct < 500 or ac.get("ModelBegin", (0, 0))[0] == 0 or ac.get("Read", (0, 0))[0] == 0 or ac.get("PostStep", (0, 0))[0] == 0:
            raise ToolError("MC_Decode is vacuous: %s %s" % (m.distinct, ac))
        # ... and the monitor is not vacuous: an unconstrained decoder violates each clause
        viol = {}
        for cfg, inv in [("mc/MC_Decode_bad", None), ("mc/MC_Decode_bad_progress", "Progress"), ("mc/MC_Decode_bad_alloc", "AllocBounded"),
                         ("mc/MC_Decode_bad_frame", "FrameLimitOK"), ("mc/MC_Decode_bad_serve", "ServeBounded")]:
            r = vlib.tlc("mc/MC_Decode", cfg, workers=1, coverage=False, timeout=300)
            if not r.invariant_violated or (inv and inv not in r.invariant_violated):
                print(r.out[-2000:])
                raise ToolError("%s: the unconstrained decoder did not violate the contract" % cfg)
            viol[cfg] = r.invariant_violated[0]
        return m, viol

    # (G) abstract layouts from the real encoders -> TLC mutation plans + the allocation bounds of the spec
    lay = os.path.join(wd, "layouts.ndjson")
    vlib.harness(["decode", "layouts", "--seed", seed, "--out", lay])
    nlay = sum(1 for x in vlib.read_ndjson(lay) if x["t"] == "layout")
    with concurrent.futures.ThreadPoolExecutor(2) as ex:
        fm = ex.submit(protocol_models)
        fg = ex.submit(gen_plans, wd, thorough, lay)
        m, viol = fm.result()
        g, plans, pp, bounds, bp = fg.result()
    per_op = collections.Counter()
    for p in plans:
        for o in p.get("ops", []):
            per_op[o["op"]] += 1

    # (B) run everything in supervised children, record Begin/End
    out = os.path.join(wd, "out")
    t0 = time.time()
    p = vlib.harness(["decode", "run", "--plans", pp, "--bounds", bp, "--seed", seed, "--tier", tier, "--out", out, "--workers", 6,
                      "--chunk", 60000, "--timeout-ms", TIMEOUT_MS], timeout=3000)
    run_s = time.time() - t0
    info = json.loads(p.stdout.strip().splitlines()[-1])
    tp = os.path.join(out, "trace.ndjson")
    events = vlib.read_ndjson(tp)
    cases_by_i = {c["i"]: c for c in vlib.read_ndjson(os.path.join(out, "bad.ndjson"))}
    tool = [e for e in events if e["k"] == "ToolError"]
    if tool:
        raise ToolError("decode harness: " + tool[0]["what"])
    if info["seeds_failed"]:
        raise ToolError("valid encodings that the unchanged decoders should accept were refused (harness seeds wrong?): %s" % info["seeds_failed"][:3])
    if info.get("skipped_after_breaker"):
        log("note: %d inputs of %s skipped after repeated confirmed aborts/hangs of those decoders" % (info["skipped_after_breaker"], info["breaker_decoders"]))
    if info["unconfirmed"]:
        log("note: %d child deaths / silences were not reproduced when the input was re-run alone (not reported)" % info["unconfirmed"])

    ok, bad, rej = validate_trace(tp, "run")
    if not ok:
        keep = os.path.join(vlib.OUT, "replays", "C11_trace_%d.ndjson" % seed)
        os.makedirs(os.path.dirname(keep), exist_ok=True)
        shutil.copy(tp, keep)
        report_bad(rep, events, bad, cases_by_i, bounds, rej, set())

    nself = selftest(wd, events) if not rep.violations else 0

    # every post-decode step of the catalogue ran (and not only on values it refuses)
    catalogue = sorted({x for v in STEPS_OF.values() for x in v})
    steps_run = info.get("steps", {})
    never_run = [x for x in catalogue if steps_run.get(x, [0, 0])[0] == 0]
    # (a SegmentProof is not a message of its own: its Ok path runs inside Segment::validate / validate_with on the valid segments)
    ok_not_required = {"SegmentProof::validate", "SegmentProof::validate_with"}
    never_ok = [x for x in catalogue if steps_run.get(x, [0, 0])[1] == 0 and x not in ok_not_required]
    if (never_run or never_ok) and not rep.violations:
        raise ToolError("post-decode steps of the catalogue never executed %s / never returned Ok %s (vacuous)" % (never_run, never_ok))

    # coverage
    sums = [e for e in events if e["k"] == "Sum"]
    ind = [e for e in events if e["k"] == "End"]
    per_dec = collections.OrderedDict()
    honest = {}
    refused_a = {}
    for s in sums:
        d = per_dec.setdefault(s["dec"], {"calls": 0, "ok": 0, "err": 0, "checks_ok": 0, "max_peak": 0})
        d["calls"] += s["n"]
        d["ok"] += s["ok"]
        d["err"] += s["err"]
        d["checks_ok"] += s["post_ok"]
        d["max_peak"] = max(d["max_peak"], s["maxpeak"])
        if s.get("hp", 0) >= honest.get(s["dec"], {"peak": -1})["peak"]:
            bd = bounds[s["dec"] + "@" + s["ct"]]
            honest[s["dec"]] = {"peak": s["hp"], "len": s["hl"], "bound": bd["a"] + bd["b"] * s["hl"]}
        refused_a[s["dec"]] = bounds[s["dec"] + "@" + s["ct"]]["da"]
    never_ok = [d for d, v in per_dec.items() if v["ok"] == 0]
    if never_ok and not rep.violations:
        raise ToolError("decoders that never returned a value (their valid encodings are wrong): %s" % never_ok)
    seeds_run = sum(s.get("seeds", 0) for s in sums)
    seeds_ok = sum(s.get("seeds_ok", 0) for s in sums)
    ind = [e for e in events if e["k"] == "End"]
    calls_made = sum(s["n"] for s in sums) + len(ind)
    rep.coverage = {
        "evaluations": calls_made,
        "distinct_nontrivial": info["distinct_nontrivial"],
        "rule": "one evaluation = one call of one decoder (decoder x reader x protocol version x chain type x input), inputs generated as: "
                "valid encodings written by the repository's own encoders; TLC-enumerated mutation plans (Decode.tla: integer fields set to boundary/limit/huge "
                "values, tag sweeps, truncation at every field boundary / offset, field drop / duplicate / splice from another message) applied to them; "
"joint segment-identifier plans (height 0..255 x idx near every 2^k; idx * 2^height on the 2^62 / 2^63 / 2^64 boundaries) and segment proofs re-encoded one hash short / long / empty; "
                "repeated groups re-encoded with a limit's worth of copies of an item (up to 3 MB), many valid items built by the real encoders at the "
                "weight / count limits of both chain types (bodies of 40 000 inputs, 1 904 outputs, 13 333 kernels; 256 peer addresses; 512 headers; segments cut "
                "from real MMRs), block headers at every hard-fork boundary x header version x edge_bits class with re-packed nonces (Mainnet, Testnet, "
                "AutomatedTesting), frame lengths at / over what each message type admits with the whole body present, JSON arrays of 0..100 000 elements; "
                "seeded random bytes of length 0..2048; a valid prefix followed by random bytes; well-formed frame headers with random or valid bodies. "
                "A call is non-trivial when the decoder returned a value or consumed >= 16 input bytes before refusing (string decoders: input of >= 2 "
                "characters) or ended in anything but ok|err; distinct = distinct 64-bit FNV-1a hash of (decoder, reader, version, chain type, check "
                "parameters, input bytes), de-duplicated over the whole run.",
        "nontrivial_calls": info["nontrivial_calls"],
        "states": m.distinct, "transitions": m.generated,
        "traces_validated_against_impl": 1,
        "samples": [{"plan": plans[len(plans) // 3]}, {"plan": plans[-1]}, {"repeat_plan": next(({k: (v if not isinstance(v, list) or len(v) < 12 else v[:12]) for k, v in o.items() if k != "inner"} for p in plans for o in p.get("ops", []) if o["op"] == "repeat"), None)},
                    {"summary_event": sums[0] if sums else None},
                    {"individual_events": events[:2]}],
        "exhaustive": False,
        "model": {"protocol": "mc/MC_Decode: %d states" % m.distinct, "monitor_not_vacuous": viol,
                  "generator": "mc/MC_Decode_gen%s: %d (layout, field) states in %.1fs" % ("_thorough" if thorough else "", g.distinct, g.wall)},
        "layouts": nlay, "plans_layout_field": len(plans), "mutation_classes_in_plans": dict(per_op),
        "mutation_cases_expanded": info["ops"],
        "decoder_calls": info["cases"], "calls_per_decoder": per_dec,
        "valid_encodings_run": seeds_run, "valid_encodings_accepted": seeds_ok,
        "honest_max_peak": honest,
        "decoder_only_constant": refused_a,
        "segment_requests_admitted": sorted({"%s@%d" % (x["kind"], x["h"]) for e in ind for x in e.get("served", [])}),
        "many_items_plans": sum(1 for p in plans if "big" in p),
        "frame_length_plans": per_op.get("framelen", 0), "era_plans": per_op.get("era", 0), "repeat_plans": per_op.get("repeat", 0),
        "post_decode_steps_in_catalogue": len(catalogue),
        "post_decode_steps": {k: {"run": v[0], "ok": v[1]} for k, v in sorted(steps_run.items())},
        "decoders_with_post_decode_steps": sum(1 for v in STEPS_OF.values() if v),
        "individually_logged_calls": len(ind), "summary_events": len(sums),
        "children": info["children"], "child_restarts": info["restarts"], "unconfirmed_child_deaths": info["unconfirmed"],
        "dropped_repeats_of_logged_classes": info["dropped_repeats"],
        "inputs_skipped_after_breaker": info.get("skipped_after_breaker", 0),
        "selftest_corruptions_refused": nself,
        "versions": [1, 2, 3, 1000], "chain_types": ["AutomatedTesting", "Mainnet", "Testnet (header-carrying encodings)"], "harness_run_s": round(run_s, 1),
        "per_input_timeout_ms": TIMEOUT_MS,
        "checker_cmd": "tlc mc/MC_Decode; tlc mc/MC_Decode_gen; h_decode run; tlc trace/DecodeTrace",
    }
    rep.assumptions = [
        "exploration, not proof: byte strings are sampled (valid encodings x TLC-enumerated mutation classes, seeded random bytes, valid prefix + random bytes); the specification contributes the call contract and the mutation classes",
        "allocation = bytes live above the level at Begin on the decoding thread, measured by a counting global allocator; the per-decoder constants A, B are those of Decode.tla (documented there)",
        "calls within half of their bound are validated in aggregated form (count, ok+err=count, worst peak/len pair) computed by the worker; every other call is validated individually",
        "stateless checks on segments are run against MMR sizes of real MMRs with 1..3000 leaves (a validated header's sizes), not arbitrary u64 sizes: Segment::root is linear in the MMR size",
        "post-decode steps = the conversions / accessors / stateless checks the handlers apply to a decoded value before chain state is consulted (catalogue PostSteps in Decode.tla, read off p2p/src/protocol.rs, servers/src/common/adapters.rs, chain/src/pipe.rs, the desegmenter, the pool, api/src/handlers); the serving side of Get*Segment runs Segment::from_pmmr on fixed in-memory MMRs (VecBackend), heights admitted as in the adapters",
        "serving side of Get*Segment and stratum submit: the text of NetToChainAdapter::get_*_segment (+ the *_SEGMENT_HEIGHT_RANGE constants) and of SubmitParams / parse_params / Handler::handle_submit is copied from the tree under test at build time and compiled against harness glue (fixed in-memory MMRs; one block template, a logged-in worker, a chain stand-in that refuses process_block; log macros evaluate their arguments for error/warn/info as a node does by default)",
        "ServeOK judges an admitted request by the capacity of its identifier height (2^height leaves of the smallest wire size, a bitmap chunk counted as 128 raw bytes) against 2 * max_block_size of Mainnet, not by the size of the fixture's answer",
        "webhook payloads (hooks::webhook_payload) and the responses of served segment requests are built by design: their memory is not charged to the call (panics, aborts and hangs in them are)",
        "no time budget: a super-linear path is only seen if it exceeds the 10 s watchdog at the design maximum (40 000 inputs / 13 333 kernels / 1 904 outputs per body)",
        "streams are closed by EOF after the input: a peer that stays silent mid-frame is C19's scenario, not run here",
        "secp256k1 / blake2b / croaring internals are primitives; StreamingReader (local store only) is not a network decoder and is not exercised",
        "a hang is declared after %d ms of silence, re-confirmed once on the input alone in a fresh child" % TIMEOUT_MS,
    ]
    return rep.finish()
