"""C06 — rejected or losing-fork input leaves best-chain state untouched (spec/Chain.tla)."""
from checks._chain_check import run_chain_check
PID = "C06"
ENGINES = ["chain"]

NEED = {
    "untouched_compared": 1500, "ProcessBlock:reject": 500, "ProcessBlock:ok_fork": 20, "ProcessHeader:reject": 20, "SyncHeaders:reject": 5,
    "why:header": 50, "why:sums": 20, "why:lock": 5, "why:input_not_unspent": 5, "why:after_rewind:input_not_unspent": 10,
    "why:badRoot": 3, "why:badSize": 3, "why:badKernelRoot": 3, "why:badRproofRoot": 3, "why:badKernelSize": 3,
    "why:badRoot_with_tx": 2, "why:badSize_with_tx": 2, "why:badKernelRoot_with_tx": 2, "why:badRproofRoot_with_tx": 2, "why:badKernelSize_with_tx": 2,
}


def run(tier, replay):
    return run_chain_check(PID, tier, replay,
                           mc_quick=["mc/MC_Chain_flags_q"], mc_thorough=["mc/MC_Chain_flags_t"],
                           sim_cfg="mc/MC_Chain_simemit_flags", n_quick=160, n_thorough=1600,
                           focus="RejectLeavesState / OnlyValidRemembered: blocks failing at header stage (badTime, badPrevRoot), body validation (badSums), UTXO/maturity (double spends, missing, duplicate commitments), and late after the working MMRs were modified (badRoot, badSize, badKernelRoot, badRproofRoot, badKernelSize - with and without a transaction whose inputs were already pruned), plus valid losing-fork blocks; after EVERY call that leaves the model's head where it was the four state roots, three MMR sizes, stored sums and spend records of the best-chain blocks are compared with the values sampled before the call, the full projection (head, header head, unspent set, enumeration, leaf / kernel counts, stored headers/bodies) after every call, full validation after every failing call on every 3rd behaviour; the history continues afterwards",
                           extra_sims=[("mc/MC_Chain_simemit_orphans", 60, 600)],
                           assumptions=["transactions rejected by the pool are decided by C14"],
                           need=NEED, vfail_quick=3)
