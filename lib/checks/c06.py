"""C06 — rejected or losing-fork input leaves best-chain state untouched (spec/Chain.tla)."""
from checks._chain_check import run_chain_check
PID = "C06"
ENGINES = ["chain"]


def run(tier, replay):
    return run_chain_check(PID, tier, replay,
                           mc_quick=["mc/MC_Chain_flags_q"], mc_thorough=["mc/MC_Chain_flags_t"],
                           sim_cfg="mc/MC_Chain_simemit_flags", n_quick=160, n_thorough=1600,
                           focus="RejectLeavesState / OnlyValidRemembered: blocks failing at header stage (badTime, badPrevRoot), body validation (badSums), UTXO/maturity (double spends, missing, duplicate commitments), and late after the working MMRs were modified (badRoot, badSize, badKernelRoot), plus valid losing-fork blocks; the full projection (head, header head, unspent set, leaf count, stored headers/bodies, sums of best-chain blocks, full validation) is compared after every failing call and the history continues afterwards",
                           extra_sims=[("mc/MC_Chain_simemit_orphans", 60, 600)],
                           assumptions=["transactions rejected by the pool are decided by C14"])
