"""Common body of the Chain-engine checks (C02, C03, C06, C13)."""
import json
import vlib, chainlib
from vlib import Report


def run_chain_check(pid, tier, replay, mc_quick, mc_thorough, sim_cfg, n_quick, n_thorough, focus, assumptions, extra_sims=(),
                    need=None, vfail_quick=0):
    rep = Report(pid, tier, "model_checking")
    if replay:
        return chainlib.replay_file(rep, pid, replay)
    thorough = tier == "thorough"
    # (M) exhaustive model check of Chain.tla under this property's configuration
    mcs = []
    for cfg in (mc_thorough if thorough else mc_quick):
        r = chainlib.model_check(cfg, workers=8 if thorough else 6, timeout=7200 if thorough else 1500)
        mcs.append({"config": cfg, "distinct_states": r.distinct, "states_generated": r.generated, "depth": r.depth, "wall_s": round(r.wall, 1)})
    # (A) TLC-generated behaviours replayed on the real Chain, projection compared after every action
    n = n_thorough if thorough else n_quick
    behs, r = chainlib.gen_sim(sim_cfg, n, vlib.seed(), workers=8 if thorough else 4, timeout=3000)
    extra = []
    for cfg, nq, nt in extra_sims:
        eb, _ = chainlib.gen_sim(cfg, nt if thorough else nq, vlib.seed(), workers=8 if thorough else 4, timeout=3000)
        extra.append({"config": cfg, "behaviours": len(eb)})
        behs = behs + eb
    results = chainlib.replay(pid, behs, procs=10 if thorough else 8, twin=True, deep=thorough, vfail=0 if thorough else vfail_quick)
    stats = chainlib.report_results(rep, behs, results)
    reach = chainlib.quota_stats(behs, results)
    if need and not rep.violations and not getattr(rep, "known_hit", None):
        # (a run cut short by a violation stops each behaviour at its first divergence: quotas only bind a clean run)
        chainlib.check_quotas(reach, need)
    rep.coverage = {
        "states": sum(m["distinct_states"] for m in mcs),
        "transitions": sum(m["states_generated"] for m in mcs),
        "traces_validated_against_impl": stats["behaviours"],
        "samples": [chainlib.sample_of(behs[0]), chainlib.sample_of(behs[len(behs) // 2])],
        "model_runs": mcs,
        "invariants_checked": chainlib.INVS_DESC,
        "behaviour_generator": {"config": sim_cfg, "mode": "tlc -simulate", "seed": vlib.seed(), "extra": extra},
        "replayed_steps": stats["steps"],
        "step_classes_observed": stats["classes"],
        "reach_counters": reach, "reach_quotas": need or {},
        "twin_root_comparisons": stats["twin_checked"],
        "observations_outside_the_properties": stats["observations_outside_the_properties"],
        "distinct_nontrivial_behaviours": chainlib.nontrivial(behs),
        "nontrivial_rule": "distinct (tree, step/result sequence) containing a fork acceptance, an orphan, or at least two head changes",
        "focus": focus,
        "exhaustive": False,
    }
    rep.assumptions = assumptions + [
        "blocks are processed with Options::SKIP_POW (PoW and difficulty rules are decided by C04/C05)",
        "AutomatedTesting chain type (coinbase maturity 3); harness genesis has MMR sizes consistent with its body",
        "bulletproofs, aggsig and blake2b are used as primitives",
        "orphan-pool capacity/age eviction is outside this model; Chain.tla's Compact action is exercised by C08 (compact simulation profile: 85-block trunk)",
    ]
    return rep.finish()
