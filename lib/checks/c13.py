"""C13 — coinbase maturity and lock heights hold on every fork (spec/Chain.tla); pool clause in C14."""
from checks._chain_check import run_chain_check
PID = "C13"
ENGINES = ["chain"]


def run(tier, replay):
    return run_chain_check(PID, tier, replay,
                           mc_quick=["mc/MC_Chain_locks_q"], mc_thorough=["mc/MC_Chain_locks_t", "mc/MC_Chain_nrd_t"],
                           sim_cfg="mc/MC_Chain_simemit_locks", n_quick=100, n_thorough=1200,
                           extra_sims=[("mc/MC_Chain_simemit_nrd", 60, 600)],
                           focus="MaturityLockInv + NrdInv (recent-kernel index = NRD history of the best chain; duplicate-excess kernels on the same and on competing forks separated by rewinds): coinbase spends one below / at / above creation height + 3 incl. coinbases on the other side of a fork point, height-locked kernels with lock in {h, h+1}, re-evaluated when fork blocks are re-applied during reorgs; accept/reject class compared at each boundary",
                           assumptions=["NRD kernels: 2 excess keys, relative heights {1,2}, allowed from height 9 (header v4 under AutomatedTesting); exhaustive NRD configuration in the thorough tier only, quick tier replays random NRD behaviours"])
