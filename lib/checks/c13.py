"""C13 — coinbase maturity and lock heights hold on every fork (spec/Chain.tla); pool clause in C14."""
from checks._chain_check import run_chain_check
PID = "C13"
ENGINES = ["chain"]

# reach quotas (quick tier; the thorough tier replays ~10x as much): what the profiles exist for must be reached
NEED = {
    "accepted:two_tx_block": 10, "accepted:two_locked_kernels": 1, "accepted:coinbase_spent_at_maturity": 5,
    "why:lock": 3, "why:lock_one_of_two": 2, "why:lock_one_of_two_locked": 2,
    "why:immature_coinbase_by_one": 1,
    "query:two_kernels": 10, "query:lock_refused_one_of_two_kernels": 3, "query:immature_refused": 5,
    "accepted:nrd_block": 20, "accepted:two_nrd_block": 5, "rewound:two_nrd_block": 1,
    "why:nrd_relative": 5, "why:nrd_header_version": 3, "why:nrd_disabled": 10, "query:nrd_or_dup_refused": 3,
}


def run(tier, replay):
    return run_chain_check(PID, tier, replay,
                           mc_quick=["mc/MC_Chain_locks_q"], mc_thorough=["mc/MC_Chain_locks_t", "mc/MC_Chain_nrd_t", "mc/MC_Chain_locks2_t"],
                           sim_cfg="mc/MC_Chain_simemit_locks", n_quick=60, n_thorough=1200,
                           extra_sims=[
                               # two transactions = two kernels per block and per pool query (aggregate): lock heights {0,h,h+1} on each
                               ("mc/MC_Chain_simemit_locks2", 60, 600),
                               # NRD kernels, up to two (different excesses) per block; the head of the recent-kernel index is compared after every step
                               ("mc/MC_Chain_simemit_nrd2", 50, 600),
                               # the same with the node's NRD feature flag off: every NRD kernel is refused
                               ("mc/MC_Chain_simemit_nrdoff", 14, 100)],
                           focus="MaturityLockInv + NrdInv (recent-kernel index = NRD history of the best chain; duplicate-excess kernels on the same and on competing forks separated by rewinds): coinbase spends one below / at / above creation height + 3 incl. coinbases on the other side of a fork point, height-locked kernels with lock in {h, h+1} on EVERY kernel of bodies with one or two kernels (blocks of two transactions, pool queries about the aggregate of two), NRD kernels alone and in pairs, with the feature flag on and off, re-evaluated when fork blocks are re-applied during reorgs; accept/reject class compared at each boundary, head of the recent-kernel index after every step",
                           assumptions=["NRD kernels: 2 excess keys, relative heights {1,2}, allowed from height 9 (header v4 under AutomatedTesting); two NRD kernels of one block carry different excesses; exhaustive NRD configuration in the thorough tier only, quick tier replays random NRD behaviours"],
                           need=NEED)
