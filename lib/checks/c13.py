"""C13 — coinbase maturity and lock heights hold on every fork (spec/Chain.tla); pool clause in C14."""
from checks._chain_check import run_chain_check
PID = "C13"
ENGINES = ["chain"]


def run(tier, replay):
    return run_chain_check(PID, tier, replay,
                           mc_quick=["mc/MC_Chain_locks_q"], mc_thorough=["mc/MC_Chain_locks_t"],
                           sim_cfg="mc/MC_Chain_simemit_locks", n_quick=160, n_thorough=1600,
                           focus="MaturityLockInv: coinbase spends one below / at / above creation height + 3 incl. coinbases on the other side of a fork point, height-locked kernels with lock in {h, h+1}, re-evaluated when fork blocks are re-applied during reorgs; accept/reject class compared at each boundary",
                           assumptions=["NRD (relative lock) kernels are not yet in the model: that clause of C13 is not covered by this check"])
