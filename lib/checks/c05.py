"""C05 — PoW verification accepts exactly the simple cycles of the header-seeded graph (spec/Cuckoo.tla).

M   TLC enumerates every simple K-cycle of each tiny graph (path-extension machine, K = 8,
    16 or 32 edges, five variants) and checks the walk form against the degree form.
A   the real PoWContext::verify of each variant runs on EVERY ascending K-subset of each tiny
    graph; the accepted set must EQUAL TLC's set per graph (exact iff). Negative forms of every
    cycle (orders, duplicates, out of range, wrong count) go through the trace spec.
B   solver-found cycles and near misses in larger graphs, recorded with the real verdict, are
    validated by TLC against Accept (spec/trace/CuckooTrace.tla); Proof packing cases likewise.
S   the node's entry point pow::verify_size(&BlockHeader): MC_CuckooSize.tla models header ->
    create_pow_context(height, edge_bits, nonces.len()) -> verify with the nonce COUNT and shape chosen
    by the sender, checks "accept iff genuine cycle of exactly the chain type's proof size" and prints
    the case plans (chain type x header version x edge-bits class x length class x shape x graph
    definition) with the expected verdict; the harness realises each plan in real header-seeded
    graphs (genuine cycles of 1, 2, 4, P-2 .. P+2 edges, open walks, two cycles, foreign-definition
    cycles) inside real BlockHeaders at the first and last height of each version era and calls
    verify_size; verdict vs plan, and TLC re-decides every event on the real endpoints.
"""
import json, os, re, itertools, random, shutil, threading
import vlib
from vlib import Report, ToolError, log

PID = "C05"
ENGINES = ["cuckoo"]
VARIANTS = ["cuckatoo", "cuckaroo", "cuckarood", "cuckaroom", "cuckarooz"]
BIG = 1 << 31


# ----------------------------------------------------------------------------------------------
# helpers

def hjson(p):
    """last stdout line of a harness run as JSON"""
    return json.loads(p.stdout.strip().splitlines()[-1])


def tlc_graph_file(graphs, path):
    vlib.write_ndjson(path, [{k: g[k] for k in ("gid", "variant", "K", "N", "E")} for g in graphs])


def enumerate_cycles(graph_file, what):
    r = vlib.tlc("mc/MC_Cuckoo", workers=4, env={"GRAPHS": graph_file}, timeout=900, xmx="4g")
    if r.invariant_violated:
        print(r.out[-3000:])
        raise ToolError("Cuckoo.tla invariant %s violated inside the model (%s)" % (r.invariant_violated, what))
    vlib.tlc_ok(r, "MC_Cuckoo " + what)
    cyc = {}
    for line in r.printed("CYC"):
        o = json.loads(line)
        cyc.setdefault(o["gid"], set()).add(tuple(o["c"]))
    return r, cyc


def event_of(c):
    """harness case/record -> Verify event for CuckooTrace (TLC integers are 32-bit)"""
    return {"k": "Verify", "variant": c["variant"], "N": c["N"], "K": c["K"], "kind": c.get("kind", "case"),
            "nonces": [(-1 if n >= BIG else n) for n in c["nonces"]], "ends": c["ends"], "verdict": c["verdict"],
            "eb": c["eb"], "seed": str(c["seed"])}


def validate_trace(path, what):
    r = vlib.tlc("trace/CuckooTrace", workers=1, coverage=False, env={"TRACE": path}, xss="1g", xmx="4g", timeout=1500)
    if r.finished:
        return None, r
    if "SPEC-INCONSISTENT" in r.out:
        print(r.out[-3000:])
        raise ToolError("Cuckoo.tla: walk form and degree form disagree on a recorded edge set (%s)" % what)
    m = re.search(r'"TRACE-REJECTED at event",\s*(\d+)', r.out)
    if m:
        return int(m.group(1)), r
    print(r.out[-4000:])
    raise ToolError("CuckooTrace failed without a verdict (%s)" % what)


def validate_events(rep, wd, events, what, max_rounds=6):
    """Validate; on rejection record a violation for the offending event, drop it, continue."""
    evs = list(events)
    n_ok = 0
    rounds = 0
    states = 0
    while evs:
        p = os.path.join(wd, "trace_%s_%d.ndjson" % (what, rounds))
        vlib.write_ndjson(p, evs)
        idx, r = validate_trace(p, what)
        states += r.distinct
        if idx is None:
            n_ok += len(evs)
            break
        if idx > len(evs):
            raise ToolError("CuckooTrace rejected past the end of the trace")
        bad = evs[idx - 1]
        n_ok += idx - 1
        if bad["k"] == "Select":
            rep.violation("cuckoo:select:%s:v%d:eb%d:%s_cycle_%s" % (bad["chain"], bad["version"], bad["eb"], bad["cycle_of"], bad["verdict"]),
                          {"kind": "select", "event": bad},
                          "create_pow_context(%s, height %d (header version %d), %d bits) + verify says %s on a %s cycle" % (
                              bad["chain"], bad["height"], bad["version"], bad["eb"], bad["verdict"], bad["cycle_of"]))
        elif bad["k"] == "SelectKind":
            rep.violation("cuckoo:select_kind:%s:v%d:eb%d:built_%s" % (bad["chain"], bad["version"], bad["eb"], bad["observed"]),
                          {"kind": "selectkind", "event": bad},
                          "create_pow_context(%s, height %d (header version %d), %d bits) builds a verifier behaving like '%s' on %d probe tuples; the definition for that header is another" % (
                              bad["chain"], bad["height"], bad["version"], bad["eb"], bad["observed"], bad["probes"]))
        elif bad["k"] == "Weight":
            rep.violation("cuckoo:graph_weight:%s:eb=%d:%s" % (bad["chain"], bad["eb"], weight_phase(bad)),
                          {"kind": "weight", "event": bad},
                          "consensus::graph_weight(%d, %d) = %d on %s is not GraphWeight" % (bad["height"], bad["eb"], bad["weight"], bad["chain"]))
        elif bad["k"] == "Verify":
            sig = "cuckoo:%s:%s:real_%s_spec_disagrees" % (bad["variant"], bad.get("kind", "case"), bad["verdict"])
            rep.violation(sig, {"kind": "tuple", "variant": bad["variant"], "eb": bad["eb"], "seed": bad["seed"],
                                "nonces": bad["nonces"], "real_verdict": bad["verdict"], "event": bad},
                          "verify returned %s on %s nonces %s but Accept says otherwise" % (bad["verdict"], bad.get("kind"), bad["nonces"]))
        else:
            rep.violation("cuckoo:proof_pack:w=%d:layout_or_padding" % bad["w"], {"kind": "pack", "event": bad}, json.dumps(bad)[:300])
        evs = evs[idx:]
        rounds += 1
        if rounds >= max_rounds:
            break
    return n_ok, states


def weight_phase(e):
    year, week = 52 * 10080, 10080
    if e["eb"] != 31:
        return "plain"
    return "c31_before_expiry" if e["height"] < year else ("c31_phasing_out" if e["height"] < year + 30 * week else "c31_expired")


def negative_forms(g, cyc, rng):
    """Forms of an accepted cycle that Accept refuses for a stated reason (and a few that it may not)."""
    n, k = g["N"], len(cyc)
    out = []
    c = list(cyc)
    for i, j in itertools.combinations(range(k), 2):          # every transposition
        t = list(c); t[i], t[j] = t[j], t[i]
        out.append(("swapped", t))
    out.append(("reversed", c[::-1]))
    for r in range(1, k):
        out.append(("rotated", c[r:] + c[:r]))
    for i in range(k):                                        # duplicates
        for j in (i - 1, i + 1):
            if 0 <= j < k:
                t = list(c); t[j] = c[i]
                out.append(("duplicate", t))
    for i in range(k):                                        # out of range in several ways
        for m in (1, 2, 3, 4, 5):                             # (tiny node spaces: a stray edge often fits)
            t = list(c); t[i] = c[i] + m * n
            out.append(("range_plus_N", sorted(t)))
        t = list(c); t[i] = c[i] + (n << 20)
        out.append(("range_high_bits", sorted(t)))
    t = list(c); t[-1] = n
    out.append(("range_N", t))
    t = list(c); t[-1] = (1 << 64) - 1
    out.append(("range_max", t))
    t = list(c); t[-1] = (1 << 32) + c[-1]
    out.append(("range_2_32", t))
    for i in range(k):                                        # wrong count
        out.append(("k_minus_1", c[:i] + c[i + 1:]))
    for x in range(n):
        if x not in c:
            out.append(("k_plus_1", sorted(c + [x])))
    out.append(("k_plus_dup", c + [c[-1]]))
    out.append(("twice", c + c))
    out.append(("empty", []))
    out.append(("single", c[:1]))
    # one nonce replaced (may or may not be another cycle: TLC decides)
    for _ in range(12):
        i = rng.randrange(k); x = rng.randrange(n)
        if x not in c:
            t = list(c); t[i] = x
            out.append(("replaced", sorted(t)))
    return out


def py_shape(g, tup):
    """narrow signature detail for a wrongly accepted tuple: how its edges hang together"""
    var = g["variant"]
    ends = {}
    for n in tup:
        u, v = g["E"][n]
        a = (0, u >> 1 if var == "cuckatoo" else u)
        b = ((1 if var in ("cuckatoo", "cuckaroo", "cuckarood") else 0), v >> 1 if var == "cuckatoo" else v)
        for x in (a, b):
            ends.setdefault(x, []).append(n)
    if any(len(v) > 2 for v in ends.values()):
        return "branching"
    if any(len(v) == 1 for v in ends.values()):
        return "open"
    # all meeting points carry two ends: count components
    comp = {n: n for n in tup}
    def find(x):
        while comp[x] != x:
            x = comp[x]
        return x
    for v in ends.values():
        comp[find(v[0])] = find(v[1])
    k = len({find(n) for n in tup})
    return "one_component_wrong_kind" if k == 1 else "%d_components" % k



# ----------------------------------------------------------------------------------------------
# S: pow::verify_size

MONO = ("cuckaroom", "cuckarooz")


def vsize_signature(e):
    """narrow signature of a verify_size event whose real verdict is not the plan's"""
    var = e["sv"] if e["sv"] != "none" else "no_definition"
    L, P, v = e["L"], e["P"], e["verdict"]
    if v in ("panic", "hang"):
        return "cuckoo:verify_size:%s:%s:len=%d" % (var, v, L)
    if v == "accept":
        if e["shape"] == "cycle" and e["gof"] == e["sv"]:
            return "cuckoo:verify_size:%s:wrong_length_cycle_accepted:len=%d" % (var, L)
        if e["shape"] == "cycle":
            return "cuckoo:verify_size:%s:%s_cycle_accepted:%s:v%d" % (var, e["gof"], e["chain"], e["version"])
        return "cuckoo:verify_size:%s:non_cycle_accepted:shape=%s:len=%d" % (var, e["shape"], L)
    return "cuckoo:verify_size:%s:genuine_cycle_refused:%s:v%d" % (var, e["chain"], e["version"])


def vsize_plans(wd):
    r = vlib.tlc("mc/MC_CuckooSize", workers=1, timeout=600)
    if r.invariant_violated:
        print(r.out[-3000:])
        raise ToolError("MC_CuckooSize: invariant %s violated inside the model" % r.invariant_violated)
    vlib.tlc_ok(r, "MC_CuckooSize")
    acts = r.action_counts()
    for a in ("CreateContext", "VerifyCtx"):
        if acts.get(a, (0, 0))[0] == 0:
            raise ToolError("MC_CuckooSize: action %s never taken" % a)
    plans = [json.loads(x) for x in r.printed("PLAN")]
    if len(plans) < 500:
        raise ToolError("MC_CuckooSize printed too few plans (%d)" % len(plans))
    # the plan set must tell the consensus constant from the context's own size, for every definition
    for var in VARIANTS:
        if not any(p["sv"] == var and p["vacuous"] != p["expect"] for p in plans):
            raise ToolError("no plan for %s separates the required length from the header's nonce count" % var)
    pp = os.path.join(wd, "vsize_plans.ndjson")
    vlib.write_ndjson(pp, plans)
    return r, plans, pp


def vsize_judge(rep, events, seen_sigs):
    """verdict vs the plan's expectation; returns the events to hand to the trace spec (those that
    disagree go there with the expected verdict: the realisation of the plan is still checked)"""
    to_trace, n_bad = [], 0
    for e in events:
        want_p = 8 if e["chain"] == "automated" else 42
        if e["P"] != want_p:
            sig = "cuckoo:verify_size:proofsize:%s:is=%d" % (e["chain"], e["P"])
            if sig not in seen_sigs:
                seen_sigs.add(sig)
                rep.violation(sig, {"kind": "vsize", "event": e}, "global::proofsize() is %d on %s, the required cycle length is %d" % (e["P"], e["chain"], want_p))
            n_bad += 1
            continue
        if e["verdict"] == e["expect"]:
            to_trace.append(e)
            continue
        n_bad += 1
        sig = vsize_signature(e)
        if sig not in seen_sigs:
            seen_sigs.add(sig)
            rep.violation(sig, {"kind": "vsize", "event": e},
                          "pow::verify_size says %s (model: %s) for a %s header at height %d (version %d, %d edge bits, definition %s) carrying %d nonces (required %d), shape %s in the %s graph: %s" % (
                              e["verdict"], e["expect"], e["chain"], e["height"], e["version"], e["eb"], e["sv"], e["L"], e["P"], e["shape"], e["gof"], e["nonces"][:8]))
        if e["verdict"] in ("accept", "reject"):
            to_trace.append(dict(e, verdict=e["expect"], judged="mismatch"))
    return to_trace, n_bad


def vsize_validate(wd, evs, what):
    """TLC re-decides every event on the real endpoints. All events given here carry verdict == expect, so
    a rejection means the harness did not build what the plan says (or the two disagree): tool error."""
    if not evs:
        return 0
    p = os.path.join(wd, "trace_vsize_%s.ndjson" % what)
    vlib.write_ndjson(p, evs)
    idx, r = validate_trace(p, "vsize " + what)
    if idx is not None:
        bad = evs[idx - 1] if idx <= len(evs) else None
        raise ToolError("verify_size event %d does not realise its plan (or plan and Accept disagree on the real endpoints): %s" % (
            idx, json.dumps({k: v for k, v in (bad or {}).items() if k != "ends_by"})[:600]))
    return r.distinct


def vsize_coverage(events):
    """measured: per selected definition, which wrong-length genuine cycles went through verify_size"""
    cov = {}
    for e in events:
        if e["shape"] == "cycle" and e["gof"] == e["sv"]:
            c = cov.setdefault(e["sv"], {"lt": 0, "eq": 0, "gt": 0, "two": 0, "self_loop": 0, "lengths": set()})
            L, P = e["L"], e["P"]
            c["lengths"].add(L)
            c["lt" if L < P else ("eq" if L == P else "gt")] += 1
            c["two"] += 1 if L == 2 else 0
            c["self_loop"] += 1 if L == 1 else 0
    for var in VARIANTS:
        c = cov.get(var)
        if not c or min(c["lt"], c["eq"], c["gt"], c["two"]) == 0 or (var in MONO and c["self_loop"] == 0):
            raise ToolError("verify_size stage: no genuine cycle of some length class was realised for %s (%s)" % (var, c))
    return {k: dict(v, lengths=sorted(v["lengths"])) for k, v in cov.items()}

# ----------------------------------------------------------------------------------------------

def run_replay(rep, wd, replay):
    obj = json.load(open(replay))
    case = obj["case"]
    if case.get("kind") == "select":
        outp = os.path.join(wd, "replay_select.ndjson")
        ev = case["event"]
        vlib.harness(["cuckoo", "boundary" if ev.get("src") == "boundary" else "select", "--out", outp, "--seed", obj.get("seed", 1)], timeout=300)
        same = [e for e in vlib.read_ndjson(outp) if e["k"] == "Select" and all(e[k] == ev[k] for k in ("chain", "version", "eb", "cycle_of", "seed"))]
        p = os.path.join(wd, "replay_select_trace.ndjson")
        vlib.write_ndjson(p, same)
        idx, _ = validate_trace(p, "replay")
        if idx is not None:
            rep.violation(obj["signature"], case, "selection event rejected")
    elif case.get("kind") == "selectkind":
        outp = os.path.join(wd, "replay_boundary.ndjson")
        vlib.harness(["cuckoo", "boundary", "--out", outp, "--seed", obj.get("seed", 1)], timeout=300)
        ev = case["event"]
        same = [e for e in vlib.read_ndjson(outp) if e["k"] == "SelectKind" and all(e[k] == ev[k] for k in ("chain", "version", "eb"))]
        if any(e["observed"] == "ambiguous" for e in same):
            raise ToolError("boundary probes do not tell the five verifiers apart")
        p = os.path.join(wd, "replay_boundary_trace.ndjson")
        vlib.write_ndjson(p, same)
        idx, _ = validate_trace(p, "replay")
        if idx is not None:
            rep.violation(obj["signature"], case, "the verifier built is not the one of the header's definition")
    elif case.get("kind") == "weight":
        outp = os.path.join(wd, "replay_ser.ndjson")
        vlib.harness(["cuckoo", "ser", "--out", outp, "--seed", obj.get("seed", 1)])
        ev = case["event"]
        same = [e for e in vlib.read_ndjson(outp) if e["k"] == "Weight" and all(e[k] == ev[k] for k in ("chain", "eb", "height"))]
        p = os.path.join(wd, "replay_weight_trace.ndjson")
        vlib.write_ndjson(p, same)
        idx, _ = validate_trace(p, "replay")
        if idx is not None:
            rep.violation(obj["signature"], case, "graph_weight differs from GraphWeight")
    elif case.get("kind") == "pack":
        p = os.path.join(wd, "replay_pack.ndjson")
        vlib.write_ndjson(p, [case["event"]])
        idx, _ = validate_trace(p, "replay")
        if idx is not None:
            rep.violation(obj["signature"], case, "pack event rejected")
    elif case.get("kind") == "ser":
        outp = os.path.join(wd, "replay_ser.ndjson")
        info = hjson(vlib.harness(["cuckoo", "ser", "--out", outp, "--seed", obj.get("seed", 1)]))
        for mm in info["mismatches"]:
            rep.violation("cuckoo:ser:%s" % mm["what"], {"kind": "ser", "mismatch": mm}, json.dumps(mm)[:300])
    elif case.get("kind") == "vsize":
        ep = os.path.join(wd, "replay_vsize_in.ndjson")
        vlib.write_ndjson(ep, [case["event"]])
        outp = os.path.join(wd, "replay_vsize_out.ndjson")
        info = hjson(vlib.harness(["cuckoo", "size", "--events", ep, "--out", outp], env={"VERIF_HANG_MS": 15000}))
        evs = vlib.read_ndjson(outp)
        if info["hangs"]:
            rep.violation(obj["signature"], case, "verify_size does not return")
        to_trace, _ = vsize_judge(rep, evs, set())
        vsize_validate(wd, to_trace, "replay")
    elif case.get("kind") == "pin":
        info = hjson(vlib.harness(["cuckoo", "pin"]))
        if not info["ok"]:
            rep.violation(obj["signature"], case, "; ".join(info["fails"]))
    else:
        cp = os.path.join(wd, "replay_case.ndjson")
        nonces = [n if n >= 0 else (1 << 40) for n in case["nonces"]]
        vlib.write_ndjson(cp, [{"variant": case["variant"], "eb": case["eb"], "seed": int(case["seed"]), "nonces": nonces,
                                "kind": case.get("event", {}).get("kind", "replay")}])
        outp = os.path.join(wd, "replay_out.ndjson")
        vlib.harness(["cuckoo", "cases", "--cases", cp, "--out", outp], env={"VERIF_HANG_MS": 15000})
        res = vlib.read_ndjson(outp)[0]
        if res["verdict"] in ("hang", "panic"):
            rep.violation(obj["signature"], case, "verify: %s on %s" % (res["verdict"], nonces))
        else:
            tp = os.path.join(wd, "replay_trace.ndjson")
            vlib.write_ndjson(tp, [event_of(res)])
            idx, _ = validate_trace(tp, "replay")
            if idx is not None:
                rep.violation(obj["signature"], case, "verify returned %s, Accept disagrees" % res["verdict"])
    rep.coverage = {"states": 1, "transitions": 1, "traces_validated_against_impl": 1, "samples": [obj["signature"]]}
    return rep.finish()


def run(tier, replay):
    rep = Report(PID, tier, "model_checking")
    wd = vlib.workdir(PID, clean=True)
    thorough = tier == "thorough"
    if replay:
        return run_replay(rep, wd, replay)
    seed = vlib.seed()
    rng = random.Random(seed)

    # (0) my siphash / edge definitions against the repository's published vectors
    pin = hjson(vlib.harness(["cuckoo", "pin"]))
    if not pin["ok"]:
        real = [f for f in pin["fails"] if f.startswith("real ")]
        if real and len(real) == len(pin["fails"]):
            rep.violation("cuckoo:cuckatoo:published_vector_refused", {"kind": "pin"}, "; ".join(real))
        else:
            raise ToolError("edge definitions do not reproduce the repository's vectors: %s" % pin["fails"])

    # (S) the node's entry point pow::verify_size: TLC's plans realised in real headers. The trace
    #     validation of these events runs in the background while the other stages go on.
    rS, plans, plans_p = vsize_plans(wd)
    vs_runs, vs_events, vs_seen = [], [], set()
    vs_to_trace, vs_bad = [], 0
    for i, eb in enumerate((9, 10, 11, 12) if thorough else (9 + seed % 3,)):
        vp = os.path.join(wd, "vsize_%d.ndjson" % eb)
        info = hjson(vlib.harness(["cuckoo", "size", "--plans", plans_p, "--out", vp, "--seed", seed + 7919 * i, "--eb", eb, "--heights", 2], timeout=900))
        evs = vlib.read_ndjson(vp)
        for e in evs:
            if e["verdict"] == "hang":       # re-check with a long limit before calling it a hang
                hp = os.path.join(wd, "vsize_hang_in.ndjson")
                vlib.write_ndjson(hp, [e])
                hop = os.path.join(wd, "vsize_hang_out.ndjson")
                vlib.harness(["cuckoo", "size", "--events", hp, "--out", hop], env={"VERIF_HANG_MS": 12000})
                again = vlib.read_ndjson(hop)
                if again:
                    e.update(verdict=again[0]["verdict"])
        tt, nb = vsize_judge(rep, evs, vs_seen)
        vs_to_trace += tt
        vs_bad += nb
        vs_events += evs
        vs_runs.append({k: v for k, v in info.items() if k != "chains"})
        vs_runs[-1]["edge_bits"] = eb
        vs_runs[-1]["headers_tried"] = {c["chain"]: sum(x["headers_tried"] for x in c["searches"]) for c in info["chains"]}
        if info["skipped_by_reason"].get("shape not found in the headers tried", 0) > len(evs) // 20:
            raise ToolError("verify_size stage: too many plans not realised: %s" % info["skipped_by_reason"])
    vs_cov = vsize_coverage(vs_events)
    vs_result = {}

    def vs_bg():
        try:
            vs_result["states"] = vsize_validate(wd, vs_to_trace, "all")
        except BaseException as ex:            # re-raised on the main thread
            vs_result["error"] = ex
    vs_thread = threading.Thread(target=vs_bg)
    vs_thread.start()

    # (1) tiny graphs: edge tables (inputs of the model), seeds pre-selected for cycle content
    per4, with4 = (60, 40) if thorough else (26, 17)
    g4p = os.path.join(wd, "graphs4.ndjson")
    scan4 = hjson(vlib.harness(["cuckoo", "scan", "--eb", 4, "--per", per4, "--with", with4, "--shapes", 8 if thorough else 4, "--seed", seed, "--out", g4p]))
    per5, with5 = (4, 3) if thorough else (3, 2)
    g5p = os.path.join(wd, "graphs5.ndjson")
    scan5 = hjson(vlib.harness(["cuckoo", "scan", "--eb", 5, "--per", per5, "--with", with5, "--shapes", 1, "--seed", seed, "--gid0", 10001, "--out", g5p]))
    graphs4 = vlib.read_ndjson(g4p)
    graphs5 = vlib.read_ndjson(g5p)
    graphs = {g["gid"]: g for g in graphs4 + graphs5}

    # (M) TLC: all simple K-cycles of every tiny graph
    t4 = os.path.join(wd, "graphs4_tlc.ndjson")
    tlc_graph_file(graphs4, t4)
    r4, cyc = enumerate_cycles(t4, "16-edge graphs")
    t5 = os.path.join(wd, "graphs5_tlc.ndjson")
    tlc_graph_file(graphs5, t5)
    r5, cyc5 = enumerate_cycles(t5, "32-edge graphs")
    cyc.update(cyc5)
    states = r4.distinct + r5.distinct
    trans = r4.generated + r5.generated
    acts = r4.action_counts()
    for a in ("StartAny", "ExtendAny", "Close"):
        if acts.get(a, (0, 0))[0] == 0:
            raise ToolError("MC_Cuckoo: action %s never taken (vacuous model run)" % a)
    n_cycles = sum(len(v) for v in cyc.values())
    if n_cycles < 10:
        raise ToolError("too few cycles in the tiny graphs (%d)" % n_cycles)

    # (A) the real verify on every ascending K-subset (16-edge graphs; 32-edge graphs: every subset
    #     in the thorough tier, a large random sample plus all neighbours of cycles in the quick tier)
    x4p = os.path.join(wd, "exhaust4.ndjson")
    ex4 = hjson(vlib.harness(["cuckoo", "exhaust", "--graphs", g4p, "--out", x4p, "--threads", 4, "--max-hangs", 6], timeout=1500))
    x5p = os.path.join(wd, "exhaust5.ndjson")
    if thorough:
        g5full, cnt = [], {}
        for g in graphs5:                      # two 32-edge graphs per variant get every subset
            if cnt.get(g["variant"], 0) < 2:
                cnt[g["variant"]] = cnt.get(g["variant"], 0) + 1
                g5full.append(g)
        g5fp = os.path.join(wd, "graphs5_full.ndjson")
        vlib.write_ndjson(g5fp, g5full)
        ex5 = hjson(vlib.harness(["cuckoo", "exhaust", "--graphs", g5fp, "--out", x5p, "--threads", 4, "--max-hangs", 3], timeout=3000))
        full5 = {g["gid"] for g in g5full}
        rest = [g for g in graphs5 if g["gid"] not in full5]
        if rest:
            g5sp = os.path.join(wd, "graphs5_sample.ndjson")
            vlib.write_ndjson(g5sp, rest)
            x5s = os.path.join(wd, "exhaust5s.ndjson")
            vlib.harness(["cuckoo", "exhaust", "--graphs", g5sp, "--out", x5s, "--threads", 4, "--sample", 120000, "--seed", seed, "--max-hangs", 2], timeout=1500)
            with open(x5p, "a") as f:
                f.write(open(x5s).read())
    else:
        full5 = set()
        ex5 = hjson(vlib.harness(["cuckoo", "exhaust", "--graphs", g5p, "--out", x5p, "--threads", 4, "--sample", 120000, "--seed", seed, "--max-hangs", 2], timeout=900))
    results = vlib.read_ndjson(x4p) + vlib.read_ndjson(x5p)

    calls = 0
    graphs_equal = 0
    incomplete = []
    hang_list, panic_list = [], []
    by_variant = {v: {"graphs": 0, "graphs_with_cycle": 0, "cycles": 0, "subsets_verified": 0} for v in VARIANTS}
    for x in results:
        g = graphs[x["gid"]]
        var = g["variant"]
        calls += x["calls"]
        acc = {tuple(t) for t in x["accepted"]}
        want = cyc.get(x["gid"], set())
        exhaustive = g["N"] == 16 or x["gid"] in full5
        bv = by_variant[var]
        bv["graphs"] += 1
        bv["graphs_with_cycle"] += 1 if want else 0
        bv["cycles"] += len(want)
        bv["subsets_verified"] += x["calls"]
        if not x["complete"]:
            incomplete.append(x["gid"])
        for t in x["hangs"]:
            hang_list.append((g, t))
        for t in x["panics"]:
            panic_list.append((g, t))
        for t in sorted(acc - want):
            rep.violation("cuckoo:%s:accepts_non_cycle:%s" % (var, py_shape(g, t)),
                          {"kind": "tuple", "variant": var, "eb": g["eb"], "seed": str(g["seed"]), "nonces": list(t), "real_verdict": "accept"},
                          "verify accepts %s in %s graph seed %s; TLC finds no simple %d-cycle on these edges" % (list(t), var, g["seed"], g["K"]))
        if exhaustive and x["complete"]:
            missing = want - acc - {tuple(t) for t in x["hangs"]} - {tuple(t) for t in x["panics"]}
            for t in sorted(missing):
                rep.violation("cuckoo:%s:rejects_cycle" % var,
                              {"kind": "tuple", "variant": var, "eb": g["eb"], "seed": str(g["seed"]), "nonces": list(t), "real_verdict": "reject"},
                              "verify refuses the simple cycle %s" % (list(t),))
            if acc == want:
                graphs_equal += 1

    # explicit tuples through `cases`: every TLC cycle of graphs that were not (completely)
    # enumerated, negative forms of every cycle, neighbours of cycles in sampled graphs
    case_list = []
    for gid, cs in sorted(cyc.items()):
        g = graphs[gid]
        base = {"variant": g["variant"], "eb": g["eb"], "seed": g["seed"]}
        for c in sorted(cs):
            case_list.append(dict(base, nonces=list(c), kind="tlc_cycle"))
            forms = negative_forms(g, c, rng)
            if g["N"] == 32 or (not thorough and len(case_list) > 40000):
                forms = [f for f in forms if f[0] != "k_plus_1"][:90] + [f for f in forms if f[0] == "k_plus_1"][:6]
            for kind, t in forms:
                case_list.append(dict(base, nonces=t, kind=kind))
    # random rejected subsets too, so that the trace spec sees plain non-cycles of the tiny graphs
    for g in graphs4[::3]:
        for _ in range(6):
            case_list.append({"variant": g["variant"], "eb": g["eb"], "seed": g["seed"], "nonces": sorted(rng.sample(range(g["N"]), g["K"])), "kind": "random_subset"})
    # near misses of the verifiers' bucketing of edge ends by low node bits: K-cycles of the graph with node
    # numbers cut to those bits (graphs of 32..128 edges: more nodes than buckets); TLC decides each one
    twp = os.path.join(wd, "twins.ndjson")
    twins = hjson(vlib.harness(["cuckoo", "twins", "--out", twp, "--seed", seed, "--ebs", "5,6,7,8" if thorough else "5,6,7",
                                "--per", 4 if thorough else 2, "--limit", 24], timeout=600))
    twin_cases = vlib.read_ndjson(twp)
    if len(twin_cases) < 100:
        raise ToolError("too few bucket-twin tuples (%d)" % len(twin_cases))
    case_list += twin_cases
    cp = os.path.join(wd, "cases.ndjson")
    vlib.write_ndjson(cp, case_list)
    cop = os.path.join(wd, "cases_out.ndjson")
    vlib.harness(["cuckoo", "cases", "--cases", cp, "--out", cop, "--threads", 4, "--max-hangs", 6], timeout=900)
    case_res = vlib.read_ndjson(cop)
    if len(case_res) != len(case_list):
        # a job ran out of hang budget: the missing tuples were not verified
        log("note: %d of %d explicit tuples not verified (hang budget)" % (len(case_list) - len(case_res), len(case_list)))
    events = []
    for c in case_res:
        if c["verdict"] == "hang":
            hang_list.append(({"variant": c["variant"], "eb": c["eb"], "seed": c["seed"]}, c["nonces"]))
        elif c["verdict"] == "panic":
            panic_list.append(({"variant": c["variant"], "eb": c["eb"], "seed": c["seed"]}, c["nonces"]))
        else:
            events.append(event_of(c))

    # (B) larger graphs: solver-found cycles and near misses, recorded with the real verdict
    rp = os.path.join(wd, "record.ndjson")
    ebs = "8,9,10,11,12" if thorough else "8,10,12"
    rec = hjson(vlib.harness(["cuckoo", "record", "--out", rp, "--ebs", ebs, "--per", 4 if thorough else 2, "--seed", seed, "--threads", 4], timeout=900))
    rec_events = vlib.read_ndjson(rp)
    for e in rec_events:
        if e["verdict"] == "hang":
            hang_list.append((e, [n if n >= 0 else (1 << 40) for n in e["nonces"]]))
        elif e["verdict"] == "panic":
            panic_list.append((e, e["nonces"]))
        else:
            events.append(e)
    n_b_cycles = sum(v for k, v in rec["by_kind"].items() if k in ("cycle:accept", "repo_solver:accept"))
    if n_b_cycles < 10:
        raise ToolError("direction B found too few cycles (%d)" % n_b_cycles)

    # which definition create_pow_context selects (chain type, header version of the height, edge
    # bits): cycles of the chain type's proof size (42 on the main network) found by my finder
    selp = os.path.join(wd, "select.ndjson")
    sel = hjson(vlib.harness(["cuckoo", "select", "--out", selp, "--seed", seed], timeout=300))
    sel_events = vlib.read_ndjson(selp)
    if len(sel_events) < 40:
        raise ToolError("selection table: too few cases (%d)" % len(sel_events))
    events += sel_events

    # the edge-bits boundary of that selection on the long-lived networks: the repository's published
    # 42-cycles at 19 and 29 bits through create_pow_context at every header version (variant-specific
    # verdicts), and at 19, 28, 29, 30, 31 bits which verifier is built (differential probes)
    bdp = os.path.join(wd, "boundary.ndjson")
    bnd = hjson(vlib.harness(["cuckoo", "boundary", "--out", bdp, "--seed", seed], timeout=600))
    bnd_events = vlib.read_ndjson(bdp)
    if any(e["k"] == "SelectKind" and e["observed"] == "ambiguous" for e in bnd_events):
        raise ToolError("boundary probes do not tell the five verifiers apart: %s" % bnd)
    n_kind = sum(1 for e in bnd_events if e["k"] == "SelectKind")
    n_vec = sum(1 for e in bnd_events if e["k"] == "Select")
    if n_kind < 75 or n_vec < 40 or bnd["vectors_through_header"] < 5:
        raise ToolError("boundary stage: too few events: %s" % bnd)
    events += bnd_events

    # Proof packing / padding / difficulty (secondary clause)
    sp = os.path.join(wd, "pack.ndjson")
    ser = hjson(vlib.harness(["cuckoo", "ser", "--out", sp, "--seed", seed, "--reps", 6 if thorough else 4]))
    for mm in ser["mismatches"]:
        rep.violation("cuckoo:ser:%s" % mm["what"], {"kind": "ser", "mismatch": mm}, json.dumps(mm)[:300])
    events += vlib.read_ndjson(sp)

    # panics and hangs of verify are neither verdict
    for g, t in panic_list[:10]:
        rep.violation("cuckoo:%s:verify:panic" % g["variant"],
                      {"kind": "tuple", "variant": g["variant"], "eb": g["eb"], "seed": str(g["seed"]), "nonces": list(t), "real_verdict": "panic"},
                      "verify panics on %s" % (list(t),))
    confirmed_hangs = []
    seen_var = {}
    for g, t in hang_list:
        if seen_var.get(g["variant"], 0) >= 1:
            continue
        seen_var[g["variant"]] = seen_var.get(g["variant"], 0) + 1
        hp = os.path.join(wd, "hang_case.ndjson")
        vlib.write_ndjson(hp, [{"variant": g["variant"], "eb": g["eb"], "seed": int(g["seed"]), "nonces": list(t), "kind": "hang_recheck"}])
        hop = os.path.join(wd, "hang_out.ndjson")
        vlib.harness(["cuckoo", "cases", "--cases", hp, "--out", hop], env={"VERIF_HANG_MS": 12000})
        res = vlib.read_ndjson(hop)[0]
        if res["verdict"] == "hang":
            confirmed_hangs.append({"variant": g["variant"], "eb": g["eb"], "seed": str(g["seed"]), "nonces": list(t)})
            rep.violation("cuckoo:%s:verify:hang" % g["variant"],
                          {"kind": "tuple", "variant": g["variant"], "eb": g["eb"], "seed": str(g["seed"]), "nonces": list(t), "real_verdict": "hang"},
                          "verify does not return (>12 s, 8 nonces) on %s in the %s graph of seed %s" % (list(t), g["variant"], g["seed"]))
        elif res["verdict"] in ("accept", "reject"):
            events.append(event_of(res))   # slow, not stuck: judge it like any other verdict

    # anti-vacuity of the binding: a recorded accept turned into a reject, an accepted cycle with one
    # endpoint altered, and a packed byte altered must each be refused by the trace spec
    good = next(e for e in events if e["k"] == "Verify" and e["verdict"] == "accept")
    pk = next(e for e in events if e["k"] == "Pack")
    bad1 = dict(good, verdict="reject")
    bad2 = json.loads(json.dumps(good)); bad2["ends"][0][1] ^= 2
    bad3 = json.loads(json.dumps(pk)); bad3["bytes"][0] ^= 1
    # ... and a refused wrong-length genuine cycle reported as accepted (verify_size events)
    wl = next(e for e in vs_events if e["shape"] == "cycle" and e["gof"] == e["sv"] and e["L"] not in (e["P"], 1) and e["verdict"] == "reject")
    bad4 = dict(wl, verdict="accept")
    # ... a verifier kind other than the built one, a published cycle's verdict flipped, a weight off by one
    sk = next(e for e in bnd_events if e["k"] == "SelectKind" and e["chain"] == "mainnet" and e["eb"] == 29 and e["version"] == 2)
    bad5 = dict(sk, observed="cuckatoo")
    sv29 = next(e for e in bnd_events if e["k"] == "Select" and e["eb"] == 29 and e["cycle_of"] == "cuckatoo" and e["version"] == 1)
    bad6 = dict(sv29, verdict="accept")
    wt = next(e for e in events if e["k"] == "Weight" and e["eb"] == 31 and e["chain"] == "mainnet" and 52 * 10080 <= e["height"] < 82 * 10080)
    bad7 = dict(wt, weight=wt["weight"] + 256)
    def selftest(ib):
        i, b = ib
        p = os.path.join(wd, "selftest_%d.ndjson" % i)
        vlib.write_ndjson(p, [good, pk, b])
        idx, _ = validate_trace(p, "selftest")
        return i, idx
    from concurrent.futures import ThreadPoolExecutor
    with ThreadPoolExecutor(max_workers=3) as ex:          # seven short single-worker TLC runs
        for i, idx in ex.map(selftest, list(enumerate((bad1, bad2, bad3, bad4, bad5, bad6, bad7)))):
            if idx != 3:
                raise ToolError("selftest %d: a corrupted record was not refused by CuckooTrace (binding is vacuous)" % i)

    n_valid, tstates = validate_events(rep, wd, events, "all")
    vs_thread.join()
    if "error" in vs_result:
        raise vs_result["error"]
    tstates += vs_result["states"]
    n_valid += len(vs_to_trace)

    kinds = {}
    for e in events:
        if e["k"] == "Verify":
            kk = "%s:%s" % (e.get("kind", "case"), e["verdict"])
            kinds[kk] = kinds.get(kk, 0) + 1
    sample_cycle = next(((gid, sorted(cs)[0]) for gid, cs in sorted(cyc.items()) if cs), None)
    rep.coverage = {
        "states": states + tstates + rS.distinct, "transitions": trans + tstates + rS.generated,
        "traces_validated_against_impl": n_valid + len(results),
        "samples": [
            {"tiny_graph": {"variant": graphs[sample_cycle[0]]["variant"], "seed": str(graphs[sample_cycle[0]]["seed"]), "E": graphs[sample_cycle[0]]["E"],
                            "tlc_cycle_also_only_accepted_tuple": list(sample_cycle[1])}} if sample_cycle else {},
            {"event": next((e for e in rec_events if e["kind"] == "two_half_cycles"), rec_events[0])},
            {"event": next((e for e in rec_events if e["kind"] == "cycle"), rec_events[0])},
        ],
        "exhaustive": True,
        "model": {"mc_states": states, "mc_transitions": trans, "action_counts": {k: v[0] for k, v in acts.items()},
                  "cycles_enumerated": n_cycles, "graphs": len(graphs)},
        "tiny_graphs": {"edge_bits_4": scan4, "edge_bits_5": scan5, "by_variant": by_variant,
                        "graphs_compared": len(results), "graphs_exhaustive_and_equal": graphs_equal,
                        "graphs_exhaustive": sum(1 for x in results if (graphs[x["gid"]]["N"] == 16 or x["gid"] in full5)),
                        "real_verify_calls": calls, "incomplete_graphs_due_to_hang_budget": incomplete},
        "verify_size": {"plans": len(plans), "plan_model": {"states": rS.distinct, "transitions": rS.generated, "action_counts": {k: v[0] for k, v in rS.action_counts().items()}},
                        "plans_separating_required_length_from_nonce_count": sum(1 for p in plans if p["vacuous"] != p["expect"]),
                        "events": len(vs_events), "events_disagreeing_with_plan": vs_bad, "runs": vs_runs,
                        "genuine_cycles_through_verify_size": vs_cov,
                        "by_shape_and_verdict": {"%s:%s" % k: v for k, v in sorted(__import__("collections").Counter((e["shape"], e["verdict"]) for e in vs_events).items())},
                        "sample": {k: v for k, v in wl.items() if k != "ends_by"}},
        "explicit_tuples": len(case_res), "direction_b": rec, "selection_table": sel, "verify_events_by_kind": kinds,
        "selection_boundary": dict(bnd, select_kind_events=n_kind, published_vector_events=n_vec,
                                   by_observed={k: sum(1 for e in bnd_events if e["k"] == "SelectKind" and e["observed"] == k) for k in VARIANTS + ["none"]},
                                   published_accepts=sum(1 for e in bnd_events if e["k"] == "Select" and e["verdict"] == "accept")),
        "bucket_twins": twins,
        "graph_weight": {"cases": ser["weight_cases"], "events_decided_by_tlc": sum(1 for e in events if e["k"] == "Weight"),
                         "c31_phasing_out_events": sum(1 for e in events if e["k"] == "Weight" and weight_phase(e) == "c31_phasing_out")},
        "proof_ser": {k: ser[k] for k in ("events", "pack_checks", "padding_cases", "difficulty_cases")},
        "hangs_observed": len(hang_list), "hangs_confirmed_12s": confirmed_hangs, "panics_observed": len(panic_list),
        "pin_checks": pin["checks"],
        "checker_cmd": "tlc mc/MC_Cuckoo (GRAPHS=...); tlc mc/MC_CuckooSize; tlc trace/CuckooTrace (TRACE=...)",
    }
    rep.assumptions = [
        "the graph (edge index -> endpoints) is an input of the model, computed by the harness's own siphash-2-4 / siphash-block / blake2b key derivation; it is pinned only by the repository's published vectors (4 siphash values, 3 block values, 9 known 42-cycles at 19/29 bits)",
        "K = 8 (ChainTypes::AutomatedTesting proof size) for the exhaustive and near-miss cycle checks; 42-edge (and 1..46-edge) cycles through pow::verify_size in 2^9..2^12-edge graphs and through the pinned vectors",
        "verify_size on Mainnet/Testnet headers above 29 edge bits (cuckatoo) only with nonce lists that need no cycle search (2^30-edge graph); cuckatoo's wrong-length cycles go through verify_size on the AutomatedTesting/UserTesting chain types, same code",
        "the header version of a height is taken from consensus::header_version (its schedule is C04's subject)",
        "exhaustive iff on 16-edge graphs (and 32-edge graphs in the thorough tier); larger graphs through solver-found cycles and near misses only",
        "blake2b is a primitive of the difficulty formula; graph_weight is compared with GraphWeight (TLC for values below 2^31, the harness's transcription of GraphWeight beyond); nonces >= 2^31 are logged to TLC as 'out of range'",
        "which verifier create_pow_context builds at 28..31 edge bits is observed through its behaviour on probe tuples compared with pow::new_*_ctx verifiers of the same binary (a verifier that differs from all five is reported as 'unknown'); genuine cycles through create_pow_context at 19/29 bits only for cuckatoo (refused), cuckaroo and cuckarood: the published cuckaroom/cuckarooz keys are not those of a header",
    ]
    return rep.finish()
