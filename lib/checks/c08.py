"""C08 (store level) — pruning, compaction, rewind, discard and reopen never change what a prunable MMR
commits to or reports for live data (spec/PMMRStore.tla). The chain-level clause (Chain::compact) is
decided by the chain engine."""
import json, os, re, shutil
import vlib
from vlib import Report, ToolError, log

PID = "C08"
ENGINES = ["pmmrstore", "crash", "chain"]
ACTIONS = ["Begin", "Rewind", "Append", "Remove", "Commit", "Discard", "Compact", "Reopen"]
SPEC_ACTIONS = ["Begin", "DoRewind", "AppendLeaf", "DoRemove", "Commit", "Discard", "DoCompact", "Reopen"]
VARIANTS = [("fixed", "single"), ("fixed", "steps"), ("var", "single"), ("var", "steps")]


def validate_trace(trace_path, what):
    r = vlib.tlc("trace/PMMRStoreTrace", workers=1, coverage=False, env={"TRACE": trace_path}, xss="1g", xmx="4g", timeout=1500)
    if r.finished:
        return True, r
    if "TRACE-REJECTED" in r.out:
        return False, [x for x in r.out.splitlines() if "TRACE-REJECTED" in x][0][:1500]
    if r.invariant_violated:
        print(r.out[-3000:])
        raise ToolError("PMMRStoreTrace: model invariant %s violated while validating (%s)" % (r.invariant_violated, what))
    print(r.out[-4000:])
    raise ToolError("PMMRStoreTrace failed without a verdict (%s)" % what)


def sig_of(mm, elem, where):
    return "pmmrstore:%s:%s:after=%s:elem=%s" % (where, mm.get("what", "?"), mm.get("after", "?"), elem)


def run_replay(wd, behs_path, shapes_path, elem, rw, tag, sabotage=None):
    outp = os.path.join(wd, "out_%s_%s_%s.ndjson" % (tag, elem, rw))
    cmd = ["pmmrstore", "replay", "--behs", behs_path, "--shapes", shapes_path, "--dir", os.path.join(wd, "st_%s_%s_%s" % (tag, elem, rw)),
           "--out", outp, "--elem", elem, "--rewind", rw, "--threads", 4]
    if sabotage:
        cmd += ["--sabotage", sabotage]
    vlib.harness(cmd, timeout=3000)
    return vlib.read_ndjson(outp)


def generate(wd, cfg, tag, **kw):
    """Run the generator, return (behaviours, shapes path, behaviours path)."""
    r = vlib.tlc("mc/MC_PMMRStoreGen", cfg, workers=1, coverage=False, timeout=2400, **kw)
    if r.invariant_violated or (not kw.get("simulate") and not r.finished) or "Error:" in r.out:
        print(r.out[-3000:])
        raise ToolError("MC_PMMRStoreGen (%s) did not run cleanly" % cfg)
    behs = [json.loads(x) for x in r.printed("BEH")]
    shapes = [json.loads(x) for x in r.printed("SHAPE")]
    if len(behs) < 20 or not shapes:
        print(r.out[-3000:])
        raise ToolError("too few behaviours emitted by %s" % cfg)
    bp = os.path.join(wd, "behs_%s.ndjson" % tag)
    sp = os.path.join(wd, "shapes_%s.ndjson" % tag)
    vlib.write_ndjson(bp, behs)
    vlib.write_ndjson(sp, shapes)
    return behs, sp, bp, r


LAYOUT_ACTIONS = ["Append", "Remove", "Compact", "Rewind", "Reopen", "Subtree"]
LAYOUT_PROBES = ["leafshift", "climb", "cleanup", "rewind", "noguard", "discard"]


def run_layout(rep, wd, thorough, replay_case=None):
    """Physical layer (spec/PruneLayout.tla): the code-shaped prune list / shift caches / hash and data files /
    leaf set refine 'leaves appended, removed, compacted away'; TLC checks the refinement exhaustively, the
    behaviours it emits are executed on the real PMMRBackend and PruneList and every file and cache compared."""
    def replay_layout(behs, tag, sabotage=None):
        bp = os.path.join(wd, "layout_%s.ndjson" % tag)
        outp = os.path.join(wd, "layout_out_%s.ndjson" % tag)
        vlib.write_ndjson(bp, behs)
        cmd = ["pmmrstore", "layout", "--behs", bp, "--dir", os.path.join(wd, "layout_dir_%s" % tag), "--out", outp, "--threads", 6]
        if sabotage:
            cmd += ["--sabotage", sabotage]
        vlib.harness(cmd, timeout=3000)
        res = vlib.read_ndjson(outp)
        if len(res) != len(behs):
            raise ToolError("layout replay output incomplete")
        return res

    if replay_case is not None:
        for rr in replay_layout([replay_case["behaviour"]], "replay"):
            for mm in rr["mismatches"][:1]:
                rep.violation("pmmrstore:layout:%s:after=%s" % (mm["what"], mm["after"]), replay_case, json.dumps(mm)[:600])
        return {}

    # the invariants have teeth: each planted transcription error must violate Refinement
    for m in LAYOUT_PROBES:
        pr = vlib.tlc("mc/MC_PruneLayout", "mc/MC_PruneLayout_probe_" + m, workers=3, coverage=False, timeout=900)
        if "Refinement" not in pr.invariant_violated:
            print(pr.out[-2000:])
            raise ToolError("PruneLayout probe '%s' did not violate Refinement: the invariant is vacuous there" % m)
    states = trans = 0
    if thorough:
        r0 = vlib.tlc("mc/MC_PruneLayout", "mc/MC_PruneLayout_t", workers=8, coverage=False, timeout=3000)
        if r0.invariant_violated:
            print(r0.out[-3000:])
            raise ToolError("PruneLayout.tla: Refinement violated inside the model (8 leaves): the transcription or the definition is wrong")
        vlib.tlc_ok(r0, "MC_PruneLayout_t")
        states, trans = r0.distinct, r0.generated
    r = vlib.tlc("mc/MC_PruneLayout", "mc/MC_PruneLayout_emit_t" if thorough else "mc/MC_PruneLayout_emit", workers=6, coverage=False, timeout=3000)
    if r.invariant_violated:
        print(r.out[-3000:])
        raise ToolError("PruneLayout.tla: Refinement violated inside the model: the transcription or the definition is wrong")
    vlib.tlc_ok(r, "MC_PruneLayout_emit")
    states, trans = states + r.distinct, trans + r.generated
    bfs = [json.loads(x) for x in r.printed("BEH")]
    rs = vlib.tlc("mc/MC_PruneLayout", "mc/MC_PruneLayout_sim", workers=1, coverage=False, timeout=3000,
                  simulate=60 if thorough else 10, depth=50, seed_=vlib.seed())
    if rs.invariant_violated:
        print(rs.out[-3000:])
        raise ToolError("PruneLayout.tla: Refinement violated inside the model (simulation, 14 leaves)")
    seen, sim = set(), []
    for x in rs.printed("BEH"):
        if x not in seen:
            seen.add(x)
            sim.append(json.loads(x))
    if len(bfs) < 200 or len(sim) < 5:
        raise ToolError("too few layout behaviours: %d bfs, %d sim" % (len(bfs), len(sim)))
    steps = {a: 0 for a in LAYOUT_ACTIONS}
    rolled = 0
    for b in bfs + sim:
        for i, st in enumerate(b):
            steps[st["k"]] += 1
            if st["k"] in ("Compact", "Subtree") and i and len(st["p"]["bm"]) < len(b[i - 1]["p"]["bm"]):
                rolled += 1          # roots rolled up into a parent: cleanup_subtree really ran
    missing = [a for a, c in steps.items() if c == 0]
    if missing or rolled == 0:
        raise ToolError("layout behaviours never exercise %s (roll-ups %d)" % (missing, rolled))
    checks = 0
    nviol = {}
    for tag, behs in (("bfs", bfs), ("sim", sim)):
        for b, rr in zip(behs, replay_layout(behs, tag)):
            checks += rr["checks"]
            for mm in rr["mismatches"][:1]:
                sig = "pmmrstore:layout:%s:after=%s" % (mm["what"], mm["after"])
                nviol[sig] = nviol.get(sig, 0) + 1
                if nviol[sig] == 1:
                    rep.violation(sig, {"kind": "layout", "behaviour": b[:mm["step"] + 1], "mismatch": mm},
                                  "step %s after %s: %s" % (mm["step"], mm["after"], json.dumps(mm)[:500]))
    sab = replay_layout(bfs[:400], "sabotage", sabotage="skip_remove")
    sab_bad = sum(1 for x in sab if x["mismatches"])
    if sab_bad == 0:
        raise ToolError("self-test: layout replay did not notice a skipped remove")
    return {"config": "mc/MC_PruneLayout_emit" + ("_t + MC_PruneLayout_t" if thorough else ""), "states": states, "transitions": trans,
            "probes_violating_refinement": LAYOUT_PROBES, "behaviours_bfs": len(bfs), "behaviours_sim": len(sim),
            "sim_states_checked_in_model": rs.generated, "replayed_steps_by_action": steps, "root_rollups": rolled,
            "file_and_cache_comparisons": checks, "violating_behaviours_by_signature": nviol, "selftest_sabotage_noticed_in": sab_bad,
            "sample": bfs[len(bfs) // 2]}


def run(tier, replay):
    rep = Report(PID, tier, "model_checking")
    wd = vlib.workdir(PID, clean=True)
    thorough = tier == "thorough"

    if replay:
        obj = json.load(open(replay))
        case = obj["case"]
        if case.get("kind") == "layout":
            run_layout(rep, wd, thorough, replay_case=case)
        elif case.get("kind") == "trace":
            ok, info = validate_trace(case["trace"], "replay")
            if not ok:
                rep.violation(obj["signature"], case, str(info))
        else:
            bp = os.path.join(wd, "replay_beh.ndjson")
            sp = os.path.join(wd, "replay_shapes.ndjson")
            vlib.write_ndjson(bp, [case["behaviour"]])
            vlib.write_ndjson(sp, case["shapes"])
            for rr in run_replay(wd, bp, sp, case["elem"], case["rewind"], "replay"):
                for mm in rr["mismatches"][:1]:
                    rep.violation(obj["signature"], case, json.dumps(mm))
        rep.coverage = {"states": 1, "transitions": 1, "traces_validated_against_impl": 1, "samples": [obj["signature"]]}
        return rep.finish()

    # (M) the protocol / reference model itself, exhaustively: boundaries form one growing history,
    # what a compaction may delete is never live again under the protocol, committed observables are
    # untouched by Compact / Reopen / Discard and by uncommitted work.
    cfg = "mc/MC_PMMRStore_thorough" if thorough else "mc/MC_PMMRStore"
    r = vlib.tlc("mc/MC_PMMRStore", cfg, workers=4, timeout=2400)
    if r.invariant_violated or r.property_violated:
        print(r.out[-3000:])
        raise ToolError("PMMRStore.tla violated inside the model (%s): the specification is wrong" % (r.invariant_violated,))
    vlib.tlc_ok(r, "MC_PMMRStore")
    states, trans = r.distinct, r.generated
    ac = {}
    for m in re.finditer(r"^<(\w+) line [^>]*>: (\d+):(\d+)", r.out, re.M):   # also matches "<X line .. (a b c d)>: d:t"
        ac[m.group(1)] = (max(ac.get(m.group(1), (0, 0))[0], int(m.group(2))), max(ac.get(m.group(1), (0, 0))[1], int(m.group(3))))
    never = [a for a in SPEC_ACTIONS if ac.get(a, (0, 0))[1] == 0]
    if never:
        raise ToolError("spec actions never taken in MC_PMMRStore: %s" % never)
    # observables of the reference are self-consistent (closed forms = construction, proofs verify)
    r2 = vlib.tlc("mc/MC_PMMRStore", "mc/MC_PMMRStore_obs", workers=4, timeout=1200)
    if r2.invariant_violated:
        print(r2.out[-3000:])
        raise ToolError("PMMRStore.tla observables inconsistent inside the model (%s)" % (r2.invariant_violated,))
    vlib.tlc_ok(r2, "MC_PMMRStore_obs")

    # physical layer: PruneLayout.tla refines the reference; its behaviours run on the real backend and prune list
    layout = run_layout(rep, wd, thorough)

    # (A) behaviours from the specification, replayed on the real PMMRBackend
    sets = []
    b1, sp1, bp1, _ = generate(wd, "mc/MC_PMMRStoreGen_emit_thorough" if thorough else "mc/MC_PMMRStoreGen_emit", "bfs",
                               extra=["-seed", str(vlib.seed())])
    sets.append(("bfs", b1, sp1, bp1))
    nsim = 1200 if thorough else 260
    b2, sp2, bp2, _ = generate(wd, "mc/MC_PMMRStoreGen_sim", "sim", simulate=nsim, depth=500, seed_=vlib.seed())
    sets.append(("sim", b2, sp2, bp2))

    replayed = 0
    nviol = {}
    checks = 0
    steps_by_action = {a: 0 for a in ACTIONS}
    after_compact = {"Rewind": 0, "Append": 0, "Reopen": 0, "Compact": 0}
    max_leaves = 0
    for tag, behs, sp, bp in sets:
        shapes = vlib.read_ndjson(sp)
        for b in behs:
            seen_compact = False
            for st in b:
                steps_by_action[st["k"]] += 1
                max_leaves = max(max_leaves, len(st["lv"]))
                if seen_compact and st["k"] in after_compact:
                    after_compact[st["k"]] += 1
                if st["k"] == "Compact" and st["rm"]:
                    seen_compact = True
        for elem, rw in VARIANTS:
            res = run_replay(wd, bp, sp, elem, rw, tag)
            if len(res) != len(behs):
                raise ToolError("replay output incomplete")
            for b, rr in zip(behs, res):
                replayed += 1
                checks += rr["checks"]
                if rr["mismatches"]:
                    mm = rr["mismatches"][0]
                    nviol[sig_of(mm, elem, "replay")] = nviol.get(sig_of(mm, elem, "replay"), 0) + 1
                    if nviol[sig_of(mm, elem, "replay")] > 1:
                        continue          # one replay file per distinct signature
                    need = {len(st["lv"]) for st in b}
                    case = {"kind": "behaviour", "elem": elem, "rewind": rw, "behaviour": b,
                            "shapes": [s for s in shapes if s["n"] in need], "mismatches": rr["mismatches"]}
                    rep.violation(sig_of(mm, elem, "replay"), case,
                                  "step %s after %s (%s/%s): %s" % (mm.get("step"), mm.get("after"), elem, rw, json.dumps(mm)[:400]))
    missing = [a for a, n in steps_by_action.items() if n == 0] + [a for a, n in after_compact.items() if n == 0]
    if missing:
        raise ToolError("generated behaviours never exercise: %s" % missing)

    # the binding is real: a deliberately wrong adapter (Discard not forwarded) must be noticed
    sab = run_replay(wd, bp1, sp1, "fixed", "single", "sabotage", sabotage="skip_discard")
    sab_bad = sum(1 for x in sab if x["mismatches"])
    if sab_bad == 0:
        raise ToolError("self-test: replay did not notice a skipped discard")

    # (B) seeded random driver on the real store, validated against the spec's actions
    traces = []
    ntr = 3 if thorough else 1
    for t in range(ntr):
        for elem in ("fixed", "var"):
            tp = os.path.join(wd, "trace_%s_%d.ndjson" % (elem, t))
            leaves = (2000 if t == 0 else 900) if thorough else 800
            p = vlib.harness(["pmmrstore", "record", "--out", tp, "--dir", os.path.join(wd, "rec_%s_%d" % (elem, t)), "--elem", elem,
                              "--seed", vlib.seed() * 7 + t + (100 if elem == "var" else 0), "--leaves", leaves, "--units", 60])
            info = json.loads(p.stdout.strip().splitlines()[-1])
            ok, why = validate_trace(tp, "record %s" % elem)
            if not ok:
                keep = os.path.join(vlib.OUT, "replays", "C08_trace_%s_%d_%d.ndjson" % (elem, vlib.seed(), t))
                os.makedirs(os.path.dirname(keep), exist_ok=True)
                shutil.copy(tp, keep)
                ev = why.split('k |-> "')[1].split('"')[0] if 'k |-> "' in why else "?"
                what = "diff" if "diff |->" in why else "projection"
                rep.violation("pmmrstore:trace:%s:after=%s:elem=%s" % (what, ev, elem), {"kind": "trace", "trace": keep, "elem": elem, "rejected": why}, why[:600])
            traces.append({"elem": elem, **info})
    # corrupting one logged field must be rejected
    good = vlib.read_ndjson(os.path.join(wd, "trace_fixed_0.ndjson"))
    idx = [i for i, e in enumerate(good) if e["k"] in ("Compact", "Commit")]
    if idx and not rep.violations:
        bad = json.loads(json.dumps(good))
        bad[idx[len(idx) // 2]]["p"]["nlive"] += 1
        cp = os.path.join(wd, "trace_corrupt.ndjson")
        vlib.write_ndjson(cp, bad)
        ok, _ = validate_trace(cp, "corrupt")
        if ok:
            raise ToolError("self-test: corrupted trace accepted")

    # chain-level clause: Chain::compact is a stutter on head / roots / unspent set / full validation and
    # still permits reorganisations inside the horizon: a compacted node and a never-compacted twin get the
    # same 88-block history whose last blocks spend whole runs of old outputs, then a fork replacing the
    # last 1..4 blocks, then a block re-spending what the dropped blocks had spent
    import subprocess
    chain_level = []
    # (blocks, reorg depth): depth 20 on a 90-block chain forks off the horizon block itself
    plans = [(88, 1), (88, 3), (88, 5), (90, 10), (90, 20)] if tier == "thorough" else [(88, 2), (90, 20)]
    import concurrent.futures as cf

    def one(pl):
        nb, dep = pl
        p = subprocess.run([os.path.join(vlib.HARNESS_BINDIR, "h_crash"), "compact_reorg", "--dir", os.path.join(wd, "cr%d_%d" % (nb, dep)),
                            "--blocks", str(nb), "--depth", str(dep), "--seed", str(vlib.seed() + dep)],
                           stdout=subprocess.PIPE, stderr=subprocess.PIPE, text=True, timeout=2400)
        return pl, p
    with cf.ThreadPoolExecutor(max_workers=3) as ex:
        outs = list(ex.map(one, plans))
    for (nb, dep), p in outs:
        if p.returncode != 0 or not p.stdout.strip():
            print(p.stdout[-1500:], p.stderr[-1500:])
            raise ToolError("compact_reorg scenario failed to run")
        o = json.loads(p.stdout.strip().splitlines()[-1])
        chain_level.append({"blocks": nb, "reorg_depth": dep, "compact": o["compact"], "problems": len(o["problems"]), "head_height": o["head_height"]})
        for pr in o["problems"]:
            rep.violation("pmmrstore:chain:compact_reorg:%s" % pr["what"].split(":")[-1], {"kind": "compact_reorg", "blocks": nb, "depth": dep, "problem": pr, "spent_old": o["spent_old"]},
                          json.dumps(pr)[:300])

    # Chain.tla with the Compact action: TLC-simulated behaviours over an 85-block trunk that has a spend every
    # 4th block (compaction really prunes), forks inside the horizon spending old / already pruned outputs,
    # Compact and Reopen interleaved with block, header and header-batch deliveries; every step's projection
    # (head, unspent set with positions, stored bodies, tail, sums) compared on the real chain, roots against
    # a never-compacted twin
    import chainlib
    cbehs, _ = chainlib.gen_sim("mc/MC_Chain_simemit_compact", 40 if thorough else 10, vlib.seed(), workers=8 if thorough else 5, depth=60, timeout=1800)
    cres = chainlib.replay(PID, cbehs, procs=10 if thorough else 5, twin=True, deep=thorough, tag="compactsim")
    cstats = chainlib.report_results(rep, cbehs, cres)
    compact_effective = sum(1 for b in cbehs if any(s["k"] == "Compact" and s["proj"]["tail"] > 1 for s in b["steps"]))
    if compact_effective == 0:
        raise ToolError("no generated behaviour contains an effective compaction")

    rep.coverage = {
        "states": states + layout["states"], "transitions": trans + layout["transitions"],
        "physical_layout": layout,
        "chain_level_compaction_reorg": chain_level,
        "chain_model_compaction": {"config": "mc/MC_Chain_simemit_compact", "behaviours": len(cbehs), "with_effective_compaction": compact_effective,
                                   "steps": cstats["steps"], "twin_root_comparisons": cstats["twin_checked"], "step_classes": cstats["classes"]},
        "traces_validated_against_impl": replayed + len(traces) + len(cbehs) + layout["behaviours_bfs"] + layout["behaviours_sim"],
        "samples": [{"behaviour": sets[0][1][len(sets[0][1]) // 2]},
                    {"sim_behaviour_head": sets[1][1][0][:12]},
                    {"trace": traces[0]}],
        "exhaustive": True,
        "model": {"config": cfg, "depth": r.depth, "obs_states": r2.distinct},
        "model_action_counts": {a: ac[a][1] for a in ac if a in SPEC_ACTIONS},
        "behaviours_bfs": len(b1), "behaviours_sim": len(b2), "variants": ["%s/%s" % v for v in VARIANTS],
        "replayed_behaviours": replayed, "observation_checks": checks,
        "replayed_steps_by_action": steps_by_action, "steps_after_nonempty_compaction": after_compact,
        "max_leaves_in_behaviours": max_leaves,
        "selftest_sabotage_noticed_in": sab_bad, "violating_behaviours_by_signature": nviol,
        "recorded_traces": traces,
        "checker_cmd": "tlc mc/MC_PruneLayout (probes, exhaustive, emit, simulate); h_pmmrstore layout; tlc mc/MC_PMMRStore; tlc mc/MC_PMMRStoreGen (bfs+simulate); h_pmmrstore replay; h_pmmrstore record; tlc trace/PMMRStoreTrace",
    }
    rep.assumptions = [
        "physical layer: PruneLayout.tla transcribes prune_list.rs, LeafSet::removed_pre_cutoff/rewind, PMMRBackend::append/append_pruned_subtree/remove/rewind/pos_to_rm/check_compact and write_tmp_pruned statement by statement; bitmap rank/select/maximum are spelled out on sets; exhaustive to 6 (thorough 8) leaves, simulated to 14; file records are identified by the bytes first written for a position",
        "usage protocol as in chain/src/txhashset/txhashset.rs: rewind only to boundaries not older than the last compaction, only before any append/remove of the unit; bitmaps hold 1-based positions; check_compact only between units",
        "blake2b / hash_with_index used as an injective primitive (symbolic terms in the model, evaluated by the harness)",
        "MMR shape (positions, root and proof-path terms) from MMR.tla's construction (C07); the harness substitutes each leaf's data into the emitted shape terms",
        "element types are the harness's 16-byte Elem and a variable-size VarElem (8..20 bytes); boundaries are recorded at sync points only (one per committed unit)",
        "direction B compares root / leaf data / hashes / proofs with an unpruned VecBackend twin built from the spec-validated leaf history",
    ]
    return rep.finish()
