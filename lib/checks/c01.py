"""C01 — No value is created: accepted transactions and blocks balance (spec/TxBalance.tla).

(M) TLC checks on every enumerated body — valid bases, every single-field corruption of them,
    (thorough) every pair of corruptions on a smaller base set — that the rule set of
    Transaction::validate / Block::validate, transcribed in code order, implies conservation.
(A) Spec-generated bodies (a seed-selected representative of every shape group with all its single
    corruptions and sampled pairs) are realised with real Pedersen commitments, bulletproofs and
    aggsig signatures and handed to the real Transaction::validate / Block::validate.
    Oracle: real Ok => spec Valid (the property). Conversely spec Valid and non-degenerate => real Ok
    is required as anti-vacuity (a tool error, never a verdict).
The history clause of C01 (full-state sums after any accepted history) is decided by the Chain engine.
"""
import json, os, collections
import vlib
from vlib import Report, ToolError, log
from checks import _txbal

PID = "C01"
ENGINES = ["txbal"]


def signature(case):
    ctx, exp = case["ctx"], case["expect"]
    if ctx["as"] == "block" and ctx["total"] == 0 and ctx["prev"] != 0 and exp["rule"] == "kernel_sums":
        # the block's own offset (total - prev) was not applied
        return "txbal:block:accepted:total_offset_zero_prev_nonzero"
    cls = "+".join(case["applied"]) if case["applied"] else "base"
    return "txbal:%s:accepted:%s:rule=%s" % (ctx["as"], cls, exp["rule"])


def judge(case, res):
    """-> ('ok'|'violation'|'converse'|'skip', text)"""
    exp = case["expect"]
    if res["res"] == "ok" and not exp["valid"]:
        return "violation", "real %s::validate returned Ok for a body the rules refuse at '%s' (corruption %s): %s" % (
            "Transaction" if case["ctx"]["as"] == "tx" else "Block", exp["rule"], case["applied"] or "none",
            json.dumps({"body": case["body"], "ctx": case["ctx"]}))
    if exp["valid"] and not exp["degenerate"] and res["res"] != "ok":
        return "converse", "spec-valid non-degenerate body refused (%s %s)" % (res["res"], res.get("err"))
    return "ok", ""


def emit_cases(reps, pairs):
    e = vlib.tlc("mc/MC_TxBalance", "mc/MC_TxBalance_emit", workers=1, coverage=False, timeout=1500,
                 env={"VERIF_SEED": vlib.seed(), "TXBAL_REPS": reps, "TXBAL_PAIRS": pairs})
    vlib.tlc_ok(e, "MC_TxBalance emit")
    cases = [json.loads(x) for x in e.printed("TXCASE")]
    for i, c in enumerate(cases):
        c["id"] = i
    return cases


def run(tier, replay):
    rep = Report(PID, tier, "model_checking")
    wd = vlib.workdir(PID, clean=True)
    thorough = tier == "thorough"
    if replay:
        obj = json.load(open(replay))
        case = obj["case"]
        case["id"] = 0
        res, _ = _txbal.run_sharded("validate", [case], wd, "replay", shards=1)
        verdict, text = judge(case, res[0])
        if verdict == "violation":
            rep.violation(signature(case), case, text)
        rep.coverage = {"states": 1, "transitions": 1, "traces_validated_against_impl": 1,
                        "samples": [{"signature": obj["signature"], "real": res[0]}]}
        return rep.finish()

    # (M) the rule set implies conservation on every enumerated body
    runs = [("mc/MC_TxBalance_thorough" if thorough else "mc/MC_TxBalance", "single")]
    if thorough:
        runs.append(("mc/MC_TxBalance_pairs", "pairs"))
    states = trans = 0
    model = {}
    dev_skip = os.environ.get("TXBAL_DEV_SKIP_TLC") == "1"   # development aid for mutant runs: direction A only
    for cfg, name in ([] if dev_skip else runs):
        r = vlib.tlc("mc/MC_TxBalance", cfg, workers=4, coverage=False, timeout=2400)
        if r.invariant_violated:
            # which clause: rerun the named invariants on the small config for the log; never a verdict on grin
            print(r.out[-3000:])
            raise ToolError("TxBalance.tla: %s violated inside the model (%s)" % (r.invariant_violated, cfg))
        vlib.tlc_ok(r, cfg)
        states += r.distinct
        trans += r.generated
        model[name] = {"config": cfg, "states": r.distinct, "wall_s": round(r.wall, 1)}
        log("TLC %s: %d states in %.0fs" % (cfg, r.distinct, r.wall))
    # named clauses + per-action coverage on the small config (anti-vacuity of the model run itself)
    rn = vlib.tlc("mc/MC_TxBalance", "mc/MC_TxBalance_named", workers=4, coverage=not dev_skip, timeout=2400)
    if rn.invariant_violated:
        print(rn.out[-3000:])
        raise ToolError("TxBalance.tla: %s violated inside the model" % rn.invariant_violated)
    vlib.tlc_ok(rn, "MC_TxBalance_named")
    acts = rn.action_counts()
    for a in ("ChooseGroup", "ChooseValues", "ChooseBase", "Corrupt"):
        if not dev_skip and acts.get(a, (0, 0))[0] == 0:
            raise ToolError("TxBalance action %s never taken" % a)
    states += rn.distinct
    trans += rn.generated
    model["named"] = {"config": "mc/MC_TxBalance_named", "states": rn.distinct, "wall_s": round(rn.wall, 1),
                      "actions": {k: v[0] for k, v in acts.items()}}

    # (A) spec-generated bodies against the real validate
    cases = emit_cases(10 if thorough else 2, 3 if thorough else 1)
    if len(cases) < 500:
        raise ToolError("too few TxBalance cases emitted (%d)" % len(cases))
    res, infos = _txbal.run_sharded("validate", cases, wd, "cases", shards=4)
    counts = collections.Counter()
    by_class = collections.Counter()
    by_rule = collections.Counter()
    groups = set()
    converse = []
    for c in cases:
        r = res[c["id"]]
        exp = c["expect"]
        verdict, text = judge(c, r)
        cls = "+".join(c["applied"]) if c["applied"] else "base"
        for a in (c["applied"] or ["base"]):
            by_class[a] += 1
        by_rule[exp["rule"]] += 1
        groups.add(json.dumps(c["grp"], sort_keys=True))
        counts["real_" + r["res"]] += 1
        if r["res"] == "panic":
            counts["panics"] += 1
        if exp["valid"] and not exp["degenerate"]:
            counts["spec_valid_nondegenerate"] += 1
            if r["res"] == "ok":
                counts["spec_valid_real_ok"] += 1
        if exp["valid"] and exp["degenerate"]:
            counts["spec_valid_degenerate"] += 1
        if not exp["valid"]:
            counts["spec_invalid"] += 1
            if r["res"] != "ok":
                counts["spec_invalid_real_refused"] += 1
        if len(c["applied"]) == 2 and exp["valid"]:
            counts["compensating_pairs_valid"] += 1
        if verdict == "violation":
            rep.violation(signature(c), c, text)
        elif verdict == "converse":
            converse.append((c, r, text))

    # the binding is real: a flipped expectation must be flagged by the same oracle
    probe = next((c for c in cases if c["expect"]["valid"] and not c["expect"]["degenerate"] and res[c["id"]]["res"] == "ok"), None)
    if probe is None and not rep.violations:
        raise ToolError("no spec-valid body was accepted by the real code: binding is vacuous")
    if probe is not None:
        flipped = json.loads(json.dumps(probe))
        flipped["expect"]["valid"] = False
        flipped["expect"]["rule"] = "selftest"
        if judge(flipped, res[probe["id"]])[0] != "violation":
            raise ToolError("selftest: flipped expectation not flagged")
    # every corruption class and every rule of the transcription was exercised
    import re
    spec = open(os.path.join(vlib.SPEC, "TxBalance.tla")).read()
    classes = set(re.findall(r'C\("([a-z_]+)"', spec))
    missing = sorted(k for k in classes if by_class[k] == 0)
    if missing:
        raise ToolError("corruption classes never generated: %s" % missing)
    for rule in ("kernel_sums", "verify_coinbase", "range_proofs", "signatures", "cut_through", "sorted_unique",
                 "features_outputs", "features_kernels", "lock_heights", "nrd_version", "none"):
        if by_rule[rule] == 0:
            raise ToolError("rule %s never the first failing rule in any generated case" % rule)

    rep.coverage = {
        "states": states, "transitions": trans,
        "traces_validated_against_impl": len(cases),
        "samples": [{"case": {k: cases[i][k] for k in ("grp", "body", "ctx", "applied", "expect")}, "real": res[cases[i]["id"]]}
                    for i in (0, len(cases) // 2, len(cases) - 1)],
        "exhaustive_within_bounds": True,
        "model": model,
        "shape_groups": len(groups),
        "cases_by_corruption_class": dict(by_class),
        "cases_by_first_failing_rule": dict(by_rule),
        "counts": dict(counts),
        "harness": infos,
        "distinct_rule": "one case = one (shape group, value choice, base, corruption sequence) visited by TLC; "
                         "distinct non-trivial = cases with at least one corruption: %d" % sum(1 for c in cases if c["applied"]),
        "checker_cmd": "tlc mc/MC_TxBalance (+_thorough,_pairs,_named); tlc mc/MC_TxBalance_emit; h_txbal validate",
    }
    rep.assumptions = [
        "secp256k1-zkp primitives (Pedersen commitments, bulletproofs, aggsig) are used as primitives: H and G independent, "
        "a proof/signature made for another commitment/message never verifies",
        "model scalars are small integers; amounts are multiples of 15 grin below 2^31 units",
        "blinding factors of generated bases follow cyclic patterns (stratified sample of r in 1..3); values, fees, offsets, "
        "kernel kinds and corruption positions are exhaustive within the stated bounds",
        "weight rule transcribed but never binding within the bounds (<= 96 weight units)",
        "history clause of C01 (stored block sums after reorgs) is decided by the Chain engine, not here",
    ]
    rc = rep.finish()
    if rc == 0 and converse:
        c, r, text = converse[0]
        print(json.dumps({"case": c, "real": r})[:3000])
        raise ToolError("%d spec-valid non-degenerate bodies were refused by the real code (model/implementation "
                        "disagree outside the property's direction; first: %s)" % (len(converse), text))
    return rc
