"""C01 — No value is created: accepted transactions and blocks balance (spec/TxBalance.tla).

(M) TLC checks on every enumerated body — valid bases, every single-field corruption of them,
    (thorough) every pair of corruptions on a smaller base set — that the rule set of
    Transaction::validate / Block::validate, transcribed in code order, implies conservation.
(A) Spec-generated bodies (a seed-selected representative of every shape group with all its single
    corruptions and sampled pairs) are realised with real Pedersen commitments, bulletproofs and
    aggsig signatures and handed to the real Transaction::validate / Block::validate.
    Oracle: real Ok => spec Valid (the property). Conversely spec Valid and non-degenerate => real Ok
    is required as anti-vacuity (a tool error, never a verdict).
    Every case also runs under further realisations the verdict must not depend on (MC_TxBalance!Realisations):
    inputs as Inputs::FeaturesAndCommit (with the coinbase features an input claims: corruption
    input_added_unaccounted), and transactions under Weighting::AsLimitedTransaction(70) (weight rule binding: bound 46)
    and Weighting::NoLimit (no weight rule; every other rule still applies: RestValid => NoValueCreated).
    Kernels carry a fee_shift (fs): setting it leaves the verdict alone (fee_shift_set), it hides no unpaid fee
    (fee_shift_hides_unpaid_fee) and its bits are no fee (fee_shift_bits_paid_as_fee / _claimed_by_coinbase).
(B) Batch layer (spec/TxBalanceBatch.tla): TLC-generated batch plans (size, forged positions) over chunk / batch
    boundaries are executed on the real TxKernel::batch_sig_verify, Output::batch_verify_proofs and on
    Transaction::validate of big transactions (mainnet weights, forged kernel ground to the wanted sorted index).
(S) Full-state layer (spec/TxBalanceState.tla): TLC-generated states (histories of 1..12 blocks in several spend
    layouts, every single corruption class at every kernel / unspent output; large states around the batch
    boundaries of the validator's two walks) are realised as real chain directories - honest prefix through
    Chain::process_block, the forged block and what follows written straight into the txhashset - and judged by
    the real Chain::validate(true|false). Before it is written past the pipeline the forged block is offered to the real
    Chain::process_block under Options NONE, SYNC and MINE (+SKIP_POW) on top of the honest prefix: the specification
    (PipelineAccepts = BlockBalanced, whatever the options) says it is refused under each.
    Oracle of (B) and (S): real accept => the spec accepts; the converse is anti-vacuity (tool error).
The history clause of C01 (full-state sums after any accepted history) is decided by the Chain engine.
"""
import json, os, collections
import vlib
from vlib import Report, ToolError, log
from checks import _txbal, _txbal_state

PID = "C01"
ENGINES = ["txbal"]


MAX_FEE = 1000     # TxBalance!MaxFee: stand-in of FeeFields::FEE_MASK, the largest fee of a single kernel
FEE_MASK = (1 << 40) - 1


def nanogrin(v):
    """model amount (three digits, see TxBalance.tla) -> nanogrin"""
    return (v % 1000) * 15_000_000_000 + (v // 1000 % 1000) * FEE_MASK + v // 1_000_000


def total_fee(case):
    """total fee of the body in nanogrin"""
    return sum(nanogrin(k["fee"]) for k in case["body"]["kerns"] if k["kind"] != "cb")


def signature(case, rule=None):
    """rule: the first failing rule under the realisation that was accepted (default: under the base run)"""
    ctx, exp = case["ctx"], dict(case["expect"])
    if rule is not None:
        exp["rule"] = rule
    if ctx["as"] == "block" and case["applied"] == ["fees_paid_to_plain_output"] and exp["rule"] == "verify_coinbase":
        # the coinbase claims the bare subsidy, a plain output collects the fees
        return "txbal:block:accepted:fees_not_claimed_by_coinbase:total_fee_%s_single_kernel_limit" % (
            "over" if total_fee(case) > FEE_MASK else "within")
    if ctx["as"] == "block" and ctx["total"] == 0 and ctx["prev"] != 0 and exp["rule"] == "kernel_sums" \
            and set(case["applied"]) <= {"offset_plus", "offset_minus"}:
        # the block's own offset (total - prev) was not applied
        return "txbal:block:accepted:total_offset_zero_prev_nonzero"
    cls = "+".join(case["applied"]) if case["applied"] else "base"
    return "txbal:%s:accepted:%s:rule=%s" % (ctx["as"], cls, exp["rule"])


LIMITED_MAX = 70      # TxBalance!LimitedMax: the m of Weighting::AsLimitedTransaction(m)


def pick_runs(case):
    """The realisations (representation of the inputs x weighting, TxBalance!InputVariants / TxWeightings) this case is
    run under: the base run, those the specification marks `must`, and one of the others, rotating with the case."""
    runs = case.get("runs")
    if not runs:
        return None
    sel = [k for k, r in enumerate(runs) if r["must"]]
    rest = [k for k, r in enumerate(runs) if not r["must"]]
    if rest:
        # every second transaction case / every fourth block case gets one, cycling through the remaining pairs
        period = 2 if case["ctx"]["as"] == "tx" else 4
        slot = (case["id"] + vlib.seed()) % (len(rest) * period)
        if slot % period == 0:
            sel.append(rest[slot // period])
    return sel


def to_harness_case(case):
    if "run_ix" not in case:            # a replayed case keeps the realisations it was recorded with
        case["run_ix"] = pick_runs(case)
    if case["run_ix"] is None:
        return case
    h = dict(case)
    h.pop("runs", None)
    h["run_list"] = [{"iv": case["runs"][k]["iv"], "w": case["runs"][k]["w"]} for k in case["run_ix"]]
    h["limited_max"] = LIMITED_MAX
    return h


def run_results(case, res):
    """[(run expectation, real result)] of the realisations executed; the base run alone for older replay files"""
    if case.get("run_ix") is None or "runs" not in res:
        exp = case["expect"]
        return [({"iv": "co", "w": "tx" if case["ctx"]["as"] == "tx" else "block", "valid": exp["valid"], "rule": exp["rule"]}, res)]
    return [(case["runs"][k], rr) for k, rr in zip(case["run_ix"], res["runs"])]


def run_suffix(run):
    """signature suffix naming a realisation other than the base one"""
    s = ""
    if run["iv"] != "co":
        s += ":inputs=" + run["iv"]
    if run["w"] not in ("tx", "block"):
        s += ":weighting=" + run["w"]
    return s


def judge_run(case, run, rr):
    """-> ('ok'|'violation'|'converse'|'weight_only', text) for one realisation"""
    exp = case["expect"]
    what = "%s::validate(%s, inputs as %s)" % ("Transaction" if case["ctx"]["as"] == "tx" else "Block",
                                              {"tx": "AsTransaction", "limited": "AsLimitedTransaction(%d)" % LIMITED_MAX,
                                               "nolimit": "NoLimit", "block": "AsBlock"}[run["w"]],
                                              {"co": "CommitOnly", "fc": "FeaturesAndCommit"}[run["iv"]])
    if rr["res"] == "ok" and not run["valid"]:
        if exp.get("rest_valid"):
            # only the weight rule refuses it: not a matter of conservation (anti-vacuity side, a tool error)
            return "weight_only", "real %s returned Ok for a body only the weight rule refuses" % what
        return "violation", "real %s returned Ok for a body the rules refuse at '%s' (corruption %s): %s" % (
            what, run["rule"], case["applied"] or "none", json.dumps({"body": case["body"], "ctx": case["ctx"]}))
    if run["valid"] and not exp["degenerate"] and rr["res"] != "ok":
        return "converse", "spec-valid non-degenerate body refused by %s (%s %s)" % (what, rr["res"], rr.get("err"))
    return "ok", ""


def judge(case, res):
    """-> ('ok'|'violation'|'converse', text, signature suffix, first failing rule): the first realisation that is not ok"""
    worst = ("ok", "", "", None)
    for run, rr in run_results(case, res):
        verdict, text = judge_run(case, run, rr)
        if verdict == "violation":
            return verdict, text, run_suffix(run), run["rule"]
        if verdict in ("converse", "weight_only") and worst[0] == "ok":
            worst = ("converse", text, run_suffix(run), run["rule"])
    return worst


def emit_cases(reps, pairs):
    e = vlib.tlc("mc/MC_TxBalance", "mc/MC_TxBalance_emit", workers=1, coverage=False, timeout=1500,
                 env={"VERIF_SEED": vlib.seed(), "TXBAL_REPS": reps, "TXBAL_PAIRS": pairs})
    vlib.tlc_ok(e, "MC_TxBalance emit")
    cases = [json.loads(x) for x in e.printed("TXCASE")]
    for i, c in enumerate(cases):
        c["id"] = i
    return cases


def run(tier, replay):
    rep = Report(PID, tier, "model_checking")
    wd = vlib.workdir(PID, clean=True)
    thorough = tier == "thorough"
    if replay:
        obj = json.load(open(replay))
        case = obj["case"]
        case["id"] = 0
        if "sect" in case:
            sres, _ = _txbal_state.run_now([case], wd)
            for verdict, sig, text in _txbal_state.judge(case, sres[0]):
                if verdict == "violation":
                    rep.violation(sig, case, text)
            rep.coverage = {"states": 1, "transitions": 1, "traces_validated_against_impl": 1,
                            "samples": [{"signature": obj["signature"], "real": sres[0]}]}
            return rep.finish()
        res, _ = _txbal.run_sharded("validate", [to_harness_case(case)], wd, "replay", shards=1)
        verdict, text, sfx, rule = judge(case, res[0])
        if verdict == "violation":
            rep.violation(signature(case, rule) + sfx, case, text)
        rep.coverage = {"states": 1, "transitions": 1, "traces_validated_against_impl": 1,
                        "samples": [{"signature": obj["signature"], "real": res[0]}]}
        return rep.finish()

    # (B)+(S) plans from TxBalanceBatch / TxBalanceState; the harness runs in the background while TLC works on (M)
    st_cases, st_model = _txbal_state.plans(tier)
    log("TLC %s: %d plans in %.0fs" % (st_model["config"], len(st_cases), st_model["wall_s"]))
    st_handle = _txbal_state.start(st_cases, wd, {"batch": 2, "state": 4, "large": 2} if thorough else None)

    # (M) the rule set implies conservation on every enumerated body
    runs = [("mc/MC_TxBalance_thorough" if thorough else "mc/MC_TxBalance", "single")]
    if thorough:
        runs.append(("mc/MC_TxBalance_pairs", "pairs"))
    states = trans = 0
    model = {}
    dev_skip = os.environ.get("TXBAL_DEV_SKIP_TLC") == "1"   # development aid for mutant runs: direction A only
    for cfg, name in ([] if dev_skip else runs):
        r = vlib.tlc("mc/MC_TxBalance", cfg, workers=4, coverage=False, timeout=2400)
        if r.invariant_violated:
            # which clause: rerun the named invariants on the small config for the log; never a verdict on grin
            print(r.out[-3000:])
            raise ToolError("TxBalance.tla: %s violated inside the model (%s)" % (r.invariant_violated, cfg))
        vlib.tlc_ok(r, cfg)
        states += r.distinct
        trans += r.generated
        model[name] = {"config": cfg, "states": r.distinct, "wall_s": round(r.wall, 1)}
        log("TLC %s: %d states in %.0fs" % (cfg, r.distinct, r.wall))
    # named clauses + per-action coverage on the small config (anti-vacuity of the model run itself)
    rn = vlib.tlc("mc/MC_TxBalance", "mc/MC_TxBalance_named", workers=4, coverage=not dev_skip, timeout=2400)
    if rn.invariant_violated:
        print(rn.out[-3000:])
        raise ToolError("TxBalance.tla: %s violated inside the model" % rn.invariant_violated)
    vlib.tlc_ok(rn, "MC_TxBalance_named")
    acts = rn.action_counts()
    for a in ("ChooseGroup", "ChooseValues", "ChooseBase", "Corrupt"):
        if not dev_skip and acts.get(a, (0, 0))[0] == 0:
            raise ToolError("TxBalance action %s never taken" % a)
    states += rn.distinct
    trans += rn.generated
    model["named"] = {"config": "mc/MC_TxBalance_named", "states": rn.distinct, "wall_s": round(rn.wall, 1),
                      "actions": {k: v[0] for k, v in acts.items()}}

    # the fee-magnitude cases are sensitive: a verify_coinbase that reads the total fee through FeeFields
    # (refused above the single-kernel limit, taken as 0) must be told from the rule set by the model itself
    if not dev_skip:
        rp = vlib.tlc("mc/MC_TxBalance", "mc/MC_TxBalance_feeprobe", workers=2, coverage=False, timeout=900)
        if "AllChecks" not in rp.invariant_violated:
            print(rp.out[-3000:])
            raise ToolError("MC_TxBalance_feeprobe: the careless total-fee reading was not told from the rules")
        model["feeprobe"] = {"config": "mc/MC_TxBalance_feeprobe", "violated_as_required": True, "wall_s": round(rp.wall, 1)}

    # (A) spec-generated bodies against the real validate
    cases = emit_cases(10 if thorough else 2, 3 if thorough else 1)
    if len(cases) < 500:
        raise ToolError("too few TxBalance cases emitted (%d)" % len(cases))
    res, infos = _txbal.run_sharded("validate", [to_harness_case(c) for c in cases], wd, "cases", shards=4)
    counts = collections.Counter()
    by_class = collections.Counter()
    by_rule = collections.Counter()
    groups = set()
    converse = []
    sig_seen = collections.Counter()
    for c in cases:
        r = res[c["id"]]
        exp = c["expect"]
        verdict, text, sfx, rule = judge(c, r)
        for run, rr in run_results(c, r):
            counts["runs"] += 1
            counts["runs:inputs=%s:weighting=%s" % (run["iv"], run["w"])] += 1
            if run["valid"] and rr["res"] == "ok":
                counts["runs_accepted:inputs=%s:weighting=%s" % (run["iv"], run["w"])] += 1
            if run["w"] == "limited" and run["rule"] == "weight":
                counts["runs_limited_weight_rule_binding"] += 1
                if exp.get("rest_valid") and rr["res"] != "ok":
                    counts["runs_limited_refused_for_weight_alone"] += 1
            if run["w"] == "limited" and run["valid"] and c["grp"]["ni"] + 21 * c["grp"]["no"] + 3 * c["grp"]["nk"] == LIMITED_MAX - 24 \
                    and not c["applied"] and rr["res"] == "ok":
                counts["runs_limited_accepted_at_the_bound"] += 1
            if run["w"] == "nolimit" and not run["valid"] and rr["res"] != "ok":
                counts["runs_nolimit_refused:rule=" + run["rule"]] += 1
            if run["iv"] == "fc" and any("f" in i for i in c["body"]["ins"]):
                counts["runs_fc_with_claimed_coinbase_input"] += 1
        cls = "+".join(c["applied"]) if c["applied"] else "base"
        for a in (c["applied"] or ["base"]):
            by_class[a] += 1
        by_rule[exp["rule"]] += 1
        groups.add(json.dumps(c["grp"], sort_keys=True))
        counts["real_" + r["res"]] += 1
        if r["res"] == "panic":
            counts["panics"] += 1
        if exp["valid"] and not exp["degenerate"]:
            counts["spec_valid_nondegenerate"] += 1
            if r["res"] == "ok":
                counts["spec_valid_real_ok"] += 1
        if exp["valid"] and exp["degenerate"]:
            counts["spec_valid_degenerate"] += 1
        if not exp["valid"]:
            counts["spec_invalid"] += 1
            if r["res"] != "ok":
                counts["spec_invalid_real_refused"] += 1
        if len(c["applied"]) == 2 and exp["valid"]:
            counts["compensating_pairs_valid"] += 1
        if c["grp"].get("big"):
            counts["fee_magnitude_cases"] += 1
            nmax = sum(1 for k in c["body"]["kerns"] if k["fee"] == MAX_FEE)
            if total_fee(c) > FEE_MASK:
                key = "%s_total_fee_over_single_kernel_limit" % c["ctx"]["as"]
                counts[key] += 1
                if not c["applied"] and r["res"] == "ok":
                    counts[key + "_honest_accepted:kernels_at_max=%d" % nmax] += 1
                if c["applied"] == ["fees_paid_to_plain_output"] and r["res"] != "ok":
                    counts["block_fees_to_plain_output_refused:kernels_at_max=%d" % nmax] += 1
        if verdict == "violation":
            sig = signature(c, rule) + sfx
            sig_seen[sig] += 1
            if sig_seen[sig] <= 3:        # a few replays per signature are enough
                rep.violation(sig, c, text)
        elif verdict == "converse":
            converse.append((c, r, text))

    # (B)+(S) verdicts
    st_res, st_infos = _txbal_state.collect(st_handle)
    st_tool, st_converse = [], []
    st_fam = collections.Counter()
    # smallest counterexamples first
    for c in sorted(st_cases, key=lambda x: ({"state": 0, "batch": 1, "large": 2}[x["sect"]], x["n"], x["id"])):
        for verdict, sig, text in _txbal_state.judge(c, st_res[c["id"]]):
            if verdict == "violation":
                fam = sig.split(":n=")[0].split(":outputs=")[0]
                st_fam[fam] += 1
                if st_fam[fam] <= 4:          # a handful of replays per family; the count goes to the log
                    rep.violation(sig, c, text)
            elif verdict == "converse":
                st_converse.append(text)
            else:
                st_tool.append(text)
    for fam, k in sorted(st_fam.items()):
        log("%s: %d plans accepted by the real code against the spec" % (fam, k))
    if st_tool:
        raise ToolError("batch / full-state section: %d plans not realised as planned (first: %s)" % (len(st_tool), st_tool[0]))
    # the binding is real: flipped expectations must be flagged by the same oracle
    for sect, key in (("batch", "ok"), ("state", "full"), ("large", "full")):
        pr = next((c for c in st_cases if c["sect"] == sect and c["expect"][key]
                   and st_res[c["id"]].get("res" if sect == "batch" else "full") == "ok"), None)
        if pr is None:
            if not rep.violations and not st_converse:
                raise ToolError("no honest %s plan was accepted by the real code: binding is vacuous" % sect)
            continue
        fl = json.loads(json.dumps(pr))
        fl["expect"][key] = False
        if not any(v == "violation" for v, _, _ in _txbal_state.judge(fl, st_res[pr["id"]])):
            raise ToolError("selftest: flipped %s expectation not flagged" % sect)
    for info in st_infos:
        ps = info.get("pool_sanity")
        if ps is not None and not all(ps.values()):
            raise ToolError("batch section: pool items are not what the plans say: %s" % ps)
    st_cov = None
    if not rep.violations and not st_converse:
        st_cov = _txbal_state.coverage(st_cases, st_res, tier)

    # the binding is real: a flipped expectation must be flagged by the same oracle
    probe = next((c for c in cases if c["expect"]["valid"] and not c["expect"]["degenerate"] and res[c["id"]]["res"] == "ok"), None)
    if probe is None and not rep.violations:
        raise ToolError("no spec-valid body was accepted by the real code: binding is vacuous")
    if probe is not None:
        flipped = json.loads(json.dumps(probe))
        flipped["expect"]["valid"] = False
        flipped["expect"]["rule"] = "selftest"
        for run in flipped.get("runs", []):
            run["valid"] = False
        flipped["expect"]["rest_valid"] = False
        if judge(flipped, res[probe["id"]])[0] != "violation":
            raise ToolError("selftest: flipped expectation not flagged")
        # ... and so must a flipped expectation of a realisation other than the base run
        pr2 = next((c for c in cases if c["expect"]["valid"] and not c["expect"]["degenerate"] and len(c.get("run_ix") or []) > 1
                    and all(rr["res"] == "ok" for rr in res[c["id"]]["runs"])), None)
        if pr2 is None:
            raise ToolError("no spec-valid body was accepted under a second realisation: binding is vacuous")
        fl2 = json.loads(json.dumps(pr2))
        fl2["runs"][fl2["run_ix"][-1]]["valid"] = False
        fl2["expect"]["rest_valid"] = False
        v2 = judge(fl2, res[pr2["id"]])
        if v2[0] != "violation" or not v2[2]:
            raise ToolError("selftest: flipped expectation of a non-base realisation not flagged: %s" % (v2,))
    # every realisation dimension was exercised, the weight rule was binding under AsLimitedTransaction (refusal for weight
    # alone, acceptance exactly at the bound), NoLimit refused bodies for every other rule, claimed coinbase inputs ran as FeaturesAndCommit
    if not rep.violations and not converse:
        need = ["runs:inputs=%s:weighting=%s" % (iv, w) for iv in ("co", "fc") for w in ("tx", "limited", "nolimit", "block")]
        need += ["runs_accepted:inputs=fc:weighting=nolimit", "runs_accepted:inputs=fc:weighting=block", "runs_accepted:inputs=co:weighting=limited",
                 "runs_limited_refused_for_weight_alone", "runs_limited_accepted_at_the_bound", "runs_fc_with_claimed_coinbase_input"]
        need += ["runs_nolimit_refused:rule=" + r for r in ("kernel_sums", "range_proofs", "signatures", "cut_through", "sorted_unique",
                                                           "features_outputs", "features_kernels")]
        for key in need:
            if counts[key] == 0:
                raise ToolError("realisation dimension vacuous: %s = 0" % key)
    # the fee-magnitude dimension was exercised where it matters: totals above the single-kernel limit
    if not rep.violations and not converse:
        for key in ("block_total_fee_over_single_kernel_limit_honest_accepted:kernels_at_max=2",
                    "block_total_fee_over_single_kernel_limit_honest_accepted:kernels_at_max=3",
                    "tx_total_fee_over_single_kernel_limit_honest_accepted:kernels_at_max=2",
                    "tx_total_fee_over_single_kernel_limit_honest_accepted:kernels_at_max=3",
                    "block_fees_to_plain_output_refused:kernels_at_max=2",
                    "block_fees_to_plain_output_refused:kernels_at_max=3"):
            if counts[key] == 0:
                raise ToolError("fee-magnitude section vacuous: %s = 0" % key)
    # every corruption class and every rule of the transcription was exercised
    import re
    spec = open(os.path.join(vlib.SPEC, "TxBalance.tla")).read()
    classes = set(re.findall(r'C\("([a-z_]+)"', spec))
    missing = sorted(k for k in classes if by_class[k] == 0)
    if missing:
        raise ToolError("corruption classes never generated: %s" % missing)
    for rule in ("kernel_sums", "verify_coinbase", "range_proofs", "signatures", "cut_through", "sorted_unique",
                 "features_outputs", "features_kernels", "lock_heights", "nrd_version", "none"):
        if by_rule[rule] == 0:
            raise ToolError("rule %s never the first failing rule in any generated case" % rule)

    states += st_model["states"]
    trans += st_model["transitions"]
    model["state_and_batch"] = st_model
    st_samples = [{"plan": {k: c[k] for k in c if k != "blocks"}, "real": st_res[c["id"]]}
                  for c in (next(x for x in st_cases if x["sect"] == "batch" and x["forged"]),
                            next(x for x in st_cases if x["sect"] == "state" and x["cls"] == "kernel_minting"),
                            next(x for x in st_cases if x["sect"] == "large"))]
    rep.coverage = {
        "states": states, "transitions": trans,
        "traces_validated_against_impl": len(cases) + len(st_cases),
        "batch_and_state": {"plans": len(st_cases), "coverage": st_cov, "harness": st_infos, "samples": st_samples},
        "samples": [{"case": {k: cases[i][k] for k in ("grp", "body", "ctx", "applied", "expect")}, "real": res[cases[i]["id"]]}
                    for i in (0, len(cases) // 2, len(cases) - 1)],
        "exhaustive_within_bounds": True,
        "model": model,
        "shape_groups": len(groups),
        "cases_by_corruption_class": dict(by_class),
        "cases_by_first_failing_rule": dict(by_rule),
        "counts": dict(counts),
        "harness": infos,
        "distinct_rule": "one case = one (shape group, value choice, base, corruption sequence) visited by TLC; "
                         "distinct non-trivial = cases with at least one corruption: %d" % sum(1 for c in cases if c["applied"]),
        "checker_cmd": "tlc mc/MC_TxBalance (+_thorough,_pairs,_named); tlc mc/MC_TxBalance_emit; h_txbal validate; "
                       "tlc mc/MC_TxBalanceState (+_thorough); h_txbal batch; h_txbal state",
    }
    rep.assumptions = [
        "secp256k1-zkp primitives (Pedersen commitments, bulletproofs, aggsig) are used as primitives: H and G independent, "
        "a proof/signature made for another commitment/message never verifies",
        "model scalars are small integers; amounts are written in three digits a + 1000*b + 1000000*c standing for "
        "a*15 grin + b*(2^40-1) nanogrin + c nanogrin (digits <= 99, so sums are digit-wise); fees per kernel from "
        "{1 nanogrin, 15 grin, 2^40-1 nanogrin}; u64 overflow of a fee total is out of reach (a block holds at most "
        "40000/3 kernels of at most 2^40-1 nanogrin: < 2^54)",
        "blinding factors of generated bases follow cyclic patterns (stratified sample of r in 1..3); values, fees, offsets, "
        "kernel kinds and corruption positions are exhaustive within the stated bounds",
        "weight rule: never binding under AsTransaction / AsBlock within the bounds (<= 96 weight units); binding under "
        "AsLimitedTransaction(70) (bound 46); a body refused by the weight rule alone and accepted by the code is a tool error, "
        "not a C01 verdict",
        "every case runs as (CommitOnly, AsTransaction|AsBlock), under every realisation the specification marks `must` (claimed "
        "coinbase features need FeaturesAndCommit) and every second transaction case / every fourth block case under ONE of the remaining "
        "(inputs representation x weighting) pairs, rotating with the case number and VERIF_SEED; fee_shift values 1 and 15 only",
        "history clause of C01 (stored block sums after reorgs) is decided by the Chain engine, not here",
        "batch plans: items are taken cyclically from a pool of 16 valid kernels / 6 valid outputs; a forged item is a valid "
        "one carrying its neighbour's signature / proof; Output::batch_verify_proofs is never called with an empty batch "
        "(all callers in grin guard it; the empty call crashes inside libsecp)",
        "full-state plans: the validator is reached through Chain::validate (the same Extension::validate that txhashset_write "
        "and the PIBD desegmenter call); MMR hashes, roots and sizes are consistent with the head header by construction; "
        "large states are assembled from over-weight filler blocks written directly into the txhashset (the validator sees "
        "MMRs and the head header only); genesis carries no reward",
    ]
    rc = rep.finish()
    if rc == 0 and st_converse:
        raise ToolError("%d honest batch / state plans were refused by the real code (first: %s)" % (len(st_converse), st_converse[0]))
    if rc == 0 and converse:
        c, r, text = converse[0]
        print(json.dumps({"case": c, "real": r})[:3000])
        raise ToolError("%d spec-valid non-degenerate bodies were refused by the real code (model/implementation "
                        "disagree outside the property's direction; first: %s)" % (len(converse), text))
    return rc
