"""C16 — state segments are sound and state sync (PIBD segments / txhashset archive) reproduces the validated
state (spec/Segment.tla, spec/Desegmenter.tla, spec/trace/DesegmenterTrace.tla; harness crate h_segment)."""
import json, os, random, shutil, subprocess, time
import vlib
from vlib import Report, ToolError, log

PID = "C16"
ENGINES = ["segment"]
TREES = ["bitmap", "output", "rangeproof", "kernel"]
WRONG_FROM = {"output": "kernel", "rangeproof": "output", "kernel": "rangeproof", "bitmap": "kernel"}
KNOWN_PANIC_SIG = "segment:validate:panic:identifier_out_of_range"
SHAPES = {}


# ------------------------------------------------------------------------------------------------
# helpers shared with the specification's Cfg record

def popcount(n):
    return bin(n).count("1")


def i2p(n):
    return 2 * n - popcount(n)


def nleaves(size):
    n = 0
    while i2p(n) < size:
        n += 1
    return n


def deseg_cfg(ainfo):
    c = {k: {} for k in ["nseg", "last", "size_after", "leaves_after", "cap", "complete", "cover"]}
    for t in TREES:
        a = ainfo[t]
        cap = 1 << a["height"]
        n = a["nseg"]
        g = 0 if t == "bitmap" else 1
        c["nseg"][t] = n
        c["last"][t] = a["last"]
        c["cap"][t] = cap
        c["complete"][t] = a["complete"]
        # segments covered once segment i is applied: a fully pruned segment is applied as the pruned subtree root
        # above it, which stands for every segment below that root
        tops = a.get("top", a["last"])
        c["cover"][t] = [max(i + 1, sum(1 for l in a["last"] if l <= tops[i])) for i in range(n)]
        c["size_after"][t] = [g] + [i2p(k * cap) for k in range(1, n)] + [a["size"]]
        c["leaves_after"][t] = [g] + [k * cap for k in range(1, n)] + [nleaves(a["size"])]
    return c


def synthetic_cfg(nl, h):
    """All four trees with nl leaves, segment height h (the output trees start from the genesis leaf)."""
    info = {}
    for t in TREES:
        cap = 1 << h
        n = (nl + cap - 1) // cap
        size = i2p(nl)
        last = []
        for idx in range(n):
            full = min(cap, nl - idx * cap) == cap
            last.append(i2p(idx * cap + cap - 1) + h if full else size - 1)
        comp = [True] * n
        if t in ("output", "rangeproof") and n > 1:
            comp[1] = False
        info[t] = {"height": h, "nseg": n, "last": last, "size": size, "complete": comp}
        if t in ("output", "rangeproof") and n >= 3 and h >= 1:
            # the first two segments are fully pruned below one pruned root: applying either yields both
            top = i2p(2 * cap - 1) + h + 1
            info[t]["top"] = [top, top] + last[2:]
            info[t]["complete"] = [False, False] + [True] * (n - 2)
    return deseg_cfg(info)


# ------------------------------------------------------------------------------------------------
# component level

def gen_source_states(rng, count, max_leaves):
    """Seeded source states [nl, rm, comp, late] for MMRs above the exhaustive bound: spent leaves at several
    densities, compaction of aligned subtrees (what produces pruned roots) plus scattered leaves, late spends."""
    res = []
    # odd leaf counts whose single-leaf last peak is spent (at / after the archive header) or compacted away with
    # nothing else: every segment but the last then has that leaf as (part of) the bagged right-hand side
    for nl in (5, 7, 9, 13, 21, 33):
        how = rng.choice(["rm", "late", "comp"])
        rm = set(l for l in range(nl - 1) if rng.random() < 0.3)
        late = set()
        if how == "late":
            late.add(nl - 1)
        else:
            rm.add(nl - 1)
        comp = set(l for l in rm if l != nl - 1 and rng.random() < 0.4)
        if how == "comp":
            comp.add(nl - 1)
        res.append({"nl": nl, "rm": sorted(rm), "comp": sorted(comp), "late": sorted(late)})
    sizes = [5, 6, 7, 8, 9, 11, 12, 13, 15, 16, 17, 19, 21, 23, 24, 25, 27, 29, 31, 32, 33, 35, 37, 39, 40]
    sizes = [s for s in sizes if s <= max_leaves]
    for i in range(max(0, count - len(res))):
        nl = sizes[i % len(sizes)] if i < len(sizes) else rng.choice(sizes)
        dens = rng.choice([0.15, 0.4, 0.7, 0.9, 1.0])
        rm = set(l for l in range(nl) if rng.random() < dens)
        # aligned fully spent blocks
        for _ in range(rng.randint(0, 3)):
            w = rng.choice([2, 4, 8])
            if nl >= w:
                b = rng.randrange(0, nl // w) * w
                rm.update(range(b, b + w))
        comp = set()
        for w in (8, 4, 2):
            for b in range(0, nl - w + 1, w):
                if all(x in rm for x in range(b, b + w)) and rng.random() < 0.6:
                    comp.update(range(b, b + w))
        comp.update(l for l in rm if rng.random() < 0.3)
        rest = [l for l in range(nl) if l not in rm]
        late = set(l for l in rest if rng.random() < 0.2)
        res.append({"nl": nl, "rm": sorted(rm), "comp": sorted(comp), "late": sorted(late)})
    return res


def op_signature(mm):
    what = mm.get("what", "?")
    if what == "op":
        kind = mm["op"]["kind"]
        if mm["real"] == "Panic":
            if kind in ("id_idx", "id_h"):
                return KNOWN_PANIC_SIG
            return "segment:validate:panic:%s" % kind
        return "segment:validate:%s:spec=%s:real=%s" % (kind, mm["spec"], mm["real"])
    if what == "honest":
        if mm["spec"] == "Accept":
            return "segment:honest:refused:%s" % (mm.get("err") or mm["real"])
        return "segment:honest:spec=%s:real=%s" % (mm["spec"], mm["real"])
    if what == "store":
        return "segment:store:%s" % mm.get("step", "?")
    if what == "case_panic":
        return "segment:component:panic"
    if what in ("from_pmmr_class", "from_pmmr_err", "from_pmmr_panic"):
        return "segment:from_pmmr:error:spec=%s:real=%s" % (mm["spec"], mm["real"])
    if what.startswith("with_"):
        return "segment:validate_with:%s:real=%s" % (what, mm["real"])
    return "segment:from_pmmr:%s" % what


def run_component(rep, wd, cases, tag):
    cp = os.path.join(wd, "segcases_%s.ndjson" % tag)
    vlib.write_ndjson(cp, cases)
    outp = os.path.join(wd, "segout_%s.ndjson" % tag)
    vlib.harness(["segment", "component", "--cases", cp, "--out", outp, "--dir", os.path.join(wd, "stores_" + tag),
                  "--seed", vlib.seed()], timeout=1800)
    res = vlib.read_ndjson(outp)
    if len(res) != len(cases):
        raise ToolError("component replay returned %d results for %d cases" % (len(res), len(cases)))
    checks = 0
    ops = {}
    per_sig = {}
    for c, r in zip(cases, res):
        checks += r["checks"]
        for mm in r["mismatches"][:3]:
            # at most two replay files per signature: leave room for the end-to-end findings
            per_sig[op_signature(mm)] = per_sig.get(op_signature(mm), 0) + 1
            if per_sig[op_signature(mm)] > 2:
                continue
            small = {"nl": c["nl"], "rm": c["rm"], "comp": c["comp"], "late": c["late"], "size": c["size"],
                     "segs": [s for s in c["segs"] if s["h"] == mm["seg"]["h"] and s["idx"] == mm["seg"]["idx"]
                              and s["prunable"] == mm["seg"]["prunable"]]}
            rep.violation(op_signature(mm), {"kind": "component", "case": small, "mismatch": mm, "plan": r.get("plan")},
                          json.dumps(mm)[:600])
        for s in c["segs"]:
            for o in s.get("ops", []):
                k = (o["kind"], o["dep"], o["v"])
                ops[k] = ops.get(k, 0) + 1
    return checks, ops, res


def segment_model(rep, wd, thorough, rng):
    """(M) Segment.tla on every small source state + seeded larger ones; (A) every emitted case on real MMRs."""
    n_file = 150 if thorough else 30
    states = gen_source_states(rng, n_file, 40)
    sp = os.path.join(wd, "source_states.ndjson")
    vlib.write_ndjson(sp, states)
    cfg = "mc/MC_Segment_thorough" if thorough else "mc/MC_Segment"
    r = vlib.tlc("mc/MC_Segment", cfg, workers=4, coverage=False, timeout=2400, env={"CASES": sp}, xss="64m")
    if r.invariant_violated:
        # the specification says an honest segment is refused or a corruption accepted: replay the state on the
        # real code before calling it anything
        out = "\n".join(l for l in r.out.splitlines() if not l.startswith('<<"SEGCASE"'))
        print(out[-3000:])
        raise ToolError("Segment.tla invariant %s violated inside the model (see state above)" % r.invariant_violated)
    if not r.finished:
        out = "\n".join(l for l in r.out.splitlines() if not l.startswith('<<"SEGCASE"'))
        print(out[-3000:])
        raise ToolError("MC_Segment did not complete")
    cases = [json.loads(x) for x in r.printed("SEGCASE")]
    if len(cases) != r.distinct - 1:
        raise ToolError("MC_Segment emitted %d cases for %d states" % (len(cases), r.distinct - 1))
    shape = 0
    for c in cases:
        last = c["nl"] - 1
        if c["nl"] % 2 == 1 and c["nl"] > 1 and (last in c["rm"] or last in c["late"]):
            shape += sum(1 for sg in c["segs"] if sg["prunable"] and sg["ok"] and sg["h"] >= 1 and any(p[0] == "B" for p in sg["proof_ref"]))
    if shape < 10:
        raise ToolError("too few segments with a spent single-leaf last peak in their bagged right-hand side (%d)" % shape)
    checks, ops, res = run_component(rep, wd, cases, "a")
    SHAPES["spent_last_peak_in_rhs"] = shape
    return r, cases, checks, ops, res


# ------------------------------------------------------------------------------------------------
# end to end

class Source:
    def __init__(self, name, wd, blocks, compact_at, stale_at, seed, heights=None):
        self.name = name
        self.dir = os.path.join(wd, "src_" + name)
        self.args = ["e2e", "build", "--dir", self.dir, "--blocks", blocks, "--compact-at", compact_at,
                     "--stale-at", stale_at, "--seed", seed]
        if heights:
            self.args += ["--heights", heights]
        self.params = {"name": name, "blocks": blocks, "compact_at": compact_at, "stale_at": stale_at, "seed": seed,
                       "heights": heights}
        self.proc = None
        self.t0 = time.time()

    def start(self):
        exe = os.path.join(vlib.HARNESS_BINDIR, "h_segment")
        self.proc = subprocess.Popen([exe] + [str(a) for a in self.args], stdout=subprocess.PIPE, stderr=subprocess.PIPE, text=True)
        return self

    def wait(self):
        try:
            out, err = self.proc.communicate(timeout=1500)
        except subprocess.TimeoutExpired:
            self.proc.kill()
            raise ToolError("e2e build timeout (%s)" % self.name)
        if self.proc.returncode != 0:
            print(out[-2000:], err[-3000:])
            raise ToolError("e2e build failed (%s)" % self.name)
        self.wall = time.time() - self.t0
        self.info = json.load(open(os.path.join(self.dir, "info.json")))
        self.cfg = deseg_cfg(self.info["archive"])
        return self


def tidy_order(order, cfg):
    """A TLC-generated arrival order -> harness steps: drop the model's Finalize, keep at most two of a run of
    Apply, add `from` for wrong-tree deliveries, then make sure every honest segment is delivered at least once
    more in protocol order (bitmap first), so that every scenario can complete."""
    steps = []
    run = 0
    for e in order:
        if e["k"] == "Finalize":
            continue
        if e["k"] == "Apply":
            run += 1
            if run > 2:
                continue
        else:
            run = 0
        e = dict(e)
        if e.get("kind") == "wrong_tree":
            e["from"] = WRONG_FROM[e["tree"]]
        steps.append(e)
    for i in range(cfg["nseg"]["bitmap"]):
        steps.append({"k": "Add", "tree": "bitmap", "idx": i, "kind": "honest"})
    steps += [{"k": "Apply"}] * (cfg["nseg"]["bitmap"] + 1)
    for t in ("output", "rangeproof", "kernel"):
        for i in range(cfg["nseg"][t]):
            steps.append({"k": "Add", "tree": t, "idx": i, "kind": "honest"})
    return steps


def fixed_scenarios(cfg, split=None):
    sc = []
    canon = []
    for t in TREES:
        for i in range(cfg["nseg"][t]):
            canon.append({"k": "Add", "tree": t, "idx": i, "kind": "honest"})
        if t == "bitmap":
            canon += [{"k": "Apply"}] * (cfg["nseg"][t] + 1)
    sc.append({"name": "canonical", "kind": "pibd", "steps": canon})
    rev = []
    for t in reversed(TREES):
        for i in reversed(range(cfg["nseg"][t])):
            rev.append({"k": "Add", "tree": t, "idx": i, "kind": "honest"})
            rev.append({"k": "Add", "tree": t, "idx": i, "kind": "alt_leaf"})
    sc.append({"name": "reverse", "kind": "pibd", "steps": tidy_order(rev, cfg)})
    bad = []
    for t in TREES:
        for kind in ("alt_leaf", "omit_leaf", "wrong_id", "wrong_tree", "stale"):
            bad.append({"k": "Add", "tree": t, "idx": 0, "kind": kind})
        last = cfg["nseg"][t] - 1
        if last > 0:
            for kind in ("drop_proof", "alt_proof"):
                bad.append({"k": "Add", "tree": t, "idx": 0, "kind": kind})
            bad.append({"k": "Add", "tree": t, "idx": last, "kind": "omit_leaf"})
        bad.append({"k": "Apply"})
    sc.append({"name": "every_corruption_first", "kind": "pibd", "steps": tidy_order(bad, cfg)})
    # a first attempt that finalises the bitmap and is then fed output segments with altered data of a spent leaf
    # (unverifiable: the segment validates) -> the final check refuses -> the restart sequence of state_sync.rs ->
    # an honest retry, which must end in the same state as the twin
    first = []
    for i in range(cfg["nseg"]["bitmap"]):
        first.append({"k": "Add", "tree": "bitmap", "idx": i, "kind": "honest"})
    first += [{"k": "Apply"}] * (cfg["nseg"]["bitmap"] + 1)
    for t in ("output", "rangeproof", "kernel"):
        for i in range(cfg["nseg"][t]):
            if t == "output":
                first.append({"k": "Add", "tree": t, "idx": i, "kind": "poison_spent"})
            first.append({"k": "Add", "tree": t, "idx": i, "kind": "honest"})
    sc.append({"name": "poisoned_then_retry", "kind": "pibd", "steps": first + [{"k": "Finalize"}, {"k": "Restart"}] + canon})
    # a segment that validates but carries the two children of a pruned subtree root next to the root: its batch
    # cannot be applied -> apply_next_segments fails -> the restart sequence -> an honest retry, which must end in
    # the same state as the twin
    for t in ("output", "rangeproof"):
        have = [x["idx"] for x in (split or {}).get(t, [])]
        if not have:
            continue
        target = have[-1]
        st = []
        for i in range(cfg["nseg"]["bitmap"]):
            st.append({"k": "Add", "tree": "bitmap", "idx": i, "kind": "honest"})
        st += [{"k": "Apply"}] * (cfg["nseg"]["bitmap"] + 1)
        for t2 in ("output", "rangeproof", "kernel"):
            for i in range(cfg["nseg"][t2]):
                if t2 == t and i == target:
                    st.append({"k": "Add", "tree": t2, "idx": i, "kind": "split_root"})
                st.append({"k": "Add", "tree": t2, "idx": i, "kind": "honest"})
        # enough rounds for the batch with the target to come up, then the restart
        sc.append({"name": "split_root_%s_then_retry" % t, "kind": "pibd",
                   "steps": st + [{"k": "ApplyUntilErr", "max": cfg["nseg"][t] + 2}, {"k": "Restart"}] + canon})
    sc.append({"name": "archive", "kind": "archive"})
    return sc


ARCHIVE_GOOD = ("honest", "extra_file")


def archive_variants(wd, src, vseed):
    """Altered state archives built from the honest zip of an UNCOMPACTED source (record offsets are then leaf
    index * record size): one byte flipped in the data of an output unspent at the archive header (commitment,
    features byte, range proof), in a kernel, in a leaf hash of each hash file; a missing file; a truncated kernel
    data file; an unexpected extra member (harmless: only the expected files are unpacked)."""
    import zipfile
    rng = random.Random(vseed)
    zp = os.path.join(src.dir, "archive.zip")
    z = zipfile.ZipFile(zp)
    order = [i.filename for i in z.infolist()]
    data = {n: z.read(n) for n in order}
    need = ["output/pmmr_data.bin", "output/pmmr_hash.bin", "rangeproof/pmmr_data.bin", "kernel/pmmr_data.bin", "kernel/pmmr_hash.bin"]
    if any(n not in data for n in need):
        raise ToolError("archive.zip of %s lacks an expected member: %s" % (src.name, order))
    total = src.info["outputs_total"]
    if len(data["output/pmmr_data.bin"]) != 34 * total or len(data["rangeproof/pmmr_data.bin"]) != 683 * total:
        raise ToolError("archive data files of %s are not one record per output (compacted?)" % src.name)
    plain = sorted((v["pos"], k) for k, v in src.info["twin"]["unspent"].items() if v and v.get("f") == "Plain")
    if not plain:
        raise ToolError("no unspent plain output at the archive header of %s" % src.name)
    pos, name = plain[rng.randrange(len(plain))]
    leaf = nleaves(pos) - 1

    def flip(member, off):
        d = dict(data)
        b = bytearray(d[member])
        b[off] ^= 1
        d[member] = bytes(b)
        return d

    def write(kind, d, names=None):
        p = os.path.join(wd, "archive_%s_%s.zip" % (src.name, kind))
        with zipfile.ZipFile(p, "w", zipfile.ZIP_STORED) as o:
            for n in (names or order):
                o.writestr(n, d[n])
        return {"kind": kind, "zip": p, "output": name, "leaf": leaf}
    vs = [write("data_output", flip("output/pmmr_data.bin", leaf * 34 + 1 + rng.randrange(33))),
          write("data_rangeproof", flip("rangeproof/pmmr_data.bin", leaf * 683 + 8 + rng.randrange(600))),
          write("data_kernel", flip("kernel/pmmr_data.bin", 34 + rng.randrange(64))),
          write("hash_output", flip("output/pmmr_hash.bin", (pos - 1) * 32 + rng.randrange(32))),
          write("hash_kernel", flip("kernel/pmmr_hash.bin", 32 * 3 + rng.randrange(32))),
          write("missing_file", data, [n for n in order if n != "kernel/pmmr_hash.bin"])]
    d = dict(data)
    d["kernel/pmmr_data.bin"] = d["kernel/pmmr_data.bin"][:len(d["kernel/pmmr_data.bin"]) * 3 // 10]
    vs.append(write("truncated_kernel", d))
    feat = write("data_output_features", flip("output/pmmr_data.bin", leaf * 34))
    d = dict(data)
    d["output/evil.bin"] = b"x" * 100
    extra = write("extra_file", d, order + ["output/evil.bin"])
    return [{"name": "archive_altered", "kind": "archive", "variants": vs, "vseed": vseed},
            {"name": "archive_features", "kind": "archive", "variants": [feat], "vseed": vseed},
            {"name": "archive_extra_file", "kind": "archive", "variants": [extra], "vseed": vseed}]


def gen_orders(wd, src, n, seed):
    cp = os.path.join(wd, "deseg_%s.json" % src.name)
    json.dump(src.cfg, open(cp, "w"))
    r = vlib.tlc("mc/MC_Desegmenter", "mc/MC_Desegmenter_sim", workers=1, coverage=False, timeout=600,
                 env={"DESEG_CFG": cp}, simulate=n * 3, depth=60, seed_=seed)
    if r.invariant_violated or "Error:" in r.out:
        print(r.out[-3000:])
        raise ToolError("MC_Desegmenter simulation failed")
    seen, orders = set(), []
    for x in r.printed("ORDER"):
        if x not in seen and "ArchiveWrite" not in x:
            seen.add(x)
            orders.append(json.loads(x))
    if len(orders) < min(n, 3):
        print(r.out[-2000:])
        raise ToolError("too few arrival orders generated")
    return orders[:n], r


def run_scenarios(wd, src, scens, tag, parallel=2):
    """Run the scenarios on fresh receivers, `parallel` harness processes."""
    chunks = [scens[i::parallel] for i in range(parallel)]
    procs = []
    exe = os.path.join(vlib.HARNESS_BINDIR, "h_segment")
    for i, ch in enumerate(chunks):
        if not ch:
            continue
        sp = os.path.join(wd, "scen_%s_%s_%d.ndjson" % (src.name, tag, i))
        op = os.path.join(wd, "run_%s_%s_%d.ndjson" % (src.name, tag, i))
        vlib.write_ndjson(sp, ch)
        p = subprocess.Popen([exe, "e2e", "run", "--dir", src.dir, "--work", os.path.join(wd, "rx_%s_%s_%d" % (src.name, tag, i)),
                              "--scen", sp, "--out", op], stdout=subprocess.PIPE, stderr=subprocess.PIPE, text=True)
        procs.append((p, op, ch))
    res = []
    for p, op, ch in procs:
        try:
            out, err = p.communicate(timeout=1500)
        except subprocess.TimeoutExpired:
            p.kill()
            raise ToolError("e2e run timeout")
        if p.returncode != 0:
            print(out[-2000:], err[-3000:])
            raise ToolError("e2e run failed")
        rs = vlib.read_ndjson(op)
        if len(rs) != len(ch):
            raise ToolError("e2e run returned %d results for %d scenarios" % (len(rs), len(ch)))
        res += list(zip(ch, rs))
    return res


def trace_of(cfg, result, ah=None):
    """Recorded events of one scenario -> trace lines for DesegmenterTrace (None if not a PIBD run)."""
    lines = [{"k": "Reset", "cfg": cfg}]
    for e in result["events"]:
        if e["k"] == "ArchiveWrite":
            if e["res"] == "panic" or (e["res"] == "ok" and e["kind"] not in ARCHIVE_GOOD):
                return None      # reported with its own signature
            lines.append({"k": "ArchiveWrite", "kind": e["kind"], "res": e["res"], "at_archive": e["head_height"] == ah})
            continue
        if e["k"] == "Add":
            if e["verdict"] == "unavailable":
                continue
            if "proj" not in e:
                break
            lines.append({"k": "Add", "tree": e["tree"], "idx": e["idx"], "kind": e["kind"], "verdict": e["verdict"],
                          "proj": {"applied": e["proj"]["applied"], "desired": e["proj"]["desired"]}})
        elif e["k"] == "Apply":
            if "proj" not in e:
                break
            lines.append({"k": "Apply", "res": e["res"], "complete": e["complete"],
                          "proj": {"applied": e["proj"]["applied"], "desired": e["proj"]["desired"]}})
        elif e["k"] == "Finalize":
            lines.append({"k": "Finalize", "res": e["res"]})
        elif e["k"] == "Restart":
            if "proj" not in e:
                break
            lines.append({"k": "Restart", "res": e["res"], "proj": {"applied": e["proj"]["applied"], "desired": e["proj"]["desired"]}})
    return lines


def validate_traces(wd, lines, tag):
    tp = os.path.join(wd, "trace_%s.ndjson" % tag)
    vlib.write_ndjson(tp, lines)
    r = vlib.tlc("trace/DesegmenterTrace", workers=1, coverage=False, env={"TRACE": tp}, timeout=900, xss="64m")
    if r.finished:
        return True, None, r, tp
    if "TRACE-REJECTED" in r.out:
        import re
        m = re.search(r'TRACE-REJECTED at event",\s*(\d+)', r.out)
        at = int(m.group(1)) if m else None
        i = r.out.index("TRACE-REJECTED")
        line = " ".join(r.out[i:i + 1200].split())
        return False, (at, line), r, tp
    print(r.out[-4000:])
    if r.invariant_violated:
        raise ToolError("DesegmenterTrace: model invariant %s violated while validating" % r.invariant_violated)
    raise ToolError("DesegmenterTrace failed without a verdict")


def e2e_violations(rep, src, scen, result):
    """Final-state comparisons and verdicts that need no model."""
    case = {"kind": "e2e", "source": src.params, "scenario": scen}
    if result.get("tool_error"):
        raise ToolError("e2e scenario %s: %s" % (scen.get("name"), result["tool_error"]))
    accepted_bad = any(e["k"] == "ArchiveWrite" and e["res"] == "ok" and e["kind"] not in ARCHIVE_GOOD for e in result.get("events", []))
    for p in result.get("problems", []):
        if accepted_bad and p["sig"].startswith("sync:"):
            continue      # consequences of the accepted altered archive, reported below with its own signature
        rep.violation(p["sig"], dict(case, problem=p), json.dumps(p)[:800])
    breaking = False      # an accepted split_root segment is waiting in the cache: its batch must fail
    for e in result.get("events", []):
        if e["k"] == "Add" and e.get("kind") == "split_root" and e.get("verdict") == "accept":
            breaking = True
        if e["k"] == "Restart":
            breaking = False
        if e["k"] == "Add" and e.get("verdict") == "panic":
            rep.violation("pibd:add_%s_segment:panic:%s" % (e["tree"], e["kind"]), dict(case, event=e), json.dumps(e)[:300])
        if e["k"] == "Restart" and e.get("res") != "ok":
            rep.violation("pibd:restart:%s" % e.get("res"), dict(case, event=e), json.dumps(e)[:300])
        if e["k"] == "Add" and e.get("verdict") == "accept" and e["kind"] not in ("honest", "poison_spent", "split_root"):
            rep.violation("pibd:add_%s_segment:accepted:%s" % (e["tree"], e["kind"]), dict(case, event=e), json.dumps(e)[:300])
        if e["k"] == "Apply" and e.get("res") == "err" and breaking:
            continue      # which Apply fails, and what it leaves behind, is decided by DesegmenterTrace
        if e["k"] == "Apply" and e.get("res") != "ok":
            rep.violation("pibd:apply_next_segments:%s" % e.get("res"), dict(case, event=e), json.dumps(e)[:300])
        if e["k"] == "ArchiveWrite":
            ah = src.info["archive"]["height"]
            if e["res"] == "panic":
                rep.violation("archive:txhashset_write:panic:%s" % e["kind"], dict(case, event=e), json.dumps(e)[:300])
            elif e["res"] == "ok" and e["kind"] not in ARCHIVE_GOOD:
                accepted_bad = True
                rep.violation("archive:txhashset_write:accepted:%s" % e["kind"], dict(case, event=e),
                              "an altered state archive (%s) was accepted and finalised: %s" % (e["kind"], json.dumps(result.get("final"))[:300]))
            elif e["res"] != "ok" and e["kind"] in ARCHIVE_GOOD:
                rep.violation("archive:txhashset_write:refused:%s" % e["kind"], dict(case, event=e), json.dumps(e)[:300])
            elif e["res"] != "ok" and e["head_height"] != 0:
                rep.violation("archive:txhashset_write:refused_but_head_moved:%s" % e["kind"], dict(case, event=e), json.dumps(e)[:300])
            elif e["res"] == "ok" and e["head_height"] != ah:
                rep.violation("archive:txhashset_write:accepted_but_head_elsewhere:%s" % e["kind"], dict(case, event=e), json.dumps(e)[:300])
    fin = result.get("final") or {}
    # every scenario ends by delivering all honest segments: it must complete and finalise
    if scen["kind"] == "pibd" and not result.get("problems"):
        f = [e for e in result["events"] if e["k"] == "Finalize"]
        if f and f[-1]["res"] != "ok":
            rep.violation("pibd:final:%s" % f[-1]["res"], dict(case, final=f[-1], fin=fin), json.dumps(f[-1])[:300])
    return fin


def run_e2e(rep, wd, src, n_orders, seed, cov):
    orders, r = gen_orders(wd, src, n_orders, seed)
    scens = fixed_scenarios(src.cfg, src.info.get("split"))
    for i, o in enumerate(orders):
        scens.append({"name": "order_%d" % i, "kind": "pibd", "steps": tidy_order(o, src.cfg), "tlc_order": o})
    if src.name in ("plain", "plain2"):
        scens += archive_variants(wd, src, seed)
    if src.info["compacted"]:
        scens.append({"name": "restart_probe", "kind": "restart_probe"})
    for s in scens:
        s["drain"] = sum(src.cfg["nseg"].values()) + 4
    res = run_scenarios(wd, src, scens, "a")
    all_lines, per = [], []
    for scen, result in res:
        if scen["kind"] == "restart_probe":
            # outside C16's statement (no restart of the receiver in its quantifier): recorded, never a verdict
            cov["observations"]["restart_mid_sync:" + src.name] = result.get("probe")
            continue
        if scen["name"] == "poisoned_then_retry":
            fz = [e["res"] for e in result.get("events", []) if e["k"] == "Finalize"]
            if len(fz) == 2 and fz[0] == "err":
                cov["refused_attempt_then_retry"] += 1
        if scen["name"].startswith("split_root_"):
            ev = result.get("events", [])
            if any(e["k"] == "Apply" and e.get("res") == "err" for e in ev) and ev and ev[-1]["k"] == "Finalize" and ev[-1]["res"] == "ok":
                cov["split_root_batch_refused_then_retry"] += 1
        fin = e2e_violations(rep, src, scen, result)
        cov["scenarios"] += 1
        if fin.get("finalised"):
            cov["finalised"] += 1
        for e in result.get("events", []):
            if e["k"] == "Add":
                key = "%s:%s" % (e["kind"], e["verdict"])
                cov["deliveries"][key] = cov["deliveries"].get(key, 0) + 1
            if e["k"] == "ArchiveWrite":
                key = "%s:%s" % (e["kind"], e["res"])
                cov["archives"][key] = cov["archives"].get(key, 0) + 1
        lines = trace_of(src.cfg, result, src.info["archive"]["height"])
        if lines:
            per.append((scen, len(all_lines), lines))
            all_lines += lines
    ok, why, tr, tp = validate_traces(wd, all_lines, src.name)
    cov["trace_events"] += len(all_lines)
    if not ok:
        at, line = why
        scen_hit, ev = None, None
        for scen, off, lines in per:
            if at is not None and off < at <= off + len(lines):
                scen_hit, ev = scen, lines[at - off - 1]
        keep = os.path.join(vlib.OUT, "replays", "C16_trace_%s_%d.ndjson" % (src.name, vlib.seed()))
        os.makedirs(os.path.dirname(keep), exist_ok=True)
        shutil.copy(tp, keep)
        if ev and ev["k"] == "Add":
            sig = "pibd:trace:add_%s_segment:%s:%s" % (ev["tree"], ev["kind"], ev["verdict"])
        elif ev:
            sig = "pibd:trace:%s" % ev["k"].lower()
        else:
            sig = "pibd:trace:rejected"
        rep.violation(sig, {"kind": "trace", "trace": keep, "source": src.params, "scenario": scen_hit, "rejected": line}, line)
    return len(scens), all_lines, res


# ------------------------------------------------------------------------------------------------
# serving side (spec/SegmentServe.tla)

def plan_score(p):
    sc, comp, fors = 0, False, set()
    for e in p:
        if e["k"] == "Compact":
            comp = True
        if e["k"] == "Serve":
            fors.add((e["for"], e["body"], e["hdr"]))
            if e["ahead"]:
                sc += 4
            if comp:
                sc += 6
                comp = False
    return sc + len(fors)


def gen_serve_plans(src, n, seed):
    """Serving plans for a node fed from the source's blocks: TLC simulation of SegmentServe.tla; the plans in which
    the header chain runs more than an archive period ahead of the bodies at a Serve, and those that serve after a
    compaction, come first."""
    r = vlib.tlc("mc/MC_SegmentServe", "mc/MC_SegmentServe_sim", workers=1, coverage=False, timeout=600,
                 env={"SERVE_MAXH": src.info["blocks"]}, simulate=300, depth=12, seed_=seed)
    if r.invariant_violated or "Error:" in r.out:
        print(r.out[-3000:])
        raise ToolError("MC_SegmentServe simulation failed")
    plans = sorted(set(r.printed("SERVEPLAN")))
    random.Random(seed).shuffle(plans)
    plans = [json.loads(x) for x in plans]
    plans.sort(key=lambda p: -plan_score(p))

    def compact_then_serve(p):
        ks = [e["k"] for e in p]
        return "Compact" in ks and "Serve" in ks[ks.index("Compact"):]

    def ahead(p):
        return any(e["k"] == "Serve" and e["ahead"] for e in p)
    # one plan of each wanted shape first, then by score
    first = [next((p for p in plans if ahead(p)), None)]
    if src.info["compacted"]:
        first.append(next((p for p in plans if compact_then_serve(p)), None))
        if first[-1] is None:
            raise ToolError("no serving plan that compacts and then serves")
    first = [p for p in first if p is not None]
    plans = (first + [p for p in plans if p not in first])[:max(n, len(first))]
    if not plans or not any(e["k"] == "Serve" and e["ahead"] for p in plans for e in p):
        raise ToolError("no serving plan with the header chain an archive period ahead of the body chain")
    return [{"name": "serve_%d" % i, "steps": p} for i, p in enumerate(plans)]


def start_serve(wd, src, plans, tag="a"):
    pp = os.path.join(wd, "serve_plans_%s_%s.ndjson" % (src.name, tag))
    op = os.path.join(wd, "serve_out_%s_%s.ndjson" % (src.name, tag))
    vlib.write_ndjson(pp, plans)
    exe = os.path.join(vlib.HARNESS_BINDIR, "h_segment")
    p = subprocess.Popen([exe, "e2e", "serve", "--dir", src.dir, "--work", os.path.join(wd, "srv_%s_%s" % (src.name, tag)),
                          "--plans", pp, "--out", op], stdout=subprocess.PIPE, stderr=subprocess.PIPE, text=True)
    return p, op, plans


def finish_serve(rep, src, started, cov):
    """Compare every step of every plan with SegmentServe.tla's expectation: heads after the step; at a Serve the
    header the segmenter is labelled with is at or below the body head, on the node's chain, and every segment it
    hands out validates against that header's roots (refusing to serve is allowed)."""
    p, op, plans = started
    try:
        out, err = p.communicate(timeout=900)
    except subprocess.TimeoutExpired:
        p.kill()
        raise ToolError("e2e serve timeout")
    if p.returncode != 0:
        print(out[-2000:], err[-3000:])
        raise ToolError("e2e serve failed")
    res = vlib.read_ndjson(op)
    if len(res) != len(plans):
        raise ToolError("e2e serve returned %d results for %d plans" % (len(res), len(plans)))
    sc = cov["serve"]
    for plan, r in zip(plans, res):
        if r.get("tool_error"):
            raise ToolError("serve plan %s on %s: %s" % (plan["name"], src.name, r["tool_error"]))
        if len(r["events"]) != len(plan["steps"]):
            raise ToolError("serve plan %s: %d events for %d steps" % (plan["name"], len(r["events"]), len(plan["steps"])))
        sc["plans"] += 1
        for i, (st, ev) in enumerate(zip(plan["steps"], r["events"])):
            case = {"kind": "serve", "source": src.params, "plan": {"name": plan["name"], "steps": plan["steps"][:i + 1]}, "event": ev}
            if (ev["body"], ev["hdr"]) != (st["body"], st["hdr"]):
                raise ToolError("serve plan %s step %d: heads %s/%s, model %s/%s" % (plan["name"], i, ev["body"], ev["hdr"], st["body"], st["hdr"]))
            if st["k"] == "Compact":
                if ev["res"] != "ok":
                    raise ToolError("serve plan %s: Chain::compact %s" % (plan["name"], ev["res"]))
                sc["compactions"] += 1
                continue
            if st["k"] != "Serve":
                continue
            sc["serves"] += 1
            if st["ahead"]:
                sc["serves_header_chain_ahead"] += 1
            shape = "ahead" if st["ahead"] else "in_sync"
            if ev["res"] == "panic":
                rep.violation("pibd:serve:segmenter:panic:%s" % shape, case, json.dumps(ev)[:400])
                continue
            if ev["res"] == "refused":
                sc["refused"] += 1
                continue
            g = ev["seg"]
            sc["segments_validated"] += g["served"]
            bad = False
            if g["for"] > ev["body"]:
                bad = True
                rep.violation("pibd:serve:archive_header_above_body_head", case,
                              "segmenter labelled with header %d, body head %d, header head %d" % (g["for"], ev["body"], ev["hdr"]))
            if not g["on_chain"]:
                bad = True
                rep.violation("pibd:serve:archive_header_not_on_chain", case, json.dumps(g)[:400])
            if g["n_invalid"]:
                bad = True
                trees = sorted(set(x["tree"] for x in g["invalid"]))
                rep.violation("pibd:serve:%s_segment:invalid_for_own_header:%s" % (trees[0], shape), case,
                              "%d of %d served segments do not validate against the header (height %d) they are served for: %s"
                              % (g["n_invalid"], g["served"], g["for"], json.dumps(g["invalid"][:3])))
            if g["n_errors"] and st["valid"] and not bad:
                rep.violation("pibd:serve:%s_segment:error:%s" % (g["errors"][0]["tree"], shape), case, json.dumps(g["errors"][:3]))
                bad = True
            if not bad:
                if g["served"] == 0:
                    raise ToolError("serve plan %s: no segment served" % plan["name"])
                if g["for"] == st["for"]:
                    sc["serves_equal_model"] += 1
                else:
                    # a held state other than the model's: not what C16 constrains
                    sc["archive_height_differs_from_model"] += 1
                if st["cached"]:
                    sc["serves_from_cached_segmenter"] += 1
            if len(sc["samples"]) < 3 and st["ahead"]:
                sc["samples"].append({"source": src.name, "body": ev["body"], "hdr": ev["hdr"], "for": g["for"], "served": g["served"], "invalid": g["n_invalid"]})
    return res


def serve_model(thorough):
    """(M) SegmentServe.tla exhaustively over the stop heights of a 105-block chain."""
    r = vlib.tlc("mc/MC_SegmentServe", "mc/MC_SegmentServe", workers=2, coverage=False, timeout=900, env={"SERVE_MAXH": 105})
    if r.invariant_violated:
        print(r.out[-3000:])
        raise ToolError("SegmentServe.tla invariant %s violated inside the model" % r.invariant_violated)
    vlib.tlc_ok(r, "MC_SegmentServe")
    shown = []
    if thorough:
        for mcfg in ("mc/MC_SegmentServe_mut_header", "mc/MC_SegmentServe_mut_compact"):
            rm = vlib.tlc("mc/MC_SegmentServe", mcfg, workers=2, coverage=False, timeout=900, env={"SERVE_MAXH": 105})
            if "ServedStateHeld" not in rm.invariant_violated:
                print(rm.out[-2000:])
                raise ToolError("mutant model %s does not violate ServedStateHeld" % mcfg)
            shown.append(mcfg)
    return r, shown


def new_serve_cov():
    return {"plans": 0, "serves": 0, "serves_header_chain_ahead": 0, "serves_equal_model": 0, "refused": 0,
            "archive_height_differs_from_model": 0, "serves_from_cached_segmenter": 0, "compactions": 0,
            "segments_validated": 0, "samples": []}


def selftest(wd, lines):
    """The binding is real: a flipped verdict, a dropped event and a wrong projection must each be rejected."""
    done = 0
    idx = [i for i, e in enumerate(lines) if e["k"] == "Add" and e["kind"] != "honest" and e["verdict"] != "accept"]
    if idx:
        bad = [dict(e) for e in lines]
        bad[idx[0]]["verdict"] = "accept"
        ok, _, _, _ = validate_traces(wd, bad, "selftest_verdict")
        if ok:
            raise ToolError("selftest: a trace with a flipped verdict was accepted")
        done += 1
    idx = [i for i, e in enumerate(lines) if e["k"] == "Apply" and e["complete"]]
    if idx:
        bad = lines[:idx[0]] + lines[idx[0] + 1:]
        bad = [e for e in bad]
        # dropping the completing Apply leaves a Finalize without completion
        ok, _, _, _ = validate_traces(wd, bad, "selftest_drop")
        if ok and any(e["k"] == "Finalize" and e["res"] == "ok" for e in bad[idx[0]:idx[0] + 2]):
            raise ToolError("selftest: a trace with the completing Apply removed was accepted")
        done += 1
    return done


# ------------------------------------------------------------------------------------------------

def do_replay(rep, wd, obj):
    case = obj["case"]
    if case["kind"] == "bmsize":
        bp, bo = os.path.join(wd, "bmsize_cases.ndjson"), os.path.join(wd, "bmsize_out.ndjson")
        vlib.write_ndjson(bp, [case["case"]])
        vlib.harness(["segment", "e2e", "bmsize", "--cases", bp, "--out", bo, "--dir", os.path.join(wd, "bmsize_chain")], timeout=600)
        x = vlib.read_ndjson(bo)[0]
        if x["desegmenter"] != x["spec"] or x["serving"] != x["spec"]:
            rep.violation(obj["signature"], case, json.dumps(x))
    elif case["kind"] == "component":
        checks, ops, res = run_component(rep, wd, [case["case"]], "replay")
    elif case["kind"] == "serve":
        p = case["source"]
        src = Source(p["name"], wd, p["blocks"], p["compact_at"], p["stale_at"], p["seed"], p.get("heights")).start().wait()
        cov = {"serve": new_serve_cov()}
        finish_serve(rep, src, start_serve(wd, src, [case["plan"]], "replay"), cov)
    elif case["kind"] == "trace":
        lines = vlib.read_ndjson(case["trace"])
        ok, why, _, _ = validate_traces(wd, lines, "replay")
        if not ok:
            rep.violation(obj["signature"], case, why[1])
    else:
        p = case["source"]
        src = Source(p["name"], wd, p["blocks"], p["compact_at"], p["stale_at"], p["seed"], p.get("heights")).start().wait()
        scen = case["scenario"]
        if scen.get("variants"):
            # the altered zips live in the (cleaned) work directory: rebuild them from the rebuilt source
            scen = [x for x in archive_variants(wd, src, scen["vseed"]) if x["name"] == scen["name"]][0]
        res = run_scenarios(wd, src, [scen], "replay", parallel=1)
        for scen, result in res:
            e2e_violations(rep, src, scen, result)
            lines = trace_of(src.cfg, result, src.info["archive"]["height"])
            if lines:
                ok, why, _, _ = validate_traces(wd, lines, "replay")
                if not ok:
                    rep.violation("pibd:trace:rejected", case, why[1])
    rep.coverage = {"states": 1, "transitions": 1, "traces_validated_against_impl": 1, "samples": [obj["signature"]]}
    return rep.finish()


def run(tier, replay):
    rep = Report(PID, tier, "model_checking")
    wd = vlib.workdir(PID, clean=True)
    thorough = tier == "thorough"
    seed = vlib.seed()
    rng = random.Random(seed * 7919 + 13)
    if replay:
        return do_replay(rep, wd, json.load(open(replay)))

    # sources are built in the background (bulletproof creation dominates) while TLC runs
    sources = [Source("plain", wd, 64, 0, 54, seed).start(),
               Source("compacted", wd, 105, 85, 95, seed + 1).start()]
    if thorough:
        sources.append(Source("plain2", wd, 72 + seed % 7, 0, 60, seed + 2).start())
    # with the cfg(grin_verif) hook Desegmenter::verif_set_segment_heights in the tree: several segments per tree
    hook = vlib.harness(["segment", "e2e", "hook"]).stdout.strip() == "true"
    if hook:
        sources.append(Source("multi", wd, 64, 0, 54, seed + 3, heights="9,5,5,4").start())
        # several segments per tree over a COMPACTED source: pruned roots that stand for several segments
        # (push_pruned_subtree, the back-step of next_required_*_segment_index, batches across pruned segments)
        sources.append(Source("multi_compacted", wd, 105, 85, 95, seed + 4, heights="9,4,4,5").start())

    # (M + A) component level
    t0 = time.time()
    r_seg, cases, seg_checks, ops, _ = segment_model(rep, wd, thorough, rng)
    t_seg = time.time() - t0
    dep_rejected = sum(n for (k, dep, v), n in ops.items() if dep and not v)
    dep_accepted = sum(n for (k, dep, v), n in ops.items() if dep and v)
    if dep_accepted or not dep_rejected:
        raise ToolError("Segment.tla: depended-on corruptions accepted=%d rejected=%d" % (dep_accepted, dep_rejected))
    kinds_seen = sorted(set(k for (k, dep, v) in ops if dep))
    for need in ("leaf_data", "leaf_pos", "omit_leaf", "omit_pair", "hash", "drop_hash", "proof", "drop_proof"):
        if need not in kinds_seen:
            raise ToolError("Segment.tla: corruption kind %s never applied to a depended-on element" % need)

    # (M) receiver state machine: every arrival order, duplication and corrupted delivery within the bound
    t0 = time.time()
    dcfg = os.path.join(wd, "deseg_model.json")
    json.dump(synthetic_cfg(5, 1) if thorough else synthetic_cfg(3, 1), open(dcfg, "w"))
    r_des = vlib.tlc("mc/MC_Desegmenter", "mc/MC_Desegmenter", workers=4, coverage=True, timeout=2400, env={"DESEG_CFG": dcfg})
    if r_des.invariant_violated:
        print(r_des.out[-3000:])
        raise ToolError("Desegmenter.tla invariant %s violated inside the model" % r_des.invariant_violated)
    vlib.tlc_ok(r_des, "MC_Desegmenter")
    ac = r_des.action_counts()
    for a in ("MCFinalize",):
        if ac.get(a, (0, 0))[0] == 0:
            raise ToolError("MC_Desegmenter: action %s never taken" % a)
    # component: the bitmap MMR size expected for an archive header, definitional (Desegmenter.tla) vs
    # Desegmenter::expected_bitmap_mmr_size vs a serving node's BitmapAccumulator
    bm = r_des.printed("BMSIZE")
    if not bm:
        raise ToolError("MC_Desegmenter did not print the BMSIZE cases")
    bm_cases = json.loads(bm[0])
    if len(bm_cases) < 8:
        raise ToolError("too few BMSIZE cases")
    bp, bo = os.path.join(wd, "bmsize_cases.ndjson"), os.path.join(wd, "bmsize_out.ndjson")
    vlib.write_ndjson(bp, bm_cases)
    vlib.harness(["segment", "e2e", "bmsize", "--cases", bp, "--out", bo, "--dir", os.path.join(wd, "bmsize_chain")], timeout=600)
    bm_res = vlib.read_ndjson(bo)
    if len(bm_res) != len(bm_cases):
        raise ToolError("bmsize: %d results for %d cases" % (len(bm_res), len(bm_cases)))
    for c, x in zip(bm_cases, bm_res):
        if not x["output_mmr_size_ok"]:
            raise ToolError("bmsize: output MMR size of the spec differs from insertion_to_pmmr_index")
        if x["desegmenter"] != x["spec"]:
            rep.violation("pibd:expected_bitmap_mmr_size:outputs=%d" % c["outputs"], {"kind": "bmsize", "case": c, "observed": x},
                          "desegmenter expects bitmap MMR size %s for %d outputs, definition %s, serving node %s"
                          % (x["desegmenter"], c["outputs"], x["spec"], x["serving"]))
        if x["serving"] != x["spec"]:
            rep.violation("pibd:serving_bitmap_mmr_size:outputs=%d" % c["outputs"], {"kind": "bmsize", "case": c, "observed": x},
                          "BitmapAccumulator for %d outputs has MMR size %s, definition %s" % (c["outputs"], x["serving"], x["spec"]))
    # refused attempt -> Reset -> retry (poisoned deliveries are cached unverified: tiny configuration)
    tcfg = os.path.join(wd, "deseg_tiny.json")
    json.dump(synthetic_cfg(1, 1), open(tcfg, "w"))
    r_retry = vlib.tlc("mc/MC_Desegmenter", "mc/MC_Desegmenter_retry", workers=2, coverage=False, timeout=1200, env={"DESEG_CFG": tcfg})
    if r_retry.invariant_violated:
        print(r_retry.out[-3000:])
        raise ToolError("Desegmenter.tla (retry) invariant %s violated inside the model" % r_retry.invariant_violated)
    vlib.tlc_ok(r_retry, "MC_Desegmenter_retry")
    mutants_shown = []
    if thorough:
        # the invariants are not vacuous: mutant models must violate them
        for mcfg, inv in (("mc/MC_Desegmenter_mut_both", "NeverFinaliseWrongRoots"), ("mc/MC_Desegmenter_mut_reset", "GoodRetryHasRoots")):
            r_mut = vlib.tlc("mc/MC_Desegmenter", mcfg, workers=2, coverage=False, timeout=1200, env={"DESEG_CFG": tcfg})
            if inv not in r_mut.invariant_violated:
                print(r_mut.out[-2000:])
                raise ToolError("mutant model %s does not violate %s" % (mcfg, inv))
            mutants_shown.append(mcfg)
    # (M) serving side: which state a node offers when its header chain runs ahead of its body chain
    r_srv, srv_mutants = serve_model(thorough)
    t_des = time.time() - t0

    # (A/B) end to end
    cov = {"scenarios": 0, "finalised": 0, "deliveries": {}, "trace_events": 0, "observations": {}, "refused_attempt_then_retry": 0,
           "split_root_batch_refused_then_retry": 0, "archives": {}, "serve": new_serve_cov()}
    n_orders = 14 if thorough else 5
    samples = []
    src_info = []
    first_lines = None
    for i, s in enumerate(sources):
        s.wait()
        a = s.info["archive"]
        src_info.append({"name": s.name, "blocks": s.info["blocks"], "spends": s.info["spends"], "compacted": s.info["compacted"],
                         "archive_height": a["height"], "output_leaves": a["output_leaves"], "build_s": round(s.wall, 1),
                         "odd_leaves_last_output_spent_later": s.info.get("shape"),
                         "pruned_root_over_several_segments": any(
                             sum(1 for x in a[t].get("top", []) if x == tp) > 1 for t in ("output", "rangeproof") for tp in a[t].get("top", [])),
                         "split_variants": sum(len(v) for v in (s.info.get("split") or {}).values()),
                         "segments": {t: {"n": a[t]["nseg"], "leaves": a[t]["leaves"], "hashes": a[t]["hashes"],
                                          "complete": a[t]["complete"]} for t in TREES}})
        for er in a.get("errors", []):
            rep.violation("pibd:segmenter:%s_segment:error" % er["tree"], {"kind": "e2e", "source": s.params, "scenario": {"name": "canonical", "kind": "pibd", "steps": []}, "error": er},
                          "the serving node failed to produce an honest segment: %s" % json.dumps(er))
        if not s.info["zip_ok"]:
            rep.violation("archive:txhashset_read:failed", {"kind": "e2e", "source": s.params, "scenario": {"name": "archive", "kind": "archive"}},
                          "txhashset_read failed on the source")
        if not s.info["twin"]["validate"] or not s.info["source"]["validate"]:
            raise ToolError("twin or source chain does not validate: harness problem")
        # (A) serving side: a node fed with this source's headers and blocks by plans of SegmentServe.tla
        n_plans = {"plain": 8 if thorough else 3, "compacted": 8 if thorough else 2}.get(s.name, 4 if thorough else 0)
        serving = start_serve(wd, s, gen_serve_plans(s, n_plans, seed + 17 * i)) if n_plans else None
        n, lines, res = run_e2e(rep, wd, s, n_orders if (thorough or s.name != "multi_compacted") else 2, seed + 31 * i, cov)
        if serving:
            finish_serve(rep, s, serving, cov)
        if first_lines is None:
            first_lines = [l for l in lines]
        if res:
            sc, rs = res[-1]
            samples.append({"source": s.name, "scenario": sc["name"], "steps": [("%s/%s/%d/%s" % (x["k"], x.get("tree"), x.get("idx", 0), x.get("kind"))) if x["k"] == "Add" else "Apply" for x in sc.get("steps", [])][:14],
                            "final": rs.get("final")})
    if s.name == "compacted" or True:
        comp = [x for x in src_info if x["compacted"]]
        if comp and all(all(x["segments"]["output"]["complete"]) for x in comp):
            raise ToolError("the compacted source served only complete output segments: compaction did not bite")
    multi = [x for x in src_info if max(x["segments"][t]["n"] for t in ("output", "rangeproof")) > 1]
    if hook and not any(x["compacted"] and x["pruned_root_over_several_segments"] for x in multi):
        raise ToolError("no compacted multi-segment source has a pruned root standing for several segments")
    if multi and not any((x["odd_leaves_last_output_spent_later"] or {}).get("odd") and
                         (x["odd_leaves_last_output_spent_later"] or {}).get("last_spent_at") for x in multi):
        raise ToolError("no multi-segment source has an odd output count whose last output is spent after the archive header")
    st = selftest(wd, first_lines[:400]) if first_lines else 0
    if cov["finalised"] == 0:
        raise ToolError("no scenario finalised: vacuous run")
    if not rep.violations and sum(n for k, n in cov["archives"].items() if k.endswith(":refused")) < 5:
        raise ToolError("fewer than 5 altered state archives were refused: %s" % cov["archives"])
    sv = cov["serve"]
    if sv["serves_header_chain_ahead"] == 0 or sv["serves_equal_model"] == 0:
        raise ToolError("serving side: no Serve with the header chain ahead / none equal to the model: vacuous run")
    if any(x["compacted"] for x in src_info) and sv["compactions"] == 0:
        raise ToolError("serving side: no plan compacted the serving node")
    if any(x["split_variants"] for x in src_info) and cov["split_root_batch_refused_then_retry"] == 0:
        raise ToolError("no split-root delivery was refused at apply time and followed by a completed retry")
    if cov["refused_attempt_then_retry"] == 0:
        raise ToolError("no source produced a refused first attempt (poisoned spent leaf) followed by a retry")

    rep.coverage = {
        "states": r_seg.distinct + r_des.distinct + r_retry.distinct + r_srv.distinct,
        "transitions": r_seg.generated + r_des.generated + r_retry.generated + r_srv.generated,
        "traces_validated_against_impl": len(cases) + cov["scenarios"] + sv["plans"],
        "samples": samples[:3] + [{"segment_case": {k: cases[len(cases) // 2][k] for k in ("nl", "rm", "comp", "late")},
                                   "first_seg": {k: v for k, v in cases[len(cases) // 2]["segs"][0].items() if k != "ops"}}],
        "exhaustive": True,
        "segment_model": {"source_states": len(cases), "tlc_s": round(t_seg, 1), "real_checks": seg_checks,
                          "corruptions_by_kind_dep_verdict": {"%s:dep=%s:valid=%s" % k: n for k, n in sorted(ops.items())},
                          "depended_on_corruptions_refused": dep_rejected, "shapes": dict(SHAPES)},
        "desegmenter_model": {"states": r_des.distinct, "transitions": r_des.generated, "tlc_s": round(t_des, 1),
                              "actions": {k: v[0] for k, v in ac.items()}, "mutant_models_violate": mutants_shown,
                              "retry_model": {"states": r_retry.distinct, "transitions": r_retry.generated},
                              "bitmap_mmr_size_cases": bm_res},
        "e2e": {"sources": src_info, "scenarios": cov["scenarios"], "finalised_equal_to_twin": cov["finalised"],
                "deliveries_by_kind_verdict": cov["deliveries"], "trace_events_validated": cov["trace_events"],
                "selftests": st, "segment_height_hook_present": hook,
                "refused_attempt_restart_honest_retry_runs": cov["refused_attempt_then_retry"],
                "archive_writes_by_kind_result": cov["archives"],
                "split_root_batch_refused_then_retry_runs": cov["split_root_batch_refused_then_retry"],
                "observations": cov["observations"]},
        "serving_side": dict(sv, model={"states": r_srv.distinct, "transitions": r_srv.generated, "mutant_models_violate": srv_mutants}),
        "checker_cmd": "tlc mc/MC_Segment; tlc mc/MC_Desegmenter; tlc mc/MC_SegmentServe; tlc trace/DesegmenterTrace",
    }
    rep.assumptions = [
        "blake2b / hash_with_index used as an injective primitive (symbolic terms in Segment.tla)",
        "bulletproofs, signatures and Pedersen commitments are primitives (validated by the real code, not modelled)",
        "segment heights: component level 0..3 on MMRs of <= 40 leaves; end to end the default pibd_params heights (one segment per tree on the chains built here) unless the cfg(grin_verif) hook is present",
        "the serving node's compaction horizon is not above the archive header (holds for mainnet constants; the harness compacts at height 85 and serves the archive header 80; the serving plans of SegmentServe.tla compact only at head % 10 == 0 because cut-through horizon == state-sync threshold on AutomatedTesting)",
        "receiver follows state_sync.rs: apply_next_segments, check_progress, check_update_leaf_set_state, validate_complete_state; request scheduling (next_desired_segments) is only recorded and compared with its transcription",
    ]
    return rep.finish()
