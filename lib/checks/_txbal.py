"""Shared driver helpers of the txbal engine (C01, C12): sharded runs of the h_txbal harness."""
import json, os, subprocess, time
import vlib
from vlib import ToolError


def run_sharded(cmd, cases, wd, tag, shards=4, timeout=3000):
    """Run `h_txbal <cmd>` on `cases` (list of dicts carrying an integer "id") split over `shards`
    processes (libsecp's static context is one global mutex, so parallelism needs processes).
    Returns ({id: result}, [harness summary dicts])."""
    shards = max(1, min(shards, len(cases)))
    procs = []
    exe = os.path.join(vlib.HARNESS_BINDIR, "h_txbal")
    env = dict(os.environ)
    env.setdefault("RUST_BACKTRACE", "0")
    for s in range(shards):
        part = cases[s::shards]
        cp = os.path.join(wd, "%s_cases_%d.ndjson" % (tag, s))
        op = os.path.join(wd, "%s_out_%d.ndjson" % (tag, s))
        vlib.write_ndjson(cp, part)
        p = subprocess.Popen([exe, cmd, "--cases", cp, "--out", op], stdout=subprocess.PIPE, stderr=subprocess.PIPE,
                             text=True, env=env)
        procs.append((p, op, len(part)))
    res, infos = {}, []
    t0 = time.time()
    for p, op, n in procs:
        try:
            so, se = p.communicate(timeout=max(1, timeout - (time.time() - t0)))
        except subprocess.TimeoutExpired:
            for q, _, _ in procs:
                q.kill()
            raise ToolError("h_txbal %s timeout" % cmd)
        if p.returncode != 0:
            print(so[-2000:])
            print(se[-2000:])
            raise ToolError("h_txbal %s failed (%d)" % (cmd, p.returncode))
        out = vlib.read_ndjson(op)
        if len(out) != n:
            raise ToolError("h_txbal %s: %d results for %d cases" % (cmd, len(out), n))
        for r in out:
            res[r["id"]] = r
        try:
            infos.append(json.loads(so.strip().splitlines()[-1]))
        except Exception:
            pass
    return res, infos
