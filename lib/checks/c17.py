"""C17 — concurrent chain use neither deadlocks nor exposes uncommitted state.

(M1) Locks.tla: the lock protocol of every public Chain operation is RECORDED from the real code
     (cfg(grin_verif) traced RwLock + LMDB writer events) and TLC checks that no interleaving of
     three concurrent calls deadlocks under parking_lot's fair RwLock semantics.
(M2) ChainConc.tla: Chain.tla's stages run as the critical sections the code really has; TLC checks
     the chain invariants (readers only ever see committed, replay-consistent states; head monotone
     and stored) under every interleaving of small programs.
(B)  Real threads (3 writers delivering TLC-generated block trees + 2 readers) with seeded schedule
     perturbation; the lock log is linearised by the sequence numbers taken inside the critical
     sections and validated against ChainConc.tla by TLC (sections, call results, every reader
     observation, final state); watchdog for deadlocks; panics are data.
"""
import json, os, subprocess
import vlib, chainlib, conclib
from vlib import Report, ToolError

PID = "C17"
ENGINES = ["conc"]


def BIN():
    return os.path.join(vlib.HARNESS_BINDIR, "h_conc")


def record_protocols(wd):
    p = subprocess.run([BIN(), "protocols", "--work", os.path.join(wd, "proto")], stdout=subprocess.PIPE,
                       stderr=subprocess.PIPE, text=True, timeout=900)
    if p.returncode != 0:
        print(p.stdout[-1500:], p.stderr[-1500:])
        raise ToolError("protocol recording failed")
    o = json.loads(p.stdout.strip().splitlines()[-1])
    names = {o["tx_addr"]: "tx", o["hp_addr"]: "hp"}
    others = {}

    def nm(a):
        if a in names:
            return names[a]
        if a not in others:
            others[a] = "o%d" % (len(others) + 1)
        return others[a]
    protos, panics = {}, []
    for c in o["calls"]:
        if c["panic"]:
            panics.append(c["op"])
        seq = []
        for e in o["events"]:
            if c["s0"] < e[0] < c["s1"]:
                if e[2] in ("r_acq", "r_rel", "w_acq", "w_rel"):
                    seq.append([e[2], nm(e[3])])
                elif e[2] == "lmdb_begin":
                    seq.append(["m_acq", "db"])
                elif e[2] == "lmdb_commit":
                    seq.append(["m_rel", "db"])
        # a batch that is dropped without commit releases the writer before the chain locks are released
        out, held = [], False
        for op, l in seq:
            if op == "m_acq":
                held = True
            if op == "m_rel":
                held = False
            if held and op in ("r_rel", "w_rel") and l in ("tx", "hp"):
                out.append(["m_rel", "db"])
                held = False
            out.append([op, l])
        if held:
            out.append(["m_rel", "db"])
        # keep a leaf lock (acquired and released with nothing acquired in between) out of the model
        keep, i = [], 0
        while i < len(out):
            op, l = out[i]
            if l.startswith("o") and op in ("r_acq", "w_acq") and i + 1 < len(out) and out[i + 1][1] == l \
                    and out[i + 1][0] in ("r_rel", "w_rel"):
                i += 2
                continue
            keep.append([op, l])
            i += 1
        protos[c["op"]] = keep
    return protos, panics


def make_scenarios(behs, nthreads=3):
    scen = []
    for b in behs:
        ops = [{"k": s["k"], "b": s["b"]} for s in b["steps"] if s["k"] in ("ProcessBlock", "ProcessHeader")]
        if len(ops) < 4:
            continue
        threads = {str(t + 1): ops[t::nthreads] for t in range(nthreads)}
        scen.append({"trunk": b["trunk"], "pool": b.get("pool", {}), "tree": b["tree"], "threads": threads, "readers": 3})
    return scen


def run_real(wd, scen, seed, delay_us=0, tag="run"):
    cp = os.path.join(wd, tag + "_cases.ndjson")
    op = os.path.join(wd, tag + "_out.ndjson")
    vlib.write_ndjson(cp, scen)
    cmd = [BIN(), "--cases", cp, "--out", op, "--work", os.path.join(wd, tag + "_work"), "--seed", str(seed)]
    if delay_us:
        cmd += ["--delay-us", str(delay_us)]
    p = subprocess.run(cmd, stdout=subprocess.PIPE, stderr=subprocess.PIPE, text=True, timeout=3000)
    if p.returncode != 0:
        print(p.stdout[-1500:], p.stderr[-1500:])
        raise ToolError("h_conc failed")
    return vlib.read_ndjson(op)


def validate_trace(wd, case, out, idx, rep, tag):
    evs, stats = conclib.linearise(case, out)
    sp = os.path.join(wd, "%s_scen%d.json" % (tag, idx))
    tp = os.path.join(wd, "%s_trace%d.ndjson" % (tag, idx))
    json.dump(conclib.scenario_json(case), open(sp, "w"))
    vlib.write_ndjson(tp, evs)
    r = vlib.tlc("trace/ChainConcTrace", workers=1, coverage=False, env={"TRACE": tp, "SCEN": sp}, deque=True,
                 xss="512m", timeout=900)
    if r.finished:
        return True, stats, len(evs), None
    line = [x for x in r.out.splitlines() if "TRACE-REJECTED" in x]
    if not line:
        print(r.out[-2500:])
        raise ToolError("ChainConcTrace failed without a verdict")
    return False, stats, len(evs), line[0]


def check_outputs(rep, scen, outs, wd, tag, validate=True):
    st = {"runs": 0, "sections": 0, "reads": 0, "heads": 0, "heads_ambiguous": 0, "vtx": 0, "scans": 0, "events": 0, "accepted": 0, "stranded": 0}
    for i, (case, out) in enumerate(zip(scen, outs)):
        st["runs"] += 1
        rc = {"case": case, "tag": tag, "index": i}
        if out.get("deadlock"):
            rep.violation("conc:deadlock", dict(rc, tail=out.get("tail")), "writers did not finish within the watchdog (90 s)")
            continue
        if out.get("panics"):
            rep.violation("conc:panic", rc, "%d call(s) panicked" % out["panics"])
        for c in out["calls"]:
            if c.get("k") == "HeadWentBack":
                rep.violation("conc:reader:head_work_decreased", dict(rc, obs=c), "a reader saw the head's total difficulty decrease")
            if c.get("k") == "Head" and c.get("stored") is False:
                rep.violation("conc:reader:head_not_stored", dict(rc, obs=c), "a reported head names a block that is not stored")
            if c.get("k") == "Head" and "err" in c:
                rep.violation("conc:reader:head_error", dict(rc, obs=c), c["err"][:100])
        if out["final"]["validate"] != "Ok(())":
            rep.violation("conc:final:validate", rc, out["final"]["validate"][:200])
        # a valid block left in the orphan pool although its parent body is stored: no sequential order
        # of the same calls ends like that
        tree = case["tree"]
        get = (lambda b: tree[str(b)]) if isinstance(tree, dict) else (lambda b: tree[b])
        for o in out["final"]["orph"]:
            if get(o)["parent"] in out["final"]["bodies"]:
                st["stranded"] += 1
                rep.violation("conc:orphan_stranded:parent_accepted_before_insertion", dict(rc, orphan=o, final=out["final"]),
                              "block %d stays in the orphan pool although its parent body is stored" % o)
        if validate:
            ok, s, n, why = validate_trace(wd, case, out, i, rep, tag)
            for k in ("sections", "reads", "heads", "heads_ambiguous", "vtx", "scans"):
                st[k] += s[k]
            st["events"] += n
            if ok:
                st["accepted"] += 1
            else:
                kind = "Final" if '"Final"' in why else "Scan" if '"Scan"' in why else "VTx" if '"VTx"' in why else "Read" if '"Read"' in why else "Head" if '"Head"' in why else "End" if '"End"' in why else "Sec"
                rep.violation("conc:trace:rejected:%s" % kind, dict(rc, rejected=why[:600]), why[:300])
    return st


def run(tier, replay):
    rep = Report(PID, tier, "model_checking")
    wd = vlib.workdir(PID, clean=True)
    thorough = tier == "thorough"
    if replay:
        obj = json.load(open(replay))
        case = obj["case"]["case"]
        outs = run_real(wd, [case], vlib.seed(), tag="replay")
        check_outputs(rep, [case], outs, wd, "replay")
        rep.coverage = {"states": 1, "transitions": 1, "traces_validated_against_impl": 1, "samples": [obj["signature"]]}
        return rep.finish()

    # (M1) recorded lock protocols -> TLC deadlock check
    protos, ppanics = record_protocols(wd)
    for op in ppanics:
        rep.violation("conc:panic:%s" % op, {"op": op}, "single-threaded call panicked")
    # identical protocols of different operations are one protocol of the lock model
    distinct = {}
    for k, v in sorted(protos.items()):
        if v:
            distinct.setdefault(json.dumps(v), []).append(k)
    plist = [[{"op": o, "lock": l} for o, l in json.loads(key)] for key in distinct]
    pnames = ["+".join(v) for v in distinct.values()]
    pp = os.path.join(wd, "protos.json")
    json.dump(plist, open(pp, "w"))
    r1 = vlib.tlc("mc/MC_Locks", "mc/MC_Locks_t" if thorough else "mc/MC_Locks", workers=6, coverage=False,
                  env={"PROTOS": pp}, timeout=3000, xmx="8g")
    if "NoDeadlock" in r1.invariant_violated:
        rep.violation("locks:deadlock:model", {"protocols": dict(zip(pnames, plist)), "tlc": r1.out[-3000:]},
                      "the recorded lock protocols admit a deadlock under fair RwLock semantics")
    elif not r1.finished:
        print(r1.out[-3000:])
        raise ToolError("MC_Locks did not complete")

    # (M2) chain invariants under every interleaving of the real critical sections
    mcs = []
    for cfg in ["mc/MC_ChainConc_A", "mc/MC_ChainConc_B"]:
        r = vlib.tlc("mc/MC_ChainConc", cfg, workers=6, coverage=False, timeout=1800)
        if r.invariant_violated or r.property_violated or not r.finished:
            print(r.out[-3000:])
            raise ToolError("ChainConc.tla violates its safety invariants in the model (%s)" % cfg)
        mcs.append({"config": cfg, "distinct_states": r.distinct, "states_generated": r.generated})

    # check_orphan's decision and its orphan-pool insertion are separate steps in the model; with the
    # re-check after the insertion no block may be left stranded: FinalSequential under every interleaving
    rr = vlib.tlc("mc/MC_ChainConc", "mc/MC_ChainConc_race", workers=4, coverage=False, timeout=900)
    if rr.invariant_violated or not rr.finished:
        print(rr.out[-2500:])
        raise ToolError("ChainConc.tla violates FinalSequential in the model")
    # ... and the directed schedule that exposed the window on the real code (slow pool insertion of the
    # child while the parent is accepted by another thread) must not strand the child
    race_runs = []
    for i in range(3 if thorough else 1):
        p = subprocess.run([BIN(), "race", "--work", os.path.join(wd, "race"), "--delay-us", str(600000 + 150000 * i)],
                           stdout=subprocess.PIPE, stderr=subprocess.PIPE, text=True, timeout=600)
        if p.returncode != 0 or not p.stdout.strip():
            print(p.stdout[-1000:], p.stderr[-1000:])
            raise ToolError("race probe failed to run")
        o = json.loads(p.stdout.strip().splitlines()[-1])
        race_runs.append(o)
        if o.get("stranded"):
            rep.violation("conc:orphan_stranded:parent_accepted_before_insertion", {"probe": "race", "outcome": o},
                          "directed schedule: the child stays in the orphan pool although its parent body is stored (head %s)" % o.get("head_height"))

    # (B) real threads, TLC-generated trees and delivery multisets
    n = 120 if thorough else 14
    behs, _ = chainlib.gen_sim("mc/MC_Chain_simemit", n * 2, vlib.seed(), workers=4, timeout=1500)
    scen = make_scenarios(behs)[:n]
    if len(scen) < 4:
        raise ToolError("too few scenarios")
    outs = run_real(wd, scen, vlib.seed())
    st = check_outputs(rep, scen, outs, wd, "run")
    # anti-vacuity: a corrupted observation must be rejected by the trace spec
    if not rep.violations and not rep.known_hit:
        bad = json.loads(json.dumps(outs[0]))
        for c in bad["calls"]:
            if c.get("k") == "ProcessBlock" and c["res"] in ("ok_head", "ok_fork"):
                c["res"] = "reject"
                break
        ok, _, _, _ = validate_trace(wd, scen[0], bad, 0, rep, "selftest")
        if ok:
            raise ToolError("self-test: a corrupted call result was accepted by ChainConcTrace")
    # directed schedule for the orphan-pool insertion window (slow orphan insertion)
    outs2 = run_real(wd, scen[: (40 if thorough else 6)], vlib.seed() + 1, delay_us=40000, tag="delay")
    st2 = check_outputs(rep, scen[: len(outs2)], outs2, wd, "delay", validate=False)

    rep.coverage = {
        "states": r1.distinct + sum(m["distinct_states"] for m in mcs),
        "transitions": r1.generated + sum(m["states_generated"] for m in mcs),
        "traces_validated_against_impl": st["accepted"],
        "samples": [{"protocol_process_block_next": protos.get("process_block_next"), "protocol_validate_tx": protos.get("validate_tx")},
                    {"scenario_threads": scen[0]["threads"], "final": outs[0].get("final")}],
        "lock_protocols_recorded": len(plist), "lock_model": {"distinct_states": r1.distinct, "threads": 3},
        "chainconc_models": mcs, "directed_orphan_race_probe": race_runs,
        "real_runs": st, "directed_delay_runs": st2,
        "operations_with_protocols": pnames,
    }
    rep.assumptions = ["schedules are those produced by seeded perturbation at lock points plus one directed delay; no claim of exhaustive interleaving of the real code",
                       "parking_lot RwLock modelled as fair (readers block while a writer waits)",
                       "lock protocols are recorded from one call per operation on a 9-block chain (data-dependent variants beyond those are not in the lock model)",
                       "SKIP_POW, AutomatedTesting; NoopAdapter"]
    return rep.finish()
