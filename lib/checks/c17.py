"""C17 — concurrent chain use neither deadlocks nor exposes uncommitted state.

(M1) Locks.tla: the lock protocol of every public Chain operation and branch (block / header processing incl. orphan
     and reorg deliveries, readers, validate_tx with and without an NRD kernel, merkle proofs, template building,
     fast and full validation, the segmenter and its four segment kinds, the zip archive, compaction, the owner API's
     resets, the desegmenter, and the network adapter's locate_headers / find_common_header, which hold one of the
     chain's lock handles) is RECORDED from the real code (cfg(grin_verif) traced RwLock + LMDB writer events), cut
     into sections (maximal stretches during which the thread holds some lock) and TLC checks that no interleaving of
     three concurrent sections deadlocks under parking_lot's fair RwLock semantics.  Sections observed per call in
     the multi-threaded runs of (B) that were not recorded join the same model.  A source scan makes the list
     checkable: a public lock-taking function without a recorded protocol is a tool error.
     ViewsOK: every operation whose result is ONE view of the chain state holds the locks of that view together (and
     takes each once).  GuardedOK: the live txhashset files are copied into the state archive only while the
     txhashset lock is held (needs the hook events of hooks/conc.patch; vacuous without them).
(M2) ChainConc.tla: Chain.tla's stages run as the critical sections the code really has; TLC checks the chain
     invariants (readers only ever see committed, replay-consistent states; head monotone and stored; the bounded
     orphan pool with its eviction) under every interleaving of small programs.
(B)  Real threads (3 writers delivering TLC-generated block trees + readers of the UTXO set, the head, the header
     MMR (get_header_by_height, get_header_for_output), validate_tx + a template builder) with seeded schedule
     perturbation; the lock log is linearised by the sequence numbers taken inside the critical sections and
     validated against ChainConc.tla by TLC (sections, call results, every reader observation, final state).  Two
     further profiles run through the same trace spec: an orphan flood (more orphan candidates than the pool holds,
     so that the eviction branch runs under threads) and a long chain (85-block trunk, reorganisations near the
     head) on which a fourth thread runs Chain::compact() for real.  Watchdog for deadlocks (writers and readers);
     panics are data.
"""
import json, os, re, subprocess, time
import concurrent.futures as cf
import vlib, chainlib, conclib
from vlib import Report, ToolError

PID = "C17"
ENGINES = ["conc"]


def BIN():
    return os.path.join(vlib.HARNESS_BINDIR, "h_conc")


def record_protocols(wd):
    """Returns (calls: op -> whole normalised protocol, panics, not_ok: ops whose call did not take the intended branch)."""
    p = subprocess.run([BIN(), "protocols", "--work", os.path.join(wd, "proto")], stdout=subprocess.PIPE,
                       stderr=subprocess.PIPE, text=True, timeout=900)
    if p.returncode != 0:
        print(p.stdout[-1500:], p.stderr[-1500:])
        raise ToolError("protocol recording failed")
    o = json.loads(p.stdout.strip().splitlines()[-1])
    names = {o["tx_addr"]: "tx", o["hp_addr"]: "hp"}
    others = {}

    def nm(a):
        if a in names:
            return names[a]
        if a not in others:
            others[a] = "o%d" % (len(others) + 1)
        return others[a]
    protos, panics, not_ok = {}, [], []
    for c in o["calls"]:
        if c["panic"]:
            panics.append(c["op"])
        if c.get("ok") is False:
            not_ok.append(c["op"])
        seq = []
        for e in o["events"]:
            if c["s0"] < e[0] < c["s1"]:
                if e[2] in ("r_acq", "r_rel", "w_acq", "w_rel"):
                    seq.append([e[2], nm(e[3])])
                elif e[2] == "lmdb_begin":
                    seq.append(["m_acq", "db"])
                elif e[2] == "lmdb_commit":
                    seq.append(["m_rel", "db"])
                elif e[2] == "txfiles_use_begin":      # hook events (hooks/conc.patch), if the tree has them
                    seq.append(["use_beg", "txfiles"])
                elif e[2] == "txfiles_use_end":
                    seq.append(["use_end", "txfiles"])
        protos[c["op"]] = conclib.normalise(seq)
    if not o.get("compacted"):
        not_ok.append("compact")
    return protos, panics, not_ok


def make_scenarios(behs, nthreads=3):
    scen = []
    for b in behs:
        ops = [{"k": s["k"], "b": s["b"]} for s in b["steps"] if s["k"] in ("ProcessBlock", "ProcessHeader")]
        if len(ops) < 4:
            continue
        threads = {str(t + 1): ops[t::nthreads] for t in range(nthreads)}
        scen.append({"trunk": b["trunk"], "pool": b.get("pool", {}), "tree": b["tree"], "threads": threads, "readers": 4})
    return scen


def compaction_scenarios(behs, nthreads=3):
    """Long-trunk trees (85 blocks, forks and reorganisations within the last 8) of the compaction profile of
    MC_Chain: the deliveries go to three writer threads, a fourth thread calls Chain::compact(), which is due."""
    scen = []
    for b in behs:
        ops = [{"k": s["k"], "b": s["b"]} for s in b["steps"] if s["k"] in ("ProcessBlock", "ProcessHeader")]
        if len(ops) < 3:
            continue
        threads = {str(t + 1): ops[t::nthreads] for t in range(nthreads)}
        threads[str(nthreads + 1)] = [{"k": "Compact", "b": 0}]
        scen.append({"profile": "compact", "trunk": b["trunk"], "pool": b.get("pool", {}), "tree": b["tree"], "threads": threads,
                     "readers": 4, "reader_cap": 300})
    return scen


def flood_scenario(nbogus, seed, max_orphans=200):
    """More orphan candidates than the pool holds: trunk 1..2, honest blocks 3, 4, then a line of `nbogus` blocks with
    valid headers and invalid bodies (harness profile "flood": header variants, no proof building).  Thread 1 first
    announces every header, then three threads deliver the line from the far end (all of them end in the orphan
    pool, which overflows and evicts), a fourth delivers 4 and 3 (4 waits in the pool, 3 connects both)."""
    tx = {"ins": [], "outs": [], "lock": 0}
    tree = [{"parent": 0, "height": 0, "diff": 1, "tx": tx, "flag": "ok"}]
    for i in range(1, 5):
        tree.append({"parent": i - 1, "height": i, "diff": 1, "tx": tx, "flag": "ok"})
    last = 4 + nbogus
    for i in range(5, last + 1):
        tree.append({"parent": i - 1, "height": i, "diff": 1, "tx": tx, "flag": "badRoot"})
    hdrs = [{"k": "ProcessHeader", "b": b} for b in range(3, last + 1)]
    line = list(range(last, 4, -1))
    rot = seed % 3
    parts = [line[(rot + j) % 3::3] for j in range(3)]
    pb = lambda bs: [{"k": "ProcessBlock", "b": b} for b in bs]
    threads = {"1": hdrs + pb(parts[0]), "2": pb(parts[1]), "3": pb(parts[2]), "4": pb([4, 3])}
    gate = [1, len(hdrs)]
    return {"profile": "flood", "trunk": 2, "pool": {}, "tree": tree, "threads": threads, "readers": 4,
            "max_orphans": max_orphans, "reader_cap": 300, "start_after": {"2": gate, "3": gate, "4": gate}}


def run_real(wd, scen, seed, delay_us=0, tag="run"):
    cp = os.path.join(wd, tag + "_cases.ndjson")
    op = os.path.join(wd, tag + "_out.ndjson")
    vlib.write_ndjson(cp, scen)
    cmd = [BIN(), "--cases", cp, "--out", op, "--work", os.path.join(wd, tag + "_work"), "--seed", str(seed)]
    if delay_us:
        cmd += ["--delay-us", str(delay_us)]
    p = subprocess.run(cmd, stdout=subprocess.PIPE, stderr=subprocess.PIPE, text=True, timeout=3000)
    if p.returncode != 0:
        print(p.stdout[-1500:], p.stderr[-1500:])
        raise ToolError("h_conc failed")
    return vlib.read_ndjson(op)


def validate_trace(wd, case, out, idx, rep, tag):
    evs, stats = conclib.linearise(case, out)
    sp = os.path.join(wd, "%s_scen%d.json" % (tag, idx))
    tp = os.path.join(wd, "%s_trace%d.ndjson" % (tag, idx))
    json.dump(conclib.scenario_json(case), open(sp, "w"))
    vlib.write_ndjson(tp, evs)
    r = vlib.tlc("trace/ChainConcTrace", workers=1, coverage=False, env={"TRACE": tp, "SCEN": sp}, deque=True,
                 xss="512m", timeout=900, xmx="3g")
    if r.finished:
        return True, stats, len(evs), None
    lines = r.out.splitlines()
    at = [i for i, x in enumerate(lines) if "TRACE-REJECTED" in x]
    if not at:
        print(r.out[-2500:])
        raise ToolError("ChainConcTrace failed without a verdict")
    # the rejected event is printed as a (possibly multi-line) record after the marker
    why = " ".join(x.strip() for x in lines[at[0]:at[0] + 60])
    return False, stats, len(evs), why


STAT_KEYS = ("sections", "reads", "heads", "heads_ambiguous", "vtx", "scans", "hdr_at", "hdr_of", "read_errors")
EVENT_KINDS = ("Final", "Scan", "VTx", "Read", "HdrAt", "HdrOf", "Head", "End")


def check_outputs(rep, scen, outs, wd, tag, validate=True):
    st = {"runs": 0, "events": 0, "accepted": 0, "stranded": 0}
    st.update({k: 0 for k in STAT_KEYS})
    todo = []
    for i, (case, out) in enumerate(zip(scen, outs)):
        st["runs"] += 1
        rc = {"case": case, "tag": tag, "index": i}
        prof = ":" + case["profile"] if case.get("profile") else ""
        if out.get("deadlock"):
            who = out.get("who", "writers")
            rep.violation("conc:deadlock%s%s" % (prof, "" if who == "writers" else ":" + who), dict(rc, tail=out.get("tail")),
                          "%s did not finish within the watchdog" % who)
            continue
        if out.get("panics"):
            rep.violation("conc:panic" + prof, rc, "%d call(s) panicked" % out["panics"])
        for c in out["calls"]:
            if c.get("k") == "HeadWentBack":
                rep.violation("conc:reader:head_work_decreased", dict(rc, obs=c), "a reader saw the head's total difficulty decrease")
            if c.get("k") == "Head" and c.get("stored") is False:
                rep.violation("conc:reader:head_not_stored", dict(rc, obs=c), "a reported head names a block that is not stored")
            if c.get("k") == "Head" and "err" in c:
                rep.violation("conc:reader:head_error", dict(rc, obs=c), c["err"][:100])
            if c.get("k") == "GetUnspent" and c.get("val", 0) < -1:
                rep.violation("conc:reader:get_unspent_error", dict(rc, obs=c), "get_unspent returned an error while blocks were being processed")
            if c.get("k") in ("HdrAt", "HdrOf") and c.get("id") == -2:
                rep.violation("conc:reader:header_unknown", dict(rc, obs=c), "a header-MMR reader returned a header that was never delivered")
        if out["final"]["validate"] != "Ok(())":
            rep.violation("conc:final:validate" + prof, rc, out["final"]["validate"][:200])
        # a valid block left in the orphan pool although its parent body is stored: no sequential order
        # of the same calls ends like that
        tree = case["tree"]
        get = (lambda b: tree[str(b)]) if isinstance(tree, dict) else (lambda b: tree[b])
        for o in out["final"]["orph"]:
            if get(o)["parent"] in out["final"]["bodies"]:
                st["stranded"] += 1
                rep.violation("conc:orphan_stranded:parent_accepted_before_insertion", dict(rc, orphan=o, final=out["final"]),
                              "block %d stays in the orphan pool although its parent body is stored" % o)
        if len(out["final"]["orph"]) > case.get("max_orphans", 200):
            rep.violation("conc:orphan_pool:over_capacity", dict(rc, final=out["final"]), "%d blocks in the orphan pool" % len(out["final"]["orph"]))
        if validate:
            todo.append((i, case, out, rc))
    if todo:
        # one TLC process per trace (each has its own tree constant), a few at a time
        with cf.ThreadPoolExecutor(max_workers=4) as ex:
            res = list(ex.map(lambda x: validate_trace(wd, x[1], x[2], x[0], rep, tag), todo))
        for (i, case, out, rc), (ok, s, n, why) in zip(todo, res):
            for k in STAT_KEYS:
                st[k] += s.get(k, 0)
            st["events"] += n
            if ok:
                st["accepted"] += 1
            else:
                m = re.search(r'k \|-> "(\w+)"', why)
                kind = m.group(1) if m else ("eof" if '"eof"' in why else "unknown")
                prof = ":" + case["profile"] if case.get("profile") else ""
                rep.violation("conc:trace:rejected:%s%s" % (kind, prof), dict(rc, rejected=why[:600]), why[:300])
    return st


# lock-taking public functions that have no recorded protocol, with the reason (everything else must be recorded)
NOT_RECORDED = {
    "txhashset_write": "zip state sync, receiving side: needs a second node; alternative to PIBD in the sync state machine",
    "validate_complete_state": "PIBD receiving side with a complete set of segments (a second node)",
    "finalize_bitmap": "PIBD receiving side with cached segments", "apply_output_segments": "PIBD receiving side with cached segments",
    "apply_rangeproof_segments": "PIBD receiving side with cached segments", "apply_kernel_segments": "PIBD receiving side with cached segments",
}


def op_to_fn(op):
    if op.startswith("process_block_") and op != "process_block_header":
        return "process_block"
    if op.startswith("validate_tx"):
        return "validate_tx"
    if op in ("validate_fast", "validate_full"):
        return "validate"
    if op.startswith("segment_"):
        return op[len("segment_"):] + "_segment"
    if op.startswith("deseg_"):
        return op[len("deseg_"):]
    return op


def unrecorded_lock_takers(protos):
    """Public functions of Chain / Segmenter / Desegmenter whose body (or a method of the same type they call)
    takes one of the chain's locks or opens a batch, and for which `h_conc protocols` records nothing."""
    pat = re.compile(r"self\.(header_pmmr|txhashset|pibd_segmenter|pibd_desegmenter)\.(read|write)\(\)|self\.orphans\.(add|remove_by_height)"
                     r"|\.store\.batch\(\)|header_pmmr\.(read|write)\(\)|txhashset\.(read|write)\(\)")
    recorded = {op_to_fn(op) for op in protos}
    missing = {}
    for rel in ("chain/src/chain.rs", "chain/src/txhashset/segmenter.rs", "chain/src/txhashset/desegmenter.rs"):
        try:
            src = open(os.path.join(vlib.REPO, rel)).read()
        except OSError:
            continue
        fns = {}
        for m in re.finditer(r"\n\t(pub )?fn (\w+)", src):
            i = src.find("{", m.end())
            d, j = 0, i
            while j < len(src):
                if src[j] == "{":
                    d += 1
                elif src[j] == "}":
                    d -= 1
                    if d == 0:
                        break
                j += 1
            fns[m.group(2)] = (bool(m.group(1)), src[i:j + 1])
        reach = {n for n, (_, b) in fns.items() if pat.search(b)}
        grew = True
        while grew:
            grew = False
            for n, (_, b) in fns.items():
                if n not in reach and any(re.search(r"self\.%s\(" % x, b) for x in reach):
                    reach.add(n)
                    grew = True
        # a function reached through a recorded one is covered by that recording
        covered = set(recorded)
        grew = True
        while grew:
            grew = False
            for n in list(covered):
                if n in fns:
                    for x in reach:
                        if x not in covered and re.search(r"self\.%s\(" % x, fns[n][1]):
                            covered.add(x)
                            grew = True
        for n in sorted(reach):
            if fns[n][0] and n not in covered:
                missing[n] = rel
    return missing


def lock_model(rep, wd, protos, extra_sections, thorough):
    """Sections of all recorded calls (+ sections observed in the threaded runs) -> TLC."""
    owners = {}
    for op, full in sorted(protos.items()):
        for sec in conclib.sections(full):
            owners.setdefault(json.dumps(sec), []).append(op)
    guarded_uses = sum(1 for full in protos.values() for o, _ in full if o == "use_beg")
    for key, who in sorted(extra_sections.items()):
        owners.setdefault(key, []).extend(w for w in who if w not in owners.get(key, []))
    keys = sorted(owners)
    plist = [[{"op": o, "lock": l} for o, l in json.loads(k)] for k in keys]
    pnames = ["+".join(dict.fromkeys(owners[k])) for k in keys]
    views = [{"op": op, "proto": [{"op": o, "lock": l} for o, l in full]} for op, full in sorted(protos.items())]
    pp, vp = os.path.join(wd, "protos.json"), os.path.join(wd, "views.json")
    json.dump(plist, open(pp, "w"))
    json.dump(views, open(vp, "w"))
    r1 = vlib.tlc("mc/MC_Locks", "mc/MC_Locks_t" if thorough else "mc/MC_Locks", workers=4, coverage=False,
                  env={"PROTOS": pp, "VIEWS": vp}, timeout=3000, xmx="8g")
    replay = {"protocols": {k: v for k, v in protos.items() if v}, "sections": dict(zip(pnames, plist))}
    if "ViewsRecorded" in r1.invariant_violated:
        print(r1.out[-1500:])
        raise ToolError("Locks.tla: an operation of the view table has no recorded protocol")
    if "GuardedOK" in r1.invariant_violated:
        for op, res in sorted(set(re.findall(r'"UNGUARDED-USE", "(\w+)", "(\w+)"', r1.out))) or [("?", "?")]:
            rep.violation("locks:unguarded_use:%s:%s" % (res, op), dict(replay, op=op, protocol=protos.get(op)),
                          "%s uses %s while it does not hold the lock(s) guarding it: %s"
                          % (op, res, " ".join("%s:%s" % (a, b) for a, b in protos.get(op, []))))
        r1 = vlib.tlc("mc/MC_Locks", "mc/MC_Locks_nv", workers=4, coverage=False, env={"PROTOS": pp, "VIEWS": vp}, timeout=3000, xmx="8g")
    if "ViewsOK" in r1.invariant_violated:
        ops = sorted(set(re.findall(r'"VIEW-SPLIT", "(\w+)"', r1.out))) or ["?"]
        for op in ops:
            rep.violation("locks:view_split:%s" % op, dict(replay, op=op, protocol=protos.get(op)),
                          "%s does not hold the locks of its view together / takes one of them more than once: %s"
                          % (op, " ".join("%s:%s" % (a, b) for a, b in protos.get(op, []))))
        # TLC stops at the first violated invariant: look at the deadlock clause on its own
        r1 = vlib.tlc("mc/MC_Locks", "mc/MC_Locks_nv", workers=4, coverage=False, env={"PROTOS": pp, "VIEWS": vp}, timeout=3000, xmx="8g")
    if "NoDeadlock" in r1.invariant_violated:
        rep.violation(conclib.deadlock_signature(dict(zip(pnames, [json.loads(k) for k in keys]))), dict(replay, tlc=r1.out[-3000:]),
                      "the recorded lock protocols admit a deadlock under fair RwLock semantics")
    elif not r1.finished and not r1.invariant_violated:
        print(r1.out[-3000:])
        raise ToolError("MC_Locks did not complete")
    return r1, plist, pnames, guarded_uses


def chainconc_models():
    mcs = []
    for cfg in ["mc/MC_ChainConc_A", "mc/MC_ChainConc_B", "mc/MC_ChainConc_evict"]:
        r = vlib.tlc("mc/MC_ChainConc", cfg, workers=3, coverage=False, timeout=1800)
        if r.invariant_violated or r.property_violated or not r.finished:
            print(r.out[-3000:])
            raise ToolError("ChainConc.tla violates its safety invariants in the model (%s)" % cfg)
        mcs.append({"config": cfg, "distinct_states": r.distinct, "states_generated": r.generated})
    # check_orphan's decision and its orphan-pool insertion are separate steps in the model; with the
    # re-check after the insertion no block may be left stranded: FinalSequential under every interleaving
    rr = vlib.tlc("mc/MC_ChainConc", "mc/MC_ChainConc_race", workers=3, coverage=False, timeout=900)
    if rr.invariant_violated or not rr.finished:
        print(rr.out[-2500:])
        raise ToolError("ChainConc.tla violates FinalSequential in the model")
    mcs.append({"config": "mc/MC_ChainConc_race", "distinct_states": rr.distinct, "states_generated": rr.generated})
    return mcs


def hfo_probe(wd):
    """Single-threaded directed probe, EVIDENCE ONLY (an observation outside the listed properties, DESIGN 9.3):
    get_header_for_output while the header head is on another fork than the body head looks the output's height
    up in the header MMR and answers with the other fork's header.  C17 speaks about concurrency; the trace
    spec models the lookup as coded and decides only that both parts of the view come from one committed state."""
    p = subprocess.run([BIN(), "hfo", "--work", os.path.join(wd, "hfo")], stdout=subprocess.PIPE, stderr=subprocess.PIPE, text=True, timeout=600)
    if p.returncode != 0 or not p.stdout.strip():
        return {"error": "probe failed to run"}
    return json.loads(p.stdout.strip().splitlines()[-1])


def run(tier, replay):
    rep = Report(PID, tier, "model_checking")
    wd = vlib.workdir(PID, clean=True)
    thorough = tier == "thorough"
    if replay:
        obj = json.load(open(replay))
        inner = obj.get("case") or {}
        if isinstance(inner.get("case"), dict):
            case = inner["case"]
            outs = run_real(wd, [case], vlib.seed(), delay_us=40000 if inner.get("tag") == "delay" else 0, tag="replay")
            check_outputs(rep, [case], outs, wd, "replay")
        else:
            protos, ppanics, _ = record_protocols(wd)
            for op in ppanics:
                rep.violation("conc:panic:%s" % op, {"op": op}, "single-threaded call panicked")
            lock_model(rep, wd, protos, {}, False)
        rep.coverage = {"states": 1, "transitions": 1, "traces_validated_against_impl": 1, "samples": [obj["signature"]]}
        return rep.finish()

    t0 = time.time()
    tm = {}
    pool = cf.ThreadPoolExecutor(max_workers=6)
    # independent preparations side by side: protocol recording (one harness process), behaviour generation
    # (TLC simulation), the ChainConc models (TLC)
    f_protos = pool.submit(record_protocols, wd)
    n = 120 if thorough else 14
    f_behs = pool.submit(chainlib.gen_sim, "mc/MC_Chain_simemit", n * 2, vlib.seed(), 4, 60, 1500)
    f_mcs = pool.submit(chainconc_models)
    # (M1) recorded lock protocols -> TLC deadlock check, as soon as they are recorded
    f_locks = pool.submit(lambda: lock_model(rep, wd, f_protos.result()[0], {}, thorough))
    # compaction under threads: its own harness process, next to the main runs
    nc = 6 if thorough else 1

    def compaction_runs():
        cb, _ = chainlib.gen_sim("mc/MC_Chain_simemit_compact", nc * 2, vlib.seed(), 2, 60, 1500)
        sc = compaction_scenarios(cb)[:nc]
        return sc, (run_real(wd, sc, vlib.seed(), tag="compact") if sc else [])
    f_comp = pool.submit(compaction_runs)

    # (B) real threads, TLC-generated trees and delivery multisets
    behs, _ = f_behs.result()
    tm["gen"] = round(time.time() - t0, 1)
    scen = make_scenarios(behs)[:n]
    if len(scen) < 4:
        raise ToolError("too few scenarios")
    # ... and the orphan flood: more candidates than the pool holds (thorough: two more, one at the exact capacity)
    floods = [flood_scenario(210, vlib.seed())] + ([flood_scenario(201, vlib.seed() + 1), flood_scenario(260, vlib.seed() + 2)] if thorough else [])
    scen_all = scen + floods
    outs = run_real(wd, scen_all, vlib.seed())
    tm["run"] = round(time.time() - t0, 1)

    # directed schedules (harness processes, next to the trace validations): slow orphan-pool insertion in the
    # generated scenarios; the schedule that exposed the insertion window on the real code (slow pool insertion of
    # the child while the parent is accepted by another thread) must not strand the child; the evidence-only probe
    def directed():
        o2 = run_real(wd, scen[: (40 if thorough else 6)], vlib.seed() + 1, delay_us=40000, tag="delay")
        rr = []
        for i in range(3 if thorough else 1):
            p = subprocess.run([BIN(), "race", "--work", os.path.join(wd, "race"), "--delay-us", str(600000 + 150000 * i)],
                               stdout=subprocess.PIPE, stderr=subprocess.PIPE, text=True, timeout=600)
            if p.returncode != 0 or not p.stdout.strip():
                print(p.stdout[-1000:], p.stderr[-1000:])
                raise ToolError("race probe failed to run")
            rr.append(json.loads(p.stdout.strip().splitlines()[-1]))
        return o2, rr, hfo_probe(wd)
    f_directed = pool.submit(directed)

    scen_c, outs_c = f_comp.result()
    if not scen_c:
        raise ToolError("no compaction scenario generated")
    tm["compact_run"] = round(time.time() - t0, 1)
    # sections observed per call under threads (named chain locks and the LMDB writer) join the lock model
    observed = {}
    for case, out in zip(scen_all + scen_c, outs + outs_c):
        if out.get("deadlock"):
            continue
        for kind, secs in conclib.observed_sections(out).items():
            for sec in secs:
                who = observed.setdefault(json.dumps(sec), [])
                if "B:" + kind not in who:
                    who.append("B:" + kind)

    protos, ppanics, not_ok = f_protos.result()
    for op in ppanics:
        rep.violation("conc:panic:%s" % op, {"op": op}, "single-threaded call panicked")
    if not_ok:
        raise ToolError("protocol recording: these calls did not take the branch they are meant to record: %s" % not_ok)
    unrec = unrecorded_lock_takers(protos)
    unknown = sorted(x for x in unrec if x not in NOT_RECORDED)
    if unknown:
        raise ToolError("public functions that take chain locks but have no recorded lock protocol (extend `h_conc protocols`): %s" % unknown)
    # every acquisition order observed per call under threads must be one of the recorded sections; one that is
    # not joins the lock model (second TLC run, only then)
    recorded_secs = {json.dumps(sec) for full in protos.values() for sec in conclib.sections(full)}
    new_in_b = sorted(k for k in observed if k not in recorded_secs)
    f_locks2 = pool.submit(lock_model, rep, wd, protos, {k: observed[k] for k in new_in_b}, thorough) if new_in_b else None

    st = check_outputs(rep, scen_all + scen_c, outs + outs_c, wd, "run")
    # (evidence) how many of the compaction scenarios really compacted: the Compact call has a write section
    st["compactions_with_a_section"] = sum(
        1 for c, o in zip(scen_c, outs_c) if not o.get("deadlock") and any(
            e.get("k") == "Sec" and e.get("t") == len(c["threads"]) for e in conclib.linearise(c, o)[0]))
    tm["traces"] = round(time.time() - t0, 1)
    # anti-vacuity: corrupted observations must be rejected by the trace spec
    selftests = 0
    if not rep.violations and not rep.known_hit:
        def corrupt(kind, f):
            bad = json.loads(json.dumps(outs[0]))
            for c in bad["calls"]:
                if c.get("k") == kind and f(c):
                    return bad
            return None
        def c_res(c):
            if c["res"] in ("ok_head", "ok_fork"):
                c["res"] = "reject"
                return True
        def c_hdr(c):
            c["id"] = 0 if c["id"] != 0 else 1
            return True
        bads = [b for b in (corrupt("ProcessBlock", c_res), corrupt("HdrAt", c_hdr), corrupt("HdrOf", c_hdr)) if b]
        if not thorough:
            bads = [bads[vlib.seed() % len(bads)]]
        with cf.ThreadPoolExecutor(max_workers=3) as ex:
            res = list(ex.map(lambda x: validate_trace(wd, scen[0], x[1], x[0], rep, "selftest"), list(enumerate(bads))))
        for ok, _, _, _ in res:
            selftests += 1
            if ok:
                raise ToolError("self-test: a corrupted observation was accepted by ChainConcTrace")
    # every kind of observation must have been made (else the corresponding trace action was never exercised)
    empty = [k for k in ("sections", "reads", "heads", "vtx", "scans", "hdr_at", "hdr_of") if st[k] == 0]
    if empty and not rep.violations:
        raise ToolError("no observation of kind(s) %s in %d runs" % (empty, st["runs"]))
    outs2, race_runs, hfo = f_directed.result()
    st2 = check_outputs(rep, scen[: len(outs2)], outs2, wd, "delay", validate=False)
    for o in race_runs:
        if o.get("stranded"):
            rep.violation("conc:orphan_stranded:parent_accepted_before_insertion", {"probe": "race", "outcome": o},
                          "directed schedule: the child stays in the orphan pool although its parent body is stored (head %s)" % o.get("head_height"))
    tm["directed"] = round(time.time() - t0, 1)

    r1, plist, pnames, guarded_uses = f_locks.result()
    if f_locks2 is not None:
        r1, plist, pnames, guarded_uses = f_locks2.result()
    mcs = f_mcs.result()
    tm["models"] = round(time.time() - t0, 1)
    pool.shutdown()

    rep.coverage = {
        "states": r1.distinct + sum(m["distinct_states"] for m in mcs),
        "transitions": r1.generated + sum(m["states_generated"] for m in mcs),
        "traces_validated_against_impl": st["accepted"],
        "samples": [{"protocol_process_block_next": protos.get("process_block_next"), "protocol_validate_tx_nrd": protos.get("validate_tx_nrd")},
                    {"scenario_threads": scen[0]["threads"], "final": outs[0].get("final")}],
        "operations_recorded": len(protos), "lock_sections_distinct": len(plist),
        "lock_taking_public_functions_not_recorded": {n: NOT_RECORDED[n] for n in sorted(unrec)},
        "lock_model": {"distinct_states": r1.distinct, "threads": 3},
        "guarded_resource_spans_recorded": guarded_uses,     # 0 = the tree has no txfiles hook (hooks/conc.patch): GuardedOK is vacuous
        "sections_observed_under_threads": len(observed), "sections_observed_but_not_recorded": [json.loads(k) for k in new_in_b],
        "chainconc_models": mcs, "directed_orphan_race_probe": race_runs, "observations_outside_the_properties": {"get_header_for_output_with_header_head_on_other_fork": hfo},
        "real_runs": st, "compaction_scenarios": len(scen_c), "directed_delay_runs": st2, "orphan_flood": [{"blocks": len(f["tree"]), "final_pool": len(o["final"]["orph"]) if not o.get("deadlock") else None}
                                                                      for f, o in zip(floods, outs[len(scen):])],
        "trace_selftests_rejected": selftests,
        "sections_by_operation": pnames, "phase_seconds": tm,
    }
    rep.assumptions = ["schedules are those produced by seeded perturbation at lock points plus one directed delay; no claim of exhaustive interleaving of the real code",
                       "parking_lot RwLock modelled as fair (readers block while a writer waits)",
                       "lock protocols are recorded from one call per operation and branch on an 84-block chain, plus the per-call sections observed in the threaded runs (other data-dependent variants are not in the lock model)",
                       "desegmenter operations are recorded on a desegmenter without cached segments; txhashset_write (zip state sync, receiving side) is outside the lock model; of the network adapter only locate_headers / find_common_header (the holders of a chain lock handle) are recorded, through their extracted source text",
                       "SKIP_POW, AutomatedTesting; NoopAdapter"]
    return rep.finish()
