"""C03 — head is the most-work validated chain, whatever the arrival order (spec/Chain.tla)."""
from checks._chain_check import run_chain_check
PID = "C03"
ENGINES = ["chain"]


def run(tier, replay):
    return run_chain_check(PID, tier, replay,
                           mc_quick=["mc/MC_Chain_confluence"], mc_thorough=["mc/MC_Chain_confluence_t"],
                           sim_cfg="mc/MC_Chain_simemit_conf", n_quick=200, n_thorough=2500,
                           focus="HeadValidated / HeadMaxWork / HeadMonotone / Confluence / OrphansRetried: exhaustive over every fork tree of 4 (thorough 5) blocks with difficulties {1,2}, headers first, bodies in every order with duplicates; replay of random 7-block trees with 18 deliveries compares head, header head, orphan pool, stored sets after every delivery and the state roots with a twin that saw only the winning chain",
                           extra_sims=[("mc/MC_Chain_simemit_deep", 16, 120), ("mc/MC_Chain_simemit_orphans", 60, 600)],
                           assumptions=["headers are delivered before bodies (as the property states); orphan capacity not reached"])
