"""C03 — head is the most-work validated chain, whatever the arrival order (spec/Chain.tla)."""
from checks._chain_check import run_chain_check
PID = "C03"
ENGINES = ["chain"]

NEED = {
    "ProcessBlock:ok_head": 300, "ProcessBlock:ok_fork": 100, "ProcessBlock:orphan": 200, "ProcessBlock:known": 100,
    "notes:next": 200, "notes:fork": 100, "notes:reorg": 30, "notes:retried_orphan": 50, "rewound:block": 30,
    "SyncHeaders:ok": 5,
}


def run(tier, replay):
    return run_chain_check(PID, tier, replay,
                           mc_quick=["mc/MC_Chain_confluence"], mc_thorough=["mc/MC_Chain_confluence_t"],
                           sim_cfg="mc/MC_Chain_simemit_conf", n_quick=200, n_thorough=2500,
                           focus="HeadValidated / HeadMaxWork / HeadMonotone / Confluence / OrphansRetried: exhaustive over every fork tree of 4 (thorough 5) blocks with difficulties {1,2}, headers first, bodies in every order with duplicates; replay of random 7-block trees with 18 deliveries compares head, header head, orphan pool, stored sets after every delivery, the adapter notifications of every delivery (one block_accepted per accepted block incl. retried orphans, in order; Fork iff the block did not become the head, with its fork point) and the state roots with a twin that saw only the winning chain",
                           extra_sims=[("mc/MC_Chain_simemit_deep", 16, 120), ("mc/MC_Chain_simemit_orphans", 60, 600)],
                           assumptions=["headers are delivered before bodies (as the property states); orphan capacity not reached",
                                        "of the notification status only Fork-vs-head and the fork point of a Fork are verdicts; Next-vs-Reorg is computed by the code against the header chain (DESIGN 9.3) and stays an observation"],
                           need=NEED)
