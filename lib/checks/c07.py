"""C07 — MMR roots, positions and Merkle proofs follow the MMR definition (spec/MMR.tla)."""
import json, os
import vlib
from vlib import Report, ToolError, log
from checks import _c07_closed as closed

PID = "C07"
ENGINES = ["mmr"]


def validate_trace(rep, trace_path, what):
    r = vlib.tlc("trace/MMRTrace", workers=1, coverage=False, env={"TRACE": trace_path}, xss="1g", xmx="4g", timeout=1500)
    if r.finished:
        return True, r
    if "TRACE-REJECTED" in r.out:
        line = [x for x in r.out.splitlines() if "TRACE-REJECTED" in x][0]
        return False, line
    print(r.out[-4000:])
    raise ToolError("MMRTrace failed without a verdict (%s)" % what)


def run(tier, replay):
    rep = Report(PID, tier, "model_checking")
    wd = vlib.workdir(PID, clean=True)
    thorough = tier == "thorough"
    if replay:
        obj = json.load(open(replay))
        case = obj["case"]
        if case.get("kind") == "trace":
            ok, info = validate_trace(rep, case["trace"], "replay")
            if not ok:
                rep.violation(obj["signature"], case, str(info))
        elif case.get("kind") == "huge":
            hp = os.path.join(wd, "huge.ndjson")
            vlib.harness(["mmr", "huge", "--out", hp, "--p", case["event"]["p"]])
            for ev in vlib.read_ndjson(hp):
                for f, want, real in closed.compare(ev):
                    rep.violation(obj["signature"], case, json.dumps({"p": ev["p"], "field": f, "closed_form": want, "real": real}))
        elif case.get("kind") == "history":
            p = os.path.join(wd, "replay_cases.ndjson")
            vlib.write_ndjson(p, [case["case"]])
            outp = os.path.join(wd, "replay_out.ndjson")
            vlib.harness(["mmr", "rewind", "--cases", p, "--out", outp])
            for r in vlib.read_ndjson(outp):
                for mm in r["mismatches"]:
                    rep.violation(obj["signature"], case, json.dumps(mm))
        else:
            # the views at earlier leaf counts are compared with the cases of those leaf counts: regenerate the
            # (deterministic) case list and re-execute only the saved one
            e = vlib.tlc("mc/MC_MMR", "mc/MC_MMR_emit_thorough" if case["case"]["nl"] > 34 else "mc/MC_MMR_emit",
                         workers=1, coverage=False, timeout=1500)
            vlib.tlc_ok(e, "MC_MMR emit")
            allc = [json.loads(x) for x in e.printed("MMRCASE")]
            if "nodes" not in case["case"]:
                allc = []
            allc = [c for c in allc if c["nl"] != case["case"]["nl"]] + [case["case"]]
            p = os.path.join(wd, "replay_cases.ndjson")
            vlib.write_ndjson(p, allc)
            outp = os.path.join(wd, "replay_out.ndjson")
            vlib.harness(["mmr", "replay", "--cases", p, "--out", outp, "--only", case["case"]["nl"]])
            for r in vlib.read_ndjson(outp):
                for mm in r["mismatches"]:
                    rep.violation(obj["signature"], case, json.dumps(mm))
        rep.coverage = {"states": 1, "transitions": 1, "traces_validated_against_impl": 1, "samples": [obj["signature"]]}
        return rep.finish()

    # (M) closed forms = construction, proof soundness on symbolic terms
    cfg = "mc/MC_MMR_thorough" if thorough else "mc/MC_MMR"
    r = vlib.tlc("mc/MC_MMR", cfg, workers=4, timeout=3000)
    if r.invariant_violated:
        # The specification's transcription disagrees with its own construction: the model is
        # wrong (or a closed form in the code is, which direction B decides). Never a verdict.
        print(r.out[-3000:])
        raise ToolError("MMR.tla invariant %s violated inside the model" % r.invariant_violated)
    vlib.tlc_ok(r, "MC_MMR")
    states, trans = r.distinct, r.generated

    # (A) spec-generated roots and proofs against the real PMMR / MerkleProof::verify
    e = vlib.tlc("mc/MC_MMR", "mc/MC_MMR_emit_thorough" if thorough else "mc/MC_MMR_emit", workers=1, coverage=False, timeout=1500)
    vlib.tlc_ok(e, "MC_MMR emit")
    cases = [json.loads(x) for x in e.printed("MMRCASE")]
    if len(cases) < 10:
        raise ToolError("too few MMR cases emitted")
    # ... and MMRs of 63..260 leaves (6..9 peaks, subtrees of height 6..8): root, peaks and a few proofs each
    eb = vlib.tlc("mc/MC_MMRBig", "mc/MC_MMR_emit_big", workers=1, coverage=False, timeout=1500, xss="512m")
    if eb.invariant_violated:
        print(eb.out[-3000:])
        raise ToolError("MMR.tla invariant %s violated inside the model (big sizes)" % eb.invariant_violated)
    vlib.tlc_ok(eb, "MC_MMRBig emit")
    bigc = [json.loads(x) for x in eb.printed("MMRBIG")]
    if len(bigc) < 10:
        raise ToolError("too few big MMR cases emitted")
    cases += bigc
    cp = os.path.join(wd, "cases.ndjson")
    vlib.write_ndjson(cp, cases)
    outp = os.path.join(wd, "replay_out.ndjson")
    vlib.harness(["mmr", "replay", "--cases", cp, "--out", outp])
    res = vlib.read_ndjson(outp)
    checks = 0
    terms = 0
    for c, rr in zip(cases, res):
        checks += rr["checks"]
        terms = max(terms, rr.get("terms", 0))
        for mm in rr["mismatches"]:
            sig = "mmr:replay:%s" % mm["what"] + (":" + mm["class"].split(":")[0] if "class" in mm else "")
            rep.violation(sig, {"kind": "case", "case": c, "mismatch": mm}, json.dumps(mm))

    # (M'+A') pushes and rewinds: the state is always the MMR of its leaf count (RewindIsPrefix, exhaustive to 40
    # leaves); TLC-simulated push/rewind histories are executed on a data-carrying and a hash-only VecBackend
    rw = vlib.tlc("mc/MC_MMRRewind", "mc/MC_MMR_rewind", workers=4, coverage=False, timeout=1500)
    if rw.invariant_violated:
        print(rw.out[-3000:])
        raise ToolError("MMR.tla invariant %s violated inside the model (rewind configuration)" % rw.invariant_violated)
    vlib.tlc_ok(rw, "MC_MMR_rewind")
    states += rw.distinct
    trans += rw.generated
    hs = vlib.tlc("mc/MC_MMRRewind", "mc/MC_MMR_rwsim", workers=1, coverage=False, simulate=400 if thorough else 120, depth=24,
                  seed_=vlib.seed(), timeout=1500)
    hists = [json.loads(x) for x in dict.fromkeys(hs.printed("MMRHIST"))]
    with_rewind = [h for h in hists if any(o["op"] == "rewind" for o in h["ops"])]
    if len(with_rewind) < 10:
        raise ToolError("too few push/rewind histories emitted")
    hp = os.path.join(wd, "hists.ndjson")
    vlib.write_ndjson(hp, hists)
    hout = os.path.join(wd, "hists_out.ndjson")
    vlib.harness(["mmr", "rewind", "--cases", hp, "--out", hout])
    hchecks = 0
    for h, rr in zip(hists, vlib.read_ndjson(hout)):
        hchecks += rr["checks"]
        for mm in rr["mismatches"]:
            rep.violation("mmr:history:%s:%s" % (mm["what"], mm.get("kind", "-")), {"kind": "history", "case": h, "mismatch": mm}, json.dumps(mm))

    # (B) recorded return values of the real position arithmetic against the construction
    leaves = 2100 if thorough else 600
    big = 3000 if thorough else 400
    tp = os.path.join(wd, "trace.ndjson")
    p = vlib.harness(["mmr", "record", "--out", tp, "--leaves", leaves, "--big", big, "--seed", vlib.seed()])
    info = json.loads(p.stdout.strip().splitlines()[-1])
    ok, why = validate_trace(rep, tp, "record")
    if not ok:
        keep = os.path.join(vlib.OUT, "replays", "C07_trace_%d.ndjson" % vlib.seed())
        os.makedirs(os.path.dirname(keep), exist_ok=True)
        import shutil
        shutil.copy(tp, keep)
        rep.violation("mmr:trace:rejected", {"kind": "trace", "trace": keep, "rejected": why}, why)

    # (B') positions TLC's 32-bit integers cannot reach (2^30 .. 2^64): MMR.tla's closed forms over unbounded
    # integers (_c07_closed.py, first cross-checked on the Big events that MMRTrace just accepted)
    if ok:
        for ev in vlib.read_ndjson(tp):
            if ev["k"] == "Big" and closed.compare(ev):
                raise ToolError("_c07_closed.py disagrees with MMRTrace on an accepted Big event: %s" % closed.compare(ev)[:1])
    hp = os.path.join(wd, "huge.ndjson")
    vlib.harness(["mmr", "huge", "--out", hp, "--n", 2000 if thorough else 300, "--seed", vlib.seed()])
    huge = vlib.read_ndjson(hp)
    huge_fields = 0
    for ev in huge:
        huge_fields += len(ev) - 2
        for f, want, real in closed.compare(ev):
            rep.violation("mmr:closed_form:%s:%s" % (f, "panic" if real is None else "pos_ge_2^%d" % (ev["p"].bit_length() - 1) if ev["p"] >= 1 << 62 else "pos_ge_2^30"),
                          {"kind": "huge", "event": ev, "field": f, "closed_form": want},
                          json.dumps({"p": ev["p"], "field": f, "closed_form": want, "real": real}))

    rep.coverage = {
        "huge_positions": len(huge), "huge_position_fields_compared": huge_fields,
        "states": states, "transitions": trans,
        "traces_validated_against_impl": 1 + len(cases) + len(hists),
        "push_rewind_histories": len(hists), "histories_with_rewind": len(with_rewind), "history_checks": hchecks,
        "rewind_model": {"config": "mc/MC_MMR_rewind", "states": rw.distinct, "transitions": rw.generated},
        "samples": [{"case": {"nl": cases[2]["nl"], "root": cases[2]["root"], "proof0": cases[2]["proofs"][0]}},
                    {"trace_events": info["events"], "first": vlib.read_ndjson(tp)[:2]}],
        "exhaustive": True,
        "model": {"config": cfg, "leaves": states - 1},
        "replayed_cases": len(cases), "proof_verify_checks": checks,
        "big_cases": [{"nl": c["nl"], "peaks": len(c["peaks"]), "proofs_of_leaves": [x["d"] for x in c["proofs"]]} for c in bigc],
        "independently_hashed_terms": terms,
        "views": {"kinds": ["readonly_at", "rewindable", "pmmr_at", "readonly_pmmr"],
                  "removal_patterns": [x["name"] for x in cases[5]["rms"]],
                  "view_sizes_per_case": "every earlier leaf count",
                  "invariants": ["ViewsOK", "RewindableOK", "ValidateOK", "AnyPosOK"]},
        "trace_events": info["events"], "trace_mmr_size": info["size"],
        "checker_cmd": "tlc mc/MC_MMR; tlc trace/MMRTrace",
    }
    rep.assumptions = ["blake2b-256 (crate blake2-rfc) used as an injective primitive (symbolic terms in the model); the terms are "
                       "evaluated by the harness itself as blake2b(be64(index) || bytes), not through grin_core",
                       "positions >= 2^30: TLC integers are 32-bit, so the closed forms of MMR.tla are evaluated over unbounded "
                       "integers by lib/checks/_c07_closed.py (operator-by-operator transcription, cross-checked against MMRTrace "
                       "on the positions < 2^30); results that do not fit in u64 are not compared",
                       "VecBackend element type is the harness's 16-byte Elem"]
    return rep.finish()
