"""C20 — keys, commitments and range-proof rewind are deterministic and recoverable; blinding algebra; builder.

spec/Keys.tla is a world model / case table and an algebra over key names (cryptographic determinism is
outside TLA+).  TLC (i) checks the transcription of the rewind / view-key / message-format rules, the
blinding identities and the builder's excess/offset bookkeeping against the definitional oracles on every
case inside the bounds and (ii) emits a covering selection of cases; every emitted case is replayed with
>= 5 seeded instantiations against the real keychain / libtx code by harness/keys (h_keys), in parallel
worker processes (static_secp_instance is a global mutex)."""
import json, os, subprocess, time, collections
import vlib
from vlib import Report, ToolError, log

PID = "C20"
ENGINES = ["keys"]
NPROC = 6
INSTS = 5


def run_tlc(cfg, sel, workers=4, coverage=False, timeout=900):
    r = vlib.tlc("mc/MC_Keys", cfg, workers=workers, coverage=coverage, timeout=timeout, env={"KEYS_SEL": str(sel)})
    if r.invariant_violated:
        # the transcription in Keys.tla disagrees with its own oracle: the model is wrong, never a verdict
        print(r.out[-3000:])
        raise ToolError("Keys.tla invariant %s violated inside the model (%s)" % (r.invariant_violated, cfg))
    vlib.tlc_ok(r, cfg)
    cases = []
    for x in r.printed("KCASE"):
        try:
            cases.append(json.loads(x))
        except ValueError:
            raise ToolError("unparsable case line from TLC (%s)" % cfg)
    cases.sort(key=lambda c: json.dumps(c, sort_keys=True))
    return r, cases


def replay(wd, cases, tag, insts=INSTS, nproc=NPROC):
    """Run h_keys replay over the cases in nproc worker processes; returns list of result rows by case index."""
    cp = os.path.join(wd, "cases_%s.ndjson" % tag)
    vlib.write_ndjson(cp, cases)
    procs = []
    n = max(1, min(nproc, len(cases)))
    for s in range(n):
        outp = os.path.join(wd, "out_%s_%d.ndjson" % (tag, s))
        cmd = [os.path.join(vlib.HARNESS_BINDIR, "h_keys"), "replay", "--cases", cp, "--out", outp, "--seed", str(vlib.seed()),
               "--insts", str(insts), "--shard", str(s), "--nshards", str(n)]
        procs.append((subprocess.Popen(cmd, stdout=subprocess.PIPE, stderr=subprocess.PIPE, text=True), outp))
    rows = {}
    for p, outp in procs:
        try:
            so, se = p.communicate(timeout=1500)
        except subprocess.TimeoutExpired:
            p.kill()
            raise ToolError("h_keys replay timeout (%s)" % tag)
        if p.returncode != 0:
            print(so[-2000:], se[-2000:])
            raise ToolError("h_keys replay failed (%s)" % tag)
        for r in vlib.read_ndjson(outp):
            rows[r["i"]] = r
    if len(rows) != len(cases):
        raise ToolError("h_keys replay returned %d rows for %d cases (%s)" % (len(rows), len(cases), tag))
    return [rows[i] for i in range(len(cases))]


def signature(case, mm):
    """Narrow signature computed from the failing event."""
    d = mm.get("detail") or {}
    k = case["kind"]
    what = mm["what"]
    if k == "out":
        a = case["args"]
        base = "keys:%s" % what
        if what == "view_rewind":
            # one signature per (expected, observed, amount class, mode): independent of depths
            return "keys:view_rewind:same_seed=%s:exp=%s:got=%s:amt=%s:mode=%s" % (
                str(d.get("same_seed")).lower(), d.get("exp"), d.get("got"), a["amt"], a["mode"])
        if what == "rewind":
            base += ":rw=%s:same_seed=%s:exp=%s:got=%s" % (d.get("rw"), str(d.get("same_seed")).lower(), d.get("exp"), d.get("got"))
        elif "differs_in" in d:
            base += ":differs_in=%s" % d["differs_in"]
        return "%s:fam=%s:fmt=%s:depth=%d:mode=%s" % (base, a["fam"], a["fmt"], len(a["path"]), a["mode"])
    if k == "alg":
        return "keys:%s:terms=%d" % (what, len(case["terms"]))
    if k == "tx":
        sh = case["shape"]
        return "keys:%s:via=%s:kern=%s:nin=%d:nout=%d" % (what, sh["via"], sh["kern"], len(sh["ins"]), len(sh["outs"]))
    if k == "cb":
        sh = case["shape"]
        return "keys:%s:fam=%s:depth=%d:cbfee=%s" % (what, sh["fam"], sh["depth"], sh["cbfee"])
    return "keys:%s" % what


def judge(rep, cases, rows):
    checks = proofs = 0
    for c, r in zip(cases, rows):
        checks += r["checks"]
        proofs += r["proofs"]
        for mm in r["mismatches"]:
            rep.violation(signature(c, mm), {"case": c, "mismatch": mm, "insts": r["insts"]}, json.dumps(mm)[:600])
    return checks, proofs


def selftest(wd, out_cases):
    """The binding is real: flip one expected class of a good case and require a mismatch."""
    good = [c for c in out_cases if c["args"]["fam"] == c["args"]["fmt"] == "new"]
    if not good:
        raise ToolError("selftest: no honest new-builder case")
    c = json.loads(json.dumps(good[0]))
    for row in c["rew"]:
        row["exp"] = "none" if row["exp"] == "some" else "some"
    rows = replay(wd, [c], "selftest", insts=1, nproc=1)
    n = len([m for m in rows[0]["mismatches"] if m["what"] == "rewind"])
    if n == 0:
        raise ToolError("selftest: corrupted expectations were not noticed by the harness")
    return n


def run(tier, replay_file):
    rep = Report(PID, tier, "exploration")
    wd = vlib.workdir(PID, clean=True)
    thorough = tier == "thorough"
    if replay_file:
        obj = json.load(open(replay_file))
        case = obj["case"]["case"]
        os.environ["VERIF_SEED"] = str(obj.get("seed", vlib.seed()))
        rows = replay(wd, [case], "replay", insts=obj["case"].get("insts", INSTS), nproc=1)
        judge(rep, [case], rows)
        rep.coverage = {"states": 1, "transitions": 1, "traces_validated_against_impl": 1, "samples": [obj["signature"]]}
        return rep.finish()

    sel = vlib.seed() % 1000
    sfx = "_thorough" if thorough else ""
    t0 = time.time()
    tlc = {}
    # (M) model checking of the case table / algebra / builder bookkeeping, and case emission
    r_rw, out_cases = run_tlc("mc/MC_Keys_rewind" + sfx, sel)
    tlc["rewind"] = r_rw
    r_pairs, _ = run_tlc("mc/MC_Keys_pairs" + sfx, sel, coverage=not thorough)
    tlc["pairs"] = r_pairs
    r_alg, alg_cases = run_tlc("mc/MC_Keys_alg" + sfx, sel, coverage=not thorough)
    tlc["alg"] = r_alg
    r_b, b_cases = run_tlc("mc/MC_Keys_builder" + sfx, sel, coverage=True)
    tlc["builder"] = r_b
    t_tlc = time.time() - t0
    # anti-vacuity on the emitted table
    combos = collections.Counter((len(c["args"]["path"]), c["args"]["mode"], c["args"]["fam"]) for c in out_cases if c["args"]["fam"] == c["args"]["fmt"])
    if len(combos) < 20:
        raise ToolError("emitted out-cases do not cover every depth x mode x builder (%d/20)" % len(combos))
    exp_counts = collections.Counter()
    for c in out_cases:
        for row in c["rew"]:
            exp_counts["rew:" + row["exp"]] += 1
        for row in c["view"]:
            exp_counts["view:" + row["exp"]] += 1
            if row["exp"] == "some" and len(row["prefix"]) > 0:
                exp_counts["view:some:child"] += 1
    for k in ("rew:some", "rew:none", "view:some", "view:none", "view:unsupported", "view:some:child"):
        if exp_counts[k] == 0:
            raise ToolError("emitted table never expects %s" % k)
    crafted = [c for c in out_cases if c["args"]["fam"] != c["args"]["fmt"]]
    vias = collections.Counter(c["shape"]["via"] for c in b_cases if c["kind"] == "tx")
    if len(vias) < 4 or not crafted or len(alg_cases) < 50 or not any(c["kind"] == "cb" for c in b_cases):
        raise ToolError("case emission too thin: vias=%s crafted=%d alg=%d" % (dict(vias), len(crafted), len(alg_cases)))
    ac = dict(r_b.action_counts())
    if not thorough:
        for rr in (r_pairs, r_alg):
            for k, v in rr.action_counts().items():
                ac[k] = max(ac.get(k, (0, 0)), v)
    need = ["ShapeAny"] + ([] if thorough else ["OpenAny", "CreateFirst", "CreateMore", "AppendAny"])
    for k in need:
        if not ac.get(k, (0, 0))[0]:
            raise ToolError("spec action %s never taken" % k)

    # (A) replay
    allc = out_cases + alg_cases + b_cases
    for i, c in enumerate(allc):
        c["idx"] = i
    t1 = time.time()
    # interleave kinds so that shards are balanced
    order = sorted(range(len(allc)), key=lambda i: (i * 7919) % len(allc))
    shuffled = [allc[i] for i in order]
    rows = replay(wd, shuffled, "all")
    checks, proofs = judge(rep, shuffled, rows)
    t_replay = time.time() - t1
    flipped = selftest(wd, out_cases)
    p = vlib.harness(["keys", "probe"])
    probe = json.loads(p.stdout.strip().splitlines()[-1])

    kinds = collections.Counter(c["kind"] for c in allc)

    def nontrivial(c):
        if c["kind"] == "out":
            return len(c["args"]["path"]) >= 1 or c["args"]["fam"] != c["args"]["fmt"]
        if c["kind"] == "alg":
            return len(c["terms"]) >= 2 and not c["zero"]
        return True
    distinct = set(json.dumps({k: v for k, v in c.items() if k != "idx"}, sort_keys=True) for c in allc if nontrivial(c))
    states = sum(r.distinct for r in tlc.values())
    trans = sum(r.generated for r in tlc.values())
    rep.coverage = {
        "evaluations": len(allc) * INSTS,
        "distinct_nontrivial": len(distinct),
        "rule": "cases are the states TLC selects from the exhaustively checked Keys.tla tables (selection pseudo-random in VERIF_SEED, always covering depth x mode x builder x amount class); "
                "each is instantiated %d times with seeded wallet seeds / random components / amounts. Distinct = different case record; non-trivial = out-case with depth >= 1 or a foreign message format, "
                "algebra case with >= 2 terms and a non-zero total, every builder / coinbase shape" % INSTS,
        "states": states, "transitions": trans,
        "traces_validated_against_impl": len(allc) * INSTS,
        "samples": [out_cases[0]["args"], crafted[0]["args"], alg_cases[len(alg_cases) // 2]["terms"], [c for c in b_cases if c["kind"] == "tx"][0]["shape"]],
        "exhaustive_within_bounds": True,
        "tlc": {k: {"distinct": r.distinct, "generated": r.generated, "wall_s": round(r.wall, 1)} for k, r in tlc.items()},
        "cases_emitted": dict(kinds), "crafted_format_cases": len(crafted),
        "instantiations_per_case": INSTS, "case_instantiations": len(allc) * INSTS,
        "implementation_checks": checks, "bulletproofs_created": proofs,
        "depth_mode_builder_combinations": len(combos),
        "expected_classes": dict(exp_counts), "builder_entry_points": dict(vias),
        "selftest_flipped_expectations_noticed": flipped,
        "spec_action_counts": {k: list(v) for k, v in ac.items()},
        "outside_quantifier_probe": probe,
        "tlc_wall_s": round(t_tlc, 1), "replay_wall_s": round(t_replay, 1),
        "checker_cmd": "tlc mc/MC_Keys (rewind, pairs, alg, builder configs); h_keys replay",
    }
    rep.assumptions = [
        "HMAC-SHA512 / blake2b / secp256k1 / bulletproofs are primitives: distinct names in Keys.tla stand for distinct values (injectivity), public and private BIP32 derivation commute",
        "the free abelian group over key names models scalar arithmetic mod n (independent random keys satisfy no relation)",
        "component / amount classes: {0,1,2^31-1,2^31,2^32-1}(+random normal/hardened in thorough) and {0,1,60 grin,2^63,2^64-1}(+random); other values only through the random classes",
        "a zero total of a blinding sum is left free (the code answers Err(InvalidSecretKey)); identifiers with a depth byte > 4 are outside the quantifier (derive_key panics there, see outside_quantifier_probe)",
        "view keys: for the regular switch commitment the code answers Err (not implemented in view_key.rs); accepted as 'recovers nothing', an exact triple would also be accepted",
        "randomness inside build::transaction / aggsig (thread_rng) is not controlled by VERIF_SEED",
    ]
    return rep.finish()
