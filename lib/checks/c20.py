"""C20 — keys, commitments and range-proof rewind are deterministic and recoverable; blinding algebra; builder.

spec/Keys.tla is a world model / case table and an algebra over key names (cryptographic determinism is
outside TLA+).  TLC (i) checks the transcription of the rewind / view-key / message-format rules (incl.
malformed headers, identifier padding, extra data, Keychain::sign), the blinding identities (incl. zero
operands), the builder's excess/offset bookkeeping (single signer and the two-party exchange with partial
signatures) and the identity of wallets made by different constructors (seed bytes of 16/32/64 bytes,
mnemonic + passphrase, master-key masking) against the definitional oracles on every case inside the
bounds and (ii) emits a covering selection of cases; every emitted case is replayed with
>= 5 seeded instantiations against the real keychain / libtx code by harness/keys (h_keys), in parallel
worker processes (static_secp_instance is a global mutex)."""
import json, os, subprocess, time, collections
import vlib
from vlib import Report, ToolError, log

PID = "C20"
ENGINES = ["keys"]
NPROC = 6
INSTS = 5


def run_tlc(cfg, sel, workers=4, coverage=False, timeout=900):
    r = vlib.tlc("mc/MC_Keys", cfg, workers=workers, coverage=coverage, timeout=timeout, env={"KEYS_SEL": str(sel)})
    if r.invariant_violated:
        # the transcription in Keys.tla disagrees with its own oracle: the model is wrong, never a verdict
        print(r.out[-3000:])
        raise ToolError("Keys.tla invariant %s violated inside the model (%s)" % (r.invariant_violated, cfg))
    vlib.tlc_ok(r, cfg)
    cases = []
    for x in r.printed("KCASE"):
        try:
            cases.append(json.loads(x))
        except ValueError:
            raise ToolError("unparsable case line from TLC (%s)" % cfg)
    cases.sort(key=lambda c: json.dumps(c, sort_keys=True))
    return r, cases


def replay(wd, cases, tag, insts=INSTS, nproc=NPROC):
    """Run h_keys replay over the cases in nproc worker processes; returns list of result rows by case index."""
    cp = os.path.join(wd, "cases_%s.ndjson" % tag)
    vlib.write_ndjson(cp, cases)
    procs = []
    n = max(1, min(nproc, len(cases)))
    for s in range(n):
        outp = os.path.join(wd, "out_%s_%d.ndjson" % (tag, s))
        cmd = [os.path.join(vlib.HARNESS_BINDIR, "h_keys"), "replay", "--cases", cp, "--out", outp, "--seed", str(vlib.seed()),
               "--insts", str(insts), "--shard", str(s), "--nshards", str(n)]
        procs.append((subprocess.Popen(cmd, stdout=subprocess.PIPE, stderr=subprocess.PIPE, text=True), outp))
    rows = {}
    for p, outp in procs:
        try:
            so, se = p.communicate(timeout=1500)
        except subprocess.TimeoutExpired:
            p.kill()
            raise ToolError("h_keys replay timeout (%s)" % tag)
        if p.returncode != 0:
            print(so[-2000:], se[-2000:])
            raise ToolError("h_keys replay failed (%s)" % tag)
        for r in vlib.read_ndjson(outp):
            rows[r["i"]] = r
    if len(rows) != len(cases):
        raise ToolError("h_keys replay returned %d rows for %d cases (%s)" % (len(rows), len(cases), tag))
    return [rows[i] for i in range(len(cases))]


def signature(case, mm):
    """Narrow signature computed from the failing event."""
    d = mm.get("detail") or {}
    k = case["kind"]
    what = mm["what"]
    if k == "out":
        a = case["args"]
        base = "keys:%s" % what
        if what == "view_rewind":
            # one signature per (expected, observed, amount class, mode): independent of depths
            return "keys:view_rewind:same_seed=%s:exp=%s:got=%s:amt=%s:mode=%s" % (
                str(d.get("same_seed")).lower(), d.get("exp"), d.get("got"), a["amt"], a["mode"])
        if what == "rewind":
            base += ":rw=%s:same_seed=%s:exp=%s:got=%s" % (d.get("rw"), str(d.get("same_seed")).lower(), d.get("exp"), d.get("got"))
        elif what in ("extra_verify", "extra_rewind"):
            # independent of path / mode / generation
            return base + ":created=%s:with=%s:exp=%s:got=%s" % (d.get("created"), d.get("with"), d.get("exp"), d.get("got"))
        elif what == "rewind_on_other_commit":
            base += ":differs_in=%s:got=%s" % (d.get("differs_in"), d.get("got"))
        elif what == "sign_does_not_verify":
            return "keys:sign_does_not_verify:amt=%s:mode=%s" % (a["amt"], a["mode"])
        elif "differs_in" in d:
            base += ":differs_in=%s" % d["differs_in"]
        return "%s:fam=%s:fmt=%s:depth=%d:mode=%s" % (base, a["fam"], a["fmt"], len(a["path"]), a["mode"])
    if k == "alg":
        if what == "alg_zero_plus_zero":
            return "keys:alg_zero_plus_zero"        # does not depend on the expression
        return "keys:%s:terms=%d" % (what, len(case["terms"]))
    if k == "tx":
        sh = case["shape"]
        if sh["via"] == "exchange":
            # the interactive path: one signature per failing step (which step fails does not depend on the shape)
            return "keys:%s:via=exchange" % what
        return "keys:%s:via=%s:kern=%s:nin=%d:nout=%d" % (what, sh["via"], sh["kern"], len(sh["ins"]), len(sh["outs"]))
    if k == "pair":
        return "keys:%s:fam=%s:got=%s" % (what, case["a"]["fam"], d.get("got"))
    if k == "wal":
        sig = "keys:%s:class=%s:same=%s" % (what, case["class"], str(case["same"]).lower())
        if what == "wallet_rewind":
            sig += ":got=%s" % d.get("got")
        return sig
    if k == "cb":
        sh = case["shape"]
        return "keys:%s:fam=%s:depth=%d:cbfee=%s" % (what, sh["fam"], sh["depth"], sh["cbfee"])
    return "keys:%s" % what


OBSERVED = {}


def judge(rep, cases, rows):
    checks = proofs = 0
    for c, r in zip(cases, rows):
        checks += r["checks"]
        proofs += r["proofs"]
        seen = set()
        for mm in r["mismatches"]:
            # View-key answers on CRAFTED messages (a format no builder writes: depth byte above / below the real
            # depth, byte 0) are left free by the property, which speaks about outputs created by the wallet's own
            # builders; the model does not predict them (padding can switch a view key between none, unsupported and
            # a match there). Counted as an observation, never a verdict.
            if mm.get("what") == "view_rewind" and c.get("kind") == "out" and c["args"]["fam"] != c["args"]["fmt"]:
                OBSERVED["view_rows_on_crafted_messages_not_compared"] = OBSERVED.get("view_rows_on_crafted_messages_not_compared", 0) + 1
                continue
            # one violation per case and signature (the instantiations of one case repeat it)
            sig = signature(c, mm)
            if sig in seen:
                continue
            seen.add(sig)
            rep.violation(sig, {"case": c, "mismatch": mm, "insts": r["insts"]}, json.dumps(mm)[:600])
    return checks, proofs


def selftest(wd, out_cases):
    """The binding is real: flip one expected class of a good case and require a mismatch."""
    good = [c for c in out_cases if c["args"]["fam"] == c["args"]["fmt"] == "new"]
    if not good:
        raise ToolError("selftest: no honest new-builder case")
    c = json.loads(json.dumps(good[0]))
    for row in c["rew"]:
        row["exp"] = "none" if row["exp"] == "some" else "some"
    rows = replay(wd, [c], "selftest", insts=1, nproc=1)
    n = len([m for m in rows[0]["mismatches"] if m["what"] == "rewind"])
    if n == 0:
        raise ToolError("selftest: corrupted expectations were not noticed by the harness")
    return n


def run(tier, replay_file):
    rep = Report(PID, tier, "exploration")
    wd = vlib.workdir(PID, clean=True)
    thorough = tier == "thorough"
    if replay_file:
        obj = json.load(open(replay_file))
        case = obj["case"]["case"]
        os.environ["VERIF_SEED"] = str(obj.get("seed", vlib.seed()))
        rows = replay(wd, [case], "replay", insts=obj["case"].get("insts", INSTS), nproc=1)
        judge(rep, [case], rows)
        rep.coverage = {"states": 1, "transitions": 1, "traces_validated_against_impl": 1, "samples": [obj["signature"]]}
        return rep.finish()

    sel = vlib.seed() % 1000
    sfx = "_thorough" if thorough else ""
    t0 = time.time()
    tlc = {}
    # (M) model checking of the case table / algebra / builder bookkeeping, and case emission
    r_rw, out_cases = run_tlc("mc/MC_Keys_rewind" + sfx, sel)
    tlc["rewind"] = r_rw
    # malformed message headers (byte 0, depth byte above 4 / below the real depth) + the padding and
    # extra-data invariants on a configuration with fewer component classes
    r_cr, craft_cases = run_tlc("mc/MC_Keys_craft" + sfx, sel)
    tlc["craft"] = r_cr
    out_cases = out_cases + craft_cases
    r_pairs, pair_cases = run_tlc("mc/MC_Keys_pairs" + sfx, sel, coverage=not thorough)
    tlc["pairs"] = r_pairs
    r_alg, alg_cases = run_tlc("mc/MC_Keys_alg" + sfx, sel, coverage=not thorough)
    tlc["alg"] = r_alg
    # builder shapes (single signer + two-party exchange) and the wallet-constructor pairs share one run
    r_b, bw_cases = run_tlc("mc/MC_Keys_builder" + sfx, sel, coverage=True)
    tlc["builder"] = r_b
    b_cases = [c for c in bw_cases if c["kind"] in ("tx", "cb")]
    wal_cases = [c for c in bw_cases if c["kind"] == "wal"]
    t_tlc = time.time() - t0
    # anti-vacuity on the emitted table
    combos = collections.Counter((len(c["args"]["path"]), c["args"]["mode"], c["args"]["fam"]) for c in out_cases if c["args"]["fam"] == c["args"]["fmt"])
    if len(combos) < 20:
        raise ToolError("emitted out-cases do not cover every depth x mode x builder (%d/20)" % len(combos))
    exp_counts = collections.Counter()
    for c in out_cases:
        for row in c["rew"]:
            exp_counts["rew:" + row["exp"]] += 1
        for row in c["view"]:
            exp_counts["view:" + row["exp"]] += 1
            if row["exp"] == "some" and len(row["prefix"]) > 0:
                exp_counts["view:some:child"] += 1
    for k in ("rew:some", "rew:none", "view:some", "view:none", "view:unsupported", "view:some:child"):
        if exp_counts[k] == 0:
            raise ToolError("emitted table never expects %s" % k)
    crafted = [c for c in out_cases if c["args"]["fam"] != c["args"]["fmt"]]
    vias = collections.Counter(c["shape"]["via"] for c in b_cases if c["kind"] == "tx")
    if len(vias) < 5 or vias["exchange"] < 3 or not crafted or len(alg_cases) < 50 or not any(c["kind"] == "cb" for c in b_cases):
        raise ToolError("case emission too thin: vias=%s crafted=%d alg=%d" % (dict(vias), len(crafted), len(alg_cases)))
    fmts = collections.Counter(c["args"]["fmt"] for c in crafted)
    for f in ("legacy", "new", "wallet1", "sw2", "b0", "dp5", "dp255", "dpm1"):
        if not fmts[f]:
            raise ToolError("no crafted case with message format %s" % f)
    # the clamp of the depth byte must be reached with a matching nonce (expected: recovered)
    if not any(c["args"]["fmt"] in ("dp5", "dp255") and any(r["exp"] == "some" for r in c["rew"]) for c in crafted):
        raise ToolError("no crafted case reaches the depth clamp with a recoverable output")
    for c in out_cases:
        if c["args"]["fam"] == c["args"]["fmt"]:
            if "cj" not in c["pads"]:
                raise ToolError("honest case without padding equivalence")
            for row in c["extra"]:
                exp_counts["extra:" + row["exp"]] += 1
    if not exp_counts["extra:some"] or not exp_counts["extra:none"]:
        raise ToolError("extra-data rows never expect both classes: %s" % dict(exp_counts))
    wal_classes = collections.Counter((c["class"], c["same"]) for c in wal_cases)
    for k in ("seed_same", "seed_shared32", "seed_shared16", "seed_prefix", "mn_is_seed_of_mn", "mn_seed_other_pass", "mn_same",
              "mn_other_pass", "mn_other_words", "masked_vs_base", "masked_twice_vs_base", "masked_commute", "masked_vs_masked"):
        if not any(c == k for c, _ in wal_classes):
            raise ToolError("no wallet-constructor pair of class %s" % k)
    if not pair_cases:
        raise ToolError("no output pair emitted")
    ac = dict(r_b.action_counts())
    if not thorough:
        for rr in (r_pairs, r_alg):
            for k, v in rr.action_counts().items():
                ac[k] = max(ac.get(k, (0, 0)), v)
    need = ["ShapeAny", "PairAny"] + ([] if thorough else ["OpenAny", "CreateFirst", "CreateMore", "AppendAny"])
    for k in need:
        if not ac.get(k, (0, 0))[0]:
            raise ToolError("spec action %s never taken" % k)

    # (A) replay
    allc = out_cases + alg_cases + b_cases + pair_cases + wal_cases
    for i, c in enumerate(allc):
        c["idx"] = i
    t1 = time.time()
    # interleave kinds so that shards are balanced
    order = sorted(range(len(allc)), key=lambda i: (i * 7919) % len(allc))
    shuffled = [allc[i] for i in order]
    rows = replay(wd, shuffled, "all")
    checks, proofs = judge(rep, shuffled, rows)
    t_replay = time.time() - t1
    flipped = selftest(wd, out_cases)
    p = vlib.harness(["keys", "probe"])
    probe = json.loads(p.stdout.strip().splitlines()[-1])

    kinds = collections.Counter(c["kind"] for c in allc)

    def nontrivial(c):
        if c["kind"] == "out":
            return len(c["args"]["path"]) >= 1 or c["args"]["fam"] != c["args"]["fmt"]
        if c["kind"] == "alg":
            return len(c["terms"]) >= 2 and not c["zero"]
        return True
    distinct = set(json.dumps({k: v for k, v in c.items() if k != "idx"}, sort_keys=True) for c in allc if nontrivial(c))
    states = sum(r.distinct for r in tlc.values())
    trans = sum(r.generated for r in tlc.values())
    rep.coverage = {
        "evaluations": len(allc) * INSTS,
        "distinct_nontrivial": len(distinct),
        "rule": "cases are the states TLC selects from the exhaustively checked Keys.tla tables (selection pseudo-random in VERIF_SEED, always covering depth x mode x builder x amount class); "
                "each is instantiated %d times with seeded wallet seeds / random components / amounts. Distinct = different case record; non-trivial = out-case with depth >= 1 or a foreign message format, "
                "algebra case with >= 2 terms and a non-zero total, every builder / coinbase shape" % INSTS,
        "states": states, "transitions": trans,
        "traces_validated_against_impl": len(allc) * INSTS,
        "samples": [out_cases[0]["args"], crafted[0]["args"], alg_cases[len(alg_cases) // 2]["terms"], [c for c in b_cases if c["kind"] == "tx"][0]["shape"]],
        "exhaustive_within_bounds": True,
        "tlc": {k: {"distinct": r.distinct, "generated": r.generated, "wall_s": round(r.wall, 1)} for k, r in tlc.items()},
        "cases_emitted": dict(kinds), "crafted_format_cases": len(crafted),
        "instantiations_per_case": INSTS, "case_instantiations": len(allc) * INSTS,
        "implementation_checks": checks, "bulletproofs_created": proofs,
        "depth_mode_builder_combinations": len(combos),
        "observations_outside_the_properties": dict(OBSERVED), "crafted_formats": dict(fmts), "wallet_constructor_pair_classes": {"%s:%s" % (k, str(v).lower()): n for (k, v), n in wal_classes.items()},
        "output_pairs_two_coordinates": len(pair_cases),
        "expected_classes": dict(exp_counts), "builder_entry_points": dict(vias),
        "selftest_flipped_expectations_noticed": flipped,
        "spec_action_counts": {k: list(v) for k, v in ac.items()},
        "outside_quantifier_probe": probe,
        "tlc_wall_s": round(t_tlc, 1), "replay_wall_s": round(t_replay, 1),
        "checker_cmd": "tlc mc/MC_Keys (rewind, craft, pairs, alg, builder+wallet configs); h_keys replay",
    }
    rep.assumptions = [
        "HMAC-SHA512 / blake2b / secp256k1 / bulletproofs are primitives: distinct names in Keys.tla stand for distinct values (injectivity), public and private BIP32 derivation commute",
        "the free abelian group over key names models scalar arithmetic mod n (independent random keys satisfy no relation)",
        "component / amount classes: {0,1,2^31-1,2^31,2^32-1}(+random normal/hardened in thorough) and {0,1,60 grin,2^63,2^64-1}(+random); other values only through the random classes",
        "a zero total of secp.blind_sum (Keychain::blind_sum, split, add of x and -x) is left free (the code answers Err(InvalidSecretKey)); BlindingFactor::add of two zero factors is defined (zero); "
        "identifiers with a depth byte > 4 are outside the quantifier (derive_key panics there, see outside_quantifier_probe); a proof MESSAGE with a depth byte > 4 is inside (clamped to 4)",
        "'recovers nothing' is Ok(None): an Err from proof::rewind is accepted only where the specification says 'unsupported' (view key, regular switch commitment)",
        "wallet constructors: distinct seed byte strings / (word list, passphrase) pairs / mask sets give distinct master keys (HMAC-SHA512, PBKDF2 injective in the model); a masked master secret is assumed to be a valid scalar",
        "exchange: two parties, secret nonces from aggsig::create_secnonce (thread_rng); the partition of inputs/outputs between the parties is the one of Keys.tla PartyB",
        "view keys: for the regular switch commitment the code answers Err (not implemented in view_key.rs); accepted as 'recovers nothing', an exact triple would also be accepted",
        "randomness inside build::transaction / aggsig (thread_rng) is not controlled by VERIF_SEED",
    ]
    return rep.finish()
