"""C01 batch / full-state sections (spec/TxBalanceBatch.tla, spec/TxBalanceState.tla, h_txbal batch|state).

plans()   one TLC run: checks AllStateChecks + FamiliesKill on every chosen plan and prints the plans
start()   launches the harness processes in the background (they overlap with the TLC runs of c01.py)
collect() waits for them
judge*()  oracle: real accept => the spec accepts (the property); spec accepts => real accepts is anti-vacuity
"""
import json, os, subprocess, time, collections
import vlib
from vlib import ToolError, log

SIG_US, PROOF_US = 75, 650       # measured per-item cost of the two batch verifiers (release build)


def plans(tier):
    cfg = "mc/MC_TxBalanceState_thorough" if tier == "thorough" else "mc/MC_TxBalanceState"
    r = vlib.tlc("mc/MC_TxBalanceState", cfg, workers=1, coverage=True, timeout=900, xss="256m",
                 env={"VERIF_SEED": vlib.seed()})
    if r.invariant_violated:
        print(r.out[-3000:])
        raise ToolError("TxBalanceState.tla: %s violated inside the model (%s)" % (r.invariant_violated, cfg))
    vlib.tlc_ok(r, cfg)
    acts = r.action_counts()
    for a in ("ChooseBatch", "ChooseHistory", "CorruptState", "ChooseLarge"):
        if acts.get(a, (0, 0))[0] == 0:
            raise ToolError("TxBalanceState action %s never taken" % a)
    cases = [json.loads(x) for x in r.printed("STPLAN")]
    if len(cases) != r.distinct - 1:
        raise ToolError("TxBalanceState: %d plans printed for %d states" % (len(cases), r.distinct))
    for i, c in enumerate(cases):
        c["id"] = i
    model = {"config": cfg, "states": r.distinct, "transitions": r.generated, "wall_s": round(r.wall, 1),
             "actions": {k: v[0] for k, v in acts.items()}}
    return cases, model


def _cost(c):
    if c["sect"] == "batch":
        per = SIG_US if c["kind"] == "sig" else PROOF_US
        return c["n"] * per / 1e6 + (1.5 + c["n"] * 0.001 if c["route"] == "tx" else 0.0)
    if c["sect"] == "state":
        return 0.1 + 0.04 * c["n"]
    return 1.5 + c["n"] * 0.0002


def _split(cases, shards):
    """longest-processing-time-first assignment of cases to shards"""
    shards = max(1, min(shards, len(cases)))
    parts = [[] for _ in range(shards)]
    load = [0.0] * shards
    for c in sorted(cases, key=_cost, reverse=True):
        i = load.index(min(load))
        parts[i].append(c)
        load[i] += _cost(c)
    return [p for p in parts if p]


def start(cases, wd, shards=None):
    """-> handle. shards = {"batch": k, "state": k, "large": k}"""
    shards = shards or {"batch": 1, "state": 2, "large": 1}
    exe = os.path.join(vlib.HARNESS_BINDIR, "h_txbal")
    env = dict(os.environ)
    env.setdefault("RUST_BACKTRACE", "0")
    procs = []
    for sect, cmd in (("batch", "batch"), ("state", "state"), ("large", "state")):
        mine = [c for c in cases if c["sect"] == sect]
        if not mine:
            continue
        for s, part in enumerate(_split(mine, shards.get(sect, 1))):
            cp = os.path.join(wd, "st_%s_cases_%d.ndjson" % (sect, s))
            op = os.path.join(wd, "st_%s_out_%d.ndjson" % (sect, s))
            vlib.write_ndjson(cp, part)
            argv = [exe, cmd, "--cases", cp, "--out", op]
            if cmd == "state":
                d = os.path.join(wd, "chains_%s_%d" % (sect, s))
                os.makedirs(d, exist_ok=True)
                argv += ["--dir", d]
            so = open(op + ".stdout", "w")
            se = open(op + ".stderr", "w")
            p = subprocess.Popen(argv, stdout=so, stderr=se, env=env)
            procs.append({"p": p, "out": op, "n": len(part), "sect": sect, "so": so, "se": se, "t0": time.time()})
    return procs


def collect(procs, timeout=2400):
    res, infos = {}, []
    t0 = time.time()
    for h in procs:
        p = h["p"]
        try:
            p.wait(timeout=max(1, timeout - (time.time() - t0)))
        except subprocess.TimeoutExpired:
            for q in procs:
                q["p"].kill()
            raise ToolError("h_txbal %s timeout" % h["sect"])
        h["so"].close()
        h["se"].close()
        so = open(h["out"] + ".stdout").read()
        if p.returncode != 0:
            print(so[-2000:])
            print(open(h["out"] + ".stderr").read()[-2000:])
            raise ToolError("h_txbal %s failed (%d)" % (h["sect"], p.returncode))
        out = vlib.read_ndjson(h["out"])
        if len(out) != h["n"]:
            raise ToolError("h_txbal %s: %d results for %d cases" % (h["sect"], len(out), h["n"]))
        for r in out:
            res[r["id"]] = r
        try:
            info = json.loads(so.strip().splitlines()[-1])
            info["sect"] = h["sect"]
            info["wall_s"] = round(os.path.getmtime(h["out"]) - h["t0"], 1)
            infos.append(info)
        except Exception:
            pass
    return res, infos


def run_now(cases, wd, shards=None):
    return collect(start(cases, wd, shards))


# ---------------------------------------------------------------------------------------------
# oracle

def first_forged(c):
    return c["forged"][0] if c["forged"] else -1


def signature(c, r, which="full"):
    if c["sect"] == "batch":
        where = "batch" if c["route"] == "batch" else "tx"
        return "txbal:%s:%s:forged_accepted:n=%d:idx=%d" % (where, c["kind"], c["n"], first_forged(c))
    cls = c["cls"]
    if which == "fast":
        return "txbal:state:fast:unbalanced_accepted:cls=%s:n=%s" % (cls, r.get("n_kernels"))
    if cls in ("kernel_minting", "kernel_sig_swapped"):
        idx = (r.get("forged_kernel_idx") or [-1])[0]
        name = "forged_kernel_sig_accepted" if cls == "kernel_minting" else "swapped_kernel_sig_accepted"
        return "txbal:state:%s:n=%s:idx=%s" % (name, r.get("n_kernels"), idx)
    if cls == "proof_swapped":
        fo = r.get("forged_outputs") or [{"idx": -1}]
        return "txbal:state:swapped_proof_accepted:outputs=%s:idx=%s" % (r.get("n_outputs"), fo[0]["idx"])
    return "txbal:state:unbalanced_accepted:cls=%s:n=%s" % (cls, r.get("n_kernels"))


def judge(c, r):
    """-> list of (verdict, signature_or_None, text); verdict in violation | converse | tool"""
    out = []
    exp = c["expect"]
    if c["sect"] == "batch":
        if r["res"] == "setup":
            return [("tool", None, "batch plan could not be realised: %s" % r.get("err"))]
        if r["res"] == "ok" and not exp["ok"]:
            what = "%s accepted a batch of %d %s with the item at position %s forged" % (
                ("TxKernel::batch_sig_verify" if c["kind"] == "sig" else "Output::batch_verify_proofs") if c["route"] == "batch"
                else "Transaction::validate", c["n"], "kernels" if c["kind"] == "sig" else "outputs", c["forged"])
            out.append(("violation", signature(c, r), what))
        if c["route"] == "tx" and not r.get("others_ok", True):
            out.append(("tool", None, "tx-route plan %s: the transaction fails a check other than the one under test" % c["id"]))
        if exp["ok"] and r["res"] != "ok" and c["n"] >= 1:
            out.append(("converse", None, "honest batch refused: %s n=%d (%s %s)" % (c["kind"], c["n"], r["res"], r.get("err"))))
        return out
    # state / large
    if r["res"] != "done":
        verdict = "converse" if r["res"].startswith("pipeline") else "tool"
        return [(verdict, None, "state plan %s (%s n=%s): %s %s" % (c["id"], c["cls"], c["n"], r["res"], r.get("err")))]
    if not r.get("head_ok"):
        out.append(("tool", None, "state plan %s: chain head is not the last block of the plan" % c["id"]))
    if "nk" in c and r["n_kernels"] != c["nk"]:
        out.append(("tool", None, "state plan %s: %d kernels realised, %d in the model" % (c["id"], r["n_kernels"], c["nk"])))
    if c["sect"] == "large" and c["items"] == "kernel" and (r["n_kernels"] != c["n"] or (c["idx"] >= 0 and r["forged_kernel_idx"] != [c["idx"]])):
        out.append(("tool", None, "large plan %s: realised %s kernels, forged at %s" % (c["id"], r["n_kernels"], r["forged_kernel_idx"])))
    if c["sect"] == "large" and c["items"] == "output" and (r["n_unspent"] != c["n"] or (c["idx"] >= 0 and [f["idx"] for f in r["forged_outputs"]] != [c["idx"]])):
        out.append(("tool", None, "large plan %s: realised %s outputs, forged at %s" % (c["id"], r["n_unspent"], r["forged_outputs"])))
    if r["kernel_mmr_count"] != r["n_kernels"]:
        out.append(("tool", None, "state plan %s: header commits to %s kernels, %s applied" % (c["id"], r["kernel_mmr_count"], r["n_kernels"])))
    if c["cls"] in ("kernel_minting", "kernel_sig_swapped") and len(r["forged_kernel_idx"]) != 1:
        out.append(("tool", None, "state plan %s: forged kernel not found in the realised state" % c["id"]))
    if c["cls"] == "proof_swapped" and [f["unspent"] for f in r["forged_outputs"]] != [True]:
        out.append(("tool", None, "state plan %s: forged output not unspent in the realised state" % c["id"]))
    # the pipe route: the corrupted block was offered to Chain::process_block under every option set
    for p, pr in zip(c.get("pipe") or [], r.get("pipe") or []):
        if pr["res"] == "ok" and not p["accept"]:
            out.append(("violation", "txbal:pipeline:unbalanced_block_accepted:cls=%s:slot=%s:opts=%s" % (c["cls"], c.get("slot"), p["opt"]),
                        "Chain::process_block(%s | SKIP_POW) accepted block %s of the history although it does not balance (%s at %s)%s" % (
                            p["opt"], p["h"], c["cls"], c.get("slot"), "; it became the head" if pr.get("became_head") else "")))
        elif pr["res"] == "panic":
            out.append(("violation", "txbal:pipeline:panic:cls=%s:opts=%s" % (c["cls"], p["opt"]), "Chain::process_block panicked on an unbalanced block"))
    if (c.get("pipe") or []) and len(r.get("pipe") or []) != len(c["pipe"]):
        out.append(("tool", None, "state plan %s: the corrupted block was not offered to the pipeline" % c["id"]))
    if r["full"] == "ok" and not exp["full"]:
        out.append(("violation", signature(c, r), "Chain::validate(false) accepted a state the rules refuse at '%s' (%s, block %s; %s kernels, %s unspent outputs, forged kernel index %s, forged outputs %s)" % (
            exp["rule"], c["cls"], c.get("h", "-"), r["n_kernels"], r["n_unspent"], r["forged_kernel_idx"], r["forged_outputs"])))
    if r["fast"] == "ok" and not exp["fast"]:
        out.append(("violation", signature(c, r, "fast"), "Chain::validate(true) accepted a state whose sums do not balance (%s)" % c["cls"]))
    if exp["full"] and r["full"] != "ok":
        out.append(("converse", None, "spec-valid state refused by the full validation (%s %s)" % (r["full"], r.get("full_err"))))
    if exp["fast"] and r["fast"] != "ok":
        out.append(("converse", None, "state with balanced sums refused by the fast validation (%s %s; class %s)" % (r["fast"], r.get("fast_err"), c["cls"])))
    return out


def coverage(cases, res, tier):
    """measured counts + vacuity checks (ToolError)"""
    cov = collections.OrderedDict()
    by = collections.Counter()
    pairs = set()
    proof_pairs = set()
    walk = collections.Counter()
    items = collections.Counter()
    sizes = {"sig": set(), "proof": set()}
    for c in cases:
        r = res[c["id"]]
        if c["sect"] == "batch":
            by["batch_%s_%s" % (c["kind"], c["route"])] += 1
            items[c["kind"]] += c["n"]
            sizes[c["kind"]].add(c["n"])
            if c["forged"] and r["res"] != "ok":
                by["batch_forged_refused"] += 1
            if not c["forged"] and r["res"] == "ok":
                by["batch_honest_accepted"] += 1
        else:
            by["%s_%s" % (c["sect"], c["cls"])] += 1
            if r["res"] != "done":
                continue
            if c["cls"] == "kernel_minting" and c["sect"] == "state":
                for i in r["forged_kernel_idx"]:
                    pairs.add((r["n_kernels"], i))
            if c["cls"] == "proof_swapped" and c["sect"] == "state":
                for f in r["forged_outputs"]:
                    proof_pairs.add((r["n_outputs"], f["idx"]))
            if c["sect"] == "large":
                walk["%s:n=%d:idx=%d" % (c["items"], c["n"], c["idx"])] += 1
            for p, pr in zip(c.get("pipe") or [], r.get("pipe") or []):
                by["pipeline_%s_unbalanced_%s" % (p["opt"], "refused" if pr["res"] == "err" else pr["res"])] += 1
                by["pipeline_unbalanced_refused:cls=%s" % c["cls"]] += pr["res"] == "err"
            if r["full"] != "ok" and not c["expect"]["full"]:
                by["state_forged_refused"] += 1
            if r["full"] == "ok" and c["expect"]["full"]:
                by["state_honest_accepted"] += 1
            if c["cls"] in ("kernel_minting", "kernel_sig_swapped", "proof_swapped") and r["fast"] == "ok":
                by["state_only_sig_or_proof_check_can_tell"] += 1
    need = {(n, i) for n in range(1, 13) for i in range(n)}
    missing = sorted(need - pairs)
    if missing:
        raise ToolError("full-state section: forged-kernel (n, idx) pairs never realised: %s" % missing[:10])
    if not need <= proof_pairs:
        raise ToolError("full-state section: swapped-proof (outputs, idx) pairs never realised: %s" % sorted(need - proof_pairs)[:10])
    for k in ("batch_sig_batch", "batch_proof_batch", "batch_sig_tx", "batch_proof_tx", "state_base", "large_kernel_minting",
              "large_base", "batch_forged_refused", "batch_honest_accepted", "state_forged_refused", "state_honest_accepted",
              "pipeline_NONE_unbalanced_refused", "pipeline_SYNC_unbalanced_refused", "pipeline_MINE_unbalanced_refused") + tuple(
                  "pipeline_unbalanced_refused:cls=" + k for k in ("kernel_minting", "kernel_sig_swapped", "proof_swapped", "excess_replaced",
                                                                   "amount_inflated", "offset_shifted")):
        if by[k] == 0:
            raise ToolError("batch / full-state section vacuous: %s = 0" % k)
    for b in (1024, 5000):
        if not ({b - 1, b, b + 1} <= sizes["sig"]):
            raise ToolError("signature batch sizes around %d missing" % b)
    for key in ("kernel:n=5002:idx=5001", "kernel:n=5001:idx=5000", "kernel:n=1025:idx=1024", "kernel:n=1026:idx=1025"):
        if walk[key] == 0:
            raise ToolError("large state plan %s missing" % key)
    cov["plans"] = dict(by)
    cov["batch_items_verified"] = dict(items)
    cov["batch_sizes"] = {k: len(v) for k, v in sizes.items()}
    cov["batch_max_size"] = {k: max(v) for k, v in sizes.items()}
    cov["state_forged_kernel_pairs_n_idx"] = len(pairs)
    cov["state_swapped_proof_pairs_outputs_idx"] = len(proof_pairs)
    cov["state_max_kernels"] = max(r.get("n_kernels", 0) for r in res.values())
    cov["large_plans"] = sorted(walk)
    return cov
