"""C07: the closed forms of spec/MMR.tla (section "Transcription of the closed forms") re-evaluated over Python's
unbounded integers, operator by operator, for positions TLC's 32-bit integers cannot reach (2^30 .. 2^64).
MC_MMR proves these closed forms equal to the explicit construction for every MMR up to MaxLeaves; the same
Python functions are first cross-checked on the `Big` events (< 2^30) that TLC accepted in MMRTrace, so a
transcription slip here shows up as a tool error, not as a verdict."""

U64 = 1 << 64


def pow2(k):
    return 1 << k


def peak_map_height(size):          # PeakMapHeight / PMHLoop
    if size == 0:
        return (0, 0)
    peak_size = pow2(size.bit_length()) - 1
    peak_map = 0
    while peak_size != 0:
        if size >= peak_size:
            size -= peak_size
            peak_map = 2 * peak_map + 1
        else:
            peak_map = 2 * peak_map
        peak_size //= 2
    return (peak_map, size)


def peak_sizes_height(size):        # PeakSizesHeight / PSHLoop
    if size == 0:
        return ([], 0)
    peak_size = pow2(size.bit_length()) - 1
    acc = []
    while peak_size != 0:
        if size >= peak_size:
            size -= peak_size
            acc.append(peak_size)
        peak_size //= 2
    return (acc, size)


def peaks(size):                    # PeaksC
    sizes, h = peak_sizes_height(size)
    if h != 0:
        return []
    out, acc = [], 0
    for s in sizes:
        acc += s
        out.append(acc - 1)
    return out


def bit(x, k):
    return (x // pow2(k)) % 2


def popcount(x):
    return bin(x).count("1")


def n_leaves(size):                 # NLeavesC
    pm, h = peak_map_height(size)
    return pm if h == 0 else pm + 1


def insertion_to_pmmr_index(n):     # InsertionToPmmrIndexC
    return 2 * n - popcount(n)


def round_up_to_leaf_pos(p):        # RoundUpToLeafPosC
    pm, h = peak_map_height(p)
    return insertion_to_pmmr_index(pm if h == 0 else pm + 1)


def leaf_idx(p):                    # LeafToInsertionIndexC (-1 = None)
    pm, h = peak_map_height(p)
    return pm if h == 0 else -1


def height(p):                      # HeightC
    return peak_map_height(p)[1]


def family(p):                      # FamilyC
    pm, h = peak_map_height(p)
    peak = pow2(h)
    if bit(pm, h) != 0:
        return (p + 1, p + 1 - 2 * peak)
    return (p + 2 * peak, p + 2 * peak - 1)


def is_left_sibling(p):             # IsLeftSiblingC
    pm, h = peak_map_height(p)
    return bit(pm, h) == 0


def rightmost(p):                   # RightmostC
    return p - height(p)


def leftmost(p):                    # LeftmostC
    return p + 2 - 2 * pow2(height(p))


def expected(p):
    """All fields of a Big/Huge event for position p (as size where the function takes a size)."""
    pm, h = peak_map_height(p)
    par, sib = family(p)
    n = p // 2
    return {"pmh": [pm, h], "height": h, "family": [par, sib], "is_left": is_left_sibling(p),
            "leaf_idx": leaf_idx(p), "round_up": round_up_to_leaf_pos(p), "leftmost": leftmost(p),
            "rightmost": rightmost(p), "nleaves": n_leaves(p), "peaks": peaks(p),
            "ins2pos": insertion_to_pmmr_index(n)}


def fits(v):
    if isinstance(v, bool):
        return True
    if isinstance(v, list):
        return all(fits(x) for x in v)
    return -1 <= v < U64


def compare(ev):
    """-> list of (field, expected, real) that differ; fields whose mathematical value does not fit in u64 are
    not compared (the property is about positions that exist); a panic (null) where the value fits is a difference."""
    exp = expected(ev["p"])
    bad = []
    for k, v in exp.items():
        if k not in ev or not fits(v):
            continue
        if ev[k] != v:
            bad.append((k, v, ev[k]))
    return bad
