"""C19 — peer message framing is faithful under fragmentation and enforces size limits
(spec/Codec.tla, spec/CodecConn.tla, spec/CodecHandover.tla, spec/CodecPeer.tla, spec/Handshake.tla;
harness crate h_codec)."""
import json, os, re, threading, time
import vlib
from vlib import Report, ToolError, log

PID = "C19"
ENGINES = ["codec"]

# constants of the TLC configs (spec/mc/MC_Codec*.cfg); the build must agree
MODEL_CONSTS = {"HDR": 11, "BH": 257, "BHMAX": 310, "MaxBlockSize": 7788, "header_sizes": [257, 258, 259], "net": "other"}
# the other two networks (spec/mc/MC_Codec_net_*.cfg): NetName and MaxBlockSize of that chain type
NETS = {"main": ("mainnet", {"HDR": 11, "MaxBlockSize": 1348032, "net": "main", "magic_model": [97, 61]}),
        "test": ("testnet", {"HDR": 11, "MaxBlockSize": 1348032, "net": "test", "magic_model": [83, 59]})}
PEER_ACTIONS = ["Handshake", "RemoteWrites", "NodeReads", "NodeSends", "WriterStep", "RemoteReads"]
CODEC_ACTIONS = ["Deliver", "Silence", "ExpectAttachment", "Call", "Loop", "ReadExact", "Timeout", "Eof", "Parse"]
HS_ACTIONS = ["Start", "Accept", "Finish", "Lose", "Reset"]
RING_CAP = 100   # NONCES_CAP of p2p/src/handshake.rs = RingCap of spec/mc/MC_HandshakeRing_*.cfg


TYPE_NAMES = {0: "Error", 1: "Hand", 2: "Shake", 3: "Ping", 4: "Pong", 5: "GetPeerAddrs", 6: "PeerAddrs", 7: "GetHeaders",
              8: "Header", 9: "Headers", 10: "GetBlock", 11: "Block", 12: "GetCompactBlock", 13: "CompactBlock",
              14: "StemTransaction", 15: "Transaction", 16: "TxHashSetRequest", 17: "TxHashSetArchive", 18: "BanReason",
              19: "GetTransaction", 20: "TransactionKernel", 21: "GetOutputBitmapSegment", 22: "OutputBitmapSegment",
              23: "GetOutputSegment", 24: "OutputSegment", 25: "GetRangeProofSegment", 26: "RangeProofSegment",
              27: "GetKernelSegment", 28: "KernelSegment"}


def codec_signature(m):
    """Narrow signature of one mismatch reported by `h_codec replay`."""
    if m["what"] == "trailing_bytes_accepted":
        # one signature per message type: a body longer than what its items need was accepted
        return "codec:trailing_bytes_accepted:%s" % TYPE_NAMES.get(m.get("t"), "t%s" % m.get("t"))
    if m["what"] == "short_body_accepted":
        # one signature per message type: a body shorter than the message's content was delivered
        return "codec:short_body_accepted:%s" % TYPE_NAMES.get(m.get("t"), "t%s" % m.get("t"))
    sig = "codec:%s:%s:t%s" % (m["what"], m.get("k", "?"), m.get("t", "?"))
    if m.get("k") == "headers" and m.get("count") == 0 and m.get("items") == 0:
        sig += ":n=0"
    elif m.get("class") in ("refused", "badcount", "baddecode", "unexpected", "trailing"):
        sig += ":" + m["class"]
    if (m.get("plan") or {}).get("kind") == "bodygap":
        # the peer paused for longer than the header timeout in the middle of a frame body
        sig += ":bodygap"
    return sig


def hs_signature(m):
    c = m["case"]
    if c.get("role") == "ring":
        return "handshake:ring:%s:%s:%s" % (m.get("kind", "?"), m["what"], m.get("when", ""))
    if m["what"] == "trailing_bytes_accepted":
        return "codec:trailing_bytes_accepted:%s" % ("Hand" if c["role"] == "accept" else "Shake")
    return "handshake:%s:%s:%s" % (c["role"], m["what"], c["expect"]["res"])


def peer_signature(m):
    """`h_codec peer` mismatch: a real Peer (handshake + conn::listen + Peer::send_*) facing a raw peer."""
    c = m["case"]
    rv = c.get("rv", 0)
    vc = "v1" if rv <= 1 else ("v2" if rv == 2 else ("v3plus" if rv <= 1000 else "newer"))
    # the version of the remote peer enters the signature where the wire form is what failed
    sig = "peer:%s:%s" % (m["what"], m.get("name", "?"))
    return sig + (":remote_" + vc if m["what"] in ("content", "garbled", "version", "closed") else "")


def handover_signature(c, m):
    """`h_codec handover` mismatch: the frames written behind a Hand / Shake as read by the codec."""
    if m["what"] == "handshake_failed" and body_split(c):
        # a Hand / Shake whose body arrives in two segments is not read as written
        return "handshake:body_split:handshake_failed:%s" % c["role"]
    if m["what"] in ("io", "render", "handshake_failed"):
        return "handshake:handover:%s:%s" % (m["what"], c["role"])
    lost = "next_message_lost" if m["what"] in ("missing", "eof") else "stream_cut"
    return "handshake:%s:%s:%s" % ("coalesced" if c.get("coalesced") else "handover", lost, c["role"])


def body_split(c):
    """the plan cuts the handshake message inside its BODY (behind the 11 header bytes)"""
    for x in c.get("cuts", []):
        if x.get("f") == 0 and (x.get("at") in ("mid", "last") or (x.get("at") == "b" and x.get("k", 0) > 11)):
            return True
    return False


def hs_what(m):
    c = m["case"]
    if c.get("role") == "ring":
        return "script %s: %s" % (c.get("name", ""), m["detail"])
    return "%s lv=%s rv=%s same_genesis=%s nonce_in_ring=%s: %s" % (
        c["role"], c["lv"], c["rv"], c["same_genesis"], c["nonce_in_ring"], m["detail"])


def ring_case(name):
    """One scripted behaviour of a single Handshake object with more outbound initiations than the
    real nonce ring holds, walked by TLC through Handshake.tla (invariants checked on the way)."""
    r = vlib.tlc("mc/MC_HandshakeRing", "mc/MC_HandshakeRing_" + name, workers=1, timeout=600)
    if r.invariant_violated:
        print(r.out[-3000:])
        raise ToolError("Handshake.tla invariant %s violated on the ring script %s" % (r.invariant_violated, name))
    vlib.tlc_ok(r, "MC_HandshakeRing_" + name)
    hs = [json.loads(x) for x in r.printed("HSRING")]
    if len(hs) != 1:
        raise ToolError("ring script %s: %d histories emitted" % (name, len(hs)))
    h = hs[0]
    outbound = sum(1 for k in h["script"] if k != "in")
    if outbound <= RING_CAP or len(h["conns"]) != len(h["script"]):
        raise ToolError("ring script %s does not exceed the capacity (%d outbound)" % (name, outbound))
    h.update({"role": "ring", "cap": RING_CAP, "name": name})
    return h, r


def run_harness(args, what):
    p = vlib.harness(args, check=False, timeout=2400)
    if p.returncode < 0 or p.returncode in (134, 139):
        return None, p          # killed by a signal (abort on an oversized allocation, …): data
    if p.returncode != 0:
        print(p.stdout[-2000:]); print(p.stderr[-3000:])
        raise ToolError("h_codec %s failed (%d)" % (what, p.returncode))
    try:
        return json.loads(p.stdout.strip().splitlines()[-1]), p
    except Exception:
        print(p.stdout[-2000:])
        raise ToolError("h_codec %s: no summary line" % what)


def emit(cfg, tag, what):
    e = vlib.tlc(cfg[0], cfg[1], workers=1, coverage=False, timeout=1500)
    vlib.tlc_ok(e, what)
    return [json.loads(x) for x in e.printed(tag)]


def peer_run(wd, cases, name, corrupt=False):
    pp = os.path.join(wd, name + ".ndjson"); po = os.path.join(wd, name + "_out.ndjson")
    vlib.write_ndjson(pp, cases)
    st, _ = run_harness(["codec", "peer", "--cases", pp, "--out", po] + (["--corrupt"] if corrupt else []), "peer")
    return st, (vlib.read_ndjson(po) if st is not None else [])


def net_consts(chain, want):
    p = vlib.harness(["codec", "consts", "--chain", chain])
    got = json.loads(p.stdout.strip().splitlines()[-1])
    for k, v in want.items():
        if got.get(k) != v:
            raise ToolError("wire constant %s on %s: build has %s, the configuration of Codec.tla assumes %s" % (k, chain, got.get(k), v))
    return got


def replay_codec(rep, wd, cases, thorough, extra=None, name="cases"):
    cp = os.path.join(wd, name + ".ndjson")
    outp = os.path.join(wd, name + "_out.ndjson")
    tmp = vlib.workdir(PID, "tmp")
    vlib.write_ndjson(cp, cases)
    args = ["codec", "replay", "--cases", cp, "--out", outp, "--tmp", tmp, "--seed", vlib.seed(), "--threads", 8]
    if thorough:
        args.append("--thorough")
    if extra:
        args += extra
    stats, p = run_harness(args, "replay")
    if stats is None:
        tail = (p.stderr or "")[-600:]
        rep.violation("codec:harness_abort", {"kind": "abort", "stderr": tail, "cases_file": cp},
                      "the harness process died (rc=%d) while the real codec was reading: %s" % (p.returncode, tail.strip().splitlines()[-1:] or ""))
        return {}, []
    return stats, vlib.read_ndjson(outp)


T0 = [0.0]


def lap(what):
    log("  [%6.1fs] %s" % (time.time() - T0[0], what))


def run(tier, replay):
    T0[0] = time.time()
    rep = Report(PID, tier, "model_checking")
    wd = vlib.workdir(PID, clean=True)
    thorough = tier == "thorough"

    if replay:
        obj = json.load(open(replay))
        case = obj["case"]
        if case.get("kind") == "handshake":
            cp = os.path.join(wd, "replay_hs.ndjson"); outp = os.path.join(wd, "replay_hs_out.ndjson")
            vlib.write_ndjson(cp, [case["case"]])
            run_harness(["codec", "handshake", "--cases", cp, "--out", outp], "handshake")
            for m in vlib.read_ndjson(outp)[:1]:
                m.pop("case", None)
                rep.violation(obj["signature"], case, json.dumps(m)[:600])
        elif case.get("kind") == "peer":
            st, mms = peer_run(wd, [case["case"]], "replay_peer")
            for m in mms[:1]:
                rep.violation(obj["signature"], case, "%s %s: %s" % (m["what"], m.get("name"), m["detail"]))
        elif case.get("kind") == "codec":
            extra = ["--plan", json.dumps(case["plan"])] if case.get("plan") else []
            if case.get("chain"):
                extra += ["--chain", case["chain"]]
            stats, mms = replay_codec(rep, wd, [case["case"]], False, extra, "replay")
            for m in mms:
                rep.violation(obj["signature"], case, "%s: %s" % (m["what"], m["detail"]))
        elif case.get("kind") == "handover":
            cp = os.path.join(wd, "replay_ho.ndjson"); outp = os.path.join(wd, "replay_ho_out.ndjson")
            vlib.write_ndjson(cp, [case["case"]])
            run_harness(["codec", "handover", "--cases", cp, "--out", outp], "handover")
            for m in vlib.read_ndjson(outp)[:1]:
                m.pop("case", None)
                rep.violation(obj["signature"], case, json.dumps(m)[:600])
        elif case.get("kind") == "conn":
            _, v = conn_run(wd, "replay", 0, [case["case"]])
            if v:
                rep.violation(obj["signature"], case, v[2])
        elif case.get("kind") == "trace":
            r = vlib.tlc("trace/CodecTrace", workers=1, coverage=False, env={"TRACE": case["trace"]}, xss="512m", xmx="4g", timeout=1500)
            if not r.finished:
                if "TRACE-REJECTED" not in r.out:
                    raise ToolError("CodecTrace failed without a verdict")
                ls = r.out.splitlines()
                i = [k for k, x in enumerate(ls) if "TRACE-REJECTED" in x][0]
                rep.violation(obj["signature"], case, " ".join(x.strip() for x in ls[i:i + 8])[:500])
        else:
            raise ToolError("replay file of kind %r cannot be re-executed alone" % case.get("kind"))
        rep.coverage = {"states": 1, "transitions": 1, "traces_validated_against_impl": 1, "samples": [obj["signature"]]}
        return rep.finish()

    # (0) the model's wire constants are those of this build
    p = vlib.harness(["codec", "consts"])
    consts = json.loads(p.stdout.strip().splitlines()[-1])
    for k, v in MODEL_CONSTS.items():
        if consts.get(k) != v:
            raise ToolError("wire constant %s: build has %s, Codec.tla configs assume %s" % (k, consts.get(k), v))
    if consts.get("magic_written") != consts.get("magic_model"):
        # the node's own writer does not put the network's magic on the wire: nothing it writes is readable
        rep.violation("codec:magic_written:%s" % consts.get("net"), {"kind": "consts", "consts": consts},
                      "write_message starts a frame with %s, the magic of this network is %s" % (consts.get("magic_written"), consts.get("magic_model")))
        return rep.finish()

    # (M1) Codec.tla: every stream x every fragmentation at the candidate boundaries
    # (the exhaustive run is the longest single job: it goes on beside the socket runs and is joined
    # before the verdict; its result does not feed the case generation, which is a separate TLC run)
    cfg = "mc/MC_Codec_thorough" if thorough else "mc/MC_Codec"
    bg = {}

    def m1_bg():
        try:
            # (per-action coverage costs TLC about two thirds more time: it is collected on a subset of the
            # streams in a second, small run - an action taken there is taken in the exhaustive run)
            r_ = vlib.tlc("mc/MC_Codec", cfg, workers=4, coverage=False, timeout=3000)
            if r_.invariant_violated:
                print(r_.out[-3000:])
                raise ToolError("Codec.tla invariant %s violated inside the model" % r_.invariant_violated)
            vlib.tlc_ok(r_, "MC_Codec")
            bg["m1"] = r_
            lap("MC_Codec exhaustive run done (%d states)" % r_.distinct)
        except BaseException as e:
            bg["exc0"] = e
    th0 = threading.Thread(target=m1_bg)
    th0.start()

    # the small models; the long ring script (every dial delivers its Hand, 150 ms apart) is replayed as
    # soon as TLC has walked it
    def small_bg():
        try:
            rcov = vlib.tlc("mc/MC_Codec", "mc/MC_Codec_cov", workers=2, timeout=1200)
            if rcov.invariant_violated:
                print(rcov.out[-3000:])
                raise ToolError("Codec.tla invariant %s violated inside the model" % rcov.invariant_violated)
            vlib.tlc_ok(rcov, "MC_Codec_cov")
            ac_ = rcov.action_counts()
            for a in CODEC_ACTIONS:
                if ac_.get(a, (0, 0))[1] == 0:
                    raise ToolError("Codec.tla action %s never taken (vacuous model)" % a)
            # (M3/A3) the nonce ring at its real capacity: scripted behaviours of ONE Handshake object with
            # more than NONCES_CAP outbound initiations
            ring_full, rrl = ring_case("full")
            rfp = os.path.join(wd, "hs_ring_full.ndjson"); rfo = os.path.join(wd, "hs_ring_full_out.ndjson")
            vlib.write_ndjson(rfp, [ring_full])
            bg["ring_full"] = (ring_full, rrl, rfo)
            th_r = threading.Thread(target=ring_bg, args=(rfp, rfo))
            th_r.start()
            # (M1p) the model tells the two placements of set_stream_timeout apart: with the timeout chosen
            # once per read() (TimeoutPerChunk = FALSE) a silence inside a body must break NoDesync
            rp = vlib.tlc("mc/MC_Codec", "mc/MC_Codec_probe_hoist", workers=1, coverage=False, timeout=600)
            if "NoDesync" not in rp.invariant_violated:
                print(rp.out[-3000:])
                raise ToolError("Codec.tla does not distinguish the header timeout from the body timeout (probe passed)")
            # (M1v) the model tells a reader that decodes with its own protocol version (VersionSkew = 1000)
            # from one that decodes with the version of the connection: Faithful must break on a version-1 transaction
            rpv = vlib.tlc("mc/MC_Codec", "mc/MC_Codec_probe_version", workers=1, coverage=False, timeout=600)
            if "Faithful" not in rpv.invariant_violated:
                print(rpv.out[-3000:])
                raise ToolError("Codec.tla does not notice a reader decoding with the wrong protocol version (probe passed)")
            # (M2) Handshake.tla
            rh = vlib.tlc("mc/MC_Handshake", "mc/MC_Handshake", workers=2, timeout=600)
            if rh.invariant_violated:
                print(rh.out[-3000:])
                raise ToolError("Handshake.tla invariant %s violated inside the model" % rh.invariant_violated)
            vlib.tlc_ok(rh, "MC_Handshake")
            ach = rh.action_counts()
            for a in HS_ACTIONS:
                if ach.get(a, (0, 0))[1] == 0:
                    raise ToolError("Handshake.tla action %s never taken" % a)
            ring_fast, rrf = ring_case("fast")
            bg["small"] = {"cov": rcov, "rp": rp, "rpv": rpv, "rh": rh, "ring_fast": ring_fast, "rrf": rrf}
            th_r.join()
            lap("small models and the long ring script done")
        except BaseException as e:
            bg["exc"] = e

    def ring_bg(rfp, rfo):
        try:
            bg["stats"], bg["p"] = run_harness(["codec", "handshake", "--cases", rfp, "--out", rfo], "handshake ring")
        except BaseException as e:      # re-raised in the main thread
            bg["exc"] = e
    th = threading.Thread(target=small_bg)
    th.start()

    # (M4) CodecConn.tla: the reader loop above the codec; (M5/A4) CodecHandover.tla: the byte stream
    # handed from read_message (handshake) to the codec, plans replayed on the real
    # Handshake::initiate / accept + Codec on one socket.  Small jobs: run beside the codec replay.
    def models_bg():
        try:
            rc = vlib.tlc("mc/MC_CodecConn", "mc/MC_CodecConn", workers=2, timeout=900)
            if rc.invariant_violated:
                print(rc.out[-3000:])
                raise ToolError("CodecConn.tla invariant %s violated inside the model" % rc.invariant_violated)
            vlib.tlc_ok(rc, "MC_CodecConn")
            for a_ in ("CodecStep", "Dispatch", "EndOfStream"):
                if rc.action_counts().get(a_, (0, 0))[1] == 0:
                    raise ToolError("CodecConn.tla action %s never taken" % a_)
            rcp = vlib.tlc("mc/MC_CodecConn", "mc/MC_CodecConn_probe_skip", workers=1, coverage=False, timeout=600)
            if "ClosedOnRefusal" not in rcp.invariant_violated:
                print(rcp.out[-3000:])
                raise ToolError("CodecConn.tla does not notice a reader loop that skips Error::Serialization (probe passed)")
            rh_ = vlib.tlc("mc/MC_CodecHandover", "mc/MC_CodecHandover", workers=2, timeout=600)
            if rh_.invariant_violated:
                print(rh_.out[-3000:])
                raise ToolError("CodecHandover.tla invariant %s violated inside the model" % rh_.invariant_violated)
            vlib.tlc_ok(rh_, "MC_CodecHandover")
            for a_ in ("Deliver", "ReadExact"):
                if rh_.action_counts().get(a_, (0, 0))[1] == 0:
                    raise ToolError("CodecHandover.tla action %s never taken" % a_)
            rhp = vlib.tlc("mc/MC_CodecHandover", "mc/MC_CodecHandover_probe_buffered", workers=1, coverage=False, timeout=600)
            if not rhp.invariant_violated:
                print(rhp.out[-3000:])
                raise ToolError("CodecHandover.tla does not notice a read_message that reads ahead (probe passed)")
            plans = emit(("mc/MC_CodecHandover", "mc/MC_CodecHandover_emit"), "HANDOVER", "MC_CodecHandover emit")
            if len(plans) < 100 or not any(p_["coalesced"] for p_ in plans):
                raise ToolError("too few hand-over plans emitted (%d)" % len(plans))
            pp = os.path.join(wd, "handover.ndjson"); po = os.path.join(wd, "handover_out.ndjson")
            vlib.write_ndjson(pp, plans)
            hst, _ = run_harness(["codec", "handover", "--cases", pp, "--out", po], "handover")
            lap("conn / handover models and hand-over replay done")
            bg["models"] = {"conn": rc, "conn_probe": rcp, "handover": rh_, "handover_probe": rhp, "plans": plans,
                            "handover_stats": hst, "handover_out": vlib.read_ndjson(po) if hst is not None else []}
        except BaseException as e:
            bg["exc2"] = e
    th2 = threading.Thread(target=models_bg)
    th2.start()

    # (M6/A5) CodecPeer.tla: a whole connection (Peer::accept / connect, conn::listen at info.version, the
    # writer thread, Peer::send_*) against a raw peer of every protocol version; (M7/A6) Codec.tla on the
    # two other networks (their magic, their block-size limits), replayed in a process of that chain type
    def peer_nets_bg():
        try:
            rpe = vlib.tlc("mc/MC_CodecPeer", "mc/MC_CodecPeer", workers=2, timeout=600)
            if rpe.invariant_violated:
                print(rpe.out[-3000:])
                raise ToolError("CodecPeer.tla invariant %s violated inside the model" % rpe.invariant_violated)
            vlib.tlc_ok(rpe, "MC_CodecPeer")
            for a_ in PEER_ACTIONS:
                if rpe.action_counts().get(a_, (0, 0))[1] == 0:
                    raise ToolError("CodecPeer.tla action %s never taken" % a_)
            pr1 = vlib.tlc("mc/MC_CodecPeer", "mc/MC_CodecPeer_probe_local", workers=1, coverage=False, timeout=600)
            if "NothingGarbled" not in pr1.invariant_violated:
                print(pr1.out[-3000:])
                raise ToolError("CodecPeer.tla does not notice a connection run at ProtocolVersion::local() (probe passed)")
            pr2 = vlib.tlc("mc/MC_CodecPeer", "mc/MC_CodecPeer_probe_rewrite", workers=1, coverage=False, timeout=600)
            if "GotFaithful" not in pr2.invariant_violated:
                print(pr2.out[-3000:])
                raise ToolError("CodecPeer.tla does not notice a writer thread that writes a message twice (probe passed)")
            pcases = emit(("mc/MC_CodecPeer", "mc/MC_CodecPeer_emit"), "PEERCASE", "MC_CodecPeer emit")
            if len(pcases) < 20:
                raise ToolError("too few peer scenarios emitted (%d)" % len(pcases))
            pst, pmm = peer_run(wd, pcases, "peer")
            # anti-vacuity: a raw peer that decodes with a version of another wire form must be reported
            psub = [c_ for c_ in pcases if c_["rv"] in (1, 1000) and c_["role"] == "accept"]
            pst2, pmm2 = peer_run(wd, psub, "peer_selftest", corrupt=True)
            if pst2 is None or len(pmm2) < len(psub):
                # (the self-tests lean on the real codec honouring its version: when the code under test is
                # what fails them the violations found are the verdict, see the end of run)
                bg.setdefault("selftest_failed", []).append("peer sessions read with the wrong version were accepted (%d of %d reported)" % (len(pmm2), len(psub)))
            nets = {}
            for net, (chain, want) in sorted(NETS.items()):
                nconsts = net_consts(chain, want)
                if nconsts.get("magic_written") != nconsts.get("magic_model"):
                    nets[net] = {"consts": nconsts, "magic_written_wrong": True}
                    continue
                rn = vlib.tlc("mc/MC_Codec", "mc/MC_Codec_net_" + net, workers=2, timeout=900)
                if rn.invariant_violated:
                    print(rn.out[-3000:])
                    raise ToolError("Codec.tla invariant %s violated inside the model (network %s)" % (rn.invariant_violated, net))
                vlib.tlc_ok(rn, "MC_Codec_net_" + net)
                ncases = emit(("mc/MC_Codec", "mc/MC_Codec_net_%s_emit" % net), "CODECCASE", "MC_Codec net emit")
                if len(ncases) < 15 or any(c_["net"] != net for c_ in ncases):
                    raise ToolError("network %s: %d cases emitted" % (net, len(ncases)))
                repn = Report(PID, tier, "model_checking")   # scratch; mismatches are reported below
                nst, nmm = replay_codec(repn, wd, ncases, False, ["--chain", chain], "net_" + net)
                nets[net] = {"consts": nconsts, "model": rn, "cases": ncases, "stats": nst, "mismatches": nmm, "aborted": bool(repn.violations)}
            bg["peer"] = {"model": rpe, "probe_local": pr1, "probe_rewrite": pr2, "cases": pcases, "stats": pst, "mismatches": pmm,
                          "selftest": len(pmm2)}
            bg["nets"] = nets
            lap("peer sessions and other networks done")
        except BaseException as e:
            bg["exc3"] = e
    th3 = threading.Thread(target=peer_nets_bg)
    th3.start()

    # (A1) streams + expectations from TLC, rendered and fragmented on loopback, read by the real Codec
    cases = emit(("mc/MC_Codec", "mc/MC_Codec_emit_thorough" if thorough else "mc/MC_Codec_emit"), "CODECCASE", "MC_Codec emit")
    if len(cases) < 100:
        raise ToolError("too few codec cases emitted (%d)" % len(cases))
    lap("%d codec cases emitted" % len(cases))
    stats, mms = replay_codec(rep, wd, cases, thorough)
    lap("codec replay done (%s socket runs)" % (stats or {}).get("runs"))
    by_sig = {}
    for m in mms:
        sig = codec_signature(m)
        by_sig.setdefault(sig, []).append(m)
    for sig, ms in sorted(by_sig.items()):
        m = ms[0]
        what = "%s (%s) frame %s of case %d, plan %s/%s v%s: %s [%d runs]" % (
            m["what"], m.get("class", ""), m.get("label", ""), m["case"], m["plan"].get("kind"), m["plan"].get("cuts"),
            m["plan"].get("version"), m["detail"], len(ms))
        rep.violation(sig, {"kind": "codec", "case": cases[m["case"]], "plan": m["plan"], "mismatch": m}, what)
    if stats and stats.get("idle_runs", 0) > 0 and stats.get("timeouts_observed", 0) == 0:
        raise ToolError("no read timeout was observed in the idle runs (HEADER_IO_TIMEOUT path not exercised)")
    if stats and stats.get("bodygap_runs", 0) < 10:
        raise ToolError("too few runs with a silent peer inside a frame body (%s)" % stats.get("bodygap_runs"))

    # anti-vacuity: a deliberately wrong adapter (first result dropped) must be reported
    sub = [c for c in cases if len(c["expect"]) >= 2][:12]
    rep2 = Report(PID, tier, "model_checking")   # scratch report, never finished
    st2, mm2 = replay_codec(rep2, wd, sub, False, ["--corrupt", "--plan", json.dumps({"cuts": [], "gaps_us": [], "sync": False, "version": 1000})], "selftest")
    if len(mm2) < len(sub):
        raise ToolError("self-test: corrupted observations were accepted (%d of %d reported)" % (len(mm2), len(sub)))
    # anti-vacuity of the protocol-version quantifier: bodies serialised for version 1 or 2 and read by a
    # codec of version 1000 must be reported (a reader that ignores the version of the connection)
    vsub = [c for c in cases if len(c["frames"]) == 1 and c["frames"][0]["k"] == "built"
            and ((c["version"] == 1 and c["frames"][0]["obj"]["kind"] in ("tx", "block", "cblock", "kseg"))
                 or (c["version"] == 2 and c["frames"][0]["obj"]["kind"] in ("tx", "block")))]
    if len(vsub) < 8:
        raise ToolError("too few version-dependent single-frame streams emitted (%d)" % len(vsub))
    st3, mm3 = replay_codec(rep2, wd, vsub, False, ["--plan", json.dumps({"cuts": [], "gaps_us": [], "sync": False, "version": 1000})], "selftest_version")
    if len(mm3) < len(vsub):
        bg.setdefault("selftest_failed", []).append("version-1/2 bodies read with a version-1000 codec were accepted (%d of %d reported)" % (len(mm3), len(vsub)))

    # (A2) handshake decision table against the real Handshake::accept / initiate
    hcases = emit(("mc/MC_Handshake", "mc/MC_Handshake_emit"), "HSCASE", "MC_Handshake emit")
    th.join()
    if "exc" in bg:
        raise bg["exc"]
    sm = bg["small"]
    rp, rpv, rh, ring_fast, rrf = sm["rp"], sm["rpv"], sm["rh"], sm["ring_fast"], sm["rrf"]
    ring_full, rrl, rfo = bg["ring_full"]
    hp = os.path.join(wd, "hs_cases.ndjson"); ho = os.path.join(wd, "hs_out.ndjson")
    vlib.write_ndjson(hp, hcases + [ring_fast])
    hstats, _ = run_harness(["codec", "handshake", "--cases", hp, "--out", ho], "handshake")
    if hstats is None or hstats["executed"] < 20:
        raise ToolError("handshake cases not executed")
    lap("handshake cases done")
    th2.join()
    th3.join()
    lap("background jobs joined (but the exhaustive model run)")
    for k_ in ("exc0", "exc", "exc2", "exc3"):
        if k_ in bg:
            raise bg[k_]
    mo = bg["models"]
    # a whole connection through a real Peer
    pe = bg["peer"]
    if pe["stats"] is None:
        rep.violation("peer:harness_abort", {"kind": "abort"}, "the harness died while a real Peer was talking to a raw peer")
    elif pe["stats"]["executed"] < len(pe["cases"]):
        raise ToolError("peer scenarios not executed (%s of %d)" % (pe["stats"]["executed"], len(pe["cases"])))
    seen_pe = set()
    for m in pe["mismatches"]:
        if m["what"] == "io":
            raise ToolError("peer scenario failed for a reason of the machine: %s" % m["detail"])
        sig = peer_signature(m)
        if sig in seen_pe:
            continue
        seen_pe.add(sig)
        c = m["case"]
        rep.violation(sig, {"kind": "peer", "case": c, "mismatch": {k_: v_ for k_, v_ in m.items() if k_ != "case"}},
                      "Peer::%s with a raw peer of protocol version %s (negotiated %s), operations %s: %s; the adapter got %s, the raw peer read types %s" % (
                          c["role"], c["rv"], c["nv"], json.dumps(c["ops"]), m["detail"], m.get("handed"), m.get("got")))
    # the other networks
    for net, nr in sorted(bg["nets"].items()):
        chain = NETS[net][0]
        if nr.get("magic_written_wrong"):
            rep.violation("codec:magic_written:%s" % net, {"kind": "consts", "consts": nr["consts"]},
                          "on %s write_message starts a frame with %s, the magic of that network is %s" % (chain, nr["consts"].get("magic_written"), nr["consts"].get("magic_model")))
            continue
        if nr["aborted"]:
            rep.violation("codec:harness_abort:%s" % net, {"kind": "abort"}, "the harness died while the real codec was reading as a %s node" % chain)
        by_n = {}
        for m in nr["mismatches"]:
            sg = codec_signature(m)
            if not sg.startswith("codec:trailing_bytes_accepted") and not sg.startswith("codec:short_body_accepted"):
                sg += ":net=" + net
            by_n.setdefault(sg, []).append(m)
        for sg, ms in sorted(by_n.items()):
            m = ms[0]
            rep.violation(sg, {"kind": "codec", "case": nr["cases"][m["case"]], "plan": m["plan"], "mismatch": m, "chain": chain},
                          "as a %s node: %s (%s) frame %s of case %d, plan %s/%s: %s [%d runs]" % (
                              chain, m["what"], m.get("class", ""), m.get("label", ""), m["case"], m["plan"].get("kind"), m["plan"].get("cuts"), m["detail"], len(ms)))
    if mo["handover_stats"] is None:
        rep.violation("handshake:handover:harness_abort", {"kind": "abort"}, "the harness died while the codec was reading behind a handshake")
    elif mo["handover_stats"]["executed"] + mo["handover_stats"].get("not_realisable", 0) < len(mo["plans"]):
        raise ToolError("hand-over plans not executed")
    seen_ho = set()
    for m in mo["handover_out"]:
        c = m.pop("case")
        sig = handover_signature(c, m)
        if sig in seen_ho:
            continue
        seen_ho.add(sig)
        rep.violation(sig, {"kind": "handover", "case": c, "mismatch": m},
                      "%s reads its handshake message, then the codec on the same socket; writes cut at %s (%s), %d frame(s) behind the handshake message: %s %s, codec returned %s" % (
                          c["role"], json.dumps(c["cuts"]), "handshake message and what follows in ONE write" if c["coalesced"] else "handshake message ends a write",
                          len(c["frames"]), m["what"], m.get("detail", ""), json.dumps(m.get("observed"))[:200]))
    if bg.get("stats") is None:
        raise ToolError("handshake ring script (full) not executed")
    ring_conns = hstats.get("ring_connections", 0) + bg["stats"].get("ring_connections", 0)
    ring_outbound = max(hstats.get("ring_max_outbound_on_one_object", 0), bg["stats"].get("ring_max_outbound_on_one_object", 0))
    if min(hstats.get("ring_max_outbound_on_one_object", 0), bg["stats"].get("ring_max_outbound_on_one_object", 0)) <= RING_CAP:
        raise ToolError("the ring scripts did not exceed NONCES_CAP on the real Handshake object")
    seen_sigs = set()
    for m in vlib.read_ndjson(ho) + vlib.read_ndjson(rfo):
        c = m.pop("case")
        m["case"] = c
        sig = hs_signature(m)
        if sig in seen_sigs:
            continue
        seen_sigs.add(sig)
        mm = {k: v for k, v in m.items() if k != "case"}
        rep.violation(sig, {"kind": "handshake", "case": c, "mismatch": mm}, hs_what(m))

    # (B) what conn::listen hands to a MessageHandler for random message sequences
    bstats = direction_b(rep, wd, thorough, cases)
    lap("direction B done (%s sequences)" % bstats.get("sequences"))
    th0.join()
    if "exc0" in bg:
        raise bg["exc0"]
    r = bg["m1"]
    ac = sm["cov"].action_counts()
    states, trans = r.distinct, r.generated

    if bg.get("selftest_failed") and not rep.violations:
        raise ToolError("self-test: " + "; ".join(bg["selftest_failed"]))
    n_refusal = sum(1 for c in cases if c["expect"] and c["expect"][-1]["r"] == "err")
    rep.coverage = {
        "states": states + rh.distinct + rrf.distinct + rrl.distinct + mo["conn"].distinct + mo["handover"].distinct + pe["model"].distinct
                  + sum(nr["model"].distinct for nr in bg["nets"].values() if "model" in nr),
        "transitions": trans + rh.generated + rrf.generated + rrl.generated + mo["conn"].generated + mo["handover"].generated + pe["model"].generated
                       + sum(nr["model"].generated for nr in bg["nets"].values() if "model" in nr),
        "traces_validated_against_impl": (stats.get("runs", 0) if stats else 0) + hstats["executed"] + 1 + bstats.get("sequences", 0) + (mo["handover_stats"] or {}).get("executed", 0)
                                         + (pe["stats"] or {}).get("executed", 0) + sum((nr.get("stats") or {}).get("runs", 0) for nr in bg["nets"].values()),
        "samples": [
            {"frames": [f["k"] + ":t%d:len%d" % (f["t"], f["len"]) for f in cases[len(cases) // 3]["frames"]],
             "expect": cases[len(cases) // 3]["expect"]},
            {"handshake": hcases[0]},
            {"replay_stats": stats},
        ],
        "exhaustive": True,
        "model": {"codec_config": cfg, "codec_states": states, "codec_depth": r.depth, "handshake_states": rh.distinct,
                  "codec_action_counts_on_subset": {a: ac[a][1] for a in CODEC_ACTIONS},
                  "coverage_subset": {"cfg": "mc/MC_Codec_cov", "states": sm["cov"].distinct},
                  },
        "streams_replayed": len(cases), "streams_ending_in_refusal": n_refusal,
        "streams_with_version_dependent_bodies": sum(1 for c in cases if c["version"] > 0),
        "built_frames_by_type_and_version": sorted({"t%d@v%d" % (f["t"], f["ver"]) for c in cases for f in c["frames"] if f["k"] == "built"}),
        "header_lists_with_mixed_header_sizes": sum(1 for c in cases if any(len(f.get("mix", [])) > 1 for f in c["frames"])),
        "largest_header_list": max([f["items"] for c in cases for f in c["frames"] if f["k"] == "headers"] or [0]),
        "announced_lengths_beyond_2^31": sorted({f["wlen"] for c in cases for f in c["frames"] if f.get("wlen")}),
        "bad_magic_variants": sorted({f["mv"] for c in cases for f in c["frames"] if not f["magic"]}),
        "selftest_wrong_version_reads_rejected": len(mm3),
        "model_probe_reader_version": {"cfg": "mc/MC_Codec_probe_version", "violated": rpv.invariant_violated},
        "peer_model": {"states": pe["model"].distinct, "probe_local_violated": pe["probe_local"].invariant_violated,
                       "probe_rewrite_violated": pe["probe_rewrite"].invariant_violated,
                       "action_counts": {a: pe["model"].action_counts()[a][1] for a in PEER_ACTIONS}},
        "peer_sessions_replayed": (pe["stats"] or {}).get("executed", 0),
        "peer_messages_exchanged": (pe["stats"] or {}).get("messages_exchanged", 0),
        "peer_selftest_sessions_rejected": pe["selftest"],
        "other_networks": {net: {"states": nr["model"].distinct if "model" in nr else 0, "streams": len(nr.get("cases", [])),
                                 "socket_runs": (nr.get("stats") or {}).get("runs", 0), "consts": nr["consts"]} for net, nr in bg["nets"].items()},
        "socket_runs": stats.get("runs") if stats else 0,
        "single_split_runs": stats.get("single_split_runs") if stats else 0,
        "multi_split_runs": stats.get("multi_split_runs") if stats else 0,
        "idle_timeout_runs": stats.get("idle_runs") if stats else 0,
        "silent_in_body_runs": stats.get("bodygap_runs") if stats else 0,
        "silent_in_body_regions": stats.get("bodygap_regions") if stats else {},
        "read_timeouts_in_silent_in_body_runs": stats.get("bodygap_read_timeouts") if stats else 0,
        "model_probe_timeout_per_read_call": {"cfg": "mc/MC_Codec_probe_hoist", "violated": rp.invariant_violated},
        "ring_scripts": {"fast": {"connections": len(ring_fast["conns"]), "states": rrf.distinct},
                         "full": {"connections": len(ring_full["conns"]), "states": rrl.distinct}},
        "conn_model": {"states": mo["conn"].distinct, "probe_violated": mo["conn_probe"].invariant_violated},
        "handover_model": {"states": mo["handover"].distinct, "probe_violated": mo["handover_probe"].invariant_violated},
        "handover_plans_replayed": (mo["handover_stats"] or {}).get("executed", 0),
        "handshake_message_split_point_plans": (mo["handover_stats"] or {}).get("handshake_message_split_points", 0),
        "handover_plans_not_realisable": (mo["handover_stats"] or {}).get("not_realisable", 0),
        "handover_plans_with_handshake_message_and_next_frames_in_one_write": (mo["handover_stats"] or {}).get("coalesced_plans", 0),
        "results_read_by_codec_behind_handshakes": (mo["handover_stats"] or {}).get("results_read_behind_handshakes", 0),
        "ring_connections_replayed": ring_conns, "ring_max_outbound_initiations_on_one_object": ring_outbound,
        "read_timeouts_observed": stats.get("timeouts_observed") if stats else 0,
        "frames_identical_to_write_message": stats.get("frames_checked_against_write_message") if stats else 0,
        "max_single_allocation_during_reads": stats.get("max_single_alloc") if stats else 0,
        "handshake_cases_executed": hstats["executed"], "handshake_cases_not_realisable": hstats["not_realisable"],
        "selftest_corruptions_rejected": len(mm2),
        "direction_b": bstats,
        "wire_constants": consts,
        "checker_cmd": "tlc mc/MC_Codec(+probe_hoist, probe_version, net_main, net_test); tlc mc/MC_Handshake; tlc mc/MC_HandshakeRing_fast|full; tlc mc/MC_CodecConn(+probe_skip); tlc mc/MC_CodecHandover(+probe_buffered); tlc mc/MC_CodecPeer(+probe_local, probe_rewrite); tlc trace/CodecTrace; h_codec replay [--chain]|handshake|handover|peer|record",
    }
    rep.assumptions = [
        "chain type AutomatedTesting (max_block_size 7788, headers of 257/258/259 bytes = PoW 8-cycles on 2^10..2^12 edges) for everything but a small set of streams replayed as a Mainnet and as a Testnet node (magic, block-size limits; no block headers there: their proof of work cannot be produced)",
        "every fragment gap stays inside the I/O timeouts as the property states (Codec.tla SilenceOK): pauses longer than HEADER_IO_TIMEOUT (2 s; 2.3-2.6 s in the socket runs) occur between frames and after the 11 header bytes of a frame (body, header items, attachment chunks), never inside the 11 header bytes; pauses near BODY_IO_TIMEOUT (60 s) are in the model only",
        "connection level: the reader loop is the real conn::listen with a recording MessageHandler; 'refused' means nothing behind the frame reaches the handler and the reader shuts the socket down while the peer's side is still open (waited for up to 5 s); the Peer / ban logic above it is not exercised",
        "hand-over: the handshake message and the frames behind it are written by a raw peer in one write (or cut as planned) on loopback, where one write of < 1 KiB arrives as one segment; the plans cover Shake (initiate) and Hand (accept)",
        "nonce ring: the scripts exceed NONCES_CAP by a few initiations on one Handshake object; broken dials are realised by a socket whose write side is shut down (the Hand cannot be written), concurrent dials are not exercised",
        "fragmentation is forced by waiting until the reader drained the socket (FIONREAD) before the next write; the kernel may still coalesce fragments of the unsynchronised random plans",
        "the real side of every handshake case and of every peer session has PROTOCOL_VERSION 1000 (the constant of the build); lower negotiated versions come from the remote side (1, 2, 3; 2000 for a newer peer); the other model cases are checked in TLC only",
        "Block/CompactBlock/(Stem)Transaction/KernelSegment/RangeProofSegment/OutputSegment/OutputBitmapSegment bodies are real objects (one composition each, built with libtx / Block::new / CompactBlock::from / Segment::from_parts) serialised by Msg::new at versions 1, 2, 3, 1000; their sizes per version are computed by Codec.tla (ObjSize) and must equal what the writer produced; OutputBitmapSegment (type 22) likewise with one sparse block (the positions encoding)",
        "announced lengths above 2^30 are represented in the model by 2^30 (the machine only compares the length with limits below 2^30) and carried to the wire as decimal strings (2^31, 2^32, 2^32+16, 2^63-1, 2^63, 2^64-1); allocations are observed per request through the harness allocator (cap 256 MiB)",
        "a decodable body followed by bytes its items do not account for is refused by the model (the statement's 'item counts inconsistent with its length'); exercised for the types with hand-rendered bodies (3-8, 10, 12, 16-21, 23, 25, 27 and Hand/Shake), not for Block/CompactBlock/Transaction/segment responses; for these types a frame of exactly the limit is of that kind, so their limits are pinned from above (limit + 1) and by the longest honest message (256 IPv6 peer addresses, 512 headers, 20 locator hashes), not at the limit itself",
        "peer sessions: the remote side is a raw peer (hand-written Hand / Shake, frames serialised with Msg::new at the negotiated version, the real Codec as its reader); the node side is the real Peer::accept / Peer::connect with a recording NetAdapter; inbound and outbound transactions are different calls (TrackingAdapter suppresses what a peer already sent); the interleaving of answers and own messages on the send channel is left free; write stalls beyond BODY_IO_TIMEOUT (the retry of a half-written message) are outside the property's quantifier",
    ]
    return rep.finish()


def conn_verdict(tp, out):
    """Narrow signature of a trace rejected by CodecTrace.tla, from the rejected event and the
    sequence (Reset event) it belongs to."""
    m = re.search(r'TRACE-REJECTED at event",\s*(\d+)', out)
    events = vlib.read_ndjson(tp)
    d = int(m.group(1)) if m else 0
    if d < 1 or d > len(events):
        return "conn:listen:trace", {"rejected_event": d}, "trace rejected at event %d" % d
    e = events[d - 1]
    j = d - 1
    while j > 0 and events[j].get("k") != "Reset":
        j -= 1
    rs = events[j]
    seq = [rs]
    for x in events[j + 1:]:
        if x.get("k") == "Reset":
            break
        seq.append(x)
    kinds = rs.get("kinds") or []
    kind = next((k for k in kinds if k), "")
    if e.get("k") == "Deliver":
        what = "delivered_after" if kind else "unexpected_delivery"
    elif e.get("k") == "Closed":
        if not e.get("closed"):
            what = "never_closed"
        elif kind and not e.get("before_eof"):
            what = "connection_kept"
        elif not e.get("files_ok"):
            what = "attachment_file"
        else:
            what = "deliveries_missing"
    else:
        what = "trace"
    if kind and what in ("delivered_after", "connection_kept", "never_closed"):
        sig = "conn:refused_frame:%s:%s" % (what, kind)
    else:
        sig = "conn:listen:%s" % what
    if e.get("k") == "Deliver" and e.get("r") == "msg" and any(
            f["t"] == e.get("t") and f["k"] == "raw" and f["magic"] and f["need"] > f["len"] for f in rs["frames"]):
        # the same observation as in the codec replay: a body shorter than the message's content was delivered
        sig = "codec:short_body_accepted:%s" % TYPE_NAMES.get(e.get("t"), "t%s" % e.get("t"))
    frames = ["%s:t%d:len%d:body%d%s" % (f["k"], f["t"], f["len"], f["body"], "" if f["magic"] else ":badmagic") for f in rs["frames"]]
    text = "conn::listen on frames %s (refusal: %s): event %d %s not allowed by CodecConn.tla; recorded %s" % (
        frames, kinds, d - j, json.dumps(e), json.dumps([x for x in seq[1:]])[:300])
    case = {"frames": rs["frames"], "kinds": kinds, "case_id": rs.get("case", -1)}
    return sig, {"kind": "conn", "case": case, "rejected_event": e, "recorded": seq[1:]}, text


def conn_run(wd, name, nseq, cases):
    """One `h_codec record` run (real conn::listen) validated by spec/trace/CodecTrace.tla.
    Returns (stats, verdict); verdict is None or (signature, replay object, text)."""
    tp = os.path.join(wd, "listen_trace_%s.ndjson" % name)
    args = ["codec", "record", "--out", tp, "--tmp", vlib.workdir(PID, "tmp"), "--seed", vlib.seed(), "--seqs", nseq]
    if cases:
        cp = os.path.join(wd, "listen_cases_%s.ndjson" % name)
        vlib.write_ndjson(cp, cases)
        args += ["--cases", cp]
    stats, p = run_harness(args, "record")
    if stats is None:
        return {}, ("codec:listen:harness_abort", {"kind": "abort", "stderr": (p.stderr or "")[-600:]}, "harness died while conn::listen was reading")
    r = vlib.tlc("trace/CodecTrace", workers=1, coverage=False, env={"TRACE": tp}, xss="512m", xmx="4g", timeout=1500)
    if r.finished:
        return stats, None
    if "TRACE-REJECTED" in r.out:
        sig, obj, text = conn_verdict(tp, r.out)
        return stats, (sig, obj, text[:700])
    print(r.out[-4000:])
    raise ToolError("CodecTrace failed without a verdict")


def direction_b(rep, wd, thorough, cases):
    """conn::listen + MessageHandler: recorded deliveries and the closing of the socket validated by
    spec/trace/CodecTrace.tla (CodecConn.tla run on the recorded frame sequence)."""
    sel = []
    for i, c in enumerate(cases):
        # (streams with a body longer than its items need are judged per message type by the codec
        # replay only: codec:trailing_bytes_accepted:<type>)
        # (so is a BanReason body shorter than its content - codec:short_body_accepted:BanReason -: the trace
        # validation stops at the first event it rejects and would not look at the sequences behind it)
        if c["total"] <= 70000 and "trailing" not in c["classes"] and not any(
                f["t"] == 18 and f["k"] == "raw" and f["need"] > f["len"] for f in c["frames"]):
            c2 = dict(c); c2["case_id"] = i
            sel.append(c2)
    mid = [c for c in sel if any(c["kinds"][:-1])]
    last = [c for c in sel if any(c["kinds"]) and not any(c["kinds"][:-1])]
    honest = [c for c in sel if not any(c["kinds"]) and c["total"] <= 20000]
    step = max(1, len(honest) // (300 if thorough else 100))
    honest = honest[vlib.seed() % step::step]
    if len(mid) < 20:
        raise ToolError("too few streams with a refused frame in the middle (%d)" % len(mid))
    # (a) a refused frame followed by valid ones: nothing behind it is delivered, the reader closes
    sa, va = conn_run(wd, "mid", 0, mid)
    # (b) random sequences, refused frames at the end, honest streams
    sb, vb = conn_run(wd, "mix", 60 if thorough else 16, last + honest)
    for v in (va, vb):
        if v and not (va and v is vb and v[0] == va[0]) and v[0] not in [x[0] for x in rep.violations]:
            rep.violation(*v)
    return {"built": True, "sequences": sa.get("sequences", 0) + sb.get("sequences", 0),
            "refused_in_the_middle_sequences": sa.get("sequences", 0),
            "random_sequences": sb.get("random_sequences", 0),
            "model_sequences": sa.get("model_sequences", 0) + sb.get("model_sequences", 0),
            "merged_deliveries": sa.get("merged_deliveries", 0) + sb.get("merged_deliveries", 0),
            "closed_by_reader_before_eof": sa.get("closed_by_reader_before_eof", 0) + sb.get("closed_by_reader_before_eof", 0),
            "events": sa.get("events", 0) + sb.get("events", 0)}
