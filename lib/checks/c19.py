"""C19 — peer message framing is faithful under fragmentation and enforces size limits
(spec/Codec.tla, spec/Handshake.tla; harness crate h_codec)."""
import json, os, re, threading
import vlib
from vlib import Report, ToolError, log

PID = "C19"
ENGINES = ["codec"]

# constants of the TLC configs (spec/mc/MC_Codec*.cfg); the build must agree
MODEL_CONSTS = {"HDR": 11, "BH": 257, "BHMAX": 310, "MaxBlockSize": 7788}
CODEC_ACTIONS = ["Deliver", "Silence", "ExpectAttachment", "Call", "Loop", "ReadExact", "Timeout", "Eof", "Parse"]
HS_ACTIONS = ["Start", "Accept", "Finish", "Lose", "Reset"]
RING_CAP = 100   # NONCES_CAP of p2p/src/handshake.rs = RingCap of spec/mc/MC_HandshakeRing_*.cfg


TYPE_NAMES = {0: "Error", 1: "Hand", 2: "Shake", 3: "Ping", 4: "Pong", 5: "GetPeerAddrs", 6: "PeerAddrs", 7: "GetHeaders",
              8: "Header", 9: "Headers", 10: "GetBlock", 11: "Block", 12: "GetCompactBlock", 13: "CompactBlock",
              14: "StemTransaction", 15: "Transaction", 16: "TxHashSetRequest", 17: "TxHashSetArchive", 18: "BanReason",
              19: "GetTransaction", 20: "TransactionKernel", 21: "GetOutputBitmapSegment", 22: "OutputBitmapSegment",
              23: "GetOutputSegment", 24: "OutputSegment", 25: "GetRangeProofSegment", 26: "RangeProofSegment",
              27: "GetKernelSegment", 28: "KernelSegment"}


def codec_signature(m):
    """Narrow signature of one mismatch reported by `h_codec replay`."""
    if m["what"] == "trailing_bytes_accepted":
        # one signature per message type: a body longer than what its items need was accepted
        return "codec:trailing_bytes_accepted:%s" % TYPE_NAMES.get(m.get("t"), "t%s" % m.get("t"))
    sig = "codec:%s:%s:t%s" % (m["what"], m.get("k", "?"), m.get("t", "?"))
    if m.get("k") == "headers" and m.get("count") == 0 and m.get("items") == 0:
        sig += ":n=0"
    elif m.get("class") in ("refused", "badcount", "baddecode", "unexpected", "trailing"):
        sig += ":" + m["class"]
    if (m.get("plan") or {}).get("kind") == "bodygap":
        # the peer paused for longer than the header timeout in the middle of a frame body
        sig += ":bodygap"
    return sig


def hs_signature(m):
    c = m["case"]
    if c.get("role") == "ring":
        return "handshake:ring:%s:%s:%s" % (m.get("kind", "?"), m["what"], m.get("when", ""))
    if m["what"] == "trailing_bytes_accepted":
        return "codec:trailing_bytes_accepted:%s" % ("Hand" if c["role"] == "accept" else "Shake")
    return "handshake:%s:%s:%s" % (c["role"], m["what"], c["expect"]["res"])


def handover_signature(c, m):
    """`h_codec handover` mismatch: the frames written behind a Hand / Shake as read by the codec."""
    if m["what"] == "handshake_failed" and body_split(c):
        # a Hand / Shake whose body arrives in two segments is not read as written
        return "handshake:body_split:handshake_failed:%s" % c["role"]
    if m["what"] in ("io", "render", "handshake_failed"):
        return "handshake:handover:%s:%s" % (m["what"], c["role"])
    lost = "next_message_lost" if m["what"] in ("missing", "eof") else "stream_cut"
    return "handshake:%s:%s:%s" % ("coalesced" if c.get("coalesced") else "handover", lost, c["role"])


def body_split(c):
    """the plan cuts the handshake message inside its BODY (behind the 11 header bytes)"""
    for x in c.get("cuts", []):
        if x.get("f") == 0 and (x.get("at") in ("mid", "last") or (x.get("at") == "b" and x.get("k", 0) > 11)):
            return True
    return False


def hs_what(m):
    c = m["case"]
    if c.get("role") == "ring":
        return "script %s: %s" % (c.get("name", ""), m["detail"])
    return "%s lv=%s rv=%s same_genesis=%s nonce_in_ring=%s: %s" % (
        c["role"], c["lv"], c["rv"], c["same_genesis"], c["nonce_in_ring"], m["detail"])


def ring_case(name):
    """One scripted behaviour of a single Handshake object with more outbound initiations than the
    real nonce ring holds, walked by TLC through Handshake.tla (invariants checked on the way)."""
    r = vlib.tlc("mc/MC_HandshakeRing", "mc/MC_HandshakeRing_" + name, workers=1, timeout=600)
    if r.invariant_violated:
        print(r.out[-3000:])
        raise ToolError("Handshake.tla invariant %s violated on the ring script %s" % (r.invariant_violated, name))
    vlib.tlc_ok(r, "MC_HandshakeRing_" + name)
    hs = [json.loads(x) for x in r.printed("HSRING")]
    if len(hs) != 1:
        raise ToolError("ring script %s: %d histories emitted" % (name, len(hs)))
    h = hs[0]
    outbound = sum(1 for k in h["script"] if k != "in")
    if outbound <= RING_CAP or len(h["conns"]) != len(h["script"]):
        raise ToolError("ring script %s does not exceed the capacity (%d outbound)" % (name, outbound))
    h.update({"role": "ring", "cap": RING_CAP, "name": name})
    return h, r


def run_harness(args, what):
    p = vlib.harness(args, check=False, timeout=2400)
    if p.returncode < 0 or p.returncode in (134, 139):
        return None, p          # killed by a signal (abort on an oversized allocation, …): data
    if p.returncode != 0:
        print(p.stdout[-2000:]); print(p.stderr[-3000:])
        raise ToolError("h_codec %s failed (%d)" % (what, p.returncode))
    try:
        return json.loads(p.stdout.strip().splitlines()[-1]), p
    except Exception:
        print(p.stdout[-2000:])
        raise ToolError("h_codec %s: no summary line" % what)


def emit(cfg, tag, what):
    e = vlib.tlc(cfg[0], cfg[1], workers=1, coverage=False, timeout=1500)
    vlib.tlc_ok(e, what)
    return [json.loads(x) for x in e.printed(tag)]


def replay_codec(rep, wd, cases, thorough, extra=None, name="cases"):
    cp = os.path.join(wd, name + ".ndjson")
    outp = os.path.join(wd, name + "_out.ndjson")
    tmp = vlib.workdir(PID, "tmp")
    vlib.write_ndjson(cp, cases)
    args = ["codec", "replay", "--cases", cp, "--out", outp, "--tmp", tmp, "--seed", vlib.seed(), "--threads", 8]
    if thorough:
        args.append("--thorough")
    if extra:
        args += extra
    stats, p = run_harness(args, "replay")
    if stats is None:
        tail = (p.stderr or "")[-600:]
        rep.violation("codec:harness_abort", {"kind": "abort", "stderr": tail, "cases_file": cp},
                      "the harness process died (rc=%d) while the real codec was reading: %s" % (p.returncode, tail.strip().splitlines()[-1:] or ""))
        return {}, []
    return stats, vlib.read_ndjson(outp)


def run(tier, replay):
    rep = Report(PID, tier, "model_checking")
    wd = vlib.workdir(PID, clean=True)
    thorough = tier == "thorough"

    if replay:
        obj = json.load(open(replay))
        case = obj["case"]
        if case.get("kind") == "handshake":
            cp = os.path.join(wd, "replay_hs.ndjson"); outp = os.path.join(wd, "replay_hs_out.ndjson")
            vlib.write_ndjson(cp, [case["case"]])
            run_harness(["codec", "handshake", "--cases", cp, "--out", outp], "handshake")
            for m in vlib.read_ndjson(outp)[:1]:
                m.pop("case", None)
                rep.violation(obj["signature"], case, json.dumps(m)[:600])
        elif case.get("kind") == "codec":
            extra = ["--plan", json.dumps(case["plan"])] if case.get("plan") else None
            stats, mms = replay_codec(rep, wd, [case["case"]], False, extra, "replay")
            for m in mms:
                rep.violation(obj["signature"], case, "%s: %s" % (m["what"], m["detail"]))
        elif case.get("kind") == "handover":
            cp = os.path.join(wd, "replay_ho.ndjson"); outp = os.path.join(wd, "replay_ho_out.ndjson")
            vlib.write_ndjson(cp, [case["case"]])
            run_harness(["codec", "handover", "--cases", cp, "--out", outp], "handover")
            for m in vlib.read_ndjson(outp)[:1]:
                m.pop("case", None)
                rep.violation(obj["signature"], case, json.dumps(m)[:600])
        elif case.get("kind") == "conn":
            _, v = conn_run(wd, "replay", 0, [case["case"]])
            if v:
                rep.violation(obj["signature"], case, v[2])
        elif case.get("kind") == "trace":
            r = vlib.tlc("trace/CodecTrace", workers=1, coverage=False, env={"TRACE": case["trace"]}, xss="512m", xmx="4g", timeout=1500)
            if not r.finished:
                if "TRACE-REJECTED" not in r.out:
                    raise ToolError("CodecTrace failed without a verdict")
                ls = r.out.splitlines()
                i = [k for k, x in enumerate(ls) if "TRACE-REJECTED" in x][0]
                rep.violation(obj["signature"], case, " ".join(x.strip() for x in ls[i:i + 8])[:500])
        else:
            raise ToolError("replay file of kind %r cannot be re-executed alone" % case.get("kind"))
        rep.coverage = {"states": 1, "transitions": 1, "traces_validated_against_impl": 1, "samples": [obj["signature"]]}
        return rep.finish()

    # (0) the model's wire constants are those of this build
    p = vlib.harness(["codec", "consts"])
    consts = json.loads(p.stdout.strip().splitlines()[-1])
    for k, v in MODEL_CONSTS.items():
        if consts.get(k) != v:
            raise ToolError("wire constant %s: build has %s, Codec.tla configs assume %s" % (k, consts.get(k), v))

    # (M1) Codec.tla: every stream x every fragmentation at the candidate boundaries
    cfg = "mc/MC_Codec_thorough" if thorough else "mc/MC_Codec"
    r = vlib.tlc("mc/MC_Codec", cfg, workers=4, timeout=3000)
    if r.invariant_violated:
        print(r.out[-3000:])
        raise ToolError("Codec.tla invariant %s violated inside the model" % r.invariant_violated)
    vlib.tlc_ok(r, "MC_Codec")
    ac = r.action_counts()
    for a in CODEC_ACTIONS:
        if ac.get(a, (0, 0))[1] == 0:
            raise ToolError("Codec.tla action %s never taken (vacuous model)" % a)
    states, trans = r.distinct, r.generated
    # (M1p) the model tells the two placements of set_stream_timeout apart: with the timeout chosen
    # once per read() (TimeoutPerChunk = FALSE) a silence inside a body must break NoDesync
    rp = vlib.tlc("mc/MC_Codec", "mc/MC_Codec_probe_hoist", workers=1, coverage=False, timeout=600)
    if "NoDesync" not in rp.invariant_violated:
        print(rp.out[-3000:])
        raise ToolError("Codec.tla does not distinguish the header timeout from the body timeout (probe passed)")
    # (M2) Handshake.tla
    rh = vlib.tlc("mc/MC_Handshake", "mc/MC_Handshake", workers=2, timeout=600)
    if rh.invariant_violated:
        print(rh.out[-3000:])
        raise ToolError("Handshake.tla invariant %s violated inside the model" % rh.invariant_violated)
    vlib.tlc_ok(rh, "MC_Handshake")
    ach = rh.action_counts()
    for a in HS_ACTIONS:
        if ach.get(a, (0, 0))[1] == 0:
            raise ToolError("Handshake.tla action %s never taken" % a)

    # (M3/A3) the nonce ring at its real capacity: scripted behaviours of ONE Handshake object with
    # more than NONCES_CAP outbound initiations.  The long script (every dial delivers its Hand,
    # 150 ms apart) is replayed in the background while the codec socket runs are going on.
    ring_fast, rrf = ring_case("fast")
    ring_full, rrl = ring_case("full")
    rfp = os.path.join(wd, "hs_ring_full.ndjson"); rfo = os.path.join(wd, "hs_ring_full_out.ndjson")
    vlib.write_ndjson(rfp, [ring_full])
    bg = {}

    def ring_bg():
        try:
            bg["stats"], bg["p"] = run_harness(["codec", "handshake", "--cases", rfp, "--out", rfo], "handshake ring")
        except BaseException as e:      # re-raised in the main thread
            bg["exc"] = e
    th = threading.Thread(target=ring_bg)
    th.start()

    # (M4) CodecConn.tla: the reader loop above the codec; (M5/A4) CodecHandover.tla: the byte stream
    # handed from read_message (handshake) to the codec, plans replayed on the real
    # Handshake::initiate / accept + Codec on one socket.  Small jobs: run beside the codec replay.
    def models_bg():
        try:
            rc = vlib.tlc("mc/MC_CodecConn", "mc/MC_CodecConn", workers=2, timeout=900)
            if rc.invariant_violated:
                print(rc.out[-3000:])
                raise ToolError("CodecConn.tla invariant %s violated inside the model" % rc.invariant_violated)
            vlib.tlc_ok(rc, "MC_CodecConn")
            for a_ in ("CodecStep", "Dispatch", "EndOfStream"):
                if rc.action_counts().get(a_, (0, 0))[1] == 0:
                    raise ToolError("CodecConn.tla action %s never taken" % a_)
            rcp = vlib.tlc("mc/MC_CodecConn", "mc/MC_CodecConn_probe_skip", workers=1, coverage=False, timeout=600)
            if "ClosedOnRefusal" not in rcp.invariant_violated:
                print(rcp.out[-3000:])
                raise ToolError("CodecConn.tla does not notice a reader loop that skips Error::Serialization (probe passed)")
            rh_ = vlib.tlc("mc/MC_CodecHandover", "mc/MC_CodecHandover", workers=2, timeout=600)
            if rh_.invariant_violated:
                print(rh_.out[-3000:])
                raise ToolError("CodecHandover.tla invariant %s violated inside the model" % rh_.invariant_violated)
            vlib.tlc_ok(rh_, "MC_CodecHandover")
            for a_ in ("Deliver", "ReadExact"):
                if rh_.action_counts().get(a_, (0, 0))[1] == 0:
                    raise ToolError("CodecHandover.tla action %s never taken" % a_)
            rhp = vlib.tlc("mc/MC_CodecHandover", "mc/MC_CodecHandover_probe_buffered", workers=1, coverage=False, timeout=600)
            if not rhp.invariant_violated:
                print(rhp.out[-3000:])
                raise ToolError("CodecHandover.tla does not notice a read_message that reads ahead (probe passed)")
            plans = emit(("mc/MC_CodecHandover", "mc/MC_CodecHandover_emit"), "HANDOVER", "MC_CodecHandover emit")
            if len(plans) < 100 or not any(p_["coalesced"] for p_ in plans):
                raise ToolError("too few hand-over plans emitted (%d)" % len(plans))
            pp = os.path.join(wd, "handover.ndjson"); po = os.path.join(wd, "handover_out.ndjson")
            vlib.write_ndjson(pp, plans)
            hst, _ = run_harness(["codec", "handover", "--cases", pp, "--out", po], "handover")
            bg["models"] = {"conn": rc, "conn_probe": rcp, "handover": rh_, "handover_probe": rhp, "plans": plans,
                            "handover_stats": hst, "handover_out": vlib.read_ndjson(po) if hst is not None else []}
        except BaseException as e:
            bg["exc2"] = e
    th2 = threading.Thread(target=models_bg)
    th2.start()

    # (A1) streams + expectations from TLC, rendered and fragmented on loopback, read by the real Codec
    cases = emit(("mc/MC_Codec", "mc/MC_Codec_emit_thorough" if thorough else "mc/MC_Codec_emit"), "CODECCASE", "MC_Codec emit")
    if len(cases) < 100:
        raise ToolError("too few codec cases emitted (%d)" % len(cases))
    stats, mms = replay_codec(rep, wd, cases, thorough)
    by_sig = {}
    for m in mms:
        sig = codec_signature(m)
        by_sig.setdefault(sig, []).append(m)
    for sig, ms in sorted(by_sig.items()):
        m = ms[0]
        what = "%s (%s) frame %s of case %d, plan %s/%s v%s: %s [%d runs]" % (
            m["what"], m.get("class", ""), m.get("label", ""), m["case"], m["plan"].get("kind"), m["plan"].get("cuts"),
            m["plan"].get("version"), m["detail"], len(ms))
        rep.violation(sig, {"kind": "codec", "case": cases[m["case"]], "plan": m["plan"], "mismatch": m}, what)
    if stats and stats.get("idle_runs", 0) > 0 and stats.get("timeouts_observed", 0) == 0:
        raise ToolError("no read timeout was observed in the idle runs (HEADER_IO_TIMEOUT path not exercised)")
    if stats and stats.get("bodygap_runs", 0) < 10:
        raise ToolError("too few runs with a silent peer inside a frame body (%s)" % stats.get("bodygap_runs"))

    # anti-vacuity: a deliberately wrong adapter (first result dropped) must be reported
    sub = [c for c in cases if len(c["expect"]) >= 2][:12]
    rep2 = Report(PID, tier, "model_checking")   # scratch report, never finished
    st2, mm2 = replay_codec(rep2, wd, sub, False, ["--corrupt", "--plan", json.dumps({"cuts": [], "gaps_us": [], "sync": False, "version": 1000})], "selftest")
    if len(mm2) < len(sub):
        raise ToolError("self-test: corrupted observations were accepted (%d of %d reported)" % (len(mm2), len(sub)))

    # (A2) handshake decision table against the real Handshake::accept / initiate
    hcases = emit(("mc/MC_Handshake", "mc/MC_Handshake_emit"), "HSCASE", "MC_Handshake emit")
    hp = os.path.join(wd, "hs_cases.ndjson"); ho = os.path.join(wd, "hs_out.ndjson")
    vlib.write_ndjson(hp, hcases + [ring_fast])
    hstats, _ = run_harness(["codec", "handshake", "--cases", hp, "--out", ho], "handshake")
    if hstats is None or hstats["executed"] < 20:
        raise ToolError("handshake cases not executed")
    th.join()
    th2.join()
    if "exc" in bg:
        raise bg["exc"]
    if "exc2" in bg:
        raise bg["exc2"]
    mo = bg["models"]
    if mo["handover_stats"] is None:
        rep.violation("handshake:handover:harness_abort", {"kind": "abort"}, "the harness died while the codec was reading behind a handshake")
    elif mo["handover_stats"]["executed"] + mo["handover_stats"].get("not_realisable", 0) < len(mo["plans"]):
        raise ToolError("hand-over plans not executed")
    seen_ho = set()
    for m in mo["handover_out"]:
        c = m.pop("case")
        sig = handover_signature(c, m)
        if sig in seen_ho:
            continue
        seen_ho.add(sig)
        rep.violation(sig, {"kind": "handover", "case": c, "mismatch": m},
                      "%s reads its handshake message, then the codec on the same socket; writes cut at %s (%s), %d frame(s) behind the handshake message: %s %s, codec returned %s" % (
                          c["role"], json.dumps(c["cuts"]), "handshake message and what follows in ONE write" if c["coalesced"] else "handshake message ends a write",
                          len(c["frames"]), m["what"], m.get("detail", ""), json.dumps(m.get("observed"))[:200]))
    if bg.get("stats") is None:
        raise ToolError("handshake ring script (full) not executed")
    ring_conns = hstats.get("ring_connections", 0) + bg["stats"].get("ring_connections", 0)
    ring_outbound = max(hstats.get("ring_max_outbound_on_one_object", 0), bg["stats"].get("ring_max_outbound_on_one_object", 0))
    if min(hstats.get("ring_max_outbound_on_one_object", 0), bg["stats"].get("ring_max_outbound_on_one_object", 0)) <= RING_CAP:
        raise ToolError("the ring scripts did not exceed NONCES_CAP on the real Handshake object")
    seen_sigs = set()
    for m in vlib.read_ndjson(ho) + vlib.read_ndjson(rfo):
        c = m.pop("case")
        m["case"] = c
        sig = hs_signature(m)
        if sig in seen_sigs:
            continue
        seen_sigs.add(sig)
        mm = {k: v for k, v in m.items() if k != "case"}
        rep.violation(sig, {"kind": "handshake", "case": c, "mismatch": mm}, hs_what(m))

    # (B) what conn::listen hands to a MessageHandler for random message sequences
    bstats = direction_b(rep, wd, thorough, cases)

    n_refusal = sum(1 for c in cases if c["expect"] and c["expect"][-1]["r"] == "err")
    rep.coverage = {
        "states": states + rh.distinct + rrf.distinct + rrl.distinct + mo["conn"].distinct + mo["handover"].distinct,
        "transitions": trans + rh.generated + rrf.generated + rrl.generated + mo["conn"].generated + mo["handover"].generated,
        "traces_validated_against_impl": (stats.get("runs", 0) if stats else 0) + hstats["executed"] + 1 + bstats.get("sequences", 0) + (mo["handover_stats"] or {}).get("executed", 0),
        "samples": [
            {"frames": [f["k"] + ":t%d:len%d" % (f["t"], f["len"]) for f in cases[len(cases) // 3]["frames"]],
             "expect": cases[len(cases) // 3]["expect"]},
            {"handshake": hcases[0]},
            {"replay_stats": stats},
        ],
        "exhaustive": True,
        "model": {"codec_config": cfg, "codec_states": states, "codec_depth": r.depth, "handshake_states": rh.distinct,
                  "codec_action_counts": {a: ac[a][1] for a in CODEC_ACTIONS},
                  },
        "streams_replayed": len(cases), "streams_ending_in_refusal": n_refusal,
        "socket_runs": stats.get("runs") if stats else 0,
        "single_split_runs": stats.get("single_split_runs") if stats else 0,
        "multi_split_runs": stats.get("multi_split_runs") if stats else 0,
        "idle_timeout_runs": stats.get("idle_runs") if stats else 0,
        "silent_in_body_runs": stats.get("bodygap_runs") if stats else 0,
        "silent_in_body_regions": stats.get("bodygap_regions") if stats else {},
        "read_timeouts_in_silent_in_body_runs": stats.get("bodygap_read_timeouts") if stats else 0,
        "model_probe_timeout_per_read_call": {"cfg": "mc/MC_Codec_probe_hoist", "violated": rp.invariant_violated},
        "ring_scripts": {"fast": {"connections": len(ring_fast["conns"]), "states": rrf.distinct},
                         "full": {"connections": len(ring_full["conns"]), "states": rrl.distinct}},
        "conn_model": {"states": mo["conn"].distinct, "probe_violated": mo["conn_probe"].invariant_violated},
        "handover_model": {"states": mo["handover"].distinct, "probe_violated": mo["handover_probe"].invariant_violated},
        "handover_plans_replayed": (mo["handover_stats"] or {}).get("executed", 0),
        "handshake_message_split_point_plans": (mo["handover_stats"] or {}).get("handshake_message_split_points", 0),
        "handover_plans_not_realisable": (mo["handover_stats"] or {}).get("not_realisable", 0),
        "handover_plans_with_handshake_message_and_next_frames_in_one_write": (mo["handover_stats"] or {}).get("coalesced_plans", 0),
        "results_read_by_codec_behind_handshakes": (mo["handover_stats"] or {}).get("results_read_behind_handshakes", 0),
        "ring_connections_replayed": ring_conns, "ring_max_outbound_initiations_on_one_object": ring_outbound,
        "read_timeouts_observed": stats.get("timeouts_observed") if stats else 0,
        "frames_identical_to_write_message": stats.get("frames_checked_against_write_message") if stats else 0,
        "max_single_allocation_during_reads": stats.get("max_single_alloc") if stats else 0,
        "handshake_cases_executed": hstats["executed"], "handshake_cases_not_realisable": hstats["not_realisable"],
        "selftest_corruptions_rejected": len(mm2),
        "direction_b": bstats,
        "wire_constants": consts,
        "checker_cmd": "tlc mc/MC_Codec; tlc mc/MC_Codec_probe_hoist; tlc mc/MC_Handshake; tlc mc/MC_HandshakeRing_fast|full; tlc mc/MC_CodecConn(+probe_skip); tlc mc/MC_CodecHandover(+probe_buffered); tlc trace/CodecTrace; h_codec replay|handshake|handover|record",
    }
    rep.assumptions = [
        "chain type AutomatedTesting (max_block_size 7788, header 257 bytes, PoW 8-cycles on 2^10 edges); other chain types only change the constants",
        "every fragment gap stays inside the I/O timeouts as the property states (Codec.tla SilenceOK): pauses longer than HEADER_IO_TIMEOUT (2 s; 2.3-2.6 s in the socket runs) occur between frames and after the 11 header bytes of a frame (body, header items, attachment chunks), never inside the 11 header bytes; pauses near BODY_IO_TIMEOUT (60 s) are in the model only",
        "connection level: the reader loop is the real conn::listen with a recording MessageHandler; 'refused' means nothing behind the frame reaches the handler and the reader shuts the socket down while the peer's side is still open (waited for up to 5 s); the Peer / ban logic above it is not exercised",
        "hand-over: the handshake message and the frames behind it are written by a raw peer in one write (or cut as planned) on loopback, where one write of < 1 KiB arrives as one segment; the plans cover Shake (initiate) and Hand (accept)",
        "nonce ring: the scripts exceed NONCES_CAP by a few initiations on one Handshake object; broken dials are realised by a socket whose write side is shut down (the Hand cannot be written), concurrent dials are not exercised",
        "fragmentation is forced by waiting until the reader drained the socket (FIONREAD) before the next write; the kernel may still coalesce fragments of the unsynchronised random plans",
        "the real side of every handshake case has PROTOCOL_VERSION 1000 (the constant of the build); the other model cases are checked in TLC only",
        "bodies of Block/CompactBlock/Transaction/segment-response types are exercised at the framing level only (limits, refusal), not with decodable contents",
        "announced lengths above 2^30 are not in the model (TLC integers); allocations are observed per request through the harness allocator (cap 256 MiB)",
        "a decodable body followed by bytes its items do not account for is refused by the model (the statement's 'item counts inconsistent with its length'); exercised for the types with hand-rendered bodies (3-8, 10, 12, 16-21, 23, 25, 27 and Hand/Shake), not for Block/CompactBlock/Transaction/segment responses",
    ]
    return rep.finish()


def conn_verdict(tp, out):
    """Narrow signature of a trace rejected by CodecTrace.tla, from the rejected event and the
    sequence (Reset event) it belongs to."""
    m = re.search(r'TRACE-REJECTED at event",\s*(\d+)', out)
    events = vlib.read_ndjson(tp)
    d = int(m.group(1)) if m else 0
    if d < 1 or d > len(events):
        return "conn:listen:trace", {"rejected_event": d}, "trace rejected at event %d" % d
    e = events[d - 1]
    j = d - 1
    while j > 0 and events[j].get("k") != "Reset":
        j -= 1
    rs = events[j]
    seq = [rs]
    for x in events[j + 1:]:
        if x.get("k") == "Reset":
            break
        seq.append(x)
    kinds = rs.get("kinds") or []
    kind = next((k for k in kinds if k), "")
    if e.get("k") == "Deliver":
        what = "delivered_after" if kind else "unexpected_delivery"
    elif e.get("k") == "Closed":
        if not e.get("closed"):
            what = "never_closed"
        elif kind and not e.get("before_eof"):
            what = "connection_kept"
        elif not e.get("files_ok"):
            what = "attachment_file"
        else:
            what = "deliveries_missing"
    else:
        what = "trace"
    if kind and what in ("delivered_after", "connection_kept", "never_closed"):
        sig = "conn:refused_frame:%s:%s" % (what, kind)
    else:
        sig = "conn:listen:%s" % what
    frames = ["%s:t%d:len%d:body%d%s" % (f["k"], f["t"], f["len"], f["body"], "" if f["magic"] else ":badmagic") for f in rs["frames"]]
    text = "conn::listen on frames %s (refusal: %s): event %d %s not allowed by CodecConn.tla; recorded %s" % (
        frames, kinds, d - j, json.dumps(e), json.dumps([x for x in seq[1:]])[:300])
    case = {"frames": rs["frames"], "kinds": kinds, "case_id": rs.get("case", -1)}
    return sig, {"kind": "conn", "case": case, "rejected_event": e, "recorded": seq[1:]}, text


def conn_run(wd, name, nseq, cases):
    """One `h_codec record` run (real conn::listen) validated by spec/trace/CodecTrace.tla.
    Returns (stats, verdict); verdict is None or (signature, replay object, text)."""
    tp = os.path.join(wd, "listen_trace_%s.ndjson" % name)
    args = ["codec", "record", "--out", tp, "--tmp", vlib.workdir(PID, "tmp"), "--seed", vlib.seed(), "--seqs", nseq]
    if cases:
        cp = os.path.join(wd, "listen_cases_%s.ndjson" % name)
        vlib.write_ndjson(cp, cases)
        args += ["--cases", cp]
    stats, p = run_harness(args, "record")
    if stats is None:
        return {}, ("codec:listen:harness_abort", {"kind": "abort", "stderr": (p.stderr or "")[-600:]}, "harness died while conn::listen was reading")
    r = vlib.tlc("trace/CodecTrace", workers=1, coverage=False, env={"TRACE": tp}, xss="512m", xmx="4g", timeout=1500)
    if r.finished:
        return stats, None
    if "TRACE-REJECTED" in r.out:
        sig, obj, text = conn_verdict(tp, r.out)
        return stats, (sig, obj, text[:700])
    print(r.out[-4000:])
    raise ToolError("CodecTrace failed without a verdict")


def direction_b(rep, wd, thorough, cases):
    """conn::listen + MessageHandler: recorded deliveries and the closing of the socket validated by
    spec/trace/CodecTrace.tla (CodecConn.tla run on the recorded frame sequence)."""
    sel = []
    for i, c in enumerate(cases):
        # (streams with a body longer than its items need are judged per message type by the codec
        # replay only: codec:trailing_bytes_accepted:<type>)
        if c["total"] <= 70000 and "trailing" not in c["classes"]:
            c2 = dict(c); c2["case_id"] = i
            sel.append(c2)
    mid = [c for c in sel if any(c["kinds"][:-1])]
    last = [c for c in sel if any(c["kinds"]) and not any(c["kinds"][:-1])]
    honest = [c for c in sel if not any(c["kinds"]) and c["total"] <= 20000]
    step = max(1, len(honest) // (300 if thorough else 100))
    honest = honest[vlib.seed() % step::step]
    if len(mid) < 20:
        raise ToolError("too few streams with a refused frame in the middle (%d)" % len(mid))
    # (a) a refused frame followed by valid ones: nothing behind it is delivered, the reader closes
    sa, va = conn_run(wd, "mid", 0, mid)
    # (b) random sequences, refused frames at the end, honest streams
    sb, vb = conn_run(wd, "mix", 60 if thorough else 16, last + honest)
    for v in (va, vb):
        if v and not (va and v is vb and v[0] == va[0]):
            rep.violation(*v)
    return {"built": True, "sequences": sa.get("sequences", 0) + sb.get("sequences", 0),
            "refused_in_the_middle_sequences": sa.get("sequences", 0),
            "random_sequences": sb.get("random_sequences", 0),
            "model_sequences": sa.get("model_sequences", 0) + sb.get("model_sequences", 0),
            "merged_deliveries": sa.get("merged_deliveries", 0) + sb.get("merged_deliveries", 0),
            "closed_by_reader_before_eof": sa.get("closed_by_reader_before_eof", 0) + sb.get("closed_by_reader_before_eof", 0),
            "events": sa.get("events", 0) + sb.get("events", 0)}
