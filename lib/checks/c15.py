"""C15 — the committed unspent-output bitmap is independent of the path taken (spec/Bitmap.tla).

(M)  TLC: after every sequence of ApplyBlock / RewindTo / Reopen the implementation-shaped incremental
     accumulator equals the definitional FromScratch(set, size); design probes (protocol variants that
     forget an affected index) must be refuted by TLC, otherwise the model lost its sensitivity.
(A)  every TLC-generated behaviour is executed on a real BitmapAccumulator (component level).
(B)  a real AutomatedTesting chain (spends, forks, reorganisations, read-only rewinds, restarts, blocks
     committing to a wrong bitmap) is recorded and validated against spec/trace/BitmapTrace.tla.
     Every delivery class also gets twins of an honest block whose header folds the right output PMMR root with
     ANOTHER bitmap root (parent state, sibling state, one bit flipped, extra zero chunk): as next block, as
     winner of a reorganisation and as block on a losing fork (work <= head) they must be refused; every
     accepted block's output_root must equal the fold with the from-scratch bitmap root of its own state
     (BitmapTrace!HdrOK), fork blocks included. The demanded root is computed by the harness per header
     version (1-2: bare output PMMR root of a reference MMR; from 3: the fold), never through
     OutputRoots::root; twins with the wrong fold rule (bare root from version 3 on, folded root before)
     are delivered at every height up to 9 (versions 1, 2, 3 on AutomatedTesting).
(B') the same events recorded at the txhashset level (h_bitmap direct): the unit of work of
     pipe::process_block - txhashset::extending { Extension::rewind to the fork point, apply_block for the
     fork blocks and the block, force_rollback for a block that does not win } - driven on a real
     TxHashSet + ChainStore with dummy range proofs (Block::validate is not part of that level), so that
     histories over three and more 1024-bit chunks fit in the quick tier: late spends in old chunks,
     2-3 block rewinds where a block other than the earliest one spent in an old chunk, rolled-back
     losing-fork blocks that differ from the committed state in an old chunk followed by a block that
     leaves that chunk alone, restarts. Validated against the same BitmapTrace.tla.
"""
import json, os, shutil, time
import vlib
from vlib import Report, ToolError, log

PID = "C15"
ENGINES = ["bitmap"]

PROBES = ["probe_nolast", "probe_nosize", "probe_nocreated", "probe_itermin"]

# A component-level history outside the chain's protocol (the last leaf is spent and nothing is created):
# apply() keeps a trailing all-zero chunk that init() omits. Recorded as a design fact, never a verdict.
NOLAST_WITNESS = [
    {"k": "Init", "uns": [0, 2048], "size": 2049, "inval": [], "start": 0, "chunks": [[0], [], [0]]},
    {"k": "Apply", "uns": [0], "size": 2049, "inval": [2048], "start": 2048, "chunks": [[0]]},
]


def norm_step(s):
    """ToJson renders empty functions as {}: normalise to lists."""
    for f in ("uns", "inval", "chunks", "acc"):
        if isinstance(s.get(f), dict):
            s[f] = []
    return s


def emit(cfg, what, timeout, **kw):
    r = vlib.tlc("mc/MC_Bitmap", cfg, workers=1, coverage=False, timeout=timeout, **kw)
    if r.invariant_violated or "Error:" in r.out or (not kw.get("simulate") and not r.finished):
        print(r.out[-3000:])
        raise ToolError("TLC behaviour generation failed: " + what)
    beh = [[norm_step(s) for s in json.loads(x)] for x in r.printed("BMBEH")]
    roots = r.printed("BMROOT")
    if not roots:
        raise ToolError("no root-term table printed by MC_Bitmap")
    return beh, json.loads(roots[0]), r


def replay_cases(wd, cases, roots_path, tag):
    cp = os.path.join(wd, "cases_%s.ndjson" % tag)
    op = os.path.join(wd, "out_%s.ndjson" % tag)
    vlib.write_ndjson(cp, cases)
    vlib.harness(["bitmap", "replay", "--cases", cp, "--roots", roots_path, "--out", op], timeout=1800)
    res = vlib.read_ndjson(op)
    if len(res) != len(cases):
        raise ToolError("replay produced %d results for %d cases" % (len(res), len(cases)))
    return res


def validate_trace(path, what, coverage=False):
    r = vlib.tlc("trace/BitmapTrace", workers=1, coverage=coverage, env={"TRACE": path}, xss="1g", xmx="4g", timeout=1500)
    if r.finished:
        return True, r
    if "TRACE-REJECTED" in r.out:
        line = [x for x in r.out.splitlines() if "TRACE-REJECTED" in x][0]
        try:
            d = int(line.split(",")[1].strip())
        except Exception:
            d = None
        return False, d
    print(r.out[-4000:])
    raise ToolError("BitmapTrace failed without a verdict (%s)" % what)


def classify(ev, level="chain"):
    """Narrow signature of the first event the trace specification refused."""
    k = ev.get("k", "?")
    what = str(ev.get("what", "")).split(":")[0]
    base = "bitmap:%s:%s%s" % (level, k, (":" + what) if what else "")
    if what == "wrong_bitmap_root" and ev.get("res") != "reject":
        # a header committing to another bitmap than the from-scratch one of its state was not refused
        return "bitmap:%s:%s:wrong_bitmap_root_accepted:class=%s" % (level, k, ev.get("class", "?"))
    if ev.get("hdr_root") is not None and ev.get("hdr_root") != ev.get("hdr_root_fs") and ev.get("res") != "reject":
        return base + ":accepted_header_commits_to_other_bitmap"
    if ev.get("res") is not None and ev.get("res") != ev.get("exp"):
        return base + ":result:%s->%s" % (ev.get("exp"), ev.get("res"))
    if ev.get("obs"):
        if ev["root_real"] != ev["root_fs"]:
            return base + ":root_differs_from_scratch"
        if ev["root_acc"] != ev["root_fs"]:
            return base + ":extension_root_differs_from_scratch"
        if ev["accbits"] != ev["fs"]:
            return base + ":accumulator_bits_differ_from_unspent_set"
        if ev["leaf"] != ev["fs"]:
            return base + ":leaf_set_differs_from_model"
        if ev["nchunks"] != ev["fs_nchunks"]:
            return base + ":chunk_count"
    return base + ":refused_by_trace_spec"


def record_chain(wd, roots_path, outputs, seed, tag="trace", mode="record"):
    tp = os.path.join(wd, "%s.ndjson" % tag)
    p = vlib.harness(["bitmap", mode, "--roots", roots_path, "--out", tp, "--work", os.path.join(wd, "chain_" + tag),
                      "--outputs", outputs, "--seed", seed], timeout=2400)
    info = json.loads(p.stdout.strip().splitlines()[-1])
    return tp, info, vlib.read_ndjson(tp)


def check_chain(rep, wd, roots_path, outputs, seed, coverage=True, mode="record"):
    """Record one chain run and decide it. Returns (info, events, tlc result or None).
    mode "record": a real Chain (process_block); mode "direct": the txhashset level, `seed` may be a list of
    seeds whose recordings are concatenated (every recording starts with an Init event)."""
    direct = mode == "direct"
    level = "txhashset" if direct else "chain"
    tag = "dtrace" if direct else "trace"
    if direct:
        seeds = seed if isinstance(seed, list) else [seed]
        events, infos = [], []
        outs = outputs if isinstance(outputs, list) else [outputs] * len(seeds)
        for n, sd in enumerate(seeds):
            _, inf, evs = record_chain(wd, roots_path, outs[n], sd, tag="%s_%d" % (tag, n), mode="direct")
            inf["seed"] = sd
            infos.append(inf)
            events += evs
        tp = os.path.join(wd, tag + ".ndjson")
        vlib.write_ndjson(tp, events)
        info = {"mode": "direct", "recordings": infos, "events": len(events),
                "outputs": [i["outputs"] for i in infos], "blocks": sum(i["blocks"] for i in infos),
                "max_chunks": max(i["max_chunks"] for i in infos),
                "chunks_with_spends": sorted(set(c for i in infos for c in i["chunks_with_spends"])), "stats": {}}
        for i in infos:
            for k, v in i["stats"].items():
                info["stats"][k] = info["stats"].get(k, 0) + v
        seed = seeds
    else:
        tp, info, events = record_chain(wd, roots_path, outputs, seed)
    case = {"kind": "chain", "mode": mode, "outputs": outputs, "seed": seed}
    keep_name = "C15_%s_%s.ndjson" % (tag, "_".join(map(str, seed)) if isinstance(seed, list) else seed)
    # a delivery with the wrong result class ends the recording: that event is the verdict
    for n, ev in enumerate(events):
        if ev["k"] == "Result":
            # an earlier divergence of the commitment is the narrower verdict: decide the prefix first
            if n > 0:
                pp = os.path.join(wd, tag + "_prefix.ndjson")
                vlib.write_ndjson(pp, events[:n])
                okp, dp = validate_trace(pp, "prefix")
                if not okp:
                    evp = events[dp - 1] if dp and dp - 1 < n else {"k": "eof"}
                    keep = os.path.join(vlib.OUT, "replays", keep_name)
                    os.makedirs(os.path.dirname(keep), exist_ok=True)
                    shutil.copy(pp, keep)
                    small = {k: v for k, v in evp.items() if k not in ("leaf", "fs", "accbits")}
                    rep.violation(classify(evp, level), dict(case, trace=keep, event_index=dp, event=small), json.dumps(small)[:600])
                    return info, events, None
            what = str(ev.get("what", ""))
            sig = "bitmap:%s:result:%s:%s->%s" % (level, what, ev.get("exp"), str(ev.get("res"))[:40])
            rep.violation(sig, dict(case, event=ev), json.dumps(ev)[:600])
            return info, events, None
    ok, r = validate_trace(tp, mode, coverage=coverage)
    if not ok:
        d = r
        ev = events[d - 1] if d and d - 1 < len(events) else {"k": "eof"}
        keep = os.path.join(vlib.OUT, "replays", keep_name)
        os.makedirs(os.path.dirname(keep), exist_ok=True)
        shutil.copy(tp, keep)
        small = {k: v for k, v in ev.items() if k not in ("leaf", "fs", "accbits")}
        rep.violation(classify(ev, level), dict(case, trace=keep, event_index=d, event=small), json.dumps(small)[:600])
        return info, events, None
    return info, events, r


# shapes every txhashset-level run must reach (counted by the harness from the model side)
DIRECT_NEED = {
    "late_spend_in_chunk0": 5,                       # a block late in the chain spends in chunk 0
    "multi_rewind_nonearliest_old_chunk": 3,         # rewind of >= 2 blocks, a non-earliest one spent in an older chunk
    "reorg_multi_rewind_nonearliest_old_chunk": 1,   # ... as a committed reorganisation
    "losing_fork_differs_in_old_chunk": 3,           # rolled-back fork state differs from the committed one in an old chunk
    "apply_after_losing_fork_skips_its_chunk": 2,    # ... and the next block leaves that chunk alone
    "reorg_rewind_crosses_chunk_boundary": 1, "probe_crosses_chunk_boundary": 2,
    "wrong_root_next_block": 2, "wrong_root_reorg_winning": 2, "wrong_root_losing_fork": 2,   # header commits to another bitmap: refused
    "wrong_root_v3": 1, "wrong_root_v4": 1, "wrong_root_v5": 1,   # header versions folding the bitmap root (v1/v2: bare root demanded, checked below)
    "reopen_fewer_unspent_than_bits_in_complete_chunks": 1,         # a restart with more spent outputs than bits in the last partial chunk
    "refused_blocks": 2,                             # an extension that fails after touching the accumulator
    "reorgs": 3, "ev_Reopen": 3, "ev_Probe": 20, "ev_Stay": 5, "ev_Rewind": 3,
}


def direct_params(thorough, seed):
    """(outputs per recording, seeds): quick = one history over four chunks and one over two."""
    if thorough:
        return [4300, 3300, 5200, 2300], [seed * 7 + 1, seed * 7 + 2, seed * 7 + 3, seed * 7 + 4]
    return [3200, 1400], [seed * 7 + 1, seed * 7 + 2]


def run(tier, replay):
    rep = Report(PID, tier, "model_checking")
    wd = vlib.workdir(PID, clean=True)
    thorough = tier == "thorough"
    seed = vlib.seed()
    sfx = "_thorough" if thorough else ""

    if replay:
        obj = json.load(open(replay))
        case = obj["case"]
        beh, roots, _ = emit("mc/MC_Bitmap_seq", "roots for replay", 600)
        roots_path = os.path.join(wd, "roots.json")
        json.dump(roots, open(roots_path, "w"))
        if case.get("kind") == "chain":
            check_chain(rep, wd, roots_path, case["outputs"], case["seed"], coverage=False, mode=case.get("mode", "record"))
        else:
            res = replay_cases(wd, [case["behaviour"]], roots_path, "replay")
            for mm in res[0]["mismatches"]:
                rep.violation(obj["signature"], case, json.dumps(mm)[:600])
        rep.coverage = {"states": 1, "transitions": 1, "traces_validated_against_impl": 1, "samples": [obj["signature"]]}
        return rep.finish()

    if os.environ.get("VERIF_C15_DEV") == "chain":
        # development aid for mutant runs (never used by a registered command): chain part only
        _, roots, _ = emit("mc/MC_Bitmap_seq", "roots", 600)
        roots_path = os.path.join(wd, "roots.json")
        json.dump(roots, open(roots_path, "w"))
        info, events, tr = check_chain(rep, wd, roots_path, 2150 if thorough else 300, seed, coverage=False)
        rep.coverage = {"states": 0, "transitions": 0, "traces_validated_against_impl": 1, "samples": [info], "dev_mode": "chain"}
        return rep.finish()

    if os.environ.get("VERIF_C15_DEV") == "direct":
        _, roots, _ = emit("mc/MC_Bitmap_seq", "roots", 600)
        roots_path = os.path.join(wd, "roots.json")
        json.dump(roots, open(roots_path, "w"))
        n_out, seeds = direct_params(thorough, seed)
        info, events, tr = check_chain(rep, wd, roots_path, n_out, seeds, coverage=False, mode="direct")
        rep.coverage = {"states": 0, "transitions": 0, "traces_validated_against_impl": 1, "samples": [info], "dev_mode": "direct"}
        return rep.finish()

    # ---------------------------------------------------------------- (M) the design, exhaustively
    r = vlib.tlc("mc/MC_Bitmap", "mc/MC_Bitmap" + sfx, workers=4, coverage=False, timeout=2400)
    if r.invariant_violated:
        print(r.out[-3000:])
        raise ToolError("Bitmap.tla invariant %s violated inside the model" % r.invariant_violated)
    vlib.tlc_ok(r, "MC_Bitmap")
    states, trans = r.distinct, r.generated
    log("MC_Bitmap%s: %d states, %d transitions, %.0fs" % (sfx, states, trans, r.wall))

    # design probes: a caller that forgets an affected index / an environment without "last leaf unspent"
    # must break AccIsFromScratch in the model (sensitivity of the invariant)
    probes = {}
    for pcfg in PROBES:
        pr = vlib.tlc("mc/MC_Bitmap", "mc/MC_Bitmap_" + pcfg, workers=2, coverage=False, timeout=600)
        if "AccIsFromScratch" not in pr.invariant_violated:
            print(pr.out[-2000:])
            raise ToolError("design probe %s was not refuted by TLC: the model lost its sensitivity" % pcfg)
        probes[pcfg] = "refuted"

    # ---------------------------------------------------------------- (A) behaviours on the real accumulator
    beh1, roots, e1 = emit("mc/MC_Bitmap_emit" + sfx, "every transition", 2400)
    beh2, _, e2 = emit("mc/MC_Bitmap_seq" + sfx, "all short sequences", 2400)
    nsim = 60 if thorough else 20
    beh3, _, e3 = emit("mc/MC_Bitmap_sim" + sfx, "random 4-step behaviours", 2400, simulate=nsim, depth=5, seed_=seed)
    seen = set()
    cases = []
    for b in beh1 + beh2 + beh3:
        key = json.dumps(b, sort_keys=True)
        if key not in seen:
            seen.add(key)
            cases.append(b)
    mc_actions = {}
    for b in beh1:      # one behaviour per transition of the model: transitions by action
        mc_actions[b[-1]["k"]] = mc_actions.get(b[-1]["k"], 0) + 1
    for a in ("Apply", "Rewind", "Reopen"):
        if mc_actions.get(a, 0) == 0:
            raise ToolError("spec action %s never taken" % a)
    if len(beh1) < 1000 or len(beh2) < 1000 or len(beh3) < 100:
        raise ToolError("too few behaviours generated (%d, %d, %d)" % (len(beh1), len(beh2), len(beh3)))
    log("behaviours: %d transitions + %d sequences + %d simulated = %d distinct (TLC %.0f+%.0f+%.0fs)" % (
        len(beh1), len(beh2), len(beh3), len(cases), e1.wall, e2.wall, e3.wall))
    roots_path = os.path.join(wd, "roots.json")
    json.dump(roots, open(roots_path, "w"))
    res = replay_cases(wd, cases, roots_path, "A")
    checks = 0
    steps_by_kind = {}
    shapes = {"rewind_shrinks_across_chunk_boundary": 0, "spend_in_old_chunk": 0, "interior_all_zero_chunk": 0,
              "last_chunk_partial": 0, "apply_starting_beyond_existing_chunks": 0}
    start_notes = 0
    for c, rr in zip(cases, res):
        checks += rr["checks"]
        start_notes += len(rr.get("notes", []))
        prev = None
        for s in c:
            steps_by_kind[s["k"]] = steps_by_kind.get(s["k"], 0) + 1
            if prev is not None:
                if s["k"] == "Rewind" and s["size"] and (s["size"] - 1) // 1024 < (max(prev["size"], 1) - 1) // 1024:
                    shapes["rewind_shrinks_across_chunk_boundary"] += 1
                if s["k"] == "Apply" and s["inval"] and s["inval"][0] // 1024 < (max(prev["size"], 1) - 1) // 1024:
                    shapes["spend_in_old_chunk"] += 1
                if s["k"] == "Apply" and s["inval"] and s["inval"][0] // 1024 > len(prev["chunks"]):
                    shapes["apply_starting_beyond_existing_chunks"] += 1
            if any(len(ch) == 0 for ch in s["chunks"]):
                shapes["interior_all_zero_chunk"] += 1
            if s["size"] % 1024 != 0:
                shapes["last_chunk_partial"] += 1
            prev = s
        for mm in rr["mismatches"]:
            sig = "bitmap:component:%s:%s" % (mm.get("k", "?"), mm["what"])
            rep.violation(sig, {"kind": "case", "behaviour": c, "mismatch": mm}, json.dumps(mm)[:600])
    for k in ("Apply", "Rewind", "Reopen", "Init"):
        if steps_by_kind.get(k, 0) == 0:
            raise ToolError("no %s step in the replayed behaviours" % k)
    for k, v in shapes.items():
        # pad_left (an apply starting beyond the existing chunks) is unreachable under the chain's protocol
        if v == 0 and k != "apply_starting_beyond_existing_chunks":
            raise ToolError("quantifier shape never generated: " + k)

    # anti-vacuity of (A): a corrupted expectation must be noticed by the harness
    bad = json.loads(json.dumps(cases[len(cases) // 2]))
    bad[-1]["chunks"] = bad[-1]["chunks"] + [[7]]
    bad_res = replay_cases(wd, [bad], roots_path, "selftest")
    if not bad_res[0]["mismatches"]:
        raise ToolError("selftest: a corrupted expected commitment was not noticed by the replay")
    # the component-level design fact behind probe_nolast, observed on the real code (informational)
    wres = replay_cases(wd, [NOLAST_WITNESS], roots_path, "witness")
    witness = sorted(set(m["what"] for m in wres[0]["mismatches"]))

    # ---------------------------------------------------------------- (B) the chain
    outputs = 2150 if thorough else 230
    t0 = time.time()
    info, events, tr = check_chain(rep, wd, roots_path, outputs, seed)
    log("chain (B): %d outputs, %d blocks, %d events recorded and validated in %.0fs" % (info["outputs"], info["blocks"], info["events"], time.time() - t0))
    t0 = time.time()
    tp = os.path.join(wd, "trace.ndjson")
    trace_actions = {}
    selftests = []
    if tr is not None:
        trace_actions = {k: v[1] for k, v in tr.action_counts().items()}
        st = info["stats"]
        need = {"bad_bitmap_blocks": 1, "wrong_root_next_block": 1, "wrong_root_reorg_winning": 1, "wrong_root_losing_fork": 1,
                "wrong_root_v1": 1, "wrong_root_v2": 1, "wrong_root_v3": 1, "reorgs": 1, "probe_without_respent": 1, "ev_Reopen": 1, "ev_Probe": 1, "ev_Stay": 1}
        if thorough:
            need.update({"reorg_rewind_crosses_chunk_boundary": 2, "probe_crosses_chunk_boundary": 2})
        for k, n in need.items():
            if st.get(k, 0) < n:
                raise ToolError("chain scenario did not reach %s >= %d (got %d)" % (k, n, st.get(k, 0)))
        if thorough and (info["max_chunks"] < 3 or not {0, 1}.issubset(set(info["chunks_with_spends"]))):
            raise ToolError("thorough chain did not span three chunks with spends in old chunks")
        for a in ("TApply", "TRewind", "TProbe", "TReopen", "TStay", "TStart"):
            if trace_actions.get(a, 0) == 0:
                raise ToolError("trace action %s never taken" % a)
        # anti-vacuity of (B): corrupt one logged root, drop one logged spend -> both must be refused
        obs = [i for i, ev in enumerate(events) if ev.get("obs") and ev["k"] == "Apply"]
        i = obs[len(obs) // 2]
        ev2 = json.loads(json.dumps(events))
        ev2[i]["root_real"] = ev2[i - 1].get("root_real", "00") if ev2[i - 1].get("root_real") != ev2[i]["root_real"] else "00"
        p2 = os.path.join(wd, "trace_bad_root.ndjson")
        vlib.write_ndjson(p2, ev2[:i + 2])
        ok2, d2 = validate_trace(p2, "selftest root")
        if ok2 or d2 != i + 1:
            raise ToolError("selftest: corrupted root_real not refused at its event (%s, %s)" % (ok2, d2))
        selftests.append("corrupted root_real refused at event %d" % d2)
        # a losing-fork block whose header commits to another bitmap, logged as accepted -> refused by HdrOK
        tw = [j for j, ev in enumerate(events) if str(ev.get("what", "")).startswith("wrong_bitmap_root") and ev.get("class") == "losing_fork"]
        if not tw:
            raise ToolError("no wrong-bitmap twin on a losing fork in the chain recording")
        j = tw[0]
        ev6 = json.loads(json.dumps(events[:j + 2]))
        ev6[j]["res"] = ev6[j]["exp"] = "ok_fork"
        p6 = os.path.join(wd, "trace_bad_twin.ndjson")
        vlib.write_ndjson(p6, ev6)
        ok6, d6 = validate_trace(p6, "selftest twin")
        if ok6 or d6 != j + 1 or classify(ev6[j]) != "bitmap:chain:Stay:wrong_bitmap_root_accepted:class=losing_fork":
            raise ToolError("selftest: an accepted losing-fork block committing to another bitmap was not refused (%s, %s)" % (ok6, d6))
        selftests.append("accepted wrong-bitmap losing-fork block refused at event %d" % d6)
        sp = [j for j, ev in enumerate(events) if ev["k"] == "Apply" and len(ev.get("spent", [])) > 1]
        if sp:
            j = sp[len(sp) // 2]
            ev3 = json.loads(json.dumps(events))
            ev3[j]["spent"] = ev3[j]["spent"][1:]
            p3 = os.path.join(wd, "trace_bad_spent.ndjson")
            vlib.write_ndjson(p3, ev3)
            ok3, d3 = validate_trace(p3, "selftest spent")
            if ok3:
                raise ToolError("selftest: a dropped spend was not refused")
            selftests.append("dropped spend (event %d) refused at event %s" % (j + 1, d3))

    # ---------------------------------------------------------------- (B') the txhashset level, several chunks
    log("chain (B) selftests: %.0fs" % (time.time() - t0))
    t0 = time.time()
    n_out, dseeds = direct_params(thorough, seed)
    dinfo, devents, dtr = check_chain(rep, wd, roots_path, n_out, dseeds, mode="direct")
    log("txhashset level (B'): outputs %s, %d blocks, %d events over %d chunks recorded and validated in %.0fs" % (
        dinfo["outputs"], dinfo["blocks"], dinfo["events"], dinfo["max_chunks"], time.time() - t0))
    t0 = time.time()
    dtrace_actions = {}
    if dtr is not None:
        dtrace_actions = {k: v[1] for k, v in dtr.action_counts().items()}
        dst = dinfo["stats"]
        for k, n in DIRECT_NEED.items():
            if dst.get(k, 0) < n:
                raise ToolError("txhashset-level scenario did not reach %s >= %d (got %d)" % (k, n, dst.get(k, 0)))
        if dst.get("wrong_root_v1", 0) + dst.get("wrong_root_v2", 0) < 1:
            raise ToolError("txhashset-level scenario delivered no folded twin of a version 1/2 block")
        if dinfo["max_chunks"] < 3 or not {0, 1}.issubset(set(dinfo["chunks_with_spends"])):
            raise ToolError("txhashset-level scenario did not span three chunks with spends in old chunks")
        for a in ("TApply", "TRewind", "TProbe", "TReopen", "TStay", "TStart"):
            if dtrace_actions.get(a, 0) == 0:
                raise ToolError("trace action %s never taken (txhashset level)" % a)
        # anti-vacuity of (B'): the committed root logged after a rolled-back losing fork block, corrupted
        stays = [i for i, ev in enumerate(devents) if ev["k"] == "Stay" and ev.get("obs") and str(ev.get("what", "")).startswith("losing")]
        if stays:
            i = stays[min(2, len(stays) - 1)]      # an early one: the prefix up to it is validated again
            ev4 = json.loads(json.dumps(devents[:i + 2]))
            ev4[i]["root_real"] = "00" * 32
            p4 = os.path.join(wd, "dtrace_bad_root.ndjson")
            vlib.write_ndjson(p4, ev4)
            ok4, d4 = validate_trace(p4, "selftest direct root")
            if ok4 or d4 != i + 1:
                raise ToolError("selftest: corrupted root after a rolled-back fork not refused at its event (%s, %s)" % (ok4, d4))
            selftests.append("txhashset level: corrupted root_real of a Stay refused at event %d" % d4)
        # ... and an un-spend dropped from a multi-block read-only rewind
        pr = [j for j, ev in enumerate(devents) if ev["k"] == "Probe" and ev.get("depth", 0) >= 2 and len(ev.get("respent", [])) >= 1
              and ev["newsize"] > 1024 and min(ev["respent"]) < 1024]
        if pr:
            j = pr[min(2, len(pr) - 1)]
            ev5 = json.loads(json.dumps(devents[:j + 2]))
            ev5[j]["respent"] = ev5[j]["respent"][1:]
            p5 = os.path.join(wd, "dtrace_bad_respent.ndjson")
            vlib.write_ndjson(p5, ev5)
            ok5, d5 = validate_trace(p5, "selftest direct respent")
            if ok5 or d5 != j + 1:
                raise ToolError("selftest: a dropped un-spend of a rewind was not refused at its event (%s, %s)" % (ok5, d5))
            selftests.append("txhashset level: dropped un-spend of a %d-block rewind refused at event %d" % (devents[j]["depth"], d5))

    log("txhashset level (B') selftests: %.0fs" % (time.time() - t0))
    sample_case = cases[len(cases) // 3]
    rep.coverage = {
        "states": states, "transitions": trans,
        "traces_validated_against_impl": len(cases) + (1 if tr is not None else 0) + (len(dseeds) if dtr is not None else 0),
        "samples": [{"component_behaviour": sample_case},
                    {"chain_events": [{k: v for k, v in ev.items() if k not in ("leaf", "fs", "accbits")} for ev in events[1:4]]}],
        "exhaustive": True,
        "model": {"config": "mc/MC_Bitmap" + sfx, "transitions_by_action": mc_actions, "design_probes": probes},
        "replayed_behaviours": {"every_transition": len(beh1), "all_short_sequences": len(beh2), "simulated": len(beh3),
                                 "distinct": len(cases), "steps_by_kind": steps_by_kind, "comparisons": checks},
        "quantifier_shapes_reached": shapes,
        "chunk_start_idx_deviations_from_spec": start_notes,
        "component_fact_last_leaf_spent_keeps_trailing_zero_chunk": witness,
        "chain": info, "trace_actions": trace_actions, "selftests": selftests,
        "txhashset_level": dinfo, "txhashset_level_trace_actions": dtrace_actions,
        "checker_cmd": "tlc mc/MC_Bitmap; h_bitmap replay; h_bitmap record; h_bitmap direct; tlc trace/BitmapTrace",
    }
    rep.assumptions = [
        "blake2b / hash_with_index used as an injective primitive (symbolic terms in the model)",
        "chunk MMR structure taken from MMR.tla (C07 binds it to pmmr.rs)",
        "component replay drives BitmapAccumulator::apply the way Extension::apply_to_bitmap_accumulator does "
        "(real chunk_start_idx, first invalidated index, iterator of unspent indices from the chunk start); "
        "the txhashset.rs side of that protocol is bound only by the chain-level trace",
        "environment fact used by the model: at every block boundary the last output leaf is unspent "
        "(every block has a coinbase output and cannot spend its own outputs); without it apply() keeps a trailing "
        "all-zero chunk that init() omits (design probe probe_nolast, reproduced on the real accumulator)",
        "chain level: AutomatedTesting parameters, SKIP_POW; leaf indices below 2^31",
        "demanded header commitment: computed by the harness per header version (bare output PMMR root up to version 2, "
        "H(size | PMMR root | from-scratch bitmap root) from version 3), independently of OutputRoots::root; the output PMMR "
        "root comes from a reference MMR of the harness (grin_core PMMR over an in-memory hash-only backend, all output "
        "identifiers of the branch in block order; bound by C07) at chain level, from the node's raw output PMMR root at "
        "txhashset level",
        "txhashset level (B'): the harness plays pipe::process_block's unit of work itself (fork point known to the "
        "harness, extending { rewind, apply_block..., force_rollback unless more work }, head saved) with Mainnet block "
        "weight, dummy range proofs / commitments and one repeated genuine kernel; Block::validate, kernel sums, "
        "coinbase maturity and pipe.rs's own fork-point search are not part of that level (they are in (B))",
    ]
    return rep.finish()
