"""C12 — Aggregation, cut-through and compact-block hydration are faithful (spec/Agg.tla).

Cut-through is specified with bag semantics: inside a family a commitment may be created and spent
several times (chain, re-creation = create/spend/create, re-spend, cycle, double spend, duplicate
output, ...); matched PAIRS cancel and what remains must be free of duplicates.  TLC checks that
every permutation / bracketing either is refused (exactly when one of its groups leaves a commitment
twice) or yields the one aggregate of the family; the real code must give the same verdict and the
same transaction for every plan, and the same block for every grouping it is built / hydrated from.

(M) TLC checks on every family of <= 4 transactions of the model libraries (independent, chained
    incl. chains of three and a diamond, multi-kernel, all kernel kinds, zero / positive / negative
    offsets; every shape of a commitment occurring more than once: recreate, respend, cycle, double
    spend, duplicate output, before and after the cut) and every permutation and bracketing of it:
    the verdict of every shape, order/grouping independence incl. the error verdict (PlanChecks),
    kernels = union, offset = sum, inputs/outputs = what does not cancel pairwise, result valid,
    de-aggregation of every known subset of an independent family returns the remainder,
    hydrate(compact(block)) = block and from_reward(groups) = block for every grouping whose groups
    exist, block valid; careless cut-through variants are told apart by the families (CarelessKilled).
    Offsets are integers: families whose offsets cancel (o and -o, a triple, a cancelling group inside
    a family with a non-zero total, the family against the previous header's total; library L7) have
    the zero offset as their sum and nothing is refused for it (CancellationsCovered). Blocks are built
    on top of every previous offset in PrevOffsets (0 and a non-zero one). Library transactions carry
    their inputs as CommitOnly, FeaturesAndCommit(plain) or FeaturesAndCommit(coinbase) (field iv):
    no result shows it (VariantsCovered: all three side by side in one family).
    Hydration also runs on the node's own route (Retrieve / HydrateViaPool): a pool holding the family
    in the grouping, between unrelated entries, is asked by kernel short id; exactly the grouping comes
    back, nothing missing; a pool lacking one group reports that group's kernels missing.
(A) Every family is realised with real commitments / bulletproofs / signatures; the real
    transaction::aggregate is run for every plan, transaction::deaggregate for every subset,
    Block::from_reward -> CompactBlock::from -> Block::hydrate_from for every grouping, and
    compact block (several nonces) -> Pool::retrieve_transactions -> Block::hydrate_from for every
    grouping; the results are projected back to model values and compared with the specification's.
"""
import json, os, collections, threading
import vlib
from vlib import Report, ToolError, log
from checks import _txbal

PID = "C12"
ENGINES = ["txbal"]


def zero_based(p):
    return p - 1 if isinstance(p, int) else [zero_based(x) for x in p]


def shape(plan):
    """flat | grouped | nested | single (for signatures)"""
    if all(isinstance(x, int) for x in plan):
        return "flat" if len(plan) != 1 else "single"
    depth = lambda p: 0 if isinstance(p, int) else 1 + max([depth(x) for x in p] or [0])
    return "nested" if depth(plan) > 2 else "grouped"


def canon_expect(e, any_proof=False):
    if e.get("err"):
        return None
    return {"ins": sorted([[i["v"], i["r"]] for i in e["ins"]], key=json.dumps),
            "outs": sorted([[o["v"], o["r"], o["cb"]] + ([o["pv"]] if o.get("pv") and not any_proof else [])
                            for o in e["outs"]], key=json.dumps),
            "kerns": sorted(e["kerns"]), "off": e["off"]}


def proof_choice(p):
    """[v, r, variant] of the outputs that carry one of the alternative proofs made for their commitment"""
    return sorted([o[0], o[1], o[4]] for o in p["outs"] if len(o) == 5)


def canon_real(p, with_off=True, any_proof=False):
    """any_proof: the family creates a commitment with several valid proofs; the one carried is left free"""
    outs = []
    for o in p["outs"]:
        if len(o) == 5 and o[0] != "?" and o[3] is False:
            outs.append(o[:3] if any_proof else o[:3] + [o[4]])     # [v, r, cb, variant of the proof carried]
        elif len(o) != 4 or o[0] == "?" or o[3] is not True:
            outs.append(["?"] + o)      # unknown commitment or not the proof the output was created with
        else:
            outs.append(o[:3])
    r = {"ins": sorted(p["ins"], key=json.dumps), "outs": sorted(outs, key=json.dumps),
         "kerns": sorted(p["kerns"], key=lambda x: (isinstance(x, str), x))}
    if with_off:
        r["off"] = p["off"]
    return r


def diff_field(want, got):
    for f, name in (("kerns", "kernels"), ("off", "offset"), ("ins", "inputs"), ("outs", "outputs")):
        if f in want and f in got and want[f] != got[f]:
            return name
    return None


PLAIN_SHAPES = {"once", "chain"}


def family_label(c):
    """independent | chain | the special shapes of the family joined by '+', e.g. recreate, cycle+respend"""
    special = sorted(set(c["shapes"]) - PLAIN_SHAPES)
    if special:
        return "+".join(special)
    return "chain" if "chain" in c["shapes"] else "independent"


def shape_suffix(c):
    lab = family_label(c)
    return "" if lab in ("independent", "chain") else ":shape=" + lab


def pick_builds(c):
    """Groupings (indices into c["plans"]) the block is additionally built from: all their parts exist."""
    n = len(c["fam"])
    if n < 2 or not c["aggregable"]:
        return []
    ok = [i for i, p in enumerate(c["plans"]) if c["parts_ok"][i] and len(p) >= 1]
    picks = []
    for want in ("nested", "grouped", "flat"):
        cand = [i for i in ok if shape(c["plans"][i]) == want and c["plans"][i] != list(range(1, n + 1))]
        if cand:
            picks.append(cand[(vlib.seed() * 7 + len(c["fam"]) + c["lib"]) % len(cand)])
    return picks


NONCES = 3          # compact-block nonces per grouping on the route through the pool


def nonces_for(c):
    """0 = the nonce CompactBlock::from draws; the others are a function of VERIF_SEED and the family"""
    import hashlib
    out = [0]
    for k in range(1, NONCES):
        h = hashlib.sha256(("%d:%d:%s:%d" % (vlib.seed(), c["lib"], c["fam"], k)).encode()).digest()
        out.append(str(int.from_bytes(h[:8], "big") | 1))
    return out


def blocks_of(c):
    """the block expectations of a case: one per previous offset (`blocks`); `block` in older replay files"""
    if "blocks" in c:
        return c["blocks"]
    return [c["block"]] if c.get("block") and not c["block"].get("none") else []


def pool_drop(c, i):
    """which group the lacking pool lacks for grouping i (PlanChecks states the outcome for the first and the last)"""
    vp = c.get("via_pool")
    if not vp or vp[i].get("none"):
        return None
    return 0 if i % 2 == 0 else len(vp[i]["parts"]) - 1


def hydrate_ix(c, k):
    """indices of the groupings block k of the case is hydrated from"""
    n = len(c["plans"])
    if k == 0 or n <= 6:
        return list(range(n))
    step = max(1, n // 6)
    start = (vlib.seed() * 13 + c["lib"] * 5 + len(c["fam"])) % step if "hydrate_start" not in c else c["hydrate_start"]
    c["hydrate_start"] = start
    return list(range(start, n, step))[:6]


def to_harness_case(c):
    n = len(c["fam"])
    plans = [zero_based(p) for p in c["plans"]]
    h = {"id": c["id"], "txs": c["txs"], "plans": plans}
    flat = list(range(n))
    # de-aggregate from the aggregate built in canonical order and from one built in reverse, grouped
    mks = [flat, [list(reversed(flat))]] if n >= 2 else [flat]
    h["deaggs"] = [{"mk": mk, "sub": zero_based(d["sub"])} for d in c["deaggs"] for mk in mks]
    if c["aggregable"]:
        if "builds" not in c:              # a replayed case keeps the groupings it was recorded with
            c["builds"] = pick_builds(c)
        if "nonces" not in c:
            c["nonces"] = nonces_for(c)
        h["bystanders"] = c.get("bystanders", [])
        h["blocks"] = []
        for k, b in enumerate(blocks_of(c)):
            # the body of the block does not depend on the previous offset: every grouping is hydrated (directly and
            # through the pool) on the first block, a few seed-chosen ones on the others
            ix = hydrate_ix(c, k)
            hb = {"cb_out": b["cb_out"], "cb_kern": b["cb_kern"], "height": b["height"], "prev": b["prev"],
                  "groupings": [plans[i] for i in ix], "builds": [plans[i] for i in c["builds"]]}
            if k == 0 and c.get("via_pool"):
                hb["nonces"] = c["nonces"]
                hb["pool_drop"] = [pool_drop(c, i) for i in ix]
            h["blocks"].append(hb)
    return h, len(mks)


def judge(c, r, viol, counts, obs=None):
    """Compare one family's real results with the specification. viol(signature, what, detail).
    obs(signature, what, detail): behaviour the specification leaves free but which is worth knowing
    (which of several valid range proofs of a re-created commitment survives)."""
    obs = obs or (lambda *a: None)
    pvf = bool(c.get("proof_variants"))
    n = len(c["fam"])
    cf = c["conflict_free"]
    ag = c["aggregable"]
    lab = family_label(c)
    sfx = shape_suffix(c)
    cancel = sorted(c.get("cancel") or [])      # forms in which the family's offsets cancel (Agg!CancelForms)
    if cancel:
        counts["families_offsets_cancel"] += 1
        for f in cancel:
            counts["families_offsets_cancel_" + f] += 1
    want = canon_expect(c["expect"], pvf)       # None: the family has no aggregate (refused shape)
    if (want is None) == ag:
        raise ToolError("Agg case inconsistent: aggregable=%s expect=%s" % (ag, c["expect"]))
    opsok = r["operands_ok"]
    if not opsok:
        # the real validate refuses a library transaction the specification holds valid (OperandsValid): not a verdict on the
        # aggregator (a tool error at the end of the run unless it shows as one): its results are still compared, only the
        # validity of what it returns is not demanded
        counts["families_operand_refused"] += 1
        counts.setdefault("first_operand_refused", json.dumps(c["txs"])[:600])
    counts["families_" + lab] += 1
    ivs = {t.get("iv", "co") for t in c["txs"]}
    for v in ivs:
        counts["operands_iv_" + v] += 1
    if len(ivs) > 1:
        counts["families_mixed_input_variants"] += 1
    real_ok, real_refused = [], []              # among the plans the specification says exist / are refused
    projs, choices = {}, {}
    for i, (plan, pr) in enumerate(zip(c["plans"], r["plans"])):
        spec_ok = c["plan_ok"][i]
        sh = shape(plan)
        counts["plans"] += 1
        counts["plans_" + sh] += 1
        if not cf:
            counts["plans_shape_" + lab] += 1
        if pr["res"] == "panic":
            viol("agg:aggregate:panic:%s%s" % (sh, sfx), "aggregate panicked", {"plan": plan, "real": pr})
            continue
        if not spec_ok:
            # a group of the plan (or the family itself) leaves a commitment twice: must be refused
            counts["plans_refused_by_spec"] += 1
            if pr["res"] == "ok":
                real_refused.append((plan, "ok"))
                viol("agg:aggregate:accepted:%s%s" % (sh, sfx),
                     "aggregate accepted a plan with a group that spends or creates a commitment twice after cut-through",
                     {"plan": plan, "hot": c["hot"], "got": canon_real(pr["proj"])})
            else:
                real_refused.append((plan, "err"))
                counts["plans_refused_agree"] += 1
            continue
        if pr["res"] != "ok":
            real_ok.append((plan, "err"))
            if cancel and "InvalidSecretKey" in (pr.get("err") or ""):
                # the family's offsets cancel somewhere on the way: the sum is the zero offset, not an error
                viol("agg:aggregate:offsets_cancel:invalid_secret_key",
                     "aggregate failed (%s) on valid transactions whose offsets cancel (%s): the sum is the zero offset"
                     % (pr.get("err"), "+".join(cancel)), {"plan": plan, "offsets": [t["off"] for t in c["txs"]], "real": pr})
            elif c["nondegenerate"]:
                viol("agg:aggregate:failed:%s%s" % (sh, sfx), "aggregate failed (%s %s) on a family that has an aggregate (%s)"
                     % (pr["res"], pr.get("err"), lab), {"plan": plan, "hot": c["hot"], "real": pr})
            continue
        real_ok.append((plan, "ok"))
        got = canon_real(pr["proj"], any_proof=pvf)
        projs.setdefault(json.dumps(got, sort_keys=True), plan)
        if pvf:
            choices.setdefault(json.dumps(proof_choice(pr["proj"])), plan)
        if got != want:
            viol("agg:aggregate:mismatch:%s:%s%s" % (diff_field(want, got), sh, sfx),
                 "aggregate result differs from the specification in its %s" % diff_field(want, got),
                 {"plan": plan, "want": want, "got": got})
        elif pr["valid"] != "ok" and c["nondegenerate"] and n >= 1 and opsok:
            viol("agg:aggregate:result_invalid:%s%s" % (sh, sfx), "aggregate of valid transactions does not validate (%s)" % pr.get("verr"),
                 {"plan": plan, "real": pr})
        else:
            counts["plans_equal_and_valid"] += 1
            if not cf:
                counts["plans_equal_and_valid_shape_" + lab] += 1
    # order / grouping independence of the real code itself, the error verdict included
    if c["nondegenerate"]:
        for group, what in ((real_ok, "plans whose every group has an aggregate"), (real_refused, "plans with a refused group")):
            verdicts = {v for _, v in group}
            if len(verdicts) > 1:
                ex = {v: next(p for p, w in group if w == v) for v in verdicts}
                viol("agg:aggregate:grouping_dependent%s" % (sfx or ":shape=" + lab),
                     "aggregate succeeds or fails depending on order / grouping (%s): %d succeed, %d fail"
                     % (what, sum(1 for _, v in group if v == "ok"), sum(1 for _, v in group if v == "err")),
                     {"succeeds": ex["ok"], "fails": ex["err"], "hot": c["hot"]})
        if len(projs) > 1:
            viol("agg:aggregate:grouping_dependent:result%s" % (sfx or ":shape=" + lab),
                 "aggregate yields different transactions depending on order / grouping",
                 {"plans": list(projs.values())[:3], "results": [json.loads(k) for k in list(projs)[:3]]})
    if len(choices) > 1:
        counts["families_proof_choice_order_dependent"] += 1
        obs("agg:aggregate:proof_choice_order_dependent%s" % (sfx or ":shape=" + lab),
            "which of two valid range proofs of a re-created commitment the aggregate carries depends on operand order / grouping",
            {"plans": list(choices.values())[:2], "alternative_proofs_carried": [json.loads(k) for k in list(choices)[:2]], "hot": c["hot"]})
    # de-aggregation
    k = len(r.get("deaggs", [])) // max(1, len(c["deaggs"])) if c["deaggs"] else 0
    for j, d in enumerate(c["deaggs"]):
        dwant = canon_expect(d["expect"])
        sub_off = sum(c["txs"][s - 1]["off"] for s in d["sub"])
        for m in range(k):
            dr = r["deaggs"][j * k + m]
            counts["deaggregations"] += 1
            if cancel:
                counts["deaggregations_offsets_cancel"] += 1
                if dwant["off"] == 0 and sub_off != 0:
                    counts["deaggregations_remainder_cancels"] += 1
                if sub_off == 0 and any(c["txs"][x - 1]["off"] for x in d["sub"]):
                    counts["deaggregations_known_subset_cancels"] += 1
            if dr["res"] != "ok":
                if dwant["off"] == 0 and sub_off != 0:
                    viol("agg:deaggregate:err:remainder_offset_zero",
                         "deaggregate fails (%s) when the remainder's offset is zero and the subset's is not" % dr.get("err"),
                         {"sub": d["sub"], "want": dwant, "real": dr})
                elif cancel and "InvalidSecretKey" in (dr.get("err") or ""):
                    viol("agg:deaggregate:offsets_cancel:invalid_secret_key",
                         "deaggregate failed (%s) on a family whose offsets cancel (%s)" % (dr.get("err"), "+".join(cancel)),
                         {"sub": d["sub"], "offsets": [t["off"] for t in c["txs"]], "want": dwant, "real": dr})
                elif c["nondegenerate"]:
                    viol("agg:deaggregate:failed", "deaggregate failed (%s %s)" % (dr["res"], dr.get("err")),
                         {"sub": d["sub"], "want": dwant, "real": dr})
                continue
            got = canon_real(dr["proj"])
            if got != dwant:
                viol("agg:deaggregate:mismatch:%s" % diff_field(dwant, got),
                     "deaggregate does not return the remainder (%s differ)" % diff_field(dwant, got),
                     {"sub": d["sub"], "want": dwant, "got": got})
            elif dr["valid"] != "ok" and c["nondegenerate"] and opsok:
                viol("agg:deaggregate:result_invalid", "remainder does not validate (%s)" % dr.get("verr"), {"sub": d["sub"], "real": dr})
            else:
                counts["deaggregations_equal"] += 1
    # block / compact / hydrate, on top of every previous offset
    if ag:
        rbs = r["blocks"] if "blocks" in r else [r["block"]]
        bs = blocks_of(c)
        if len(rbs) != len(bs):
            raise ToolError("Agg case %s: %d block results for %d blocks" % (c.get("id"), len(rbs), len(bs)))
        for k, (b, br) in enumerate(zip(bs, rbs)):
            judge_block(c, b, br, viol, counts, obs, hydrate_ix(c, k), opsok)


def judge_block(c, b, br, viol, counts, obs, ix, opsok=True):
    pvf = bool(c.get("proof_variants"))
    n = len(c["fam"])
    cf = c["conflict_free"]
    lab = family_label(c)
    sfx = shape_suffix(c)
    cancel = sorted(c.get("cancel") or [])
    psfx = "" if b["prev"] != 0 else ":prev=0"
    counts["blocks"] += 1
    counts["blocks_prev_%s" % ("zero" if b["prev"] == 0 else "nonzero")] += 1
    if b["total"] == 0 and b["prev"] != 0:
        counts["blocks_total_zero_prev_nonzero"] += 1
    if br["res"] == "panic":
        viol("agg:block:panic%s" % sfx, "building / hydrating the block panicked", {"prev": b["prev"]})
        return
    bwant = canon_expect(b["expect"], pvf)
    bwant.pop("off")
    flat_plan = list(range(1, n + 1))
    build_plans = [flat_plan] + [c["plans"][i] for i in c.get("builds", [])]
    builds = br.get("builds") or [{"res": br["res"], "err": br.get("err")}]
    for j, (bp, bd) in enumerate(zip(build_plans, builds)):
        counts["block_builds"] += 1
        sh = shape(bp)
        if bd["res"] != "ok":
            if cancel and "InvalidSecretKey" in (bd.get("err") or ""):
                viol("agg:block:offsets_cancel:invalid_secret_key",
                     "Block::from_reward failed (%s) on valid transactions whose offsets cancel (%s, previous total %d)"
                     % (bd.get("err"), "+".join(cancel), b["prev"]),
                     {"built_from": bp, "prev": b["prev"], "offsets": [t["off"] for t in c["txs"]], "real": bd})
            elif c["nondegenerate"]:
                viol("agg:block:%s%s" % ("parts_failed" if bd["res"] == "parts_err" else "from_reward_failed",
                                         (":" + sh + sfx) if (sfx or j) else ""),
                     "Block::from_reward failed (%s %s) on transactions that have an aggregate (%s)" % (bd["res"], bd.get("err"), lab),
                     {"built_from": bp, "real": bd})
        elif pvf and bd.get("same_body") is False and bd.get("same_total") and canon_real(bd["proj"], with_off=False, any_proof=True) == bwant:
            counts["block_builds_other_proof"] += 1
            obs("agg:block:proof_choice_grouping_dependent%s" % sfx,
                "blocks built from different groupings of the same transactions carry different (valid) range proofs for a re-created commitment",
                {"built_from": bp, "reference": build_plans[br.get("ref", 0)]})
        elif bd.get("same_body") is False or bd.get("same_total") is False:
            f = "total_offset" if bd.get("same_body") else (diff_field(bwant, canon_real(bd["proj"], with_off=False)) or "bytes")
            viol("agg:block:grouping_dependent:%s:%s%s" % (f, sh, sfx),
                 "the block built from pre-aggregated groups differs from the block built from the other grouping",
                 {"built_from": bp, "reference": build_plans[br.get("ref", 0)], "real": bd})
        else:
            counts["block_builds_equal"] += 1
    if br["res"] != "ok":
        return
    got = canon_real(br["proj"], with_off=False, any_proof=pvf)
    if got != bwant or br["total"] != b["total"]:
        f = diff_field(bwant, got) or "total_offset"
        viol("agg:block:mismatch:%s%s%s" % (f, sfx, psfx), "block built from the transactions differs from the specification (%s)" % f,
             {"want": bwant, "want_total": b["total"], "got": got, "got_total": br["total"]})
    elif br["valid"] != "ok" and c["nondegenerate"] and opsok:
        viol("agg:block:invalid%s%s" % (sfx, psfx), "block built from valid transactions does not validate (%s)" % br.get("verr"), {"real": br})
    if len(ix) != len(br["hydrated"]):
        raise ToolError("Agg case %s: %d hydrations for %d groupings" % (c.get("id"), len(br["hydrated"]), len(ix)))
    for i, h in zip(ix, br["hydrated"]):
        plan = c["plans"][i]
        sh = shape(plan)
        if not c["parts_ok"][i]:
            # a group of this grouping has no aggregate: there is nothing to hydrate from
            counts["hydrations_skipped_group_refused"] += 1
            if h["res"] != "parts_err":
                counts["hydrations_group_refused_but_real_built_it"] += 1     # flagged at the plan above
            continue
        counts["hydrations"] += 1
        if not cf:
            counts["hydrations_shape_" + lab] += 1
        if h["res"] == "parts_err":
            counts["hydrations_parts_failed"] += 1                              # flagged at the sub-family's own case
            if cancel and "InvalidSecretKey" in (h.get("err") or ""):
                viol("agg:hydrate:offsets_cancel:invalid_secret_key",
                     "a group of the grouping could not be pre-aggregated (%s): its offsets cancel (%s)" % (h.get("err"), "+".join(cancel)),
                     {"grouping": plan, "offsets": [t["off"] for t in c["txs"]], "real": h})
            elif c["nondegenerate"]:
                viol("agg:hydrate:parts_failed:%s%s" % (sh, sfx), "a group of the grouping could not be pre-aggregated (%s)" % h.get("err"),
                     {"grouping": plan, "real": h})
        elif h["res"] != "ok":
            viol("agg:hydrate:failed:%s%s" % (sh, sfx), "hydrate_from failed (%s)" % h.get("err"),
                 {"grouping": plan, "block_built_from": build_plans[br.get("ref", 0)], "hot": c["hot"], "real": h})
        elif pvf and not h["same_body"] and "proj" in h and canon_real(h["proj"], with_off=False, any_proof=True) == bwant:
            counts["hydrations_other_proof"] += 1
            obs("agg:hydrate:proof_differs:%s%s" % (sh, sfx),
                "the hydrated block carries another (valid) range proof for a re-created commitment than the block: not the identical block",
                {"grouping": plan, "block_built_from": build_plans[br.get("ref", 0)],
                 "block_proofs": proof_choice(br["proj"]), "hydrated_proofs": proof_choice(h["proj"])})
        elif not h["same_body"]:
            hp = canon_real(h["proj"], with_off=False, any_proof=pvf) if "proj" in h else {}
            viol("agg:hydrate:body_differs:%s:%s%s" % (diff_field(bwant, hp), sh, sfx),
                 "hydrated block body is not the block's body", {"grouping": plan, "want": bwant, "got": hp})
        elif not h["same_hash"]:
            viol("agg:hydrate:header_differs:%s%s" % (sh, sfx), "hydrated block header differs", {"grouping": plan})
        elif not h["ids_ok"] or h["full_out"] != 1 or h["full_kern"] != 1:
            viol("agg:compact:short_ids_or_full_elements", "compact block does not list the coinbase elements in full and "
                 "the other kernels by short id", {"grouping": plan, "real": h})
        else:
            counts["hydrations_identical"] += 1
            if h.get("same_repr") is False:
                # same commitments, same bytes on the wire; the block built from ONE FeaturesAndCommit transaction keeps
                # that representation of its inputs (aggregate of one is the identity), a hydrated block is CommitOnly
                counts["hydrations_identical_inputs_representation_differs"] += 1
        if "pool" in h:
            judge_pool(c, i, plan, h, viol, counts, obs, br, b)




def judge_pool(c, i, plan, h, viol, counts, obs, br, b):
    """The node's route: PlanChecks says the pool returns exactly the grouping (each group once), nothing missing, and
    hydrating from it gives the block; the pool lacking group j returns the others and reports j's kernels missing."""
    pvf = bool(c.get("proof_variants"))
    sh = shape(plan)
    sfx = shape_suffix(c)
    parts = [sorted(p) for p in c["via_pool"][i]["parts"]]
    multi = ":multi_kernel_entry" if any(len(p) > 1 for p in parts) else ""
    bwant = canon_expect(b["expect"], pvf)
    bwant.pop("off")
    for o in h["pool"]:
        counts["pool_hydrations"] += o.get("n", 1)
        det = {"grouping": plan, "pool_entries_kernels": parts, "nonce": o.get("nonce"), "nonces_with_this_outcome": o.get("n"), "real": o}
        if o.get("res") == "setup":
            raise ToolError("route through the pool: compact block under a chosen nonce could not be built: %s" % o.get("err"))
        if o.get("res") == "panic":
            viol("agg:via_pool:panic:%s%s" % (sh, sfx), "retrieve_transactions / hydrate_from panicked", det)
        elif o["missing"]:
            viol("agg:via_pool:missing_reported:%s%s" % (sh, multi),
                 "the pool holds every transaction of the block, yet retrieve_transactions reports kernels missing", det)
        elif sorted(o["found"]) != sorted(parts):
            viol("agg:via_pool:retrieved_differs:%s%s" % (sh, multi),
                 "retrieve_transactions does not return exactly the pool entries that make up the block, each once", det)
        elif o["hyd"]["res"] != "ok":
            viol("agg:via_pool:hydrate_failed:%s%s" % (sh, sfx), "hydrate_from failed (%s) on what the pool returned" % o["hyd"].get("err"), det)
        elif pvf and not o["hyd"]["same_body"] and canon_real(o["hyd"]["proj"], with_off=False, any_proof=True) == bwant:
            counts["pool_hydrations_other_proof"] += o.get("n", 1)      # reported on the direct route (agg:hydrate:proof_differs)
        elif not o["hyd"]["same_body"]:
            hp = canon_real(o["hyd"]["proj"], with_off=False, any_proof=pvf) if "proj" in o["hyd"] else {}
            viol("agg:via_pool:body_differs:%s:%s%s" % (diff_field(bwant, hp), sh, sfx),
                 "the block hydrated from what the pool returned is not the block", dict(det, want=bwant, got=hp))
        elif not o["hyd"]["same_hash"]:
            viol("agg:via_pool:header_differs:%s%s" % (sh, sfx), "the block hydrated through the pool has another header", det)
        else:
            counts["pool_hydrations_identical"] += o.get("n", 1)
            if multi:
                counts["pool_hydrations_identical_multi_kernel_entry"] += o.get("n", 1)
    j = pool_drop(c, i)
    for o in h.get("pool_lacking", []):
        counts["pool_lacking"] += 1
        det = {"grouping": plan, "pool_entries_kernels": parts, "lacking": j, "nonce": o.get("nonce"), "real": o}
        rest = [p for k, p in enumerate(parts) if k != j]
        if o.get("res") == "setup":
            raise ToolError("route through the pool: compact block could not be built: %s" % o.get("err"))
        if o.get("res") == "panic":
            viol("agg:via_pool:panic:lacking:%s%s" % (sh, sfx), "retrieve_transactions panicked", det)
        elif sorted(o["missing"]) != parts[j]:
            viol("agg:via_pool:lacking:missing_differs:%s%s" % (sh, multi),
                 "a pool lacking one entry does not report exactly that entry's kernels as missing", det)
        elif sorted(o["found"]) != sorted(rest):
            viol("agg:via_pool:lacking:retrieved_differs:%s%s" % (sh, multi),
                 "a pool lacking one entry does not return exactly the other entries of the block", det)
        else:
            counts["pool_lacking_agree"] += 1


def run(tier, replay):
    rep = Report(PID, tier, "model_checking")
    wd = vlib.workdir(PID, clean=True)
    thorough = tier == "thorough"
    global NONCES
    NONCES = 6 if thorough else 3
    counts = collections.Counter()
    observations = {}
    timing = {}
    import time

    def check_cases(cases, tag, record=True):
        hc = [to_harness_case(c)[0] for c in cases]
        t_h = time.time()
        res, infos = _txbal.run_sharded("agg", hc, wd, tag, shards=4)
        timing["harness_s"] = round(time.time() - t_h, 1)
        found = []
        for c in cases:
            def viol(sig, what, detail, c=c):
                found.append((sig, c, what, detail))

            def obs(sig, what, detail, c=c):
                # a registered known finding is reported as such, otherwise it is an observation in the evidence
                if any(k["signature"] == sig for k in rep.known):
                    found.append((sig, c, what, detail))
                    return
                counts["observation:" + sig] += 1
                if sig not in observations:
                    observations[sig] = {"what": what, "lib": c["lib"], "family": c["fam"], "txs": c["txs"], "detail": detail}
                    log("OBSERVATION property=%s %s [%s] family lib%d %s" % (PID, what, sig, c["lib"], c["fam"]))
            judge(c, res[c["id"]], viol, counts, obs)
        if record:
            per_sig = collections.Counter()
            for sig, c, what, detail in found:
                per_sig[sig] += 1
                if per_sig[sig] <= 2:       # at most two replay files per signature; the count goes to the evidence
                    rep.violation(sig, {"case": c, "detail": detail}, what + ": " + json.dumps(detail)[:700])
            for sig, k in per_sig.items():
                counts["violations:" + sig] += k
        return res, infos, found

    if replay:
        obj = json.load(open(replay))
        c = obj["case"]["case"]
        c["id"] = 0
        res, infos, found = check_cases([c], "replay", record=False)
        for sig, c, what, detail in found:
            if sig == obj["signature"]:
                rep.violation(sig, {"case": c, "detail": detail}, what)
                break
        rep.coverage = {"states": 1, "transitions": 1, "traces_validated_against_impl": 1, "samples": [obj["signature"]]}
        return rep.finish()

    # (M) runs in the background while (A) emits and executes the cases
    cfg = "mc/MC_Agg_thorough" if thorough else "mc/MC_Agg"
    mbox = {}

    def model_run():
        try:
            # per-action coverage costs 2.5x here: thorough only; the quick tier cross-checks the state count instead
            mbox["r"] = vlib.tlc("mc/MC_Agg", cfg, workers=4, coverage=thorough, timeout=2400)
        except BaseException as ex:      # re-raised in the main thread
            mbox["ex"] = ex
    mthread = threading.Thread(target=model_run)
    mthread.start()

    def model_result():
        mthread.join()
        if "ex" in mbox:
            raise mbox["ex"]
        r = mbox["r"]
        if r.invariant_violated:
            print(r.out[-3000:])
            raise ToolError("Agg.tla: %s violated inside the model" % r.invariant_violated)
        vlib.tlc_ok(r, cfg)
        # no action is vacuous: the walk root -> library -> family -> plan reached exactly the emitted families and plans
        nlib = len({c["lib"] for c in cases})
        nplan = sum(len(c["plans"]) for c in cases)
        if r.distinct != 1 + nlib + len(cases) + nplan:
            raise ToolError("Agg: TLC explored %d states, the emitted walk has 1 + %d + %d + %d" % (r.distinct, nlib, len(cases), nplan))
        acts = {"ChooseLibrary": (nlib, nlib), "ChooseFamily": (len(cases), len(cases)), "ChoosePlan": (nplan, nplan)}
        if thorough:
            acts = r.action_counts()
            for a in ("ChooseLibrary", "ChooseFamily", "ChoosePlan"):
                if acts.get(a, (0, 0))[0] == 0:
                    raise ToolError("Agg action %s never taken" % a)
        log("TLC %s: %d states in %.0fs" % (cfg, r.distinct, r.wall))
        return r, acts

    # (A)
    import time
    t_a = time.time()
    try:
        e = vlib.tlc("mc/MC_Agg", cfg + "_emit" if thorough else "mc/MC_Agg_emit", workers=1, coverage=False, timeout=1500)
        vlib.tlc_ok(e, "MC_Agg emit")
    except BaseException:
        mthread.join()
        raise
    cases = [json.loads(x) for x in e.printed("AGGCASE")]
    if len(cases) < 100:
        raise ToolError("too few Agg cases emitted (%d)" % len(cases))
    for i, c in enumerate(cases):
        c["id"] = i
    t_b = time.time()
    try:
        res, infos, found = check_cases(cases, "cases")
    finally:
        t_c = time.time()
        mthread.join()
    log("harness %.0fs" % timing.get("harness_s", 0))
    log("emit %.0fs, harness + judging %.0fs, waited %.0fs more for the model run" % (t_b - t_a, t_c - t_b, time.time() - t_c))
    # the model verdict comes first: the emitted expectations are only meaningful if the invariants hold
    r, acts = model_result()
    first_refused = counts.pop("first_operand_refused", None)
    if counts["families_operand_refused"] and not rep.violations:
        raise ToolError("a library transaction is refused by the real Transaction::validate (%d families): %s"
                        % (counts["families_operand_refused"], first_refused))

    # (a violation found above takes precedence over the self-tests: they presume results that agree with the model)
    rec = next((c for c in cases if family_label(c) == "recreate" and len(c["fam"]) == 3), None)
    dbl = next((c for c in cases if family_label(c) in ("double_spend", "dup_output") and len(c["fam"]) == 2), None)
    probe = next((c for c in cases if c["conflict_free"] and len(c["fam"]) == 3 and c["nondegenerate"]), None)
    if rec is None or dbl is None or probe is None:
        raise ToolError("no re-creation / double-spend / conflict-free family among the emitted cases")
    flat_ix = next(i for i, p in enumerate(rec["plans"]) if shape(p) == "flat")
    if not rep.violations:
        # the binding is real: a perturbed expectation must be flagged by the same oracle
        # ... and so must a flipped verdict: a re-creation family declared refused when presented flat, a
        # double spend declared to have the aggregate of its first transaction
        for fam_case, mutate, wantsig in (
                (rec, lambda x: x["plan_ok"].__setitem__(flat_ix, False), "agg:aggregate:accepted:flat:shape=recreate"),
                (rec, lambda x: x["expect"]["outs"].pop(), "agg:aggregate:mismatch:outputs"),
                (dbl, lambda x: (x.__setitem__("aggregable", True), x.__setitem__("plan_ok", [True] * len(x["plans"])),
                                 x.__setitem__("expect", {"err": False, "ins": [], "outs": [], "kerns": [], "off": 0}),
                                 x.__setitem__("blocks", [{"expect": {"err": False, "ins": [], "outs": [], "kerns": [], "off": 0}, "total": 0, "prev": 0}])),
                 "agg:aggregate:failed:flat:shape=")):
            p2 = json.loads(json.dumps(fam_case))
            mutate(p2)
            got = []
            r2 = json.loads(json.dumps(res[fam_case["id"]]))
            r2.setdefault("blocks", [{"res": "err"}])
            judge(p2, r2, lambda sig, what, detail: got.append(sig), collections.Counter())
            if not any(g.startswith(wantsig) for g in got) and not rep.violations:
                raise ToolError("selftest: flipped verdict (%s) not flagged: %s" % (wantsig, got[:3]))
        for want_lab in ("recreate", "respend", "cycle", "dup_output", "double_spend", "dup_output_after_cut", "double_spend_after_cut"):
            if counts["families_" + want_lab] == 0:
                raise ToolError("no family of shape %s was executed" % want_lab)
        if counts["plans_refused_agree"] == 0 and not rep.violations:
            raise ToolError("no refused plan was executed")
        for mutate, wantsig in ((lambda x: x["expect"].__setitem__("off", x["expect"]["off"] + 1), "agg:aggregate:mismatch:offset"),
                                (lambda x: x["expect"]["kerns"].pop(), "agg:aggregate:mismatch:kernels"),
                                (lambda x: x["blocks"][0]["expect"]["outs"].pop(0), "agg:block:mismatch:outputs"),
                                (lambda x: x["blocks"][-1].__setitem__("total", x["blocks"][-1]["total"] + 1), "agg:block:mismatch:total_offset:prev=0"),
                                (lambda x: x["via_pool"][1]["parts"].__setitem__(0, x["via_pool"][1]["parts"][0] + [99]), "agg:via_pool:retrieved_differs"),
                                (lambda x: x["via_pool"][0]["parts"].__setitem__(0, [99]), "agg:via_pool:lacking:missing_differs")):
            p2 = json.loads(json.dumps(probe))
            mutate(p2)
            got = []
            judge(p2, res[probe["id"]], lambda sig, what, detail: got.append(sig), collections.Counter())
            if not any(g.startswith(wantsig) for g in got):
                raise ToolError("selftest: perturbed expectation (%s) not flagged: %s" % (wantsig, got[:3]))
        if counts["plans_equal_and_valid"] == 0 or counts["deaggregations"] == 0 or counts["hydrations_identical"] == 0:
            if not rep.violations:
                raise ToolError("binding is vacuous: %s" % dict(counts))
        # ... nor are the new dimensions: every form of cancelling offsets, both previous offsets, the route through the pool
        # with multi-kernel entries, every representation of the inputs
        if not rep.violations:
            for key in ["families_offsets_cancel_" + f for f in ("pair", "triple", "inner", "total", "remainder", "known_subset", "prev")] + [
                    "deaggregations_remainder_cancels", "deaggregations_known_subset_cancels", "blocks_prev_zero", "blocks_prev_nonzero",
                    "blocks_total_zero_prev_nonzero", "pool_hydrations_identical_multi_kernel_entry", "pool_lacking_agree",
                    "operands_iv_co", "operands_iv_fc", "operands_iv_fcb", "families_mixed_input_variants"]:
                if counts[key] == 0:
                    raise ToolError("binding is vacuous: %s = 0" % key)

    fams = collections.Counter("lib%d:n=%d:%s" % (c["lib"], len(c["fam"]),
                               "independent" if c["independent"] else "chained" if c["conflict_free"] else family_label(c)) for c in cases)
    rs = rec
    rs_flat = res[rs["id"]]["plans"][flat_ix]
    s = next(c for c in cases if c["conflict_free"] and not c["independent"] and len(c["fam"]) == 3)
    rep.coverage = {
        "states": r.distinct, "transitions": r.generated,
        "traces_validated_against_impl": counts["plans"] + counts["deaggregations"] + counts["hydrations"] + counts["block_builds"]
        + counts["pool_hydrations"] + counts["pool_lacking"],
        "samples": [{"family": s["fam"], "lib": s["lib"], "txs": s["txs"], "plan": s["plans"][3], "expect": s["expect"],
                     "real": res[s["id"]]["plans"][3]},
                    {"family": rs["fam"], "lib": rs["lib"], "shape": family_label(rs), "hot": rs["hot"], "plan": rs["plans"][flat_ix],
                     "expect": rs["expect"], "real": rs_flat,
                     "refused_plans": [p for p, ok in zip(rs["plans"], rs["plan_ok"]) if not ok][:2]},
                    {"family": probe["fam"], "deaggregate": probe["deaggs"][:1] if probe["deaggs"] else None},
                    {"hydrated": (res[s["id"]]["blocks"][0].get("hydrated") or [])[:2]},
                    next(({"family": c["fam"], "lib": c["lib"], "offsets": [t["off"] for t in c["txs"]], "cancel": c["cancel"],
                           "expect_offset": c["expect"]["off"], "real": res[c["id"]]["plans"][0],
                           "block_totals": [[b["prev"], b["total"], rb.get("total")] for b, rb in zip(c["blocks"], res[c["id"]]["blocks"])]}
                          for c in cases if "inner" in (c.get("cancel") or [])), None)],
        "exhaustive_within_bounds": True,
        "model": {"config": cfg, "actions": {k: v[0] for k, v in acts.items()}, "wall_s": round(r.wall, 1)},
        "families": len(cases), "families_by_kind": dict(fams),
        "counts": dict(counts), "harness": infos, "observations": observations,
        "distinct_rule": "one trace = one real aggregate() per (family, permutation, bracketing), one deaggregate() per "
                         "(independent family, subset, aggregate order), one hydrate_from() per (aggregable family, grouping whose "
                         "groups exist, previous offset), one from_reward() per (aggregable family, chosen grouping, previous offset), one "
                         "retrieve_transactions() + hydrate_from() per (aggregable family, grouping, nonce) and one retrieve_transactions() "
                         "per (aggregable family, grouping) on a pool lacking a group",
        "checker_cmd": "tlc mc/MC_Agg; tlc mc/MC_Agg_emit; h_txbal agg",
    }
    rep.assumptions = [
        "secp256k1-zkp primitives used as primitives (commitments with distinct (v, r) are distinct points)",
        "families are the sub-multisets of size <= 4 (thorough 5) of fixed model libraries (8 + 5 + 6 + 6 + 5 transactions over <= 8 "
        "commitments each), not all transactions over 8 commitments; a commitment occurs at most 3 times as an output and 3 times "
        "as an input inside one family",
        "outputs carrying the same commitment carry the same range proof (proofs are a function of (value, blinding) here)",
        "cancelling offsets come from one library of independent transactions (L7: pair, triple, inner group, total, against the "
        "previous header's total); previous offsets are 0 and 16384",
        "compact-block nonces: the one CompactBlock::from draws (direct route: one per grouping) plus, on the route through the pool, "
        "%d per grouping derived from VERIF_SEED and written into the serialised compact block (read back by the real reader); "
        "a short id is taken to name its kernel (48-bit collisions not forced)" % (NONCES - 1),
        "the pool on the route through it is a Pool whose entries are pushed directly (retrieve_transactions never consults the chain); "
        "it holds the grouping between two unrelated library transactions",
        "input representation per library transaction is fixed (position + library mod 3): CommitOnly, FeaturesAndCommit(plain), "
        "FeaturesAndCommit(coinbase)",
        "a plan with a group that is not aggregable on its own (e.g. [a, c] of a: U->X, b: X->Y, c: Y,V->X) is specified as refused: "
        "the intermediate transaction would carry a commitment twice",
    ]
    return rep.finish()
