"""C12 — Aggregation, cut-through and compact-block hydration are faithful (spec/Agg.tla).

(M) TLC checks on every family of <= 4 transactions of the model libraries (independent, chained
    incl. chains of three and a diamond, multi-kernel, all kernel kinds, zero / positive / negative
    offsets) and every permutation and bracketing of it: order/grouping independence, kernels =
    union, offset = sum, inputs/outputs = union minus exactly the matched pairs, result valid,
    de-aggregation of every known subset of an independent family returns the remainder,
    hydrate(compact(block)) = block for every grouping, block valid.
(A) Every family is realised with real commitments / bulletproofs / signatures; the real
    transaction::aggregate is run for every plan, transaction::deaggregate for every subset,
    Block::from_reward -> CompactBlock::from -> Block::hydrate_from for every grouping, and the
    results are projected back to model values and compared with the specification's.
"""
import json, os, collections
import vlib
from vlib import Report, ToolError, log
from checks import _txbal

PID = "C12"
ENGINES = ["txbal"]


def zero_based(p):
    return p - 1 if isinstance(p, int) else [zero_based(x) for x in p]


def shape(plan):
    """flat | grouped | nested | single (for signatures)"""
    if all(isinstance(x, int) for x in plan):
        return "flat" if len(plan) != 1 else "single"
    depth = lambda p: 0 if isinstance(p, int) else 1 + max([depth(x) for x in p] or [0])
    return "nested" if depth(plan) > 2 else "grouped"


def canon_expect(e):
    if e.get("err"):
        return None
    return {"ins": sorted([[i["v"], i["r"]] for i in e["ins"]], key=json.dumps),
            "outs": sorted([[o["v"], o["r"], o["cb"]] for o in e["outs"]], key=json.dumps),
            "kerns": sorted(e["kerns"]), "off": e["off"]}


def canon_real(p, with_off=True):
    outs = []
    for o in p["outs"]:
        if len(o) != 4 or o[0] == "?" or o[3] is not True:
            outs.append(["?"] + o)      # unknown commitment or not the proof the output was created with
        else:
            outs.append(o[:3])
    r = {"ins": sorted(p["ins"], key=json.dumps), "outs": sorted(outs, key=json.dumps),
         "kerns": sorted(p["kerns"], key=lambda x: (isinstance(x, str), x))}
    if with_off:
        r["off"] = p["off"]
    return r


def diff_field(want, got):
    for f, name in (("kerns", "kernels"), ("off", "offset"), ("ins", "inputs"), ("outs", "outputs")):
        if f in want and f in got and want[f] != got[f]:
            return name
    return None


def to_harness_case(c):
    n = len(c["fam"])
    plans = [zero_based(p) for p in c["plans"]]
    h = {"id": c["id"], "txs": c["txs"], "plans": plans}
    flat = list(range(n))
    # de-aggregate from the aggregate built in canonical order and from one built in reverse, grouped
    mks = [flat, [list(reversed(flat))]] if n >= 2 else [flat]
    h["deaggs"] = [{"mk": mk, "sub": zero_based(d["sub"])} for d in c["deaggs"] for mk in mks]
    if c["conflict_free"]:
        b = c["block"]
        h["block"] = {"cb_out": b["cb_out"], "cb_kern": b["cb_kern"], "height": b["height"], "prev": b["prev"],
                      "groupings": plans}
    return h, len(mks)


def judge(c, r, viol, counts):
    """Compare one family's real results with the specification. viol(signature, what, detail)."""
    n = len(c["fam"])
    cf = c["conflict_free"]
    exp = [canon_expect(e) for e in c["expect"]]
    if cf and not r["operands_ok"]:
        raise ToolError("a library transaction is refused by the real Transaction::validate: %s" % json.dumps(c["txs"])[:600])
    for i, (plan, pr) in enumerate(zip(c["plans"], r["plans"])):
        want = exp[0] if cf else exp[i]
        sh = shape(plan)
        counts["plans"] += 1
        counts["plans_" + sh] += 1
        if not cf:
            # outside the property (double spends / duplicate outputs inside the family): evidence only
            agree = (want is None) == (pr["res"] != "ok") and (want is None or canon_real(pr["proj"]) == want)
            counts["conflict_plans_agree" if agree else "conflict_plans_differ"] += 1
            continue
        if pr["res"] != "ok":
            if c["nondegenerate"]:
                viol("agg:aggregate:failed:%s" % sh, "aggregate failed (%s %s) on a conflict-free family" % (pr["res"], pr.get("err")),
                     {"plan": plan, "real": pr})
            continue
        got = canon_real(pr["proj"])
        if got != want:
            viol("agg:aggregate:mismatch:%s:%s" % (diff_field(want, got), sh),
                 "aggregate result differs from the specification in its %s" % diff_field(want, got),
                 {"plan": plan, "want": want, "got": got})
        elif pr["valid"] != "ok" and c["nondegenerate"] and n >= 1:
            viol("agg:aggregate:result_invalid:%s" % sh, "aggregate of valid transactions does not validate (%s)" % pr.get("verr"),
                 {"plan": plan, "real": pr})
        else:
            counts["plans_equal_and_valid"] += 1
    # de-aggregation
    k = len(r.get("deaggs", [])) // max(1, len(c["deaggs"])) if c["deaggs"] else 0
    for j, d in enumerate(c["deaggs"]):
        want = canon_expect(d["expect"])
        sub_off = sum(c["txs"][s - 1]["off"] for s in d["sub"])
        for m in range(k):
            dr = r["deaggs"][j * k + m]
            counts["deaggregations"] += 1
            if dr["res"] != "ok":
                if want["off"] == 0 and sub_off != 0:
                    viol("agg:deaggregate:err:remainder_offset_zero",
                         "deaggregate fails (%s) when the remainder's offset is zero and the subset's is not" % dr.get("err"),
                         {"sub": d["sub"], "want": want, "real": dr})
                elif c["nondegenerate"]:
                    viol("agg:deaggregate:failed", "deaggregate failed (%s %s)" % (dr["res"], dr.get("err")),
                         {"sub": d["sub"], "want": want, "real": dr})
                continue
            got = canon_real(dr["proj"])
            if got != want:
                viol("agg:deaggregate:mismatch:%s" % diff_field(want, got),
                     "deaggregate does not return the remainder (%s differ)" % diff_field(want, got),
                     {"sub": d["sub"], "want": want, "got": got})
            elif dr["valid"] != "ok" and c["nondegenerate"]:
                viol("agg:deaggregate:result_invalid", "remainder does not validate (%s)" % dr.get("verr"), {"sub": d["sub"], "real": dr})
            else:
                counts["deaggregations_equal"] += 1
    # block / compact / hydrate
    if cf:
        br = r["block"]
        b = c["block"]
        want = canon_expect(b["expect"])
        want.pop("off")
        if br["res"] != "ok":
            if c["nondegenerate"]:
                viol("agg:block:from_reward_failed", "Block::from_reward failed (%s)" % br.get("err"), {"real": br})
            return
        got = canon_real(br["proj"], with_off=False)
        if got != want or br["total"] != b["total"]:
            f = diff_field(want, got) or "total_offset"
            viol("agg:block:mismatch:%s" % f, "block built from the transactions differs from the specification (%s)" % f,
                 {"want": want, "want_total": b["total"], "got": got, "got_total": br["total"]})
        elif br["valid"] != "ok" and c["nondegenerate"]:
            viol("agg:block:invalid", "block built from valid transactions does not validate (%s)" % br.get("verr"), {"real": br})
        for plan, h in zip(c["plans"], br["hydrated"]):
            counts["hydrations"] += 1
            sh = shape(plan)
            if h["res"] != "ok":
                viol("agg:hydrate:failed:%s" % sh, "hydrate_from failed (%s)" % h.get("err"), {"grouping": plan, "real": h})
            elif not h["same_body"]:
                hp = canon_real(h["proj"], with_off=False) if "proj" in h else {}
                viol("agg:hydrate:body_differs:%s:%s" % (diff_field(want, hp), sh),
                     "hydrated block body is not the block's body", {"grouping": plan, "want": want, "got": hp})
            elif not h["same_hash"]:
                viol("agg:hydrate:header_differs:%s" % sh, "hydrated block header differs", {"grouping": plan})
            elif not h["ids_ok"] or h["full_out"] != 1 or h["full_kern"] != 1:
                viol("agg:compact:short_ids_or_full_elements", "compact block does not list the coinbase elements in full and "
                     "the other kernels by short id", {"grouping": plan, "real": h})
            else:
                counts["hydrations_identical"] += 1


def run(tier, replay):
    rep = Report(PID, tier, "model_checking")
    wd = vlib.workdir(PID, clean=True)
    thorough = tier == "thorough"
    counts = collections.Counter()

    def check_cases(cases, tag, record=True):
        hc = [to_harness_case(c)[0] for c in cases]
        res, infos = _txbal.run_sharded("agg", hc, wd, tag, shards=4)
        found = []
        for c in cases:
            def viol(sig, what, detail, c=c):
                found.append((sig, c, what, detail))
            judge(c, res[c["id"]], viol, counts)
        if record:
            for sig, c, what, detail in found:
                rep.violation(sig, {"case": c, "detail": detail}, what + ": " + json.dumps(detail)[:700])
        return res, infos, found

    if replay:
        obj = json.load(open(replay))
        c = obj["case"]["case"]
        c["id"] = 0
        res, infos, found = check_cases([c], "replay", record=False)
        for sig, c, what, detail in found:
            if sig == obj["signature"]:
                rep.violation(sig, {"case": c, "detail": detail}, what)
                break
        rep.coverage = {"states": 1, "transitions": 1, "traces_validated_against_impl": 1, "samples": [obj["signature"]]}
        return rep.finish()

    # (M)
    cfg = "mc/MC_Agg_thorough" if thorough else "mc/MC_Agg"
    r = vlib.tlc("mc/MC_Agg", cfg, workers=4, coverage=True, timeout=2400)
    if r.invariant_violated:
        print(r.out[-3000:])
        raise ToolError("Agg.tla: %s violated inside the model" % r.invariant_violated)
    vlib.tlc_ok(r, cfg)
    acts = r.action_counts()
    for a in ("ChooseLibrary", "ChooseFamily", "ChoosePlan"):
        if acts.get(a, (0, 0))[0] == 0:
            raise ToolError("Agg action %s never taken" % a)
    log("TLC %s: %d states in %.0fs" % (cfg, r.distinct, r.wall))

    # (A)
    e = vlib.tlc("mc/MC_Agg", cfg + "_emit" if thorough else "mc/MC_Agg_emit", workers=1, coverage=False, timeout=1500)
    vlib.tlc_ok(e, "MC_Agg emit")
    cases = [json.loads(x) for x in e.printed("AGGCASE")]
    if len(cases) < 100:
        raise ToolError("too few Agg cases emitted (%d)" % len(cases))
    for i, c in enumerate(cases):
        c["id"] = i
    res, infos, found = check_cases(cases, "cases")

    # the binding is real: a perturbed expectation must be flagged by the same oracle
    probe = next(c for c in cases if c["conflict_free"] and len(c["fam"]) == 3 and c["nondegenerate"])
    for mutate, wantsig in ((lambda x: x["expect"][0].__setitem__("off", x["expect"][0]["off"] + 1), "agg:aggregate:mismatch:offset"),
                            (lambda x: x["expect"][0]["kerns"].pop(), "agg:aggregate:mismatch:kernels"),
                            (lambda x: x["block"]["expect"]["outs"].pop(0), "agg:block:mismatch:outputs")):
        p2 = json.loads(json.dumps(probe))
        mutate(p2)
        got = []
        judge(p2, res[probe["id"]], lambda sig, what, detail: got.append(sig), collections.Counter())
        if not any(g.startswith(wantsig) for g in got):
            raise ToolError("selftest: perturbed expectation (%s) not flagged: %s" % (wantsig, got[:3]))
    if counts["plans_equal_and_valid"] == 0 or counts["deaggregations"] == 0 or counts["hydrations_identical"] == 0:
        if not rep.violations:
            raise ToolError("binding is vacuous: %s" % dict(counts))

    fams = collections.Counter("lib%d:n=%d:%s" % (c["lib"], len(c["fam"]),
                               "independent" if c["independent"] else "chained" if c["conflict_free"] else "conflicting") for c in cases)
    s = next(c for c in cases if c["conflict_free"] and not c["independent"] and len(c["fam"]) == 3)
    rep.coverage = {
        "states": r.distinct, "transitions": r.generated,
        "traces_validated_against_impl": counts["plans"] + counts["deaggregations"] + counts["hydrations"],
        "samples": [{"family": s["fam"], "lib": s["lib"], "txs": s["txs"], "plan": s["plans"][3], "expect": s["expect"][0],
                     "real": res[s["id"]]["plans"][3]},
                    {"family": probe["fam"], "deaggregate": probe["deaggs"][:1] if probe["deaggs"] else None},
                    {"hydrated": res[s["id"]]["block"]["hydrated"][:2]}],
        "exhaustive_within_bounds": True,
        "model": {"config": cfg, "actions": {k: v[0] for k, v in acts.items()}, "wall_s": round(r.wall, 1)},
        "families": len(cases), "families_by_kind": dict(fams),
        "counts": dict(counts), "harness": infos,
        "distinct_rule": "one trace = one real aggregate() per (family, permutation, bracketing), one deaggregate() per "
                         "(independent family, subset, aggregate order), one hydrate_from() per (family, grouping)",
        "checker_cmd": "tlc mc/MC_Agg; tlc mc/MC_Agg_emit; h_txbal agg",
    }
    rep.assumptions = [
        "secp256k1-zkp primitives used as primitives (commitments with distinct (v, r) are distinct points)",
        "families are the sub-multisets of size <= 4 of fixed model libraries (8 + 5 transactions over <= 8 commitments each), "
        "not all transactions over 8 commitments",
        "families whose non-zero offsets cancel (aggregate refuses the zero scalar) are outside the generated set",
        "compact-block nonces are the random ones drawn by CompactBlock::from (one per grouping); short-id collisions not forced",
        "conflicting families (double spends / duplicated outputs inside the family) are compared as evidence only",
    ]
    return rep.finish()
