"""C02 — every input spends an existing unspent output exactly once, on every fork (spec/Chain.tla)."""
from checks._chain_check import run_chain_check
PID = "C02"
ENGINES = ["chain"]


def run(tier, replay):
    return run_chain_check(PID, tier, replay,
                           mc_quick=["mc/MC_Chain_utxo_q", "mc/MC_Chain_reset_q"], mc_thorough=["mc/MC_Chain_utxo", "mc/MC_Chain_reset_q"],
                           sim_cfg="mc/MC_Chain_simemit", n_quick=120, n_thorough=1600,
                           focus="UnspentIsReplay / IndexConsistent / SpentIdxInv / RewindInv (also across reset_chain_head and compaction); replay compares get_unspent of every commitment ever minted (with creation height and position round trip), leaf count, enumeration count, after every delivery; twin roots at the end",
                           extra_sims=[("mc/MC_Chain_simemit_respend", 80, 800),
                                       # operator resets (reset_chain_head to any stored header) and read-only rewind probes
                                       ("mc/MC_Chain_simemit_reset", 40, 400),
                                       # 85-block trunk, compaction, forks down to the horizon, probes at the horizon
                                       ("mc/MC_Chain_simemit_compact", 8, 40)],
                           assumptions=["minted bodies: <=2 inputs from every commitment on any fork plus never-created ones, <=2 outputs incl. re-created commitments, value-balanced"])
