"""C02 — every input spends an existing unspent output exactly once, on every fork (spec/Chain.tla)."""
from checks._chain_check import run_chain_check
PID = "C02"
ENGINES = ["chain"]


def run(tier, replay):
    return run_chain_check(PID, tier, replay,
                           mc_quick=["mc/MC_Chain_utxo_q"], mc_thorough=["mc/MC_Chain_utxo"],
                           sim_cfg="mc/MC_Chain_simemit", n_quick=120, n_thorough=1600,
                           focus="UnspentIsReplay / IndexConsistent / SpentIdxInv; replay compares get_unspent of every commitment ever minted (with creation height and position round trip), leaf count, enumeration count, after every delivery; twin roots at the end",
                           extra_sims=[("mc/MC_Chain_simemit_respend", 80, 800)],
                           assumptions=["minted bodies: <=2 inputs from every commitment on any fork plus never-created ones, <=2 outputs incl. re-created commitments, value-balanced"])
