"""C02 — every input spends an existing unspent output exactly once, on every fork (spec/Chain.tla)."""
from checks._chain_check import run_chain_check
PID = "C02"
ENGINES = ["chain"]

NEED = {
    "ProcessBlock:ok_head": 150, "ProcessBlock:ok_fork": 40, "rewound:block": 40,
    "why:input_not_unspent": 20, "why:after_rewind:input_not_unspent": 10,
    "Reindex:ok": 40, "reindex:lost_entries_of_unspent_outputs": 30, "reindex:several_heights_to_assign": 20,
    "reindex:stale_entries": 20, "reindex:header_head_on_another_fork": 3,
    "ResetHead:ok": 10, "Probe:ok": 10, "Compact:ok": 3,
    "query:validate_inputs_ok": 30, "query:validate_inputs_err": 10,
    "enum:bounded_scan_cuts": 500, "enum:paged_walk_4plus": 500,
}


def run(tier, replay):
    return run_chain_check(PID, tier, replay,
                           mc_quick=["mc/MC_Chain_utxo_q", "mc/MC_Chain_reset_q", "mc/MC_Chain_reindex_q"],
                           mc_thorough=["mc/MC_Chain_utxo", "mc/MC_Chain_reset_q", "mc/MC_Chain_reindex_q"],
                           sim_cfg="mc/MC_Chain_simemit", n_quick=100, n_thorough=1600,
                           focus="UnspentIsReplay / IndexConsistent / EnumInv / SpentIdxInv / RewindInv (also across reset_chain_head, compaction and restarts on a damaged output_pos index = Reindex); replay compares get_unspent of every commitment ever minted (with creation height and position round trip), leaf count, the enumeration API (content, MMR order, range proofs, pages of 1-3 resumed at the returned index, bounded by an ancestor's output MMR size; an Err is a mismatch), Chain::validate_inputs on probe transactions, after every delivery; twin roots at the end",
                           extra_sims=[("mc/MC_Chain_simemit_respend", 70, 800),
                                       # operator resets (reset_chain_head to any stored header) and read-only rewind probes
                                       ("mc/MC_Chain_simemit_reset", 40, 400),
                                       # 85-block trunk, compaction, forks down to the horizon, probes at the horizon
                                       ("mc/MC_Chain_simemit_compact", 8, 40)],
                           assumptions=["minted bodies: <=2 inputs from every commitment on any fork plus never-created ones, <=2 outputs incl. re-created commitments, value-balanced",
                                        "Reindex damages the index of every commitment but the genesis output's (its rebuilt entry gets height 1, see report)"],
                           need=NEED)
