"""C10 — Encoding round-trips and object hashes are version-independent and canonical (spec/Wire.tla).

Pure-function property: Wire.tla is a format grammar (layout, hash layout, decoder with the canonical-form
rules, perturbations).  TLC checks the grammar on every type x shape x version case and prints the cases;
harness/wire renders each layout to bytes and compares with the real encoder / decoder / hash (direction A).

Every case and every perturbation is decoded through the three Reader implementations (Wire.tla `Readers`: BinReader,
BufReader on a BytesMut as the p2p codec does, StreamingReader); Block / CompactBlock / BlockHeader cases with an admissible
(really mined) header are additionally decoded through the network readers Untrusted* (`via = untrusted`, Wire.tla DecVia).
Signatures: wire:<type>:<what>[:<class>][:via=untrusted][:reader=buf|stream].
"""
import json, os, collections, copy
import vlib
from vlib import Report, ToolError, log

PID = "C10"
ENGINES = ["wire"]
ADDR_TYPES = ("PeerAddr", "PeerAddrs", "Hand")


def signature(case, m):
    ty, what, cls = case["ty"], m["what"], m.get("cls", "")
    if what == "accepted" and cls == "unknown_tag" and ty in ADDR_TYPES:
        return "wire:PeerAddr:unknown_family_tag_accepted"
    if ty == "PeerAddr" and what == "value" and cls == "v4_mapped_to_v4":
        # exactly: V6 [::ffff:a.b.c.d]:p decodes to V4 a.b.c.d:p (decided by the harness on the two real values)
        return "wire:PeerAddr:v4_mapped_ipv6_normalised"
    s = "wire:%s:%s" % (ty, what)
    if cls:
        s += ":" + cls
    if case.get("via") == "untrusted":
        s += ":via=untrusted"   # the network reader (UntrustedBlockHeader / UntrustedBlock / UntrustedCompactBlock) of the type
    if m.get("rd"):
        # a deviation of BufReader / StreamingReader that the BinReader pass of the same case did not show
        s += ":reader=" + m["rd"]
    return s


def tlc_retry(what, *a, **kw):
    """TLC was seen to stop without a verdict on the PeerAddrs n=256 case with a Java StackOverflowError (recursion depth 256 in
    DecMany / Flatten is at the edge of the default thread stack; whether it overflows depends on JIT timing, i.e. on machine
    load).  The runs now get -Xss512m; one more attempt is still made before giving up with a tool error."""
    r = None
    for attempt in (1, 2):
        try:
            r = vlib.tlc(*a, **kw)
        except ToolError as ex:
            log("C10: %s attempt %d: %s" % (what, attempt, ex))
            if attempt == 2:
                raise
            continue
        if r.finished or r.invariant_violated:
            return r
        diag = [l[:400] for l in r.out.splitlines() if "WIRECASE" not in l[:24]]
        dp = os.path.join(vlib.workdir(PID, clean=False), "tlc_incomplete_%s_%d.txt" % (what.replace(" ", "_"), attempt))
        open(dp, "w").write("\n".join(diag))
        log("C10: %s attempt %d did not complete (rc=%s), messages saved in %s; last: %s" % (what, attempt, getattr(r, "rc", "?"), dp, " | ".join(diag[-4:])[:500]))
    return r


def wrapped(out, tag):
    """TLC's pretty printer breaks medium-length tuples over two lines: << "TAG",\n   "json" >>"""
    res, ls = [], out.splitlines()
    for i, l in enumerate(ls):
        if l.strip() == '<< "%s",' % tag and i + 1 < len(ls):
            body = ls[i + 1].strip()
            if body.endswith(">>"):
                body = body[:-2].strip()
            if body.startswith('"') and body.endswith('"'):
                res.append(json.loads(vlib.unescape_tla(body[1:-1])))
    return res


def run_harness(wd, cases, seed, inst, tag):
    cp = os.path.join(wd, "cases_%s.ndjson" % tag)
    vlib.write_ndjson(cp, cases)
    outp = os.path.join(wd, "out_%s.ndjson" % tag)
    vlib.harness(["wire", "replay", "--cases", cp, "--out", outp, "--seed", seed, "--inst", inst, "--threads", 4], timeout=2400)
    res = vlib.read_ndjson(outp)
    if len(res) != len(cases):
        raise ToolError("harness returned %d results for %d cases" % (len(res), len(cases)))
    return res


def selftest(wd, cases):
    """The binding is real: a wrong expectation must be reported by the harness."""
    k = next(c for c in cases if c["ty"] == "TxKernel" and c["ver"] == 2 and c["val"]["feat"]["t"] == "HeightLocked")
    # (a) wrong layout: one literal of the expected layout changed to a value no encoder writes
    a = copy.deepcopy(k)
    a["lay"][0] = {"k": "u8", "v": 77}
    # (b) wrong hash layout (same corruption)
    p = next(c for c in cases if c["ty"] == "TxKernel" and c["ver"] == 2 and c["val"]["feat"]["t"] == "Plain" and c["sh"]["fc"] == "fee_any")
    b = copy.deepcopy(p)
    b["hlay"][0] = {"k": "u8", "v": 77}
    # (c) a "perturbation" that is in fact a valid encoding must be reported as accepted
    c = copy.deepcopy(p)
    good = copy.deepcopy(p["lay"])
    good[1]["sym"] = "other.fee"
    c["perts"] = [{"cls": "selftest_valid", "lay": good}]
    res = run_harness(wd, [a, b, c], 1, 1, "selftest")
    got = [set(m["what"] for m in r["mismatches"]) for r in res]
    if "layout" not in got[0] or "hash_layout" not in got[1] or "accepted" not in got[2]:
        raise ToolError("selftest: the harness did not report deliberately wrong expectations: %s" % got)
    return 3


def run(tier, replay):
    rep = Report(PID, tier, "model_checking")
    wd = vlib.workdir(PID, clean=False)
    thorough = tier == "thorough"
    if replay:
        obj = json.load(open(replay))
        rc = obj["case"]
        res = run_harness(wd, [rc["case"]], rc["case_seed"], rc.get("inst", 5), "replay")
        seen = set()
        for m in res[0]["mismatches"]:
            sig = signature(rc["case"], m)
            if sig not in seen:
                seen.add(sig)
                rep.violation(sig, rc, json.dumps(m))
        rep.coverage = {"states": 1, "transitions": 1, "traces_validated_against_impl": 1, "samples": [obj["signature"]]}
        return rep.finish()

    # (M) the grammar: round trip, re-encoding, hash stability, refusal of every canonical-rule perturbation
    sfx = "_thorough" if thorough else ""
    r = tlc_retry("MC_Wire", "mc/MC_Wire", "mc/MC_Wire" + sfx, workers=3, coverage=False, timeout=3000, xss="512m")
    if r.invariant_violated:
        print(r.out[-3000:])
        raise ToolError("Wire.tla: invariant %s violated inside the grammar (the transcription is inconsistent)" % r.invariant_violated)
    vlib.tlc_ok(r, "MC_Wire")
    states, trans = r.distinct, r.generated

    # (A) cases -> real encoder / decoder / hash
    e = tlc_retry("MC_Wire emit", "mc/MC_Wire", "mc/MC_Wire_emit" + sfx, workers=1, coverage=False, timeout=3000, xmx="8g", xss="512m")
    vlib.tlc_ok(e, "MC_Wire emit")
    cases = [json.loads(x) for x in e.printed("WIRECASE")]
    packs = [json.loads(x) for x in e.printed("PACKCASE")] + wrapped(e.out, "PACKCASE")
    del e
    if len(cases) < 500 or not packs:
        raise ToolError("too few Wire cases emitted (%d)" % len(cases))
    pp = os.path.join(wd, "pack.ndjson")
    vlib.write_ndjson(pp, packs)
    p = vlib.harness(["wire", "packcheck", "--cases", pp], check=False)
    if p.returncode != 0:
        raise ToolError("harness bit-packing interpreter disagrees with PackBytes of the spec: " + p.stdout)
    npack = json.loads(p.stdout.strip().splitlines()[-1])["n"]

    inst = 60 if thorough else 5
    seed = vlib.seed()
    res = run_harness(wd, cases, seed, inst, "main")
    checks = 0
    per_type = collections.Counter()
    per_pert = collections.Counter()
    nperts = 0
    nsig = collections.Counter()
    for i, (c, rr) in enumerate(zip(cases, res)):
        checks += rr["checks"]
        per_type[c["ty"]] += 1
        for pt in c["perts"]:
            per_pert[pt["cls"]] += 1
            nperts += 1
        if c["nrdoff"]:
            per_pert["nrd_disabled"] += 1
        for m in rr["mismatches"]:
            if m["what"].startswith("harness_"):
                raise ToolError("harness problem on case %d (%s v%s %s): %s" % (i, c["ty"], c["ver"], c["sh"], m))
            sig = signature(c, m)
            nsig[sig] += 1
            if nsig[sig] > 1:
                continue
            slim = dict(c)
            slim["perts"] = [pt for pt in c["perts"] if pt["cls"] == m.get("cls")] if m["what"] in ("accepted", "panic") else []
            rep.violation(sig, {"kind": "case", "case": slim, "mismatch": m, "case_seed": seed + i * 7919, "inst": inst, "idx": i},
                          "%s v%s %s: %s" % (c["ty"], c["ver"], json.dumps(c["sh"]), json.dumps(m)[:700]))

    # anti-vacuity (only meaningful, and only run, when the real run reported nothing)
    nself = selftest(wd, cases) if not rep.violations else 0

    pr = vlib.harness(["wire", "probe"], check=False)
    probes = json.loads(pr.stdout.strip().splitlines()[-1]) if pr.returncode == 0 and pr.stdout.strip() else {}

    def sample(ty):
        c = next(c for c in cases if c["ty"] == ty)
        return {"ty": ty, "ver": c["ver"], "shape": c["sh"], "layout": c["lay"][:6], "perturbations": sorted(set(p["cls"] for p in c["perts"]))}

    rep.coverage = {
        "states": states, "transitions": trans,
        "traces_validated_against_impl": len(cases),
        "samples": [sample("TxKernel"), sample("BlockHeader"), sample("Locator")],
        "exhaustive": True,
        "model": {"config": "mc/MC_Wire" + sfx, "tier": tier},
        "cases_replayed": len(cases), "instantiations_per_case": inst, "impl_checks": checks,
        "cases_per_type": dict(per_type), "perturbations": nperts, "perturbations_per_class": dict(per_pert),
        "versions": [1, 2, 3, 1000], "readers": sorted(set(x for c in cases for x in c.get("readers", ["bin"]))),
        "cases_via_untrusted_reader": sum(1 for c in cases if c.get("via") == "untrusted"),
        "bitmap_segment_heights": sorted(set(c["sh"]["h"] for c in cases if c["ty"] == "BitmapSegment" and "h" in c["sh"])),
        "peer_addr_classes": sorted(set(c["sh"]["cls"] for c in cases if c["ty"] == "PeerAddr")),
        "cases_expected_refused": sum(1 for c in cases if not c["readable"]),
        "bitpack_samples_checked": npack, "selftest_wrong_expectations_detected": nself,
        "scope_probes_not_verdicts": probes, "mismatching_checks_per_signature": dict(nsig),
        "checker_cmd": "tlc mc/MC_Wire (check + emit); h_wire replay",
    }
    rep.assumptions = [
        "blake2b, secp256k1 points/signatures and siphash short ids are primitives (order under a hash is an abstract rank in the model; the harness sorts by blake2b of the rendered hashing form)",
        "leaf field values are sampled (seeded) per class; shapes, versions and perturbation classes are enumerated",
        "range proofs are 675 bytes (RangeProof::read pads shorter ones: outside the statement's canonical-form list, probed only)",
        "decoders are exercised through ser::deserialize on a byte slice (trailing bytes after a short count are the framing layer's business, C19)",
        "Headers has no Readable (streamed by the codec): layout only; SegmentProof values are obtained through its own reader",
        "network readers (Untrusted*): the proof of work is a primitive - admissible headers are mined with grin's own pow_size at AutomatedTesting parameters (height 0, version 1, timestamp 0); headers outside that class are not compared",
        "the byte counters of the readers (BufReader::bytes_read, StreamingReader::total_bytes_read) belong to the framing layer (C19): consumption is measured on the buffer / stream itself (probe: total_bytes_read counts a length prefix twice)",
        "BitmapSegment: identifier idx = 0 (leaf_offset overflow rules for huge idx are not enumerated)",
    ]
    return rep.finish()
